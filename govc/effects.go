package main

// Write-set (effects) analysis over SSA: which heap arrays, ghost variables and
// non-escaping locals an instruction / loop / function may modify.

import (
	"fmt"
	"go/types"
	"strings"

	"golang.org/x/tools/go/ssa"
)

type Effects struct {
	heap   map[string]string // array name -> element sort: may be written at any address
	fheap  map[string]string // arrays written only at addresses allocated during the effect (fresh objects)
	ghost  map[string]bool
	locals map[*ssa.Alloc]bool
	lpaths map[*ssa.Alloc][][]int // field paths of a local struct variable that are stored to ([] = the whole variable)
	iters  []ssa.Value
}

func newEffects() *Effects {
	return &Effects{heap: map[string]string{}, fheap: map[string]string{}, ghost: map[string]bool{}, locals: map[*ssa.Alloc]bool{}, lpaths: map[*ssa.Alloc][][]int{}}
}

func (a *Effects) add(b *Effects) bool {
	ch := false
	for k, v := range b.heap {
		if _, ok := a.heap[k]; !ok {
			a.heap[k] = v
			ch = true
		}
	}
	for k, v := range b.fheap {
		if _, ok := a.fheap[k]; !ok {
			a.fheap[k] = v
			ch = true
		}
	}
	for k := range b.ghost {
		if !a.ghost[k] {
			a.ghost[k] = true
			ch = true
		}
	}
	return ch
}

// leaf arrays of a struct type (recursively)
func (m *Model) structLeaves(e *Enc, t types.Type, out map[string]string) {
	si := m.structOf(t)
	if si == nil || !isStruct(t) {
		return
	}
	for i := 0; i < si.st.NumFields(); i++ {
		ft := si.st.Field(i).Type()
		if isStruct(ft) && m.structOf(ft) != nil {
			m.structLeaves(e, ft, out)
		} else {
			out["H$"+si.sort[2:]+"$"+si.st.Field(i).Name()] = m.sortOf(ft)
		}
	}
}

// structLeafPaths: for each leaf array of struct type t, the field-index paths (relative to the struct's
// own address) under which a value of t keeps data in that array: nil for the struct's own fields,
// [i] for the fields of a struct-typed field i, and so on.
func (m *Model) structLeafPaths(t types.Type, prefix []int, out map[string][][]int) {
	si := m.structOf(t)
	if si == nil || !isStruct(t) {
		return
	}
	for i := 0; i < si.st.NumFields(); i++ {
		ft := si.st.Field(i).Type()
		if isStruct(ft) && m.structOf(ft) != nil {
			m.structLeafPaths(ft, append(append([]int{}, prefix...), i), out)
		} else {
			ln := "H$" + si.sort[2:] + "$" + si.st.Field(i).Name()
			dup := false
			for _, q := range out[ln] {
				if fmt.Sprint(q) == fmt.Sprint(prefix) {
					dup = true
				}
			}
			if !dup {
				out[ln] = append(out[ln], append([]int{}, prefix...))
			}
		}
	}
}

func (m *Model) cellLeaves(t types.Type, out map[string]string) {
	if isStruct(t) {
		if m.structOf(t) != nil {
			m.structLeaves(nil, t, out)
		}
		return
	}
	if m.sortOf(t) == "Opaque" {
		return
	}
	out["M$"+m.typeKey(t)] = m.sortOf(t)
}

// fieldPath: the chain of field indices from the root allocation to addr (nil when addr is the
// allocation itself or the chain is not made of field selections only).
func fieldPath(v ssa.Value) []int {
	var rev []int
	for {
		switch x := v.(type) {
		case *ssa.FieldAddr:
			rev = append(rev, x.Field)
			v = x.X
		case *ssa.Alloc:
			out := make([]int, 0, len(rev))
			for i := len(rev) - 1; i >= 0; i-- {
				out = append(out, rev[i])
			}
			return out
		default:
			return nil
		}
	}
}

func rootAlloc(v ssa.Value) *ssa.Alloc {
	for {
		switch x := v.(type) {
		case *ssa.Alloc:
			return x
		case *ssa.FieldAddr:
			v = x.X
		case *ssa.IndexAddr:
			if _, ok := x.X.Type().Underlying().(*types.Pointer); ok {
				v = x.X
			} else {
				return nil
			}
		default:
			return nil
		}
	}
}

// storeTargets: arrays written by a store of a value of type vt through addr.
func (m *Model) storeTargets(addr ssa.Value, out *Effects, scope map[*ssa.BasicBlock]bool) {
	target := out.heap
	if a := rootAlloc(addr); a != nil {
		out.locals[a] = true // (heap-allocated locals may be modelled as locals, see lazyOK)
		out.lpaths[a] = append(out.lpaths[a], fieldPath(addr))
		if !a.Heap {
			return
		}
		// the object was allocated by this very function (within the region considered): a write to a fresh address
		if scope == nil || scope[a.Block()] {
			target = out.fheap
		}
	}
	pt, ok := addr.Type().Underlying().(*types.Pointer)
	if !ok {
		return
	}
	el := pt.Elem()
	if fa, ok := addr.(*ssa.FieldAddr); ok && !isStruct(el) {
		st := fa.X.Type().Underlying().(*types.Pointer).Elem()
		si := m.structOf(st)
		if si != nil {
			target["H$"+si.sort[2:]+"$"+si.st.Field(fa.Field).Name()] = m.sortOf(el)
			return
		}
	}
	m.cellLeaves(el, target)
}

func (m *Model) mapArrays(t types.Type, out map[string]string) {
	mt := t.Underlying().(*types.Map)
	k := m.typeKey(t)
	out["MD$"+k] = "(Array " + m.sortOf(mt.Key()) + " Bool)"
	out["MV$"+k] = "(Array " + m.sortOf(mt.Key()) + " " + m.sortOf(mt.Elem()) + ")"
}

// instrEffects adds the direct and callee effects of one instruction.
func (m *Model) instrEffects(ins ssa.Instruction, out *Effects, scope map[*ssa.BasicBlock]bool) {
	switch x := ins.(type) {
	case *ssa.Store:
		m.storeTargets(x.Addr, out, scope)
	case *ssa.MapUpdate:
		if mm, ok := x.Map.(*ssa.MakeMap); ok && (scope == nil || scope[mm.Block()]) {
			m.mapArrays(x.Map.Type(), out.fheap)
		} else {
			m.mapArrays(x.Map.Type(), out.heap)
		}
	case *ssa.Alloc:
		if x.Heap {
			out.ghost["$alloc"] = true
		} else {
			out.locals[x] = true
		}
	case *ssa.MakeSlice, *ssa.MakeMap, *ssa.MakeClosure:
		out.ghost["$alloc"] = true
		if ms, ok := ins.(*ssa.MakeSlice); ok {
			_ = ms
		}
	case *ssa.Next:
		if r, ok := x.Iter.(*ssa.Range); ok {
			out.iters = append(out.iters, r)
		}
	case *ssa.Call:
		m.callEffects(&x.Call, out)
	case *ssa.Defer:
		m.callEffects(&x.Call, out)
	case *ssa.Go:
		m.callEffects(&x.Call, out)
	case *ssa.BinOp, *ssa.UnOp:
		// string concatenation etc. allocate nothing we track
	}
}

func (m *Model) callEffects(c *ssa.CallCommon, out *Effects) {
	if b, ok := c.Value.(*ssa.Builtin); ok {
		switch b.Name() {
		case "append":
			out.ghost["$alloc"] = true
			if sl, ok := c.Args[0].Type().Underlying().(*types.Slice); ok {
				m.cellLeaves(sl.Elem(), out.heap)
			}
		case "copy":
			if sl, ok := c.Args[0].Type().Underlying().(*types.Slice); ok {
				m.cellLeaves(sl.Elem(), out.heap)
			}
		case "delete":
			m.mapArrays(c.Args[0].Type(), out.heap)
		}
		return
	}
	out.ghost["$alloc"] = true
	for _, callee := range m.callees(c) {
		ce := m.funcEffects(callee)
		var ctr *Contract
		if m.spec != nil && c.StaticCallee() != nil {
			ctr = m.spec.Contracts[m.fnName[callee]]
		}
		if ctr != nil && (ctr.HasMod || ctr.HasUpd) {
			// ghost effects of a function under contract are exactly its `updates` clause
			// (proved at its returns); heap effects: see below
			for _, g := range ctr.Updates {
				out.ghost[g] = true
			}
			tmp := newEffects()
			tmp.add(ce)
			tmp.ghost = map[string]bool{"$alloc": true}
			ce = tmp
		}
		if c.StaticCallee() != nil && m.spec != nil {
			if ct, ok := m.spec.Contracts[m.fnName[callee]]; ok && ct.HasMod && len(ct.Modifies) == 0 {
				// `modifies nothing` (proved for the callee, or trusted): whatever it writes is fresh
				for k, v := range ce.heap {
					if _, ok := out.fheap[k]; !ok {
						out.fheap[k] = v
					}
				}
				for k, v := range ce.fheap {
					if _, ok := out.fheap[k]; !ok {
						out.fheap[k] = v
					}
				}
				continue
			}
		}
		out.add(ce)
	}
}

// callees resolves possible targets of a call (static, CHA for invoke, signature match for dynamic).
func (m *Model) callees(c *ssa.CallCommon) []*ssa.Function {
	if f := c.StaticCallee(); f != nil {
		return []*ssa.Function{f}
	}
	var out []*ssa.Function
	if c.IsInvoke() {
		for f := range m.fnName {
			if f.Signature.Recv() == nil || f.Name() != c.Method.Name() {
				continue
			}
			if types.Implements(f.Signature.Recv().Type(), c.Value.Type().Underlying().(*types.Interface)) {
				out = append(out, f)
			}
		}
		return out
	}
	sig, ok := c.Value.Type().Underlying().(*types.Signature)
	if !ok {
		return nil
	}
	// statically known closure?
	if mc, ok := c.Value.(*ssa.MakeClosure); ok {
		return []*ssa.Function{mc.Fn.(*ssa.Function)}
	}
	for f := range m.fnName {
		if f.Signature.Recv() != nil {
			continue
		}
		if types.Identical(stripRecv(f.Signature), sig) {
			out = append(out, f)
		}
	}
	return out
}

func stripRecv(s *types.Signature) *types.Signature {
	return types.NewSignatureType(nil, nil, nil, s.Params(), s.Results(), s.Variadic())
}

func (m *Model) funcEffects(f *ssa.Function) *Effects {
	if ef, ok := m.effects[f]; ok {
		return ef
	}
	ef := newEffects()
	m.effects[f] = ef
	if _, local := m.fnName[f]; !local {
		m.externalEffects(f, ef)
	}
	return ef
}

// computeAllEffects: global fixed point over all functions of the analysed packages.
func (m *Model) computeAllEffects() {
	for f := range m.fnName {
		m.effects[f] = newEffects()
	}
	for {
		changed := false
		for f, ef := range m.effects {
			if _, local := m.fnName[f]; !local {
				continue
			}
			tmp := newEffects()
			for _, b := range f.Blocks {
				for _, ins := range b.Instrs {
					m.instrEffects(ins, tmp, nil)
				}
			}
			if ef.add(tmp) {
				changed = true
			}
		}
		if !changed {
			return
		}
	}
}

// externalEffects: models of library functions that write tracked state.
func (m *Model) externalEffects(f *ssa.Function, ef *Effects) {
	full := f.String()
	if strings.HasPrefix(full, "slices.SortStableFunc[") || strings.HasPrefix(full, "slices.SortFunc[") {
		if sig := f.Signature; sig.Params().Len() > 0 {
			if sl, ok := sig.Params().At(0).Type().Underlying().(*types.Slice); ok {
				m.cellLeaves(sl.Elem(), ef.heap)
			}
		}
	}
	switch full {
	case "(*strings.Builder).WriteByte", "(*strings.Builder).WriteString", "(*strings.Builder).WriteRune", "(*strings.Builder).Reset":
		ef.heap["M$builder"] = "Str"
	case "fmt.Fprint", "fmt.Fprintf", "fmt.Fprintln":
		ef.ghost["$out"] = true
	case "fmt.Print", "fmt.Printf", "fmt.Println":
		ef.ghost["$out"] = true
	case "sort.Strings":
		ef.heap["M$string"] = "Str"
	case "fmt.Errorf", "errors.New":
		ef.ghost["$faulted"] = true
	}
}

// allHeap: every array the effect may touch (general and fresh-only)
func (ef *Effects) allHeap() map[string]string {
	out := map[string]string{}
	for k, v := range ef.fheap {
		out[k] = v
	}
	for k, v := range ef.heap {
		out[k] = v
	}
	return out
}

func (e *Enc) loopEffects(fc *fctx, l *loopInfo) *Effects {
	ef := newEffects()
	// ghosts assigned by `after` clauses of the contract may change in any loop that makes calls
	if fc.contract != nil && len(fc.contract.Ghost) > 0 {
		called := map[string]bool{}
		for b := range l.blocks {
			for _, ins := range b.Instrs {
				if c, ok := ins.(ssa.CallInstruction); ok {
					if f := c.Common().StaticCallee(); f != nil {
						if n, ok := e.m.fnName[f]; ok {
							called[n] = true
						}
						called[f.String()] = true
					} else if _, isB := c.Common().Value.(*ssa.Builtin); !isB {
						called["*"] = true
					}
				}
			}
		}
		for _, g := range fc.contract.Ghost {
			if called[g.Site] || called["*"] {
				ef.ghost[g.Label] = true
			}
		}
	}
	// dynamic calls through a function-type role: that role's `updates`
	for b := range l.blocks {
		for _, ins := range b.Instrs {
			if c, ok := ins.(ssa.CallInstruction); ok && c.Common().StaticCallee() == nil && !c.Common().IsInvoke() {
				if _, isB := c.Common().Value.(*ssa.Builtin); !isB {
					if ct, ok := e.m.spec.FuncTypes[e.funcRole(c.Common().Value)]; ok {
						for _, g := range ct.Updates {
							ef.ghost[g] = true
						}
					}
				}
			}
		}
	}
	for b := range l.blocks {
		for _, ins := range b.Instrs {
			e.m.instrEffects(ins, ef, l.blocks)
		}
	}
	return ef
}
