package main

// Contract language: lexer, parser and the contract-file reader.
//
// Contracts live in comment-only Go files (build tag `verif`) as lines starting
// with `//@`.  See DESIGN.md section 2.4.

import (
	"fmt"
	"os"
	"sort"
	"strconv"
	"strings"
)

// ---------------------------------------------------------------- AST

type SExpr interface{}

type (
	SIdent struct{ Name string }
	SInt   struct{ V string }
	SFloat struct{ V float64 }
	SStr   struct{ V string }
	SBool  struct{ V bool }
	SNil   struct{}
	SBin   struct {
		Op   string
		L, R SExpr
	}
	SUn struct {
		Op string
		X  SExpr
	}
	SCall struct {
		Fn   string
		Args []SExpr
	}
	SSel struct {
		X    SExpr
		Name string
	}
	SIdx struct {
		X, I SExpr
	}
	SSlice struct {
		X, Lo, Hi SExpr
	}
	SQuant struct {
		Forall   bool
		Vars     []SVar
		Triggers [][]SExpr
		Body     SExpr
	}
	SIte struct {
		C, A, B SExpr
	}
	SLet struct {
		Name string
		X    SExpr
		Body SExpr
	}
)

type SVar struct {
	Name string
	Type string
}

// ---------------------------------------------------------------- lexer

type stok struct {
	k string // "id", "int", "float", "str", "char", "op", "eof"
	s string
}

func slex(src string) ([]stok, error) {
	var out []stok
	i := 0
	isIdStart := func(c byte) bool {
		return c == '_' || c == '$' || (c >= 'a' && c <= 'z') || (c >= 'A' && c <= 'Z')
	}
	isDigit := func(c byte) bool { return c >= '0' && c <= '9' }
	ops := []string{"<==>", "==>", "::", "==", "!=", "<=", ">=", "&&", "||", "<<", ">>", "+", "-", "*", "/", "%", "<", ">", "!", "(", ")", "[", "]", "{", "}", ",", ".", ":", "?", "&", "=", "#", "@"}
	for i < len(src) {
		c := src[i]
		switch {
		case c == ' ' || c == '\t' || c == '\n' || c == '\r':
			i++
		case isIdStart(c):
			j := i + 1
			for j < len(src) && (isIdStart(src[j]) || isDigit(src[j])) {
				j++
			}
			out = append(out, stok{"id", src[i:j]})
			i = j
		case isDigit(c):
			j := i + 1
			isF := false
			for j < len(src) && (isDigit(src[j]) || src[j] == 'x' || (src[j] >= 'a' && src[j] <= 'f') || (src[j] >= 'A' && src[j] <= 'F') || (src[j] == '.' && j+1 < len(src) && isDigit(src[j+1]))) {
				if src[j] == '.' {
					isF = true
				}
				j++
			}
			if isF {
				out = append(out, stok{"float", src[i:j]})
			} else {
				out = append(out, stok{"int", src[i:j]})
			}
			i = j
		case c == '"':
			j := i + 1
			for j < len(src) && src[j] != '"' {
				if src[j] == '\\' {
					j++
				}
				j++
			}
			if j >= len(src) {
				return nil, fmt.Errorf("unterminated string in %q", src)
			}
			s, err := strconv.Unquote(src[i : j+1])
			if err != nil {
				return nil, fmt.Errorf("bad string %s: %v", src[i:j+1], err)
			}
			out = append(out, stok{"str", s})
			i = j + 1
		case c == '\'':
			j := i + 1
			for j < len(src) && src[j] != '\'' {
				if src[j] == '\\' {
					j++
				}
				j++
			}
			if j >= len(src) {
				return nil, fmt.Errorf("unterminated char in %q", src)
			}
			r, _, _, err := strconv.UnquoteChar(src[i+1:j], '\'')
			if err != nil {
				return nil, fmt.Errorf("bad char %s: %v", src[i:j+1], err)
			}
			out = append(out, stok{"int", strconv.Itoa(int(r))})
			i = j + 1
		default:
			found := false
			for _, op := range ops {
				if strings.HasPrefix(src[i:], op) {
					out = append(out, stok{"op", op})
					i += len(op)
					found = true
					break
				}
			}
			if !found {
				return nil, fmt.Errorf("unexpected character %q in %q", c, src)
			}
		}
	}
	out = append(out, stok{"eof", ""})
	return out, nil
}

// ---------------------------------------------------------------- parser

type sparser struct {
	toks []stok
	p    int
	src  string
}

func (p *sparser) peek() stok { return p.toks[p.p] }
func (p *sparser) next() stok  { t := p.toks[p.p]; p.p++; return t }
func (p *sparser) isOp(s string) bool {
	t := p.peek()
	return t.k == "op" && t.s == s
}
func (p *sparser) isId(s string) bool {
	t := p.peek()
	return t.k == "id" && t.s == s
}
func (p *sparser) expectOp(s string) {
	if !p.isOp(s) {
		panic(fmt.Errorf("expected %q at token %d (%v) in %q", s, p.p, p.peek(), p.src))
	}
	p.p++
}

func parseSpec(src string) (e SExpr, err error) {
	toks, err := slex(src)
	if err != nil {
		return nil, err
	}
	p := &sparser{toks: toks, src: src}
	defer func() {
		if r := recover(); r != nil {
			if er, ok := r.(error); ok {
				err = er
				return
			}
			panic(r)
		}
	}()
	e = p.spec()
	if p.peek().k != "eof" {
		return nil, fmt.Errorf("trailing tokens at %d (%v) in %q", p.p, p.peek(), src)
	}
	return e, nil
}

// type syntax: ident | *T | []T | map[K]V | pkg.T
func (p *sparser) typ() string {
	if p.isOp("*") {
		p.p++
		return "*" + p.typ()
	}
	if p.isOp("[") {
		p.p++
		p.expectOp("]")
		return "[]" + p.typ()
	}
	t := p.next()
	if t.k != "id" {
		panic(fmt.Errorf("expected type, got %v in %q", t, p.src))
	}
	if t.s == "map" {
		p.expectOp("[")
		k := p.typ()
		p.expectOp("]")
		return "map[" + k + "]" + p.typ()
	}
	if p.isOp(".") {
		p.p++
		u := p.next()
		return t.s + "." + u.s
	}
	return t.s
}

func (p *sparser) spec() SExpr {
	if p.isId("forall") || p.isId("exists") {
		q := &SQuant{Forall: p.next().s == "forall"}
		for {
			name := p.next()
			if name.k != "id" {
				panic(fmt.Errorf("expected bound variable name in %q", p.src))
			}
			ty := p.typ()
			q.Vars = append(q.Vars, SVar{name.s, ty})
			if p.isOp(",") {
				p.p++
				continue
			}
			break
		}
		p.expectOp("::")
		for p.isOp("{") {
			p.p++
			var trig []SExpr
			for {
				trig = append(trig, p.expr(0))
				if p.isOp(",") {
					p.p++
					continue
				}
				break
			}
			p.expectOp("}")
			q.Triggers = append(q.Triggers, trig)
		}
		q.Body = p.spec()
		return q
	}
	if p.isId("let") {
		p.p++
		name := p.next().s
		p.expectOp("=")
		x := p.expr(0)
		if !p.isId("in") {
			panic(fmt.Errorf("expected 'in' after let in %q", p.src))
		}
		p.p++
		return &SLet{name, x, p.spec()}
	}
	l := p.expr(0)
	if p.isOp("==>") {
		p.p++
		r := p.spec()
		return &SBin{"==>", l, r}
	}
	if p.isOp("<==>") {
		p.p++
		r := p.expr(0)
		return &SBin{"<==>", l, r}
	}
	if p.isOp("?") {
		p.p++
		a := p.spec()
		p.expectOp(":")
		b := p.spec()
		return &SIte{l, a, b}
	}
	return l
}

var sprec = map[string]int{
	"||": 1, "&&": 2,
	"==": 3, "!=": 3, "<": 3, "<=": 3, ">": 3, ">=": 3,
	"+": 4, "-": 4,
	"*": 5, "/": 5, "%": 5,
}

func (p *sparser) expr(minPrec int) SExpr {
	l := p.unary()
	for {
		t := p.peek()
		if t.k != "op" {
			return l
		}
		pr, ok := sprec[t.s]
		if !ok || pr < minPrec || pr == 0 {
			return l
		}
		p.p++
		r := p.expr(pr + 1)
		l = &SBin{t.s, l, r}
	}
}

func (p *sparser) unary() SExpr {
	if p.isOp("!") {
		p.p++
		return &SUn{"!", p.unary()}
	}
	if p.isOp("-") {
		p.p++
		return &SUn{"-", p.unary()}
	}
	if p.isOp("*") {
		p.p++
		return &SUn{"*", p.unary()}
	}
	if p.isOp("&") {
		p.p++
		return &SUn{"&", p.unary()}
	}
	return p.postfix(p.primary())
}

func (p *sparser) postfix(x SExpr) SExpr {
	for {
		switch {
		case p.isOp("."):
			p.p++
			n := p.next()
			if n.k != "id" {
				panic(fmt.Errorf("expected field name in %q", p.src))
			}
			x = &SSel{x, n.s}
		case p.isOp("["):
			p.p++
			var lo SExpr
			if !p.isOp(":") {
				lo = p.spec()
			}
			if p.isOp(":") {
				p.p++
				var hi SExpr
				if !p.isOp("]") {
					hi = p.spec()
				}
				p.expectOp("]")
				x = &SSlice{x, lo, hi}
			} else {
				p.expectOp("]")
				x = &SIdx{x, lo}
			}
		case p.isOp("("):
			// call on identifier or selector (method-like spec call)
			var name string
			switch f := x.(type) {
			case *SIdent:
				name = f.Name
			default:
				panic(fmt.Errorf("call of non-identifier in %q", p.src))
			}
			p.p++
			var args []SExpr
			for !p.isOp(")") {
				args = append(args, p.spec())
				if p.isOp(",") {
					p.p++
				}
			}
			p.expectOp(")")
			x = &SCall{name, args}
		default:
			return x
		}
	}
}

func (p *sparser) primary() SExpr {
	t := p.next()
	switch t.k {
	case "int":
		return &SInt{t.s}
	case "float":
		f, err := strconv.ParseFloat(t.s, 64)
		if err != nil {
			panic(err)
		}
		return &SFloat{f}
	case "str":
		return &SStr{t.s}
	case "id":
		switch t.s {
		case "true":
			return &SBool{true}
		case "false":
			return &SBool{false}
		case "nil":
			return &SNil{}
		case "forall", "exists", "let":
			p.p--
			return p.spec()
		}
		// name#k: the k-th local variable of that name (source order)
		if p.isOp("#") && p.p+1 < len(p.toks) && p.toks[p.p+1].k == "int" {
			k := p.toks[p.p+1].s
			p.p += 2
			return &SIdent{t.s + "#" + k}
		}
		return &SIdent{t.s}
	case "op":
		if t.s == "(" {
			e := p.spec()
			p.expectOp(")")
			return e
		}
	}
	panic(fmt.Errorf("unexpected token %v at %d in %q", t, p.p-1, p.src))
}

// ---------------------------------------------------------------- contract file

type Clause struct {
	Kind  string   // requires, ensures, invariant, assert-before, assume..., modifies
	Props []string // property tags
	Label string
	Src   string
	Expr  SExpr
	Loop  int    // for invariant
	Site  string // for call-site clauses: callee#k
	Line  int
	File  string
	IfInScope bool // site clause that is skipped where a local variable it mentions is not in scope
	Applied   int
}

type SpecFunc struct {
	Name    string
	Params  []SVar
	Result  string
	Body    SExpr // nil = uninterpreted
	BodySrc string
	Opaque  bool // calls are abstracted to an uninterpreted application unless the contract under verification reveals it
}

type Contract struct {
	Func     string // qualified name: Type.Method or Func or Func$1
	Props    []string
	Requires []*Clause
	Ensures  []*Clause
	Invs     []*Clause
	Exits    []*Clause // checked at every return like ensures, may mention local variables, not visible to callers
	Modifies []string // raw location expressions; "nothing"
	HasMod   bool
	Opts     map[string]string
	Ghost    []*Clause // ghost updates at call sites: "after callee: $x = expr"
	Asserts  []*Clause
	Pure     bool
	Updates  []string          // ghost variables the function may change
	HasUpd   bool              // an `updates` clause is present (possibly `updates nothing`): all other ghosts are preserved
	Inits    map[string]SExpr  // ghost variables initialised at entry of this function (verification only)
	Implements []string        // function-type roles whose contract this function must also satisfy
	Trusted  bool // contract is assumed, the body is not verified against it (listed in the evidence)
	StoresOnly []*StoreRule // restrictions on the stores the function's own body performs
	AllocBounds []*AllocBound // bounds on the capacity of every make([]T, ...) in the function's own body
	Externals []*ExternRule // the library functions the function's own body may call
}

// ExternRule ("externals[props] label: pkg.F, (*pkg.T).M, ..."): every statically resolved call that the
// function's own body (or a helper inlined into it) makes to a function outside the verified packages is
// to one of the listed functions.  Calls inside the verified packages are unrestricted, so helper
// extraction does not matter; what is pinned is the library surface (a decoder option, a post-processing
// of a serialised text, ...).
type ExternRule struct {
	Props   []string
	Label   string
	Allowed map[string]bool
	Src     string
}

// AllocBound ("allocbound[props] label: N"): every make([]T, len, cap) executed by the function's own body
// (or an inlined callee) has cap <= N -- no allocation proportional to an untrusted number.
type AllocBound struct {
	Props []string
	Label string
	N     string
	Src   string
}

// StoreRule ("storesonly[props] label: fresh, Type.Field, ...") restricts the store instructions of the
// function's own body (callees with contracts are not its own body; inlined callees are): each store
// goes to an object allocated during the call, or to one of the listed struct fields.
type StoreRule struct {
	Props   []string
	Label   string
	Allowed map[string]bool
	Line    int
	Src     string
}

type Axiom struct {
	Src   string
	Expr  SExpr
	Label string
}

type SpecFile struct {
	Funcs     map[string]*SpecFunc
	FuncOrder []string
	Axioms    []*Axiom
	Contracts map[string]*Contract
	Order     []string
	FuncTypes map[string]*Contract // keyed by role name
	Ghosts    map[string]string    // ghost global name -> type
	GhostList []string
	TypeInvs  map[string]string // named struct type -> spec function (type invariant)
	ModSets   map[string][]string // named lists of modifies locations
	NonNilElems map[string]bool // element types (as written) whose occurrences inside slices and maps are never nil
}

func newSpecFile() *SpecFile {
	return &SpecFile{Funcs: map[string]*SpecFunc{}, Contracts: map[string]*Contract{}, FuncTypes: map[string]*Contract{}, Ghosts: map[string]string{}, TypeInvs: map[string]string{}, NonNilElems: map[string]bool{}, ModSets: map[string][]string{}}
}

// parseLabel parses "[C12,C01] name: rest" prefix pieces.
func parseTagsLabel(s string) (props []string, label string, rest string) {
	s = strings.TrimSpace(s)
	if strings.HasPrefix(s, "[") {
		end := strings.Index(s, "]")
		for _, p := range strings.Split(s[1:end], ",") {
			props = append(props, strings.TrimSpace(p))
		}
		s = strings.TrimSpace(s[end+1:])
	}
	// label: identifier (with dashes) followed by ':' but not '::'
	for i := 0; i < len(s); i++ {
		c := s[i]
		if c == ':' {
			if i+1 < len(s) && s[i+1] == ':' {
				break
			}
			if i > 0 {
				label = s[:i]
				s = strings.TrimSpace(s[i+1:])
			}
			break
		}
		if !(c == '-' || c == '_' || (c >= 'a' && c <= 'z') || (c >= 'A' && c <= 'Z') || (c >= '0' && c <= '9')) {
			break
		}
	}
	return props, label, s
}

func (sf *SpecFile) load(path string) error {
	data, err := os.ReadFile(path)
	if err != nil {
		return err
	}
	// gather logical lines: a `//@` line whose content starts with whitespace+"|" continues the previous one.
	type ll struct {
		s    string
		line int
	}
	var lines []ll
	for i, raw := range strings.Split(string(data), "\n") {
		t := strings.TrimSpace(raw)
		if !strings.HasPrefix(t, "//@") {
			continue
		}
		c := strings.TrimSpace(t[3:])
		if c == "" {
			continue
		}
		if strings.HasPrefix(c, "|") && len(lines) > 0 {
			lines[len(lines)-1].s += " " + strings.TrimSpace(c[1:])
			continue
		}
		lines = append(lines, ll{c, i + 1})
	}
	var cur *Contract
	for _, l := range lines {
		fail := func(e error) error { return fmt.Errorf("%s:%d: %v", path, l.line, e) }
		word, rest := l.s, ""
		if i := strings.IndexAny(l.s, " \t["); i >= 0 {
			word, rest = l.s[:i], strings.TrimSpace(l.s[i:])
		}
		switch word {
		case "spec":
			// spec func name(a T, b U) R [= body]
			if !strings.HasPrefix(rest, "func ") {
				return fail(fmt.Errorf("expected 'spec func'"))
			}
			rest = strings.TrimSpace(rest[5:])
			opaque := false
			if strings.HasPrefix(rest, "opaque ") {
				opaque = true
				rest = strings.TrimSpace(rest[7:])
			}
			op := strings.Index(rest, "(")
			cp := matchParen(rest, op)
			f := &SpecFunc{Name: strings.TrimSpace(rest[:op]), Opaque: opaque}
			ps := strings.TrimSpace(rest[op+1 : cp])
			if ps != "" {
				for _, part := range strings.Split(ps, ",") {
					fs := strings.Fields(strings.TrimSpace(part))
					if len(fs) != 2 {
						return fail(fmt.Errorf("bad parameter %q", part))
					}
					f.Params = append(f.Params, SVar{fs[0], fs[1]})
				}
			}
			tail := strings.TrimSpace(rest[cp+1:])
			if eq := strings.Index(tail, "="); eq >= 0 && !strings.HasPrefix(tail[eq:], "==") {
				f.Result = strings.TrimSpace(tail[:eq])
				f.BodySrc = strings.TrimSpace(tail[eq+1:])
				e, err := parseSpec(f.BodySrc)
				if err != nil {
					return fail(err)
				}
				f.Body = e
			} else {
				f.Result = tail
			}
			sf.Funcs[f.Name] = f
			sf.FuncOrder = append(sf.FuncOrder, f.Name)
			cur = nil
		case "axiom":
			_, label, body := parseTagsLabel(rest)
			e, err := parseSpec(body)
			if err != nil {
				return fail(err)
			}
			sf.Axioms = append(sf.Axioms, &Axiom{body, e, label})
			cur = nil
		case "ghost":
			// ghost $name type
			fs := strings.Fields(rest)
			if len(fs) != 2 {
				return fail(fmt.Errorf("ghost <name> <type>"))
			}
			sf.Ghosts[fs[0]] = fs[1]
			sf.GhostList = append(sf.GhostList, fs[0])
			cur = nil
		case "modset":
			// modset name = loc, loc, ...
			eq := strings.Index(rest, "=")
			if eq < 0 {
				return fail(fmt.Errorf("modset name = locations"))
			}
			var ls []string
			for _, m := range splitTop(rest[eq+1:]) {
				if m = strings.TrimSpace(m); m != "" {
					ls = append(ls, m)
				}
			}
			sf.ModSets[strings.TrimSpace(rest[:eq])] = ls
			cur = nil
		case "eleminv":
			// eleminv nonnil T1 T2 ...
			fs := strings.Fields(rest)
			if len(fs) < 2 || fs[0] != "nonnil" {
				return fail(fmt.Errorf("eleminv nonnil <Type>..."))
			}
			for _, t := range fs[1:] {
				sf.NonNilElems[t] = true
			}
			cur = nil
		case "typeinv":
			fs := strings.Fields(rest)
			if len(fs) != 2 {
				return fail(fmt.Errorf("typeinv <Type> <specfunc>"))
			}
			sf.TypeInvs[fs[0]] = fs[1]
			cur = nil
		case "func", "functype":
			props, _, name := parseTagsLabel(rest)
			// allow "Name [C1,C2]" order too
			if i := strings.Index(name, "["); i >= 0 {
				p2, _, _ := parseTagsLabel(name[i:])
				props = append(props, p2...)
				name = strings.TrimSpace(name[:i])
			}
			cur = &Contract{Func: name, Props: props, Opts: map[string]string{}}
			if word == "functype" {
				sf.FuncTypes[name] = cur
			} else {
				if _, dup := sf.Contracts[name]; dup {
					return fail(fmt.Errorf("duplicate contract for %s", name))
				}
				sf.Contracts[name] = cur
				sf.Order = append(sf.Order, name)
			}
		case "requires", "ensures", "exit", "invariant", "loop", "assert", "assert?", "assume", "after", "before":
			if cur == nil {
				return fail(fmt.Errorf("clause outside func"))
			}
			cl := &Clause{Kind: word, Line: l.line, File: path}
			body := rest
			if word == "loop" {
				// loop <k> invariant[...] label: expr
				fs := strings.SplitN(rest, " ", 2)
				k, err := strconv.Atoi(fs[0])
				if err != nil || len(fs) < 2 {
					return fail(fmt.Errorf("loop <k> invariant ..."))
				}
				cl.Loop = k
				r2 := strings.TrimSpace(fs[1])
				if !strings.HasPrefix(r2, "invariant") {
					return fail(fmt.Errorf("loop <k> invariant ..."))
				}
				body = strings.TrimSpace(r2[len("invariant"):])
				cl.Kind = "invariant"
			}
			if word == "after" || word == "before" {
				// after <callee>[#k]: $g = expr     (ghost update at call sites)
				i := strings.Index(body, ":")
				if i < 0 {
					return fail(fmt.Errorf("after <callee>: $g = expr"))
				}
				cl.Site = strings.TrimSpace(body[:i])
				body = strings.TrimSpace(body[i+1:])
				cl.Src = body
				eq := strings.Index(body, "=")
				if eq < 0 {
					return fail(fmt.Errorf("ghost update needs ="))
				}
				cl.Label = strings.TrimSpace(body[:eq])
				e, err := parseSpec(strings.TrimSpace(body[eq+1:]))
				if err != nil {
					return fail(err)
				}
				cl.Expr = e
				cur.Ghost = append(cur.Ghost, cl)
				continue
			}
			if word == "assert?" {
				// like assert, but only at the call sites where every local it mentions is in scope
				// (it must apply to at least one site)
				cl.Kind = "assert"
				cl.IfInScope = true
				word = "assert"
			}
			if word == "assume" || word == "assert" {
				// assume|assert [props] label: expr @ callee#k   (checked/assumed just before the k-th call of callee)
				if i := strings.LastIndex(body, "@"); i >= 0 {
					cl.Site = strings.TrimSpace(body[i+1:])
					body = strings.TrimSpace(body[:i])
				}
			}
			cl.Props, cl.Label, body = parseTagsLabel(body)
			cl.Src = body
			e, err := parseSpec(body)
			if err != nil {
				return fail(err)
			}
			cl.Expr = e
			switch cl.Kind {
			case "requires":
				cur.Requires = append(cur.Requires, cl)
			case "ensures":
				cur.Ensures = append(cur.Ensures, cl)
			case "exit":
				cur.Exits = append(cur.Exits, cl)
			case "invariant":
				cur.Invs = append(cur.Invs, cl)
			default:
				cur.Asserts = append(cur.Asserts, cl)
			}
		case "externals":
			if cur == nil {
				return fail(fmt.Errorf("clause outside func"))
			}
			props, label, body := parseTagsLabel(rest)
			r := &ExternRule{Props: props, Label: label, Allowed: map[string]bool{}, Src: body}
			for _, m := range splitTop(body) {
				if m = strings.TrimSpace(m); m != "" {
					r.Allowed[m] = true
				}
			}
			cur.Externals = append(cur.Externals, r)
		case "allocbound":
			if cur == nil {
				return fail(fmt.Errorf("clause outside func"))
			}
			props, label, body := parseTagsLabel(rest)
			if _, err := strconv.Atoi(strings.TrimSpace(body)); err != nil {
				return fail(fmt.Errorf("allocbound <label>: <integer>"))
			}
			cur.AllocBounds = append(cur.AllocBounds, &AllocBound{Props: props, Label: label, N: strings.TrimSpace(body), Src: body})
		case "storesonly":
			if cur == nil {
				return fail(fmt.Errorf("clause outside func"))
			}
			props, label, body := parseTagsLabel(rest)
			r := &StoreRule{Props: props, Label: label, Allowed: map[string]bool{}, Line: l.line, Src: body}
			for _, m := range splitTop(body) {
				if m = strings.TrimSpace(m); m != "" {
					r.Allowed[m] = true
				}
			}
			cur.StoresOnly = append(cur.StoresOnly, r)
		case "modifies":
			if cur == nil {
				return fail(fmt.Errorf("clause outside func"))
			}
			cur.HasMod = true
			// `modifies loc, loc, ...` or `modifies loc if cond` (one conditional location per line)
			if strings.Contains(rest, " if ") {
				cur.Modifies = append(cur.Modifies, strings.TrimSpace(rest))
			} else {
				for _, m := range splitTop(rest) {
					m = strings.TrimSpace(m)
					if ms, ok := sf.ModSets[m]; ok {
						cur.Modifies = append(cur.Modifies, ms...)
						continue
					}
					if m != "" && m != "nothing" {
						cur.Modifies = append(cur.Modifies, m)
					}
				}
			}
		case "pure":
			if cur == nil {
				return fail(fmt.Errorf("clause outside func"))
			}
			cur.Pure = true
			cur.HasMod = true
		case "updates":
			if cur == nil {
				return fail(fmt.Errorf("clause outside func"))
			}
			cur.HasUpd = true
			for _, g := range strings.Split(rest, ",") {
				if g = strings.TrimSpace(g); g != "" && g != "nothing" {
					cur.Updates = append(cur.Updates, g)
				}
			}
		case "implements":
			if cur == nil {
				return fail(fmt.Errorf("clause outside func"))
			}
			cur.Implements = append(cur.Implements, strings.TrimSpace(rest))
		case "init":
			// init $g = expr
			if cur == nil {
				return fail(fmt.Errorf("clause outside func"))
			}
			eq := strings.Index(rest, "=")
			if eq < 0 {
				return fail(fmt.Errorf("init $g = expr"))
			}
			x, err := parseSpec(strings.TrimSpace(rest[eq+1:]))
			if err != nil {
				return fail(err)
			}
			if cur.Inits == nil {
				cur.Inits = map[string]SExpr{}
			}
			cur.Inits[strings.TrimSpace(rest[:eq])] = x
		case "reveal":
			if cur == nil {
				return fail(fmt.Errorf("clause outside func"))
			}
			for _, g := range strings.Split(rest, ",") {
				if g = strings.TrimSpace(g); g != "" {
					cur.Opts["reveal:"+g] = "1"
				}
			}
		case "trusted":
			if cur == nil {
				return fail(fmt.Errorf("clause outside func"))
			}
			cur.Trusted = true
		case "opt":
			if cur == nil {
				return fail(fmt.Errorf("clause outside func"))
			}
			fs := strings.SplitN(rest, " ", 2)
			v := "1"
			if len(fs) > 1 {
				v = strings.TrimSpace(fs[1])
			}
			cur.Opts[fs[0]] = v
		default:
			return fail(fmt.Errorf("unknown directive %q", word))
		}
	}
	return nil
}

// resolveImplements copies the clauses of the implemented function-type contracts into the
// implementing function's own contract (so they are proved for it); parameters are referred to
// positionally (arg0, arg1, ...) in function-type contracts.
func (sf *SpecFile) resolveImplements() error {
	for _, n := range sf.Order {
		c := sf.Contracts[n]
		for _, role := range c.Implements {
			ft, ok := sf.FuncTypes[role]
			if !ok {
				return fmt.Errorf("%s implements unknown functype %s", n, role)
			}
			c.Requires = append(append([]*Clause{}, ft.Requires...), c.Requires...)
			c.Ensures = append(append([]*Clause{}, ft.Ensures...), c.Ensures...)
			if ft.HasUpd {
				c.HasUpd = true
			}
			for _, u := range ft.Updates {
				dup := false
				for _, v := range c.Updates {
					if v == u {
						dup = true
					}
				}
				if !dup {
					c.Updates = append(c.Updates, u)
				}
			}
			for _, p := range ft.Props {
				if !hasStr(c.Props, p) {
					c.Props = append(c.Props, p)
				}
			}
		}
		c.Implements = nil
	}
	return nil
}

// splitTop splits at commas that are not nested in parentheses or brackets.
func splitTop(s string) []string {
	var out []string
	d, start := 0, 0
	for i := 0; i < len(s); i++ {
		switch s[i] {
		case '(', '[':
			d++
		case ')', ']':
			d--
		case ',':
			if d == 0 {
				out = append(out, s[start:i])
				start = i + 1
			}
		}
	}
	return append(out, s[start:])
}

func matchParen(s string, open int) int {
	d := 0
	for i := open; i < len(s); i++ {
		switch s[i] {
		case '(':
			d++
		case ')':
			d--
			if d == 0 {
				return i
			}
		}
	}
	return -1
}

func (c *Contract) hasProp(p string) bool {
	for _, q := range c.Props {
		if q == p {
			return true
		}
	}
	for _, l := range [][]*Clause{c.Requires, c.Ensures, c.Invs, c.Asserts, c.Exits} {
		for _, cl := range l {
			for _, q := range cl.Props {
				if q == p {
					return true
				}
			}
		}
	}
	for _, r := range c.Externals {
		for _, q := range r.Props {
			if q == p {
				return true
			}
		}
	}
	for _, r := range c.AllocBounds {
		for _, q := range r.Props {
			if q == p {
				return true
			}
		}
	}
	for _, r := range c.StoresOnly {
		for _, q := range r.Props {
			if q == p {
				return true
			}
		}
	}
	return false
}

func sortedKeys[V any](m map[string]V) []string {
	ks := make([]string, 0, len(m))
	for k := range m {
		ks = append(ks, k)
	}
	sort.Strings(ks)
	return ks
}
