package main

// Instruction semantics (go/ssa naive form -> SMT terms and obligations).

import (
	"fmt"
	"go/token"
	"go/types"
	"strings"

	"golang.org/x/tools/go/ssa"
)

func (e *Enc) value(fc *fctx, v ssa.Value) Val {
	switch x := v.(type) {
	case *ssa.Const:
		return term(e.m.constTerm(e, x), x.Type())
	case *ssa.Global:
		gi := e.m.globals[x]
		if gi == nil {
			// global of another package
			return term(fmt.Sprintf("(Glob %d)", 100000+e.m.tid(x.Type())), x.Type())
		}
		return Val{K: vTerm, T: fmt.Sprintf("(Glob %d)", gi.id), Ty: x.Type(), Name: x.Name()}
	case *ssa.Function:
		return Val{K: vFunc, Fn: x, Ty: x.Type()}
	case *ssa.Builtin:
		return Val{K: vBuiltin, Name: x.Name(), Ty: x.Type()}
	case *ssa.FreeVar:
		if fv, ok := fc.freevars[x]; ok {
			return fv
		}
	}
	if val, ok := fc.vals[v]; ok {
		if val.K == vLocal && e.cur != nil && len(e.cur.st.mat) > 0 {
			return e.resolveLocal(e.cur.st, val)
		}
		return val
	}
	e.unsupportedf("%s: value %s (%T) used before definition", e.m.fnName[fc.fn], v.Name(), v)
	return term(e.fresh("undef", e.m.sortOf(v.Type())), v.Type())
}

func (e *Enc) fnRef(f *ssa.Function) string {
	if id, ok := e.m.fnID[f]; ok {
		return fmt.Sprintf("(FStatic %d)", id)
	}
	return fmt.Sprintf("(FStatic %d)", 10000+e.m.tid(f.Type())+len(f.String()))
}

func (e *Enc) asTerm(v Val) string {
	switch v.K {
	case vTerm:
		return v.T
	case vFunc:
		return e.fnRef(v.Fn)
	case vClosure:
		return v.T
	case vLocal:
		if e.lazy[v.Alloc] && e.cur != nil {
			e.materialize(e.cur, v.Alloc)
			return e.asTerm(e.resolveLocal(e.cur.st, v))
		}
		e.unsupportedf("address of non-escaping local %s escapes", v.Alloc.Comment)
		return e.fresh("escaped", "Addr")
	case vFieldRef:
		e.unsupportedf("address of scalar field %s.%s escapes", v.SI.name, v.SI.st.Field(v.Field).Name())
		return e.fresh("escaped", "Addr")
	}
	return e.fresh("undef", "Int")
}

func (e *Enc) setVal(cur *cursor, v ssa.Value, t string) {
	s := e.m.sortOf(v.Type())
	cur.fc.vals[v] = term(e.define(v.Name(), s, t), v.Type())
}

func (e *Enc) safety(cur *cursor, kind, goal string, pos token.Pos, src string) {
	tag := cur.fc.tag
	e.oblige(cur.guard, kind, fmt.Sprintf("%s#%d", tag+kind, e.ordinal(tag+kind)), goal, []string{"C01"}, pos, src)
}

func isNonNilValue(v ssa.Value) bool {
	switch x := v.(type) {
	case *ssa.Alloc, *ssa.FieldAddr, *ssa.IndexAddr, *ssa.Global, *ssa.MakeMap, *ssa.MakeSlice, *ssa.Function, *ssa.MakeClosure:
		_ = x
		return true
	}
	return false
}

func (e *Enc) allocAddr(cur *cursor) string {
	a := e.ghostGet(cur.st, "$alloc")
	addr := e.define("new", "Addr", fmt.Sprintf("(Base %s)", a))
	cur.st.ghost["$alloc"] = e.define("$alloc", "Int", fmt.Sprintf("(+ %s 1)", a))
	e.freshAddrs[addr] = true
	return addr
}

func (e *Enc) instr(cur *cursor, ins ssa.Instruction) {
	fc, st := cur.fc, cur.st
	switch x := ins.(type) {
	case *ssa.DebugRef:
	case *ssa.Alloc:
		et := x.Type().(*types.Pointer).Elem()
		if !x.Heap {
			st.loc[x] = e.m.zero(et)
			fc.vals[x] = Val{K: vLocal, Alloc: x, Ty: x.Type()}
			e.noteAlloc(cur, x)
			return
		}
		if e.lazyOK(fc, x) {
			e.lazy[x] = true
			st.loc[x] = e.m.zero(et)
			fc.vals[x] = Val{K: vLocal, Alloc: x, Ty: x.Type()}
			e.noteAlloc(cur, x)
			return
		}
		a := e.allocAddr(cur)
		if at, ok := et.Underlying().(*types.Array); ok {
			if at.Len() <= 8 {
				for i := int64(0); i < at.Len(); i++ {
					e.storeAt(st, fmt.Sprintf("(Elem %s %d)", a, i), at.Elem(), e.m.zero(at.Elem()))
				}
			}
		} else {
			e.storeAt(st, a, et, e.m.zero(et))
		}
		e.initBuilder(st, a, et)
		fc.vals[x] = Val{K: vTerm, T: a, Ty: x.Type(), Name: x.Comment}
		e.noteAlloc(cur, x)
	case *ssa.Store:
		addr := e.value(fc, x.Addr)
		val := e.value(fc, x.Val)
		if al, isVar := isLocalVarAlloc(x.Val); isVar {
			if dst := rootAlloc(x.Addr); dst == nil || dst.Heap {
				e.publishCheck(cur, al, x.Pos(), "stored")
			}
		}
		e.store(cur, addr, val, x.Pos(), x.Addr)
	case *ssa.UnOp:
		e.unop(cur, x)
	case *ssa.BinOp:
		a, b := e.value(fc, x.X), e.value(fc, x.Y)
		e.setVal(cur, x, e.binop(cur, x.Op, a, b, x.X.Type(), x.Type(), x.Pos()))
	case *ssa.FieldAddr:
		base := e.value(fc, x.X)
		st0 := x.X.Type().Underlying().(*types.Pointer).Elem()
		si := e.m.structOf(st0)
		if si == nil {
			// opaque external struct
			fc.vals[x] = term(e.fresh("extfield", "Addr"), x.Type())
			return
		}
		ft := si.st.Field(x.Field).Type()
		switch base.K {
		case vLocal:
			fc.vals[x] = Val{K: vLocal, Alloc: base.Alloc, Path: append(append([]int{}, base.Path...), x.Field), Ty: x.Type()}
		default:
			bt := e.asTerm(base)
			if !isNonNilValue(x.X) {
				e.safety(cur, "nil", fmt.Sprintf("(not (= %s Nil))", bt), x.Pos(), "nil dereference at field "+si.st.Field(x.Field).Name())
			}
			outer := append(append([]outerRef{}, base.Outer...), outerRef{bt, st0})
			if isStruct(ft) && e.m.structOf(ft) != nil {
				v := term(fmt.Sprintf("(Fld %s %d)", bt, x.Field), x.Type())
				v.Outer = outer
				fc.vals[x] = v
			} else {
				fc.vals[x] = Val{K: vFieldRef, Base: bt, SI: si, Field: x.Field, Ty: x.Type(), Outer: outer}
			}
		}
	case *ssa.Field:
		base := e.value(fc, x.X)
		si := e.m.structOf(x.X.Type())
		if si == nil {
			e.setVal(cur, x, e.fresh("extfield", e.m.sortOf(x.Type())))
			return
		}
		e.setVal(cur, x, fmt.Sprintf("(%s %s)", fieldCtor(si, x.Field), e.asTerm(base)))
	case *ssa.IndexAddr:
		base := e.value(fc, x.X)
		idx := e.asTerm(e.value(fc, x.Index))
		switch u := x.X.Type().Underlying().(type) {
		case *types.Slice:
			s := e.asTerm(base)
			e.safety(cur, "idx", fmt.Sprintf("(and (<= 0 %s) (< %s (sl_len %s)))", idx, idx, s), x.Pos(), "slice index in range")
			fc.vals[x] = term(e.define(x.Name(), "Addr", selemT(s, idx)), x.Type())
		case *types.Pointer:
			at := u.Elem().Underlying().(*types.Array)
			if base.K == vLocal {
				e.unsupportedf("indexing local array %s", base.Alloc.Comment)
				fc.vals[x] = term(e.fresh("arr", "Addr"), x.Type())
				return
			}
			a := e.asTerm(base)
			e.safety(cur, "idx", fmt.Sprintf("(and (<= 0 %s) (< %s %d))", idx, idx, at.Len()), x.Pos(), "array index in range")
			fc.vals[x] = term(fmt.Sprintf("(Elem %s %s)", a, idx), x.Type())
		default:
			e.unsupportedf("IndexAddr on %s", x.X.Type())
			fc.vals[x] = term(e.fresh("arr", "Addr"), x.Type())
		}
	case *ssa.Index:
		base := e.value(fc, x.X)
		idx := e.asTerm(e.value(fc, x.Index))
		switch x.X.Type().Underlying().(type) {
		case *types.Basic: // string
			s := e.asTerm(base)
			e.safety(cur, "idx", fmt.Sprintf("(and (<= 0 %s) (< %s (slen %s)))", idx, idx, s), x.Pos(), "string index in range")
			e.setVal(cur, x, fmt.Sprintf("(sat %s %s)", s, idx))
		case *types.Array:
			e.setVal(cur, x, fmt.Sprintf("(select %s %s)", e.asTerm(base), idx))
		default:
			e.unsupportedf("Index on %s", x.X.Type())
			e.setVal(cur, x, e.fresh("idx", e.m.sortOf(x.Type())))
		}
	case *ssa.Lookup:
		e.lookup(cur, x)
	case *ssa.Slice:
		e.slice(cur, x)
	case *ssa.MakeSlice:
		n := e.asTerm(e.value(fc, x.Len))
		c := e.asTerm(e.value(fc, x.Cap))
		e.safety(cur, "makeneg", fmt.Sprintf("(and (<= 0 %s) (<= %s %s))", n, n, c), x.Pos(), "make: 0 <= len <= cap")
		if e.contract != nil {
			for _, ab := range e.contract.AllocBounds {
				e.oblige(cur.guard, "makecap", fmt.Sprintf("%s#%d", ab.Label, e.ordinal("makecap:"+ab.Label)), fmt.Sprintf("(<= %s %s)", c, ab.N), ab.Props, x.Pos(), "make: capacity at most "+ab.N+" ("+ab.Label+")")
			}
		}
		a := e.allocAddr(cur)
		el := x.Type().Underlying().(*types.Slice).Elem()
		e.zeroFill(cur, a, el)
		e.setVal(cur, x, fmt.Sprintf("(mk_slice %s 0 %s %s)", a, n, c))
		e.freshAddrs[fc.vals[x].T] = true
	case *ssa.MakeMap:
		a := e.allocAddr(cur)
		mt := x.Type().Underlying().(*types.Map)
		dn, ds, _, _ := e.mapArrs(x.Type())
		ks := e.m.sortOf(mt.Key())
		e.heapSet(st, dn, ds, fmt.Sprintf("(store %s %s ((as const (Array %s Bool)) false))", e.heapGet(st, dn, ds), a, ks))
		e.setVal(cur, x, a)
	case *ssa.MapUpdate:
		mp := e.asTerm(e.value(fc, x.Map))
		k := e.asTerm(e.value(fc, x.Key))
		v := e.asTerm(e.value(fc, x.Value))
		if !isNonNilValue(x.Map) {
			e.safety(cur, "mapnil", fmt.Sprintf("(not (= %s Nil))", mp), x.Pos(), "assignment to entry in nil map")
		}
		e.elemStoreOblige(cur, v, x.Map.Type().Underlying().(*types.Map).Elem(), x.Pos(), "map value")
		dn, ds, vn, vs := e.mapArrs(x.Map.Type())
		d := e.heapGet(st, dn, ds)
		e.heapSet(st, dn, ds, fmt.Sprintf("(store %s %s (store (select %s %s) %s true))", d, mp, d, mp, k))
		vv := e.heapGet(st, vn, vs)
		e.heapSet(st, vn, vs, fmt.Sprintf("(store %s %s (store (select %s %s) %s %s))", vv, mp, vv, mp, k, v))
	case *ssa.MakeInterface:
		// no typed-nil pointers inside interfaces: proved where a pointer to a package-local struct is
		// boxed, assumed where such a pointer is recovered by a type assertion
		if pt, ok := x.X.Type().Underlying().(*types.Pointer); ok && e.m.structOf(pt.Elem()) != nil && isStruct(pt.Elem()) && !isNonNilValue(x.X) {
			e.safety(cur, "boxnil", fmt.Sprintf("(not (= %s Nil))", e.asTerm(e.value(fc, x.X))), x.Pos(), "a nil *"+pt.Elem().String()+" must not be stored in an interface")
		}
		e.publishCheck(cur, x.X, x.Pos(), "stored in an interface")
		// a struct value with a type invariant keeps it inside an interface: proved where it is boxed,
		// assumed where it is recovered by a type assertion
		if isStruct(x.X.Type()) && e.m.structOf(x.X.Type()) != nil {
			if inv := e.tinvTerm(st, e.asTerm(e.value(fc, x.X)), x.X.Type()); inv != "true" {
				e.oblige(cur.guard, "tinv", fmt.Sprintf("box#%d", e.ordinal(cur.fc.tag+"tinvbox")), inv, []string{"C01"}, x.Pos(), "type invariant of the "+x.X.Type().String()+" value stored in an interface")
			}
		}
		e.setVal(cur, x, e.box(e.value(fc, x.X), x.X.Type()))
	case *ssa.ChangeInterface:
		fc.vals[x] = term(e.asTerm(e.value(fc, x.X)), x.Type())
	case *ssa.ChangeType:
		v := e.value(fc, x.X)
		fc.vals[x] = term(e.asTerm(v), x.Type())
	case *ssa.Convert:
		e.convert(cur, x)
	case *ssa.TypeAssert:
		e.typeAssert(cur, x)
	case *ssa.Extract:
		t := e.value(fc, x.Tuple)
		if t.K != vTuple || x.Index >= len(t.Tuple) {
			e.unsupportedf("extract from non-tuple %s", x.Tuple.Name())
			e.setVal(cur, x, e.fresh("ext", e.m.sortOf(x.Type())))
			return
		}
		fc.vals[x] = t.Tuple[x.Index]
	case *ssa.Range:
		fc.vals[x] = Val{K: vTerm, T: "iter", Ty: x.Type()}
		if _, ok := x.X.Type().Underlying().(*types.Map); ok {
			mt := x.X.Type().Underlying().(*types.Map)
			st.iter[x] = fmt.Sprintf("((as const (Array %s Bool)) false)", e.m.sortOf(mt.Key()))
		} else {
			st.iter[x] = "0"
		}
	case *ssa.Next:
		e.next(cur, x)
	case *ssa.MakeClosure:
		fn := x.Fn.(*ssa.Function)
		var binds []Val
		for _, b := range x.Bindings {
			binds = append(binds, e.value(fc, b))
		}
		env := e.fresh("env", "Int")
		id := e.m.fnID[fn]
		fc.vals[x] = Val{K: vClosure, Fn: fn, Binds: binds, Ty: x.Type(), T: fmt.Sprintf("(FClos %d %s)", id, env)}
	case *ssa.Call:
		e.call(cur, x, &x.Call, x.Pos())
	case *ssa.Defer:
		fc.defers = append(fc.defers, deferred{&x.Call, cur.guard})
	case *ssa.RunDefers:
		for i := len(fc.defers) - 1; i >= 0; i-- {
			d := fc.defers[i]
			// a defer registered under guard d.guard runs iff that point was passed; in the
			// code under contract defers are registered unconditionally before any return of
			// their region, or the return sits in the same region. We run it when registered
			// on this path: guard implication is checked syntactically (prefix of guard chain).
			e.callDeferred(cur, d)
		}
	case *ssa.Go, *ssa.Send, *ssa.Select, *ssa.MakeChan:
		e.unsupportedf("%s: concurrency instruction %T", e.m.fnName[fc.fn], ins)
	default:
		if v, ok := ins.(ssa.Value); ok {
			e.unsupportedf("%s: unsupported instruction %T", e.m.fnName[fc.fn], ins)
			fc.vals[v] = term(e.fresh("unk", e.m.sortOf(v.Type())), v.Type())
		} else {
			e.unsupportedf("%s: unsupported instruction %T", e.m.fnName[fc.fn], ins)
		}
	}
}

func (e *Enc) noteAlloc(cur *cursor, x *ssa.Alloc) {
	e.nseq++
	cur.st.seen[x] = e.nseq
	fc := cur.fc
	if x.Comment == "" || fc.namedLoc == nil {
		return
	}
	for _, a := range fc.namedLoc[x.Comment] {
		if a == x {
			return
		}
	}
	fc.namedLoc[x.Comment] = append(fc.namedLoc[x.Comment], x)
}

func (e *Enc) zeroFill(cur *cursor, a string, el types.Type) {
	leaves := map[string]string{}
	if isStruct(el) {
		// per-leaf zero: only top-level non-struct fields (nested handled approximately)
		si := e.m.structOf(el)
		if si == nil {
			return
		}
		for i := 0; i < si.st.NumFields(); i++ {
			ft := si.st.Field(i).Type()
			if isStruct(ft) {
				continue
			}
			n, s := e.fieldArr(si, i)
			arr := e.heapGet(cur.st, n, s)
			e.assume(cur.guard, fmt.Sprintf("(forall ((zi Int)) (! (= (select %s (Elem %s zi)) %s) :pattern ((select %s (Elem %s zi)))))", arr, a, e.m.zero(ft), arr, a))
		}
		return
	}
	e.m.cellLeaves(el, leaves)
	for n, s := range leaves {
		arr := e.heapGet(cur.st, n, s)
		e.assume(cur.guard, fmt.Sprintf("(forall ((zi Int)) (! (= (select %s (Elem %s zi)) %s) :pattern ((select %s (Elem %s zi)))))", arr, a, e.m.zero(el), arr, a))
	}
}

func (e *Enc) mapArrs(t types.Type) (dn, ds, vn, vs string) {
	mt := t.Underlying().(*types.Map)
	k := e.m.typeKey(t)
	return "MD$" + k, "(Array " + e.m.sortOf(mt.Key()) + " Bool)", "MV$" + k, "(Array " + e.m.sortOf(mt.Key()) + " " + e.m.sortOf(mt.Elem()) + ")"
}

func (e *Enc) store(cur *cursor, addr, val Val, pos token.Pos, addrV ssa.Value) {
	st := cur.st
	if addr.K == vLocal && len(addr.Path) == 0 && val.K == vLocal && e.lazy[val.Alloc] {
		if _, done := st.mat[val.Alloc]; !done {
			// the address of a not-yet-materialised local is parked in a local pointer variable: no escape yet
			e.lazyRefs = append(e.lazyRefs, val)
			st.loc[addr.Alloc] = fmt.Sprintf("@lazy!%d", len(e.lazyRefs)-1)
			return
		}
	}
	vt := e.asTerm(val)
	switch addr.K {
	case vLocal:
		a := addr.Alloc
		at := a.Type().(*types.Pointer).Elem()
		curv, ok := st.loc[a]
		if !ok {
			curv = e.m.zero(at)
		}
		nv := e.update(curv, at, addr.Path, vt)
		_, lt := e.project("", at, nil)
		_ = lt
		st.loc[a] = e.define(a.Comment, e.m.sortOf(at), nv)
	case vFieldRef:
		if e.tinvName(addr.SI.named) != "" {
			e.tinvAssumeLoad(cur, addr.Base, addr.SI.named)
		}
		e.storeRuleOblige(cur, addr.Base, addr.SI.name+"."+addr.SI.st.Field(addr.Field).Name(), pos)
		n, s := e.fieldArr(addr.SI, addr.Field)
		e.heapSet(st, n, s, fmt.Sprintf("(store %s %s %s)", e.heapGet(st, n, s), addr.Base, vt))
		if !(e.isFreshAddr(addr.Base) && e.moreInitStores(cur, addrV)) {
			if e.tinvName(addr.SI.named) != "" {
				e.tinvObligeStore(cur, addr.Base, addr.SI.named, pos, addr.SI.name+"."+addr.SI.st.Field(addr.Field).Name())
			}
			for i, o := range addr.Outer {
				if i == len(addr.Outer)-1 {
					break // the immediate struct was handled above
				}
				if e.tinvName(o.ty) != "" {
					e.tinvObligeStore(cur, o.addr, o.ty, pos, "a field of "+o.ty.String())
				}
			}
		}
	default:
		a := e.asTerm(addr)
		pt := addr.Ty.Underlying().(*types.Pointer)
		if !isNonNilValue(addrV) {
			e.safety(cur, "nil", fmt.Sprintf("(not (= %s Nil))", a), pos, "nil dereference on store")
		}
		e.storeRuleOblige(cur, a, "*"+types.TypeString(pt.Elem(), func(*types.Package) string { return "" }), pos)
		e.storeAt(st, a, pt.Elem(), vt)
		if _, isVar := isLocalVarAlloc(addrV); isVar {
			return // checked when the variable's address is published
		}
		if ia, ok := addrV.(*ssa.IndexAddr); ok {
			if _, isSl := ia.X.Type().Underlying().(*types.Slice); isSl {
				e.elemStoreOblige(cur, vt, pt.Elem(), pos, "slice element")
			}
		}
		if isStruct(pt.Elem()) {
			e.tinvObligeStore(cur, a, pt.Elem(), pos, "*"+pt.Elem().String())
		}
		// a store through an interior pointer also has to re-establish the invariants of the enclosing structs
		if len(addr.Outer) > 0 && !(e.isFreshAddr(a) && e.moreInitStores(cur, addrV)) {
			for _, o := range addr.Outer {
				if e.tinvName(o.ty) != "" {
					e.tinvObligeStore(cur, o.addr, o.ty, pos, "a field of "+o.ty.String())
				}
			}
		}
	}
}

// moreInitStores: the store through addrV (a FieldAddr into a freshly allocated struct) is directly
// followed, in the same basic block and with no call in between, by another field store into the same
// struct: the value is still being initialised field by field (composite literal), so its type
// invariant is checked at the last store of the run only.
func (e *Enc) moreInitStores(cur *cursor, addrV ssa.Value) bool {
	fa, ok := addrV.(*ssa.FieldAddr)
	if !ok || cur.block == nil {
		return false
	}
	for _, ins := range cur.block.Instrs[cur.idx+1:] {
		switch x := ins.(type) {
		case *ssa.Store:
			if fb, ok := x.Addr.(*ssa.FieldAddr); ok && fb.X == fa.X {
				return true
			}
			return false
		case *ssa.FieldAddr, *ssa.UnOp, *ssa.Alloc, *ssa.Field, *ssa.IndexAddr, *ssa.Index, *ssa.BinOp, *ssa.Convert,
			*ssa.ChangeType, *ssa.Slice, *ssa.DebugRef, *ssa.Extract, *ssa.MakeInterface, *ssa.ChangeInterface, *ssa.MakeClosure:
			continue
		default:
			return false
		}
	}
	return false
}

func (e *Enc) unop(cur *cursor, x *ssa.UnOp) {
	fc, st := cur.fc, cur.st
	switch x.Op {
	case token.MUL:
		// load
		if g, ok := x.X.(*ssa.Global); ok {
			if gi := e.m.globals[g]; gi != nil && gi.readonly {
				switch gi.initKind {
				case "const":
					e.setVal(cur, x, e.m.constTerm(e, gi.initVal))
					return
				case "errnew":
					e.setVal(cur, x, fmt.Sprintf("(APtr %d (Glob %d))", e.m.tidKey("plainerror"), 1000+gi.id))
					return
				case "zero":
					e.setVal(cur, x, e.m.zero(x.Type()))
					return
				}
			}
		}
		addr := e.value(fc, x.X)
		switch addr.K {
		case vLocal:
			a := addr.Alloc
			at := a.Type().(*types.Pointer).Elem()
			curv, ok := st.loc[a]
			if !ok {
				e.unsupportedf("load of local %s before allocation on this path", a.Comment)
				curv = e.m.zero(at)
			}
			if strings.HasPrefix(curv, "@lazy!") && len(addr.Path) == 0 {
				fc.vals[x] = e.lazyRef(st, curv)
				return
			}
			v, _ := e.project(curv, at, addr.Path)
			e.setVal(cur, x, v)
		case vFieldRef:
			e.tinvAssumeLoad(cur, addr.Base, addr.SI.named)
			for _, o := range addr.Outer {
				if e.tinvName(o.ty) != "" {
					e.tinvAssumeLoad(cur, o.addr, o.ty)
				}
			}
			n, s := e.fieldArr(addr.SI, addr.Field)
			e.setVal(cur, x, fmt.Sprintf("(select %s %s)", e.heapGet(st, n, s), addr.Base))
			e.assume(cur.guard, e.typeAssumeFrom(st, e.heapGet(st, n, s), fc.vals[x].T, x.Type()))
		default:
			a := e.asTerm(addr)
			if !isNonNilValue(x.X) {
				e.safety(cur, "nil", fmt.Sprintf("(not (= %s Nil))", a), x.Pos(), "nil dereference on load")
			}
			if isStruct(x.Type()) {
				e.tinvAssumeLoad(cur, a, x.Type())
			}
			e.setVal(cur, x, e.loadAt(st, a, x.Type()))
			e.assume(cur.guard, e.typeAssume(st, fc.vals[x].T, x.Type()))
			if ia, ok := x.X.(*ssa.IndexAddr); ok {
				if _, isSl := ia.X.Type().Underlying().(*types.Slice); isSl {
					e.elemLoadAssume(cur, fc.vals[x].T, x.Type(), fmt.Sprintf("(sl_base %s)", e.asTerm(e.value(fc, ia.X))))
				}
			}
		}
	case token.NOT:
		e.setVal(cur, x, fmt.Sprintf("(not %s)", e.asTerm(e.value(fc, x.X))))
	case token.SUB:
		v := e.asTerm(e.value(fc, x.X))
		if e.m.sortOf(x.Type()) == "F64" {
			e.setVal(cur, x, fmt.Sprintf("(fneg %s)", v))
		} else {
			e.setVal(cur, x, e.wrap(fmt.Sprintf("(- %s)", v), x.Type()))
		}
	default:
		e.unsupportedf("unary operator %s", x.Op)
		e.setVal(cur, x, e.fresh("unop", e.m.sortOf(x.Type())))
	}
}

// wrap applies fixed-width wrap-around for small unsigned types; int/int64 are
// treated as mathematical integers (reported as an assumption).
func (e *Enc) wrap(t string, ty types.Type) string {
	if b, ok := ty.Underlying().(*types.Basic); ok {
		switch b.Kind() {
		case types.Uint8:
			return fmt.Sprintf("(mod %s 256)", t)
		case types.Uint16:
			return fmt.Sprintf("(mod %s 65536)", t)
		case types.Uint32:
			return fmt.Sprintf("(mod %s 4294967296)", t)
		}
	}
	return t
}

func (e *Enc) binop(cur *cursor, op token.Token, a, b Val, opTy, resTy types.Type, pos token.Pos) string {
	x, y := e.asTerm(a), e.asTerm(b)
	s := e.m.sortOf(opTy)
	switch s {
	case "Int":
		switch op {
		case token.ADD:
			return e.wrap(fmt.Sprintf("(+ %s %s)", x, y), resTy)
		case token.SUB:
			return e.wrap(fmt.Sprintf("(- %s %s)", x, y), resTy)
		case token.MUL:
			return e.wrap(fmt.Sprintf("(* %s %s)", x, y), resTy)
		case token.QUO:
			e.safety(cur, "div", fmt.Sprintf("(not (= %s 0))", y), pos, "integer division by zero")
			return fmt.Sprintf("(goquo %s %s)", x, y)
		case token.REM:
			e.safety(cur, "div", fmt.Sprintf("(not (= %s 0))", y), pos, "integer remainder by zero")
			return fmt.Sprintf("(gorem %s %s)", x, y)
		case token.EQL:
			return fmt.Sprintf("(= %s %s)", x, y)
		case token.NEQ:
			return fmt.Sprintf("(not (= %s %s))", x, y)
		case token.LSS:
			return fmt.Sprintf("(< %s %s)", x, y)
		case token.LEQ:
			return fmt.Sprintf("(<= %s %s)", x, y)
		case token.GTR:
			return fmt.Sprintf("(> %s %s)", x, y)
		case token.GEQ:
			return fmt.Sprintf("(>= %s %s)", x, y)
		}
		e.unsupportedf("integer operator %s", op)
		return e.fresh("bitop", e.m.sortOf(resTy))
	case "F64":
		switch op {
		case token.ADD:
			return fmt.Sprintf("(fadd %s %s)", x, y)
		case token.SUB:
			return fmt.Sprintf("(fsub %s %s)", x, y)
		case token.MUL:
			return fmt.Sprintf("(fmul %s %s)", x, y)
		case token.QUO:
			return fmt.Sprintf("(fdiv %s %s)", x, y)
		case token.EQL:
			return fmt.Sprintf("(feq %s %s)", x, y)
		case token.NEQ:
			return fmt.Sprintf("(not (feq %s %s))", x, y)
		case token.LSS:
			return fmt.Sprintf("(flt %s %s)", x, y)
		case token.LEQ:
			return fmt.Sprintf("(fle %s %s)", x, y)
		case token.GTR:
			return fmt.Sprintf("(fgt %s %s)", x, y)
		case token.GEQ:
			return fmt.Sprintf("(fge %s %s)", x, y)
		}
	case "Str":
		switch op {
		case token.ADD:
			return fmt.Sprintf("(scat %s %s)", x, y)
		case token.EQL:
			return fmt.Sprintf("(seq %s %s)", x, y)
		case token.NEQ:
			return fmt.Sprintf("(not (seq %s %s))", x, y)
		case token.LSS:
			return fmt.Sprintf("(< (scmp %s %s) 0)", x, y)
		case token.LEQ:
			return fmt.Sprintf("(<= (scmp %s %s) 0)", x, y)
		case token.GTR:
			return fmt.Sprintf("(> (scmp %s %s) 0)", x, y)
		case token.GEQ:
			return fmt.Sprintf("(>= (scmp %s %s) 0)", x, y)
		}
	case "Bool":
		switch op {
		case token.EQL:
			return fmt.Sprintf("(= %s %s)", x, y)
		case token.NEQ:
			return fmt.Sprintf("(not (= %s %s))", x, y)
		}
	default:
		switch op {
		case token.EQL:
			return fmt.Sprintf("(= %s %s)", x, y)
		case token.NEQ:
			return fmt.Sprintf("(not (= %s %s))", x, y)
		}
	}
	e.unsupportedf("operator %s on %s", op, opTy)
	return e.fresh("binop", e.m.sortOf(resTy))
}

func (e *Enc) box(v Val, t types.Type) string {
	if _, ok := t.Underlying().(*types.Interface); ok {
		return e.asTerm(v)
	}
	tid := e.m.tid(t)
	x := e.asTerm(v)
	switch e.m.sortOf(t) {
	case "Addr":
		if _, ok := t.Underlying().(*types.Map); ok {
			return fmt.Sprintf("(AMap %d %s)", tid, x)
		}
		return fmt.Sprintf("(APtr %d %s)", tid, x)
	case "Str":
		return fmt.Sprintf("(AStr %d %s)", tid, x)
	case "Bool":
		return fmt.Sprintf("(ABool %d %s)", tid, x)
	case "F64":
		return fmt.Sprintf("(AF64 %d %s)", tid, x)
	case "Int":
		return fmt.Sprintf("(AInt %d %s)", tid, x)
	case "Slice":
		return fmt.Sprintf("(ASlice %d %s)", tid, x)
	case "Fn":
		return fmt.Sprintf("(AFn %d %s)", tid, x)
	}
	s := e.m.sortOf(t)
	if strings.HasPrefix(s, "S$") {
		return fmt.Sprintf("(ABox %d (box%s %s))", tid, s[1:], x)
	}
	return fmt.Sprintf("(ABox %d 0)", tid)
}

// isType: formula that interface term a holds dynamic type t.
func (e *Enc) isType(a string, t types.Type) string {
	tid := e.m.tid(t)
	switch e.m.sortOf(t) {
	case "Addr":
		if _, ok := t.Underlying().(*types.Map); ok {
			return fmt.Sprintf("(and ((_ is AMap) %s) (= (amap_t %s) %d))", a, a, tid)
		}
		return fmt.Sprintf("(and ((_ is APtr) %s) (= (aptr_t %s) %d))", a, a, tid)
	case "Str":
		return fmt.Sprintf("(and ((_ is AStr) %s) (= (astr_t %s) %d))", a, a, tid)
	case "Bool":
		return fmt.Sprintf("(and ((_ is ABool) %s) (= (abool_t %s) %d))", a, a, tid)
	case "F64":
		return fmt.Sprintf("(and ((_ is AF64) %s) (= (af64_t %s) %d))", a, a, tid)
	case "Int":
		return fmt.Sprintf("(and ((_ is AInt) %s) (= (aint_t %s) %d))", a, a, tid)
	case "Slice":
		return fmt.Sprintf("(and ((_ is ASlice) %s) (= (asl_t %s) %d))", a, a, tid)
	case "Fn":
		return fmt.Sprintf("(and ((_ is AFn) %s) (= (afn_t %s) %d))", a, a, tid)
	}
	return fmt.Sprintf("(and ((_ is ABox) %s) (= (abox_t %s) %d))", a, a, tid)
}

func (e *Enc) unbox(a string, t types.Type) string {
	switch e.m.sortOf(t) {
	case "Addr":
		if _, ok := t.Underlying().(*types.Map); ok {
			return fmt.Sprintf("(amap_v %s)", a)
		}
		return fmt.Sprintf("(aptr_a %s)", a)
	case "Str":
		return fmt.Sprintf("(astr_v %s)", a)
	case "Bool":
		return fmt.Sprintf("(abool_v %s)", a)
	case "F64":
		return fmt.Sprintf("(af64_v %s)", a)
	case "Int":
		return fmt.Sprintf("(aint_v %s)", a)
	case "Slice":
		return fmt.Sprintf("(asl_v %s)", a)
	case "Fn":
		return fmt.Sprintf("(afn_v %s)", a)
	}
	s := e.m.sortOf(t)
	if strings.HasPrefix(s, "S$") {
		for _, b := range e.m.ifaceStructs {
			if b == s {
				return fmt.Sprintf("(unbox%s (abox_id %s))", s[1:], a)
			}
		}
	}
	return e.fresh("unboxed", s)
}

func (e *Enc) typeAssert(cur *cursor, x *ssa.TypeAssert) {
	fc := cur.fc
	a := e.asTerm(e.value(fc, x.X))
	if _, ok := x.AssertedType.Underlying().(*types.Interface); ok {
		// interface-to-interface: succeeds iff non-nil and the dynamic type implements it
		okT := e.fresh("implements", "Bool")
		ok := fmt.Sprintf("(and (not (= %s ANil)) %s)", a, okT)
		if x.CommaOk {
			fc.vals[x] = Val{K: vTuple, Tuple: []Val{term(fmt.Sprintf("(ite %s %s ANil)", ok, a), x.AssertedType), term(ok, types.Typ[types.Bool])}}
		} else {
			e.safety(cur, "assert", ok, x.Pos(), "interface conversion")
			fc.vals[x] = term(a, x.AssertedType)
		}
		return
	}
	ok := e.define("isT", "Bool", e.isType(a, x.AssertedType))
	val := e.unbox(a, x.AssertedType)
	if ta := e.typeAssume(cur.st, val, x.AssertedType); ta != "true" {
		e.assume(cur.guard, fmt.Sprintf("(=> %s %s)", ok, ta))
	}
	if pt, isP := x.AssertedType.Underlying().(*types.Pointer); isP && e.m.structOf(pt.Elem()) != nil && isStruct(pt.Elem()) {
		e.assume(cur.guard, fmt.Sprintf("(=> %s (not (= %s Nil)))", ok, val))
	}
	if isStruct(x.AssertedType) && e.m.structOf(x.AssertedType) != nil {
		if inv := e.tinvTerm(cur.st, val, x.AssertedType); inv != "true" {
			e.assume(cur.guard, fmt.Sprintf("(=> %s %s)", ok, inv))
		}
	}
	if x.CommaOk {
		v := e.define(x.Name(), e.m.sortOf(x.AssertedType), fmt.Sprintf("(ite %s %s %s)", ok, val, e.m.zero(x.AssertedType)))
		fc.vals[x] = Val{K: vTuple, Tuple: []Val{term(v, x.AssertedType), term(ok, types.Typ[types.Bool])}}
		return
	}
	e.safety(cur, "assert", ok, x.Pos(), "type assertion to "+x.AssertedType.String())
	fc.vals[x] = term(e.define(x.Name(), e.m.sortOf(x.AssertedType), val), x.AssertedType)
}

func (e *Enc) convert(cur *cursor, x *ssa.Convert) {
	fc := cur.fc
	v := e.asTerm(e.value(fc, x.X))
	from, to := e.m.sortOf(x.X.Type()), e.m.sortOf(x.Type())
	switch {
	case from == "Int" && to == "Int":
		e.setVal(cur, x, e.wrapConv(v, x.X.Type(), x.Type()))
	case from == "Int" && to == "F64":
		e.setVal(cur, x, fmt.Sprintf("(i2f %s)", v))
	case from == "F64" && to == "Int":
		e.setVal(cur, x, fmt.Sprintf("(f2i %s)", v))
	case from == "F64" && to == "F64":
		e.setVal(cur, x, v)
	case from == "Int" && to == "Str":
		// string(rune) / string(byte)
		if b, ok := x.X.Type().Underlying().(*types.Basic); ok && b.Kind() == types.Uint8 {
			e.setVal(cur, x, fmt.Sprintf("(srune %s)", v))
		} else {
			e.setVal(cur, x, fmt.Sprintf("(srune %s)", v))
		}
	case from == "Str" && to == "Str":
		e.setVal(cur, x, v)
	case from == "Slice" && to == "Str":
		// string([]byte): contents of the slice as a string
		e.setVal(cur, x, e.bytesToStr(cur, v, x.X.Type().Underlying().(*types.Slice).Elem()))
	case from == "Str" && to == "Slice":
		e.unsupportedf("[]byte(string) conversion")
		e.setVal(cur, x, e.fresh("conv", to))
	case from == "Addr" && to == "Addr":
		e.setVal(cur, x, v)
	default:
		e.unsupportedf("conversion %s -> %s", x.X.Type(), x.Type())
		e.setVal(cur, x, e.fresh("conv", to))
	}
}

// bytesToStr models string(b) for b []byte: a fresh string with the same length and bytes.
func (e *Enc) bytesToStr(cur *cursor, sl string, elem types.Type) string {
	s := e.fresh("bstr", "Str")
	an, as := e.cellArr(elem)
	arr := e.heapGet(cur.st, an, as)
	e.assume(cur.guard, fmt.Sprintf("(= (slen %s) (sl_len %s))", s, sl))
	e.assume(cur.guard, fmt.Sprintf("(forall ((k Int)) (! (=> (and (<= 0 k) (< k (sl_len %s))) (= (sat %s k) (select %s (selem (sl_base %s) (sl_off %s) k)))) :pattern ((sat %s k))))", sl, s, arr, sl, sl, s))
	return s
}

func (e *Enc) wrapConv(v string, from, to types.Type) string {
	fb, ok1 := from.Underlying().(*types.Basic)
	tb, ok2 := to.Underlying().(*types.Basic)
	if !ok1 || !ok2 {
		return v
	}
	size := func(b *types.Basic) (bits int, signed bool) {
		switch b.Kind() {
		case types.Int8:
			return 8, true
		case types.Int16:
			return 16, true
		case types.Int32:
			return 32, true
		case types.Int, types.Int64:
			return 64, true
		case types.Uint8:
			return 8, false
		case types.Uint16:
			return 16, false
		case types.Uint32:
			return 32, false
		case types.Uint, types.Uint64, types.Uintptr:
			return 64, false
		}
		return 64, true
	}
	fbits, fs := size(fb)
	tbits, ts := size(tb)
	if fs == ts && tbits >= fbits {
		return v
	}
	if !fs && ts && tbits > fbits {
		return v
	}
	if !ts {
		return fmt.Sprintf("(mod %s %s)", v, pow2(tbits))
	}
	// signed narrowing / unsigned->signed of same width: two's complement
	return fmt.Sprintf("(- (mod (+ %s %s) %s) %s)", v, pow2(tbits-1), pow2(tbits), pow2(tbits-1))
}

func pow2(n int) string {
	switch n {
	case 7:
		return "128"
	case 8:
		return "256"
	case 15:
		return "32768"
	case 16:
		return "65536"
	case 31:
		return "2147483648"
	case 32:
		return "4294967296"
	case 63:
		return "9223372036854775808"
	case 64:
		return "18446744073709551616"
	}
	return "1"
}

func (e *Enc) lookup(cur *cursor, x *ssa.Lookup) {
	fc, st := cur.fc, cur.st
	base := e.asTerm(e.value(fc, x.X))
	k := e.asTerm(e.value(fc, x.Index))
	if _, ok := x.X.Type().Underlying().(*types.Map); !ok {
		// string index
		e.safety(cur, "idx", fmt.Sprintf("(and (<= 0 %s) (< %s (slen %s)))", k, k, base), x.Pos(), "string index in range")
		e.setVal(cur, x, fmt.Sprintf("(sat %s %s)", base, k))
		return
	}
	mt := x.X.Type().Underlying().(*types.Map)
	dn, ds, vn, vs := e.mapArrs(x.X.Type())
	present := e.define("present", "Bool", fmt.Sprintf("(and (not (= %s Nil)) (select (select %s %s) %s))", base, e.heapGet(st, dn, ds), base, k))
	val := e.define("mval", e.m.sortOf(mt.Elem()), fmt.Sprintf("(ite %s (select (select %s %s) %s) %s)", present, e.heapGet(st, vn, vs), base, k, e.m.zero(mt.Elem())))
	e.assume(cur.guard, e.typeAssumeFrom(st, e.heapGet(st, vn, vs), val, mt.Elem()))
	if e.elemNonNil(mt.Elem()) && !e.isFreshAddr(base) {
		e.assume(cur.guard, fmt.Sprintf("(=> %s (not (= %s %s)))", present, val, e.nilOfType(mt.Elem())))
	}
	if x.CommaOk {
		fc.vals[x] = Val{K: vTuple, Tuple: []Val{term(val, mt.Elem()), term(present, types.Typ[types.Bool])}}
	} else {
		fc.vals[x] = term(val, mt.Elem())
	}
}

func (e *Enc) slice(cur *cursor, x *ssa.Slice) {
	fc := cur.fc
	base := e.value(fc, x.X)
	opt := func(v ssa.Value, def string) string {
		if v == nil {
			return def
		}
		return e.asTerm(e.value(fc, v))
	}
	switch u := x.X.Type().Underlying().(type) {
	case *types.Basic:
		s := e.asTerm(base)
		lo := opt(x.Low, "0")
		hi := opt(x.High, fmt.Sprintf("(slen %s)", s))
		e.safety(cur, "slice", fmt.Sprintf("(and (<= 0 %s) (<= %s %s) (<= %s (slen %s)))", lo, lo, hi, hi, s), x.Pos(), "string slice bounds")
		e.setVal(cur, x, fmt.Sprintf("(ssub %s %s %s)", s, lo, hi))
	case *types.Slice:
		s := e.asTerm(base)
		lo := opt(x.Low, "0")
		hi := opt(x.High, fmt.Sprintf("(sl_len %s)", s))
		mx := opt(x.Max, fmt.Sprintf("(sl_cap %s)", s))
		e.safety(cur, "slice", fmt.Sprintf("(and (<= 0 %s) (<= %s %s) (<= %s %s) (<= %s (sl_cap %s)))", lo, lo, hi, hi, mx, mx, s), x.Pos(), "slice bounds")
		e.setVal(cur, x, fmt.Sprintf("(mk_slice (sl_base %s) (+ (sl_off %s) %s) (- %s %s) (- %s %s))", s, s, lo, hi, lo, mx, lo))
	case *types.Pointer:
		at := u.Elem().Underlying().(*types.Array)
		a := e.asTerm(base)
		n := fmt.Sprint(at.Len())
		lo := opt(x.Low, "0")
		hi := opt(x.High, n)
		e.safety(cur, "slice", fmt.Sprintf("(and (<= 0 %s) (<= %s %s) (<= %s %s))", lo, lo, hi, hi, n), x.Pos(), "array slice bounds")
		e.setVal(cur, x, fmt.Sprintf("(mk_slice %s %s (- %s %s) (- %s %s))", a, lo, hi, lo, n, lo))
	default:
		e.unsupportedf("slice of %s", x.X.Type())
		e.setVal(cur, x, e.fresh("slice", e.m.sortOf(x.Type())))
	}
}

func (e *Enc) next(cur *cursor, x *ssa.Next) {
	fc, st := cur.fc, cur.st
	r, ok := x.Iter.(*ssa.Range)
	if !ok {
		e.unsupportedf("next on non-range iterator")
		return
	}
	tt := x.Type().(*types.Tuple)
	if x.IsString {
		s := e.asTerm(e.value(fc, r.X))
		pos, ok := st.iter[r]
		if !ok {
			e.unsupportedf("iterator state lost")
			pos = e.fresh("iter", "Int")
		}
		okT := e.define("ok", "Bool", fmt.Sprintf("(< %s (slen %s))", pos, s))
		rn := e.fresh("rune", "Int")
		w := e.fresh("width", "Int")
		b0 := fmt.Sprintf("(sat %s %s)", s, pos)
		e.assume(cur.guard, fmt.Sprintf("(=> %s (and (=> (< %s 128) (and (= %s %s) (= %s 1))) (=> (>= %s 128) (and (>= %s 128) (<= %s 1114111) (<= 1 %s) (<= %s 4) (<= (+ %s %s) (slen %s)) (=> (> %s 1) (and (>= %s 194) (>= (sat %s (+ %s 1)) 128) (< (sat %s (+ %s 1)) 192)))))))", okT, b0, rn, b0, w, b0, rn, rn, w, w, pos, w, s, w, b0, s, pos, s, pos))
		st.iter[r] = e.define("iter", "Int", fmt.Sprintf("(ite %s (+ %s %s) %s)", okT, pos, w, pos))
		fc.vals[x] = Val{K: vTuple, Tuple: []Val{term(okT, tt.At(0).Type()), term(pos, tt.At(1).Type()), term(rn, tt.At(2).Type())}}
		return
	}
	// map iteration in arbitrary order over not-yet-visited keys
	mt := r.X.Type().Underlying().(*types.Map)
	mp := e.asTerm(e.value(fc, r.X))
	dn, ds, vn, vs := e.mapArrs(r.X.Type())
	ks := e.m.sortOf(mt.Key())
	visited, ok := st.iter[r]
	if !ok {
		visited = e.fresh("iter", "(Array "+ks+" Bool)")
	}
	dom := fmt.Sprintf("(select %s %s)", e.heapGet(st, dn, ds), mp)
	okT := e.fresh("ok", "Bool")
	k := e.fresh("key", ks)
	e.assume(cur.guard, fmt.Sprintf("(=> %s (and (not (= %s Nil)) (select %s %s) (not (select %s %s))))", okT, mp, dom, k, visited, k))
	e.assume(cur.guard, fmt.Sprintf("(=> (not %s) (or (= %s Nil) (forall ((kk %s)) (! (=> (select %s kk) (select %s kk)) :pattern ((select %s kk))))))", okT, mp, ks, dom, visited, visited))
	v := e.define("mval", e.m.sortOf(mt.Elem()), fmt.Sprintf("(select (select %s %s) %s)", e.heapGet(st, vn, vs), mp, k))
	e.assume(cur.guard, e.typeAssume(st, v, mt.Elem()))
	if e.elemNonNil(mt.Elem()) && !e.isFreshAddr(mp) {
		e.assume(cur.guard, fmt.Sprintf("(=> %s (not (= %s %s)))", okT, v, e.nilOfType(mt.Elem())))
	}
	st.iter[r] = e.define("iter", "(Array "+ks+" Bool)", fmt.Sprintf("(ite %s (store %s %s true) %s)", okT, visited, k, visited))
	fc.vals[x] = Val{K: vTuple, Tuple: []Val{term(okT, tt.At(0).Type()), term(k, tt.At(1).Type()), term(v, tt.At(2).Type())}}
}

// storeRuleOblige generates, for each storesonly rule of the function under verification, the obligation
// that this store (by the function's own body or an inlined callee) goes to an object allocated during the
// call or to an allowed field.
func (e *Enc) storeRuleOblige(cur *cursor, base, what string, pos token.Pos) {
	if e.contract == nil || len(e.contract.StoresOnly) == 0 {
		return
	}
	for _, r := range e.contract.StoresOnly {
		if r.Allowed[what] {
			continue
		}
		goal := "false"
		if r.Allowed["fresh"] {
			if e.isFreshAddr(base) {
				continue
			}
			goal = fmt.Sprintf("(>= (rootid %s) $alloc@in)", base)
		}
		tag := "stores:" + r.Label
		e.oblige(cur.guard, "stores", fmt.Sprintf("%s#%d", r.Label, e.ordinal(tag)), goal, r.Props, pos, "the function itself stores only to: "+r.Src+" (store to "+what+")")
	}
}

// initBuilder: the zero strings.Builder holds the empty text.
func (e *Enc) initBuilder(st *State, a string, et types.Type) {
	if n, ok := et.(*types.Named); ok && n.Obj().Pkg() != nil && n.Obj().Pkg().Path() == "strings" && n.Obj().Name() == "Builder" {
		e.heapSet(st, "M$builder", "Str", fmt.Sprintf("(store %s %s sempty)", e.heapGet(st, "M$builder", "Str"), a))
	}
}
