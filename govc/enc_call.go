package main

// Calls: builtins, library models, contracts, inlining; top-level verification of a function.

import (
	"fmt"
	"go/token"
	"go/types"
	"strings"

	"golang.org/x/tools/go/ssa"
)

const maxInlineDepth = 4

func (e *Enc) setResults(cur *cursor, v ssa.Value, sig *types.Signature, rs []string) {
	if v == nil {
		return
	}
	res := sig.Results()
	switch res.Len() {
	case 0:
		cur.fc.vals[v] = Val{K: vTuple}
	case 1:
		cur.fc.vals[v] = term(rs[0], res.At(0).Type())
	default:
		var t []Val
		for i := 0; i < res.Len(); i++ {
			t = append(t, term(rs[i], res.At(i).Type()))
		}
		cur.fc.vals[v] = Val{K: vTuple, Tuple: t}
	}
}

func (e *Enc) freshResults(cur *cursor, sig *types.Signature, prefix string) []string {
	var rs []string
	for i := 0; i < sig.Results().Len(); i++ {
		t := sig.Results().At(i).Type()
		f := e.fresh(prefix, e.m.sortOf(t))
		e.assume(cur.guard, e.typeAssume(cur.st, f, t))
		rs = append(rs, f)
	}
	n := sig.Results().Len()
	for i := 0; i < n; i++ {
		t := sig.Results().At(i).Type()
		if !e.hasTinv(t) {
			continue
		}
		inv := e.tinvTerm(cur.st, rs[i], t)
		// Go convention: with a non-nil trailing error the other results are not meaningful
		if i < n-1 && e.m.sortOf(sig.Results().At(n-1).Type()) == "Any" {
			inv = fmt.Sprintf("(=> (= %s ANil) %s)", rs[n-1], inv)
		}
		e.assume(cur.guard, inv)
	}
	return rs
}

// varargs: elements of a slice built by the compiler from `new [N]T` (variadic call)
func (e *Enc) sliceElems(cur *cursor, v ssa.Value) ([]string, types.Type, bool) {
	sl, ok := v.(*ssa.Slice)
	if !ok {
		if c, ok := v.(*ssa.Const); ok && c.Value == nil {
			return nil, nil, true // nil slice: no elements
		}
		return nil, nil, false
	}
	al, ok := sl.X.(*ssa.Alloc)
	if !ok || sl.Low != nil || sl.High != nil {
		return nil, nil, false
	}
	at, ok := al.Type().(*types.Pointer).Elem().Underlying().(*types.Array)
	if !ok {
		return nil, nil, false
	}
	a := e.asTerm(e.value(cur.fc, al))
	var out []string
	for i := int64(0); i < at.Len(); i++ {
		out = append(out, e.loadAt(cur.st, fmt.Sprintf("(Elem %s %d)", a, i), at.Elem()))
	}
	return out, at.Elem(), true
}

func (e *Enc) newError(cur *cursor) string {
	a := e.allocAddr(cur)
	return fmt.Sprintf("(APtr %d %s)", e.m.tidKey("plainerror"), a)
}

func (m *Model) tidKey(k string) int {
	if id, ok := m.tids[k]; ok {
		return id
	}
	id := len(m.tidName)
	m.tids[k] = id
	m.tidName = append(m.tidName, k)
	return id
}

func (e *Enc) call(cur *cursor, v ssa.Value, c *ssa.CallCommon, pos token.Pos) {
	fc := cur.fc
	sig := c.Signature()
	// builtins
	if b, ok := c.Value.(*ssa.Builtin); ok {
		e.builtin(cur, v, b, c, pos)
		return
	}
	var args []Val
	if c.IsInvoke() {
		args = append(args, e.value(fc, c.Value))
	}
	for _, a := range c.Args {
		av := e.value(fc, a)
		if av.K == vLocal && e.lazy[av.Alloc] {
			// the address of a lazily allocated local variable is passed: it escapes here
			e.cur = cur
			e.materialize(cur, av.Alloc)
			av = e.resolveLocal(cur.st, av)
		}
		args = append(args, av)
	}
	if c.IsInvoke() {
		e.invoke(cur, v, c, args, pos)
		return
	}
	callee := c.StaticCallee()
	var binds []Val
	if callee == nil {
		fv := e.value(fc, c.Value)
		if fv.K == vClosure {
			callee, binds = fv.Fn, fv.Binds
		} else if fv.K == vFunc {
			callee = fv.Fn
		}
	} else if mc, ok := c.Value.(*ssa.MakeClosure); ok {
		fv := e.value(fc, mc)
		binds = fv.Binds
	}
	if callee == nil {
		e.dynamicCall(cur, v, c, args, pos)
		return
	}
	e.staticCall(cur, v, callee, binds, args, sig, pos, c)
}

func (e *Enc) staticCall(cur *cursor, v ssa.Value, callee *ssa.Function, binds []Val, args []Val, sig *types.Signature, pos token.Pos, c *ssa.CallCommon) {
	name, local := e.m.fnName[callee]
	if !local {
		if e.contract != nil {
			for _, r := range e.contract.Externals {
				if !r.Allowed[callee.String()] {
					e.oblige(cur.guard, "extern", fmt.Sprintf("%s#%d", r.Label, e.ordinal("extern:"+r.Label)), "false", r.Props, pos, "call to "+callee.String()+", which is not among the library functions this function may use: "+r.Src)
				}
			}
		}
		e.siteClauses(cur, callee.String(), args, pos)
		if e.external(cur, v, callee, args, sig, pos, c) {
			e.ghostAfter(cur, callee.String(), args, v)
			return
		}
		e.havocked[callee.String()] = true
		e.havocCall(cur, v, callee, sig)
		e.ghostAfter(cur, callee.String(), args, v)
		return
	}
	e.siteClauses(cur, name, args, pos)
	if ct, ok := e.m.spec.Contracts[name]; ok && !(cur.fc.isTop && callee == cur.fc.fn && false) {
		e.applyContract(cur, v, name, callee, ct, args, sig, pos)
		e.ghostAfter(cur, name, args, v)
		return
	}
	if cur.fc.depth < maxInlineDepth && !e.onStack(cur.fc, callee) && callee.Blocks != nil && e.inlinable(callee) {
		e.inlineCall(cur, v, callee, binds, args, sig)
		e.ghostAfter(cur, name, args, v)
		return
	}
	e.havocked[name] = true
	e.havocCall(cur, v, callee, sig)
	e.ghostAfter(cur, name, args, v)
}

// inlinable: only small functions are inlined; larger ones without a contract are havocked
// within their write set (and reported under havocked_callees).
const maxInlineInstrs = 120

func (e *Enc) inlinable(f *ssa.Function) bool {
	n := 0
	for _, b := range f.Blocks {
		n += len(b.Instrs)
	}
	return n <= maxInlineInstrs
}

func (e *Enc) onStack(fc *fctx, f *ssa.Function) bool {
	return strings.Contains(fc.tag, "/"+e.m.fnName[f]+"/") || fc.fn == f
}

// havocCall: unknown effect limited to the callee's computed write set.
func (e *Enc) havocCall(cur *cursor, v ssa.Value, callee *ssa.Function, sig *types.Signature) {
	eff := e.m.funcEffects(callee)
	pre := cur.st.clone()
	e.havocEffects(cur.st, eff, cur.guard)
	e.preservePrivateSlices(cur, pre)
	e.setResults(cur, v, sig, e.freshResults(cur, sig, "ret_"+callee.Name()))
}

func (e *Enc) dynamicCall(cur *cursor, v ssa.Value, c *ssa.CallCommon, args []Val, pos token.Pos) {
	sig := c.Signature()
	fv := e.asTerm(e.value(cur.fc, c.Value))
	e.thisfn = fv
	defer func() { e.thisfn = "" }()
	e.safety(cur, "nil", fmt.Sprintf("(not (= %s FNil))", fv), pos, "call of nil function value")
	// function-type contract by role: looked up by the field / variable the value was loaded from
	role := e.funcRole(c.Value)
	if ct, ok := e.m.spec.FuncTypes[role]; ok {
		e.applyContractSig(cur, v, "functype:"+role, nil, ct, args, sig, pos, e.dynEffects(c))
		return
	}
	e.havocked["dynamic call via "+role] = true
	e.havocEffects(cur.st, e.dynEffects(c), cur.guard)
	e.setResults(cur, v, sig, e.freshResults(cur, sig, "dyn"))
}

func (e *Enc) dynEffects(c *ssa.CallCommon) *Effects {
	eff := newEffects()
	eff.ghost["$alloc"] = true
	for _, f := range e.m.callees(c) {
		eff.add(e.m.funcEffects(f))
	}
	return eff
}

func (e *Enc) funcRole(v ssa.Value) string {
	switch x := v.(type) {
	case *ssa.UnOp:
		if fa, ok := x.X.(*ssa.FieldAddr); ok {
			st := fa.X.Type().Underlying().(*types.Pointer).Elem()
			if si := e.m.structOf(st); si != nil {
				return si.name + "." + si.st.Field(fa.Field).Name()
			}
		}
	case *ssa.Field:
		if si := e.m.structOf(x.X.Type()); si != nil {
			return si.name + "." + si.st.Field(x.Field).Name()
		}
	}
	return v.Type().String()
}

func (e *Enc) invoke(cur *cursor, v ssa.Value, c *ssa.CallCommon, args []Val, pos token.Pos) {
	sig := c.Signature()
	recv := e.asTerm(args[0])
	e.safety(cur, "nil", fmt.Sprintf("(not (= %s ANil))", recv), pos, "method call on nil interface")
	mname := c.Method.Name()
	// pure accessor methods modelled as uninterpreted functions of the receiver
	switch mname {
	case "Error", "String":
		if sig.Results().Len() == 1 && e.m.sortOf(sig.Results().At(0).Type()) == "Str" {
			fn := "im_" + mname
			e.declFun(fn, []string{"Any"}, "Str")
			e.setResults(cur, v, sig, []string{fmt.Sprintf("(%s %s)", fn, recv)})
			return
		}
	}
	if mname == "Token" && sig.Results().Len() == 1 && sig.Params().Len() == 0 {
		// the position accessor of AST nodes: a function of the node (nodes are never modified after they
		// are built: evaluation is proved not to write AST fields, and the parser only fills fresh nodes)
		rs := e.m.sortOf(sig.Results().At(0).Type())
		e.declFun("im_Token", []string{"Any"}, rs)
		t := fmt.Sprintf("(im_Token %s)", recv)
		e.setResults(cur, v, sig, []string{t})
		if ta := e.tinvTerm(cur.st, t, sig.Results().At(0).Type()); ta != "true" {
			e.assume(cur.guard, ta)
		}
		if ty := e.typeAssume(cur.st, t, sig.Results().At(0).Type()); ty != "true" {
			e.assume(cur.guard, ty)
		}
		e.assumedCallees["AST accessor Token() is a function of the node"] = true
		return
	}
	role := "method:" + mname
	if ct, ok := e.m.spec.FuncTypes[role]; ok {
		e.applyContractSig(cur, v, role, nil, ct, args, sig, pos, e.dynEffects(c))
		return
	}
	cs := e.m.callees(c)
	if len(cs) > 0 {
		// all implementations side-effect free and tiny (Token() accessors): result unconstrained
		eff := e.dynEffects(c)
		if len(eff.allHeap()) == 0 {
			e.setResults(cur, v, sig, e.freshResults(cur, sig, "inv_"+mname))
			return
		}
		e.havocEffects(cur.st, eff, cur.guard)
		e.setResults(cur, v, sig, e.freshResults(cur, sig, "inv_"+mname))
		return
	}
	e.havocked["interface method "+mname] = true
	e.setResults(cur, v, sig, e.freshResults(cur, sig, "inv_"+mname))
}

func (e *Enc) declFun(name string, args []string, res string) {
	if e.declared["fun:"+name] || name == "im_Error" {
		return
	}
	e.declared["fun:"+name] = true
	e.declare(fmt.Sprintf("(declare-fun %s (%s) %s)", name, strings.Join(args, " "), res))
}

// ---------------------------------------------------------------- builtins

func (e *Enc) builtin(cur *cursor, v ssa.Value, b *ssa.Builtin, c *ssa.CallCommon, pos token.Pos) {
	fc, st := cur.fc, cur.st
	switch b.Name() {
	case "len":
		x := e.value(fc, c.Args[0])
		switch e.m.sortOf(c.Args[0].Type()) {
		case "Str":
			e.setVal(cur, v, fmt.Sprintf("(slen %s)", e.asTerm(x)))
		case "Slice":
			e.setVal(cur, v, fmt.Sprintf("(sl_len %s)", e.asTerm(x)))
		case "Addr":
			if mt, ok := c.Args[0].Type().Underlying().(*types.Map); ok {
				dn, ds, _, _ := e.mapArrs(c.Args[0].Type())
				ks := e.m.sortOf(mt.Key())
				e.needCard(ks)
				m := e.asTerm(x)
				e.setVal(cur, v, fmt.Sprintf("(ite (= %s Nil) 0 (mcard_%s (select %s %s)))", m, sanitize(ks), e.heapGet(st, dn, ds), m))
				return
			}
			fallthrough
		default:
			e.unsupportedf("len of %s", c.Args[0].Type())
			e.setVal(cur, v, e.fresh("len", "Int"))
		}
	case "cap":
		e.setVal(cur, v, fmt.Sprintf("(sl_cap %s)", e.asTerm(e.value(fc, c.Args[0]))))
	case "append":
		e.appendCall(cur, v, c, pos)
	case "delete":
		// delete(m, k): k leaves the domain of m (a no-op on a nil map); the stale value is unobservable
		mp := e.asTerm(e.value(fc, c.Args[0]))
		k := e.asTerm(e.value(fc, c.Args[1]))
		dn, ds, _, _ := e.mapArrs(c.Args[0].Type())
		d := e.heapGet(st, dn, ds)
		e.heapSet(st, dn, ds, fmt.Sprintf("(ite (= %s Nil) %s (store %s %s (store (select %s %s) %s false)))", mp, d, d, mp, d, mp, k))
	case "ssa:wrapnilchk":
		fc.vals[v] = e.value(fc, c.Args[0])
	case "print", "println":
	default:
		if strings.HasPrefix(b.Name(), "ssa:") {
			fc.vals[v] = term(e.fresh("ssa", e.m.sortOf(v.Type())), v.Type())
			return
		}
		e.unsupportedf("builtin %s", b.Name())
		if v != nil {
			fc.vals[v] = term(e.fresh("builtin", e.m.sortOf(v.Type())), v.Type())
		}
	}
}

func (e *Enc) appendCall(cur *cursor, v ssa.Value, c *ssa.CallCommon, pos token.Pos) {
	fc, st := cur.fc, cur.st
	s := e.asTerm(e.value(fc, c.Args[0]))
	st0 := c.Args[0].Type().Underlying().(*types.Slice)
	el := st0.Elem()
	elems, _, known := e.sliceElems(cur, c.Args[1])
	if !known {
		// append(s, t...) with unknown t: result is a fresh slice whose prefix equals s
		t := e.asTerm(e.value(fc, c.Args[1]))
		if e.m.sortOf(c.Args[1].Type()) == "Str" {
			e.unsupportedf("append([]byte, string...)")
		}
		r := e.fresh("app", "Slice")
		e.assume(cur.guard, e.typeAssume(st, r, c.Args[0].Type()))
		e.assume(cur.guard, fmt.Sprintf("(= (sl_len %s) (+ (sl_len %s) (sl_len %s)))", r, s, t))
		eff := newEffects()
		eff.ghost["$alloc"] = true
		e.m.cellLeaves(el, eff.heap)
		e.havocEffects(st, eff, cur.guard)
		e.notes = append(e.notes, "append with a non-literal second operand modelled as havoc of the element arrays")
		e.setVal(cur, v, r)
		return
	}
	n := len(elems)
	if n == 0 {
		e.setVal(cur, v, s)
		return
	}
	// in place when capacity allows, otherwise a fresh backing array with the old contents copied
	fits := e.define("fits", "Bool", fmt.Sprintf("(<= (+ (sl_len %s) %d) (sl_cap %s))", s, n, s))
	nb := e.allocAddr(cur)
	ncap := e.fresh("newcap", "Int")
	e.assume(cur.guard, fmt.Sprintf("(>= %s (+ (sl_len %s) %d))", ncap, s, n))
	r := e.define("app", "Slice", fmt.Sprintf("(ite %s (mk_slice (sl_base %s) (sl_off %s) (+ (sl_len %s) %d) (sl_cap %s)) (mk_slice %s 0 (+ (sl_len %s) %d) %s))", fits, s, s, s, n, s, nb, s, n, ncap))
	leaves := map[string]string{}
	e.m.cellLeaves(el, leaves)
	leafPaths := map[string][][]int{}
	e.m.structLeafPaths(el, nil, leafPaths)
	// copy old contents into the new array (only meaningful when !fits): quantified per leaf array
	for _, ln := range sortedKeys(leaves) {
		arr := e.heapGet(st, ln, leaves[ln])
		na := e.fresh(ln, "(Array Addr "+leaves[ln]+")")
		// na agrees with arr everywhere except inside the new backing array, where it holds the copy
		// (fields of struct-typed fields of an element live under (Fld ... i) of the element's address)
		paths := leafPaths[ln]
		if len(paths) == 0 {
			paths = [][]int{nil}
		}
		nested := false
		for _, p := range paths {
			if len(p) > 0 {
				nested = true
			}
		}
		if nested {
			e.assume(cur.guard, fmt.Sprintf("(forall ((a Addr)) (! (=> (not (= (rootid a) (rootid %s))) (= (select %s a) (select %s a))) :pattern ((select %s a))))", nb, na, arr, na))
		} else {
			e.assume(cur.guard, fmt.Sprintf("(forall ((a Addr)) (! (=> (not (and ((_ is Elem) a) (= (elem_a a) %s))) (= (select %s a) (select %s a))) :pattern ((select %s a))))", nb, na, arr, na))
		}
		for _, p := range paths {
			wrap := func(a string) string {
				for _, i := range p {
					a = fmt.Sprintf("(Fld %s %d)", a, i)
				}
				return a
			}
			dst := wrap(fmt.Sprintf("(Elem %s k)", nb))
			src := wrap(fmt.Sprintf("(selem (sl_base %s) (sl_off %s) k)", s, s))
			e.assume(cur.guard, fmt.Sprintf("(forall ((k Int)) (! (=> (and (<= 0 k) (< k (sl_len %s))) (= (select %s %s) (select %s %s))) :pattern ((select %s %s))))", s, na, dst, arr, src, na, dst))
		}
		st.heap[ln] = e.define(ln, "(Array Addr "+leaves[ln]+")", fmt.Sprintf("(ite %s %s %s)", fits, arr, na))
	}
	for i, x := range elems {
		a := selemT(r, fmt.Sprintf("(+ (sl_len %s) %d)", s, i))
		e.storeAt(st, a, el, x)
		e.elemStoreOblige(cur, x, el, pos, "appended element")
	}
	e.setVal(cur, v, r)
}

// ---------------------------------------------------------------- contracts at call sites

func (e *Enc) applyContract(cur *cursor, v ssa.Value, name string, callee *ssa.Function, ct *Contract, args []Val, sig *types.Signature, pos token.Pos) {
	e.assumedCallees[name] = true
	if ct.Trusted {
		e.assumedCallees["trusted:"+name] = true
	}
	e.applyContractSig(cur, v, name, callee, ct, args, sig, pos, e.m.funcEffects(callee))
}

// recordedParamName: the name parameter i of fn had in the pinned tree, if it has been renamed since
// (contracts keep using the recorded name).
func (m *Model) recordedParamName(fn *ssa.Function, i int) string {
	rec := m.paramTable[m.fnName[fn]]
	if i >= len(rec) || i >= len(fn.Params) || rec[i] == fn.Params[i].Name() {
		return ""
	}
	for _, p := range fn.Params {
		if p.Name() == rec[i] {
			return "" // the recorded name is in use by (another) parameter: no guessing
		}
	}
	return rec[i]
}

func paramNames(callee *ssa.Function, sig *types.Signature) []string {
	var out []string
	if callee != nil {
		for _, p := range callee.Params {
			out = append(out, p.Name())
		}
		return out
	}
	for i := 0; i < sig.Params().Len(); i++ {
		n := sig.Params().At(i).Name()
		if n == "" {
			n = fmt.Sprintf("arg%d", i)
		}
		out = append(out, n)
	}
	return out
}

func (e *Enc) calleeCtx(cur *cursor, callee *ssa.Function, sig *types.Signature, args []Val, pre *State, post *State, results []string) *specCtx {
	pkg := e.m.lang.Pkg
	if callee != nil {
		pkg = e.pkgOf(callee)
	}
	sc := &specCtx{e: e, st: post, old: pre, guard: cur.guard, vars: map[string]SV{}, oldVars: map[string]SV{}, pkg: pkg}
	if e.thisfn != "" {
		sc.vars["$thisfn"] = SV{T: e.thisfn, Ty: sig}
	} else if callee != nil {
		sc.vars["$thisfn"] = SV{T: e.fnRef(callee), Ty: sig}
	}
	names := paramNames(callee, sig)
	var ptypes []types.Type
	if callee != nil {
		for _, p := range callee.Params {
			ptypes = append(ptypes, p.Type())
		}
	} else {
		for i := 0; i < sig.Params().Len(); i++ {
			ptypes = append(ptypes, sig.Params().At(i).Type())
		}
	}
	for i, n := range names {
		if i >= len(args) || i >= len(ptypes) {
			break
		}
		sv := SV{T: e.asTermQuiet(args[i]), Ty: ptypes[i]}
		sc.vars[n] = sv
		sc.oldVars[n] = sv
		sc.vars[fmt.Sprintf("arg%d", i)] = sv
		if callee != nil {
			if rn := e.m.recordedParamName(callee, i); rn != "" {
				sc.vars[rn] = sv
				sc.oldVars[rn] = sv
			}
		}
	}
	res := sig.Results()
	for i := 0; i < res.Len() && i < len(results); i++ {
		sv := SV{T: results[i], Ty: res.At(i).Type()}
		sc.vars[fmt.Sprintf("result%d", i)] = sv
		if n := res.At(i).Name(); n != "" && n != "_" {
			sc.vars[n] = sv
		}
		if res.Len() == 1 {
			sc.vars["result"] = sv
		}
		if e.m.sortOf(res.At(i).Type()) == "Any" && i == res.Len()-1 {
			if _, ok := sc.vars["err"]; !ok {
				sc.vars["err"] = sv
			}
		}
	}
	return sc
}

func (e *Enc) applyContractSig(cur *cursor, v ssa.Value, name string, callee *ssa.Function, ct *Contract, args []Val, sig *types.Signature, pos token.Pos, eff *Effects) {
	pre := cur.st.clone()
	k := e.ordinal(cur.fc.tag + "call:" + name)
	// preconditions
	for _, rq := range ct.Requires {
		sc := e.calleeCtx(cur, callee, sig, args, pre, pre, nil)
		goal := e.specBool(sc, rq.Expr)
		props := rq.Props
		if len(props) == 0 {
			props = ct.Props
		}
		if len(props) == 0 {
			props = []string{"C01"}
		}
		e.oblige(cur.guard, "pre", fmt.Sprintf("%s%s#%d.%s", cur.fc.tag, name, k, clauseLabel(rq)), goal, props, pos, rq.Src)
	}
	// by-value arguments carrying a type invariant
	{
		var ptypes []types.Type
		if callee != nil {
			for _, p := range callee.Params {
				ptypes = append(ptypes, p.Type())
			}
		} else {
			for i := 0; i < sig.Params().Len(); i++ {
				ptypes = append(ptypes, sig.Params().At(i).Type())
			}
		}
		for i, pt := range ptypes {
			if i < len(args) && e.hasTinv(pt) && args[i].K == vTerm {
				e.oblige(cur.guard, "tinv", fmt.Sprintf("%s%s#%d.arg%d", cur.fc.tag, name, k, i), e.tinvTerm(pre, args[i].T, pt), []string{"C01"}, pos, "type invariant of by-value argument")
			}
		}
	}
	// effects
	if !ct.Pure {
		if ct.HasMod {
			e.frameHavoc(cur, callee, sig, ct, args, pre, eff)
		} else {
			if ct.HasUpd {
				// ghost effects are exactly the `updates` clause
				e2 := newEffects()
				e2.add(eff)
				e2.ghost = map[string]bool{"$alloc": true}
				eff = e2
			}
			e.havocEffects(cur.st, eff, cur.guard)
		}
	}
	for _, g := range ct.Updates {
		cur.st.ghost[g] = e.fresh(g, e.ghostSort(g))
	}
	e.preservePrivateSlices(cur, pre)
	results := e.freshResults(cur, sig, "ret_"+sanitize(name))
	if ct.Pure && (len(ct.Ensures) == 0 || ct.Opts["constant"] != "") && sig.Results().Len() > 0 {
		// opaque pure function: deterministic in its arguments
		var as, ss []string
		for i, a := range args {
			as = append(as, e.asTermQuiet(a))
			if callee != nil {
				ss = append(ss, e.m.sortOf(callee.Params[i].Type()))
			} else {
				ss = append(ss, e.m.sortOf(sig.Params().At(i).Type()))
			}
		}
		for i := range results {
			fn := fmt.Sprintf("pf_%s_%d", sanitize(name), i)
			e.declFun(fn, ss, e.m.sortOf(sig.Results().At(i).Type()))
			if len(as) == 0 {
				results[i] = fn
			} else {
				results[i] = fmt.Sprintf("(%s %s)", fn, strings.Join(as, " "))
			}
		}
	}
	for _, en := range ct.Ensures {
		sc := e.calleeCtx(cur, callee, sig, args, pre, cur.st, results)
		e.assume(cur.guard, e.specBool(sc, en.Expr))
	}
	e.setResults(cur, v, sig, results)
}

// frameHavoc: havoc the write set but keep every location that is allocated
// before the call and not covered by the callee's modifies clause.
func (e *Enc) frameHavoc(cur *cursor, callee *ssa.Function, sig *types.Signature, ct *Contract, args []Val, pre *State, eff *Effects) {
	allocPre := e.ghostGet(pre, "$alloc")
	// collect modifiable locations: array name -> address terms; "*" = whole array
	mods := e.modLocs(cur, callee, sig, ct, args, pre)
	allH := eff.allHeap()
	for _, h := range sortedKeys(allH) {
		e.heapArr(h, allH[h])
		hd := e.heaps[h]
		old := e.heapGet(pre, h, hd.elem)
		if ls, ok := mods[h]; ok && len(ls) == 1 && ls[0] == "*" {
			cur.st.heap[h] = e.fresh(h, hd.sort)
			continue
		}
		nw := e.fresh(h, hd.sort)
		var excl []string
		for _, l := range mods[h] {
			excl = append(excl, exclOf(l))
		}
		cond := fmt.Sprintf("(< (rootid a) %s)", allocPre)
		if len(excl) > 0 {
			cond = fmt.Sprintf("(and %s %s)", cond, strings.Join(excl, " "))
		}
		e.assume(cur.guard, fmt.Sprintf("(forall ((a Addr)) (! (=> %s (= (select %s a) (select %s a))) :pattern ((select %s a))))", cond, nw, old, nw))
		cur.st.heap[h] = nw
	}
	for _, g := range sortedKeys(eff.ghost) {
		if g == "$alloc" {
			oldv := e.ghostGet(cur.st, g)
			cur.st.ghost[g] = e.fresh(g, "Int")
			e.assume(cur.guard, fmt.Sprintf("(<= %s %s)", oldv, cur.st.ghost[g]))
			continue
		}
		if _, ok := mods[g]; ok {
			cur.st.ghost[g] = e.fresh(g, e.ghostSort(g))
		}
	}
}

// a modifies entry is an address term, or "pred:<formula over a>" for a set of addresses
func exclOf(l string) string {
	if strings.HasPrefix(l, "pred:") {
		return "(not " + l[5:] + ")"
	}
	return fmt.Sprintf("(not (= a %s))", l)
}

// modLocs evaluates a modifies clause to (array -> addresses).
func (e *Enc) modLocs(cur *cursor, callee *ssa.Function, sig *types.Signature, ct *Contract, args []Val, pre *State) map[string][]string {
	out := map[string][]string{}
	for _, m := range ct.Modifies {
		if strings.HasPrefix(m, "$") {
			out[m] = []string{"*"}
			continue
		}
		if strings.HasPrefix(m, "array ") {
			out[strings.TrimSpace(m[6:])] = []string{"*"}
			continue
		}
		cond := ""
		if i := strings.Index(m, " if "); i >= 0 {
			cond = strings.TrimSpace(m[i+4:])
			m = strings.TrimSpace(m[:i])
		}
		x, err := parseSpec(m)
		if err != nil {
			e.unsupportedf("modifies %q: %v", m, err)
			continue
		}
		sc := e.calleeCtx(cur, callee, sig, args, pre, pre, nil)
		sc.guard = ""
		if cond == "" {
			e.placeArrays(sc, x, out)
			continue
		}
		cx, err := parseSpec(cond)
		if err != nil {
			e.unsupportedf("modifies condition %q: %v", cond, err)
			continue
		}
		ct := e.specBool(sc, cx)
		tmp := map[string][]string{}
		e.placeArrays(sc, x, tmp)
		for h, ls := range tmp {
			for _, l := range ls {
				if l == "*" {
					out[h] = append(out[h], "pred:"+ct)
				} else if strings.HasPrefix(l, "pred:") {
					out[h] = append(out[h], fmt.Sprintf("pred:(and %s %s)", ct, l[5:]))
				} else {
					out[h] = append(out[h], fmt.Sprintf("pred:(and %s (= a %s))", ct, l))
				}
			}
		}
	}
	return out
}

// placeArrays: a location expression (x.f, x.f.g, *p, s[i]) -> arrays and addresses.
func (e *Enc) placeArrays(sc *specCtx, x SExpr, out map[string][]string) {
	switch n := x.(type) {
	case *SCall:
		// spare(s): the unused capacity of slice s;  elems(s): its elements [0,len)
		if (n.Fn == "spare" || n.Fn == "elems") && len(n.Args) == 1 {
			v := sc.val(n.Args[0])
			sl, ok := v.Ty.Underlying().(*types.Slice)
			if !ok {
				e.unsupportedf("modifies: %s of non-slice", n.Fn)
				return
			}
			st := sc.mat(v)
			lo, hi := fmt.Sprintf("(+ (sl_off %s) (sl_len %s))", st, st), fmt.Sprintf("(+ (sl_off %s) (sl_cap %s))", st, st)
			if n.Fn == "elems" {
				lo, hi = fmt.Sprintf("(sl_off %s)", st), fmt.Sprintf("(+ (sl_off %s) (sl_len %s))", st, st)
			}
			pred := fmt.Sprintf("pred:(and ((_ is Elem) a) (= (elem_a a) (sl_base %s)) (<= %s (elem_i a)) (< (elem_i a) %s))", st, lo, hi)
			leaves := map[string]string{}
			e.m.cellLeaves(sl.Elem(), leaves)
			for ln := range leaves {
				out[ln] = append(out[ln], pred)
			}
			return
		}
		if n.Fn == "mapof" && len(n.Args) == 1 {
			v := sc.val(n.Args[0])
			if _, ok := v.Ty.Underlying().(*types.Map); !ok {
				e.unsupportedf("modifies: mapof of non-map")
				return
			}
			dn, _, vn, _ := e.mapArrs(v.Ty)
			out[dn] = append(out[dn], sc.mat(v))
			out[vn] = append(out[vn], sc.mat(v))
			return
		}
		e.unsupportedf("modifies: unsupported location %s", sexprString(x))
	case *SSel:
		v := sc.val(n.X)
		t := v.Ty
		addr := v.Addr
		if pt, ok := t.Underlying().(*types.Pointer); ok {
			addr = sc.mat(v)
			t = pt.Elem()
		}
		si := e.m.structOf(t)
		if si == nil || addr == "" {
			e.unsupportedf("modifies: cannot resolve %s", sexprString(x))
			return
		}
		for i := 0; i < si.st.NumFields(); i++ {
			if si.st.Field(i).Name() != n.Name {
				continue
			}
			ft := si.st.Field(i).Type()
			if isStruct(ft) && e.m.structOf(ft) != nil {
				e.structPlace(fmt.Sprintf("(Fld %s %d)", addr, i), ft, out)
			} else {
				an, _ := e.fieldArr(si, i)
				out[an] = append(out[an], addr)
			}
		}
	case *SUn:
		if n.Op == "*" {
			v := sc.val(n.X)
			pt, ok := v.Ty.Underlying().(*types.Pointer)
			if !ok {
				return
			}
			if v.FRef != nil {
				an, _ := e.fieldArr(v.FRef.SI, v.FRef.Field)
				out[an] = append(out[an], v.FRef.Base)
				return
			}
			if isStruct(pt.Elem()) && e.m.structOf(pt.Elem()) != nil {
				e.structPlace(sc.mat(v), pt.Elem(), out)
			} else {
				an, _ := e.cellArr(pt.Elem())
				out[an] = append(out[an], sc.mat(v))
			}
		}
	default:
		e.unsupportedf("modifies: unsupported location %s", sexprString(x))
	}
}

func (e *Enc) structPlace(addr string, t types.Type, out map[string][]string) {
	si := e.m.structOf(t)
	for i := 0; i < si.st.NumFields(); i++ {
		ft := si.st.Field(i).Type()
		if isStruct(ft) && e.m.structOf(ft) != nil {
			e.structPlace(fmt.Sprintf("(Fld %s %d)", addr, i), ft, out)
		} else {
			an, _ := e.fieldArr(si, i)
			out[an] = append(out[an], addr)
		}
	}
}

// siteClauses: `assert`/`assume` clauses of the function under verification attached to the
// k-th call of a callee ("@ callee#k", k counted in encoding order; "@ callee" = every call).
// Assumptions are reported in the evidence (explicit_assumptions).
func (e *Enc) siteClauses(cur *cursor, callee string, args []Val, pos token.Pos) {
	top := cur.fc
	inlined := false
	if !top.isTop && e.topFc != nil && (top.contract == nil || len(top.contract.Asserts) == 0) {
		// a call made by a small helper that is inlined into the function under contract (for example
		// after an extract-helper refactoring) is a site of that function: its site clauses apply, read
		// with the function's variables, overlaid by the helper's own parameters and locals
		top = e.topFc
		inlined = true
	}
	if top.contract == nil || len(top.contract.Asserts) == 0 {
		return
	}
	k := e.ordinal(top.tag + "site:" + callee)
	for _, cl := range top.contract.Asserts {
		if cl.Site != callee && cl.Site != fmt.Sprintf("%s#%d", callee, k) {
			continue
		}
		sc := e.specCtx(top, cur.st, cur.guard)
		if inlined {
			inner := e.specCtx(cur.fc, cur.st, cur.guard)
			for name, v := range inner.vars {
				sc.vars[name] = v
			}
		}
		for i, a := range args {
			if a.K == vTerm {
				sc.vars[fmt.Sprintf("arg%d", i)] = SV{T: a.T, Ty: a.Ty}
			}
		}
		var phi string
		if cl.IfInScope {
			// translate on a scratch copy of the error list: out-of-scope locals make the clause inapplicable here
			nUns := len(e.unsupported)
			nItems := len(e.items)
			savedGuard := sc.guard
			sc.guard = "" // trial translation: no side assumptions
			phi = e.specBool(sc, cl.Expr)
			sc.guard = savedGuard
			if len(sc.errs) == 0 {
				phi = e.specBool(sc, cl.Expr)
			} else {
				e.items = e.items[:nItems] // (declarations made meanwhile are harmless and stay)
			}
			if len(sc.errs) > 0 {
				onlyScope := false
				for _, m := range sc.errs {
					if strings.Contains(m, "unknown identifier") {
						onlyScope = true // (later type errors are consequences of the placeholder)
					}
				}
				if onlyScope {
					e.unsupported = e.unsupported[:nUns]
					continue
				}
			}
		} else {
			phi = e.specBool(sc, cl.Expr)
		}
		cl.Applied++
		if cl.Kind == "assume" {
			e.assume(cur.guard, phi)
			e.explicitAssumes[fmt.Sprintf("%s: %s [before %s in %s]", clauseLabel(cl), cl.Src, cl.Site, e.topName)] = true
		} else {
			e.oblige(cur.guard, "assert", fmt.Sprintf("%s%s@%s#%d", top.tag, clauseLabel(cl), callee, k), phi, e.clauseProps(cur.fc, cl), pos, cl.Src)
		}
	}
}

// ghostAfter applies `after <callee>: $g = expr` clauses of the function under verification.
func (e *Enc) ghostAfter(cur *cursor, callee string, args []Val, v ssa.Value) {
	top := cur.fc
	if top.contract == nil {
		return
	}
	for _, g := range top.contract.Ghost {
		if g.Kind != "after" || g.Site != callee {
			continue
		}
		sc := e.specCtx(cur.fc, cur.st, cur.guard)
		for i, a := range args {
			if a.K == vTerm {
				sc.vars[fmt.Sprintf("arg%d", i)] = SV{T: a.T, Ty: a.Ty}
			}
		}
		if v != nil {
			if rv, ok := cur.fc.vals[v]; ok {
				if rv.K == vTuple {
					for i, r := range rv.Tuple {
						sc.vars[fmt.Sprintf("ret%d", i)] = SV{T: r.T, Ty: r.Ty}
					}
				} else if rv.K == vTerm {
					sc.vars["ret0"] = SV{T: rv.T, Ty: rv.Ty}
				}
			}
		}
		val := sc.val(g.Expr)
		cur.st.ghost[g.Label] = e.define(g.Label, e.ghostSort(g.Label), sc.mat(val))
	}
}

// ---------------------------------------------------------------- inlining

func (e *Enc) inlineCall(cur *cursor, v ssa.Value, callee *ssa.Function, binds []Val, args []Val, sig *types.Signature) {
	name := e.m.fnName[callee]
	e.inlined[name] = true
	sub := &fctx{fn: callee, vals: map[ssa.Value]Val{}, freevars: map[*ssa.FreeVar]Val{}, depth: cur.fc.depth + 1,
		tag: cur.fc.tag + "/" + name + "/", entrySt: cur.fc.entrySt, namedLoc: nil}
	if cur.fc.tag == "" {
		sub.tag = "/" + e.m.fnName[cur.fc.fn] + "//" + name + "/"
		sub.tag = "/" + name + "/"
	}
	for i, p := range callee.Params {
		if i < len(args) {
			sub.vals[p] = args[i]
			sub.params = append(sub.params, args[i])
		}
	}
	for i, fv := range callee.FreeVars {
		if i < len(binds) {
			sub.freevars[fv] = binds[i]
		}
	}
	rets := e.runFunc(sub, cur.guard, cur.st.clone())
	e.cur = cur
	if len(rets) == 0 {
		cur.dead = true
		return
	}
	if len(rets) == 1 {
		cur.guard, cur.st = rets[0].guard, rets[0].st
		e.setRetVals(cur, v, sig, rets[0].vals)
		return
	}
	// join return sites
	var in []edge
	for _, r := range rets {
		in = append(in, edge{r.guard, r.st, nil})
	}
	dummy := &ssa.BasicBlock{}
	g, st := e.join(sub, dummy, in)
	var outs []Val
	for i := 0; i < sig.Results().Len(); i++ {
		t := sig.Results().At(i).Type()
		same := true
		first := e.asTerm(rets[0].vals[i])
		for _, r := range rets[1:] {
			if e.asTerm(r.vals[i]) != first {
				same = false
			}
		}
		if same {
			outs = append(outs, term(first, t))
			continue
		}
		f := e.fresh("ret_"+callee.Name(), e.m.sortOf(t))
		for _, r := range rets {
			e.assume(r.guard, fmt.Sprintf("(= %s %s)", f, e.asTerm(r.vals[i])))
		}
		outs = append(outs, term(f, t))
	}
	cur.guard, cur.st = g, st
	e.setRetVals(cur, v, sig, outs)
}

func (e *Enc) setRetVals(cur *cursor, v ssa.Value, sig *types.Signature, vals []Val) {
	if v == nil {
		return
	}
	switch sig.Results().Len() {
	case 0:
		cur.fc.vals[v] = Val{K: vTuple}
	case 1:
		cur.fc.vals[v] = vals[0]
	default:
		cur.fc.vals[v] = Val{K: vTuple, Tuple: vals}
	}
}

func (e *Enc) callDeferred(cur *cursor, d deferred) {
	c := d.call
	fv := e.value(cur.fc, c.Value)
	var args []Val
	for _, a := range c.Args {
		args = append(args, e.value(cur.fc, a))
	}
	switch fv.K {
	case vClosure:
		e.inlineCall(cur, nil, fv.Fn, fv.Binds, args, c.Signature())
	case vFunc:
		e.staticCall(cur, nil, fv.Fn, nil, args, c.Signature(), c.Pos(), c)
	default:
		if c.IsInvoke() {
			e.invoke(cur, nil, c, append([]Val{fv}, args...), c.Pos())
			return
		}
		e.unsupportedf("deferred call of unknown function")
	}
}

// ---------------------------------------------------------------- top level

func (m *Model) verifyFunc(name string, ct *Contract) (*Enc, error) {
	fn := m.funcs[name]
	if fn == nil {
		return nil, fmt.Errorf("contract for unknown function %s", name)
	}
	e := newEnc(m, fn, ct)
	e.emitAxioms()
	fc := &fctx{fn: fn, vals: map[ssa.Value]Val{}, freevars: map[*ssa.FreeVar]Val{}, isTop: true, contract: ct, namedLoc: map[string][]*ssa.Alloc{}}
	e.topFc = fc
	st := newState()
	fc.entrySt = newState()
	e.declare("(declare-const $alloc@in Int)")
	e.declared["$alloc@in"] = true
	e.declare("(assert (>= $alloc@in 0))")
	for _, p := range fn.Params {
		c := "p_" + sanitize(p.Name())
		e.declare(fmt.Sprintf("(declare-const %s %s)", c, m.sortOf(p.Type())))
		v := term(c, p.Type())
		fc.vals[p] = v
		fc.params = append(fc.params, v)
		e.assume("true", e.typeAssume(st, c, p.Type()))
		if e.hasTinv(p.Type()) {
			e.assume("true", e.tinvTerm(st, c, p.Type()))
		}
	}
	for _, fv := range fn.FreeVars {
		c := "fv_" + sanitize(fv.Name())
		e.declare(fmt.Sprintf("(declare-const %s %s)", c, m.sortOf(fv.Type())))
		fc.freevars[fv] = term(c, fv.Type())
		e.assume("true", e.typeAssume(st, c, fv.Type()))
	}
	guard := "true"
	for _, g := range sortedKeys(ct.Inits) {
		sc := e.specCtxPost(fc, st, guard, nil)
		iv := sc.val(ct.Inits[g])
		if iv.Nil {
			st.ghost[g] = e.m.zeroOfSort(e.ghostSort(g), nil)
		} else {
			st.ghost[g] = sc.mat(iv)
		}
	}
	fc.entrySt = st.clone()
	for _, rq := range ct.Requires {
		sc := e.specCtxPost(fc, st, guard, nil)
		e.assume(guard, e.specBool(sc, rq.Expr))
	}
	e.smoke(guard, "entry")
	rets := e.runFunc(fc, guard, st)
	for k, r := range rets {
		var rs []string
		for _, v := range r.vals {
			rs = append(rs, e.asTerm(v))
		}
		e.smoke(r.guard, fmt.Sprintf("ret%d", k))
		nres := fn.Signature.Results().Len()
		for i, v := range r.vals {
			if rt := fn.Signature.Results().At(i).Type(); e.hasTinv(rt) {
				goal := e.tinvTerm(r.st, e.asTerm(v), rt)
				// Go convention: when the trailing error result is non-nil the other results are not meaningful
				if i < nres-1 && e.m.sortOf(fn.Signature.Results().At(nres-1).Type()) == "Any" {
					goal = fmt.Sprintf("(=> (= %s ANil) %s)", e.asTerm(r.vals[nres-1]), goal)
				}
				e.oblige(r.guard, "tinv", fmt.Sprintf("result%d@ret%d", i, k), goal, []string{"C01"}, fn.Pos(), "type invariant of by-value result")
			}
		}
		for _, en := range ct.Ensures {
			sc := e.specCtxPost(fc, r.st, r.guard, rs)
			goal := e.specBool(sc, en.Expr)
			e.oblige(r.guard, "post", fmt.Sprintf("%s@ret%d", clauseLabel(en), k), goal, e.clauseProps(fc, en), fn.Pos(), en.Src)
		}
		for _, en := range ct.Exits {
			sc := e.specCtxPost(fc, r.st, r.guard, rs)
			goal := e.specBool(sc, en.Expr)
			e.oblige(r.guard, "exit", fmt.Sprintf("%s@ret%d", clauseLabel(en), k), goal, e.clauseProps(fc, en), fn.Pos(), en.Src)
		}
		if ct.HasMod {
			e.frameObligations(fc, r, k)
		} else if ct.HasUpd {
			e.ghostFrameObligations(fc, r, k)
		}
	}
	if len(rets) == 0 {
		e.notes = append(e.notes, "function has no reachable return")
	}
	for _, cl := range ct.Asserts {
		if cl.Site != "" && cl.Applied == 0 {
			e.unsupportedf("contract: site clause %q (@ %s) was not applied at any call site", clauseLabel(cl), cl.Site)
		}
		cl.Applied = 0
	}
	return e, nil
}

// specCtxPost: names are parameters (entry values) and results.
func (e *Enc) specCtxPost(fc *fctx, st *State, guard string, results []string) *specCtx {
	sc := &specCtx{e: e, st: st, old: fc.entrySt, guard: guard, vars: map[string]SV{}, oldVars: map[string]SV{}, fc: fc, pkg: e.pkgOf(fc.fn)}
	if results != nil {
		// postconditions may mention local variables as they are at the return (parameters and results take precedence)
		for k, v := range e.specCtx(fc, st, guard).vars {
			if k == "err" || k == "result" || strings.HasPrefix(k, "result") {
				continue // these names denote the returned values in a postcondition
			}
			sc.vars[k] = v
		}
	}
	sc.vars["$thisfn"] = SV{T: e.fnRef(fc.fn), Ty: fc.fn.Signature}
	for i, p := range fc.fn.Params {
		sv := SV{T: e.asTermQuiet(fc.params[i]), Ty: p.Type()}
		sc.vars[p.Name()] = sv
		sc.oldVars[p.Name()] = sv
		sc.vars[fmt.Sprintf("arg%d", i)] = sv
		sc.oldVars[fmt.Sprintf("arg%d", i)] = sv
		if rn := e.m.recordedParamName(fc.fn, i); rn != "" {
			sc.vars[rn] = sv
			sc.oldVars[rn] = sv
		}
	}
	for fv, v := range fc.freevars {
		if pt, ok := fv.Type().Underlying().(*types.Pointer); ok && v.K == vTerm {
			sc.vars[fv.Name()] = SV{T: e.loadAt(st, v.T, pt.Elem()), Ty: pt.Elem()}
			sc.oldVars[fv.Name()] = SV{T: e.loadAt(fc.entrySt, v.T, pt.Elem()), Ty: pt.Elem()}
		}
	}
	res := fc.fn.Signature.Results()
	for i := 0; i < res.Len() && i < len(results); i++ {
		sv := SV{T: results[i], Ty: res.At(i).Type()}
		sc.vars[fmt.Sprintf("result%d", i)] = sv
		if n := res.At(i).Name(); n != "" && n != "_" {
			sc.vars[n] = sv
		}
		if res.Len() == 1 {
			sc.vars["result"] = sv
		}
		if e.m.sortOf(res.At(i).Type()) == "Any" && i == res.Len()-1 {
			if _, ok := sc.vars["err"]; !ok {
				sc.vars["err"] = sv
			}
		}
	}
	return sc
}

// frameFormula: every location of array h allocated at entry and outside the
// modifies clause holds its entry value in state st ("" when h is freely modifiable).
func (e *Enc) frameFormula(fc *fctx, h, elemSort string, st *State) string {
	if fc.mods == nil {
		cur := &cursor{guard: "true", st: fc.entrySt, fc: fc}
		fc.mods = e.modLocs(cur, fc.fn, fc.fn.Signature, fc.contract, fc.params, fc.entrySt)
	}
	if ls, ok := fc.mods[h]; ok && len(ls) == 1 && ls[0] == "*" {
		return ""
	}
	e.heapArr(h, elemSort)
	now := e.heapGet(st, h, elemSort)
	if now == h+"@in" {
		return ""
	}
	var excl []string
	for _, l := range fc.mods[h] {
		excl = append(excl, exclOf(l))
	}
	cond := "(< (rootid a) $alloc@in)"
	if len(excl) > 0 {
		cond = fmt.Sprintf("(and %s %s)", cond, strings.Join(excl, " "))
	}
	return fmt.Sprintf("(forall ((a Addr)) (! (=> %s (= (select %s a) (select %s@in a))) :pattern ((select %s a))))", cond, now, h, now)
}

// frameObligations: everything allocated at entry and outside the modifies clause is unchanged.
func (e *Enc) frameObligations(fc *fctx, r retInfo, k int) {
	ct := fc.contract
	eff := e.m.funcEffects(fc.fn)
	for _, h := range sortedKeys(eff.allHeap()) {
		if f := e.frameFormula(fc, h, eff.allHeap()[h], r.st); f != "" {
			e.oblige(r.guard, "frame", fmt.Sprintf("%s@ret%d", h, k), f, e.contractProps(ct, "frame"), fc.fn.Pos(), "modifies "+strings.Join(ct.Modifies, ", "))
		}
	}
	for _, g := range sortedKeys(eff.ghost) {
		if g == "$alloc" {
			continue
		}
		if _, ok := fc.mods[g]; ok {
			continue
		}
		if hasStr(ct.Updates, g) {
			continue
		}
		now := e.ghostGet(r.st, g)
		if now == g+"@in" {
			continue
		}
		e.oblige(r.guard, "frame", fmt.Sprintf("%s@ret%d", g, k), fmt.Sprintf("(= %s %s@in)", now, g), e.contractProps(ct, "frame"), fc.fn.Pos(), "modifies clause")
	}
}

// ghostFrameObligations: a contract with an `updates` clause (and no modifies clause) promises that
// every other ghost variable keeps its entry value.
func (e *Enc) ghostFrameObligations(fc *fctx, r retInfo, k int) {
	ct := fc.contract
	for _, g := range sortedKeys(e.m.funcEffects(fc.fn).ghost) {
		if g == "$alloc" || hasStr(ct.Updates, g) {
			continue
		}
		now := e.ghostGet(r.st, g)
		if now == g+"@in" {
			continue
		}
		e.oblige(r.guard, "frame", fmt.Sprintf("%s@ret%d", g, k), fmt.Sprintf("(= %s %s@in)", now, g), e.contractProps(ct, "frame"), fc.fn.Pos(), "updates clause: "+g+" is not listed")
	}
}

func (e *Enc) contractProps(ct *Contract, kind string) []string {
	if p, ok := ct.Opts[kind+"-props"]; ok {
		return strings.Split(p, ",")
	}
	return ct.Props
}
