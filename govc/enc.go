package main

// Encoder core: symbolic state, guarded block encoding, loop cutting.

import (
	"fmt"
	"os"
	"go/constant"
	"go/token"
	"go/types"
	"sort"
	"strings"

	"golang.org/x/tools/go/ssa"
)

// ---------------------------------------------------------------- values

type vkind int

const (
	vTerm vkind = iota
	vLocal           // pointer into a non-escaping local: alloc + field path
	vFieldRef        // pointer to a non-struct field of a heap struct
	vTuple
	vFunc    // statically known function
	vBuiltin // builtin
	vClosure // statically known closure (function + bindings)
)

type Val struct {
	K     vkind
	T     string // SMT term
	Ty    types.Type
	Alloc *ssa.Alloc
	Path  []int
	Base  string      // vFieldRef: address of the enclosing struct
	SI    *structInfo // vFieldRef
	Field int
	Tuple []Val
	Fn    *ssa.Function
	Binds []Val
	Name  string
	Outer []outerRef // enclosing structs of an interior pointer (for type invariants of the enclosing value)
}

type outerRef struct {
	addr string
	ty   types.Type
}

func term(t string, ty types.Type) Val { return Val{K: vTerm, T: t, Ty: ty} }

// ---------------------------------------------------------------- state

type State struct {
	loc   map[*ssa.Alloc]string
	heap  map[string]string // array name -> current term
	ghost map[string]string // ghost/global scalars incl. $alloc
	iter  map[ssa.Value]string
	seen  map[*ssa.Alloc]int // allocations executed on this path (sequence numbers), for name resolution in contracts
	mat   map[*ssa.Alloc]string // lazily heap-allocated local variables that have been materialised: their address
}

func newState() *State {
	return &State{loc: map[*ssa.Alloc]string{}, heap: map[string]string{}, ghost: map[string]string{}, iter: map[ssa.Value]string{}, seen: map[*ssa.Alloc]int{}, mat: map[*ssa.Alloc]string{}}
}

func (s *State) clone() *State {
	n := newState()
	for k, v := range s.loc {
		n.loc[k] = v
	}
	for k, v := range s.heap {
		n.heap[k] = v
	}
	for k, v := range s.ghost {
		n.ghost[k] = v
	}
	for k, v := range s.iter {
		n.iter[k] = v
	}
	for k, v := range s.seen {
		n.seen[k] = v
	}
	for k, v := range s.mat {
		n.mat[k] = v
	}
	return n
}

// ---------------------------------------------------------------- obligations

type Obl struct {
	Name   string
	Kind   string
	Props  []string
	Guard  string
	Goal   string
	NItems int
	Pos    token.Pos
	Func   string
	Src    string // contract clause text or instruction text
	Smoke  bool   // expected NOT unsat
	// results
	Status string // "unsat", "sat", "unknown", "timeout"
	Solver string
	Ms     int64
	Output string
	Query  string
}

type heapDecl struct {
	name string
	sort string // full array sort
	elem string
}

type Enc struct {
	topFc *fctx
	opaqueActive map[string]int
	allocOverride string
	m        *Model
	top      *ssa.Function
	topName  string
	contract *Contract
	decls    []string
	declared map[string]bool
	items    []string
	obls     []*Obl
	nfresh   int
	lits     map[string]string
	heaps    map[string]*heapDecl
	horder   []string
	entry    *State
	ordinals map[string]int
	unsupported []string
	notes    []string
	specFnDeclared map[string]bool
	axiomsDone bool
	depth    int
	assumedCallees map[string]bool
	inlined  map[string]bool
	havocked map[string]bool
	freshAddrs map[string]bool // addresses allocated by the function under verification (incl. inlined callees)
	tinvSeen map[string]bool
	nseq     int
	explicitAssumes map[string]bool
	thisfn   string
	heapRec  map[string]string // when non-nil: records the heap arrays read (opaque spec functions)
	lazy     map[*ssa.Alloc]bool // heap-allocated local variables modelled as locals until their address escapes
	cur      *cursor             // cursor of the instruction being encoded (for on-demand materialisation)
	privSlice map[*ssa.Alloc]bool
	renames  map[*ssa.Function]map[string]*ssa.Alloc
	lazyRefs []Val               // pointers to not-yet-materialised locals parked in local pointer variables ("@lazy!<i>")
}

func newEnc(m *Model, fn *ssa.Function, c *Contract) *Enc {
	return &Enc{m: m, top: fn, topName: m.fnName[fn], contract: c, declared: map[string]bool{}, lits: map[string]string{},
		heaps: map[string]*heapDecl{}, ordinals: map[string]int{}, specFnDeclared: map[string]bool{},
		assumedCallees: map[string]bool{}, inlined: map[string]bool{}, havocked: map[string]bool{}, freshAddrs: map[string]bool{}, tinvSeen: map[string]bool{}, explicitAssumes: map[string]bool{}, lazy: map[*ssa.Alloc]bool{}, privSlice: map[*ssa.Alloc]bool{}}
}

func (e *Enc) declare(line string) { e.decls = append(e.decls, line) }

func (e *Enc) fresh(prefix, sort string) string {
	e.nfresh++
	name := fmt.Sprintf("%s!%d", sanitize(prefix), e.nfresh)
	e.declare(fmt.Sprintf("(declare-const %s %s)", name, sort))
	return name
}

func (e *Enc) define(prefix, sort, t string) string {
	// keep small terms inline
	if len(t) < 24 && !strings.Contains(t, " ") {
		return t
	}
	e.nfresh++
	name := fmt.Sprintf("%s!%d", sanitize(prefix), e.nfresh)
	if strings.HasPrefix(sort, "(Array") && strings.HasPrefix(t, "(ite ") {
		// heap versions are used inside quantifier patterns; a define-fun would be expanded there
		// and an ite is not allowed in a pattern, so name it with a constant instead
		e.declare(fmt.Sprintf("(declare-const %s %s)", name, sort))
		e.items = append(e.items, fmt.Sprintf("(assert (= %s %s))", name, t))
		return name
	}
	e.items = append(e.items, fmt.Sprintf("(define-fun %s () %s %s)", name, sort, t))
	return name
}

func (e *Enc) assume(guard, phi string) {
	if phi == "true" {
		return
	}
	if guard == "true" {
		e.items = append(e.items, "(assert "+phi+")")
	} else {
		e.items = append(e.items, fmt.Sprintf("(assert (=> %s %s))", guard, phi))
	}
}

func (e *Enc) unsupportedf(format string, a ...interface{}) {
	msg := fmt.Sprintf(format, a...)
	for _, u := range e.unsupported {
		if u == msg {
			return
		}
	}
	e.unsupported = append(e.unsupported, msg)
}

func (e *Enc) ordinal(key string) int {
	e.ordinals[key]++
	return e.ordinals[key]
}

func (e *Enc) oblige(guard, kind, detail, goal string, props []string, pos token.Pos, src string) *Obl {
	if goal == "true" {
		return nil
	}
	name := fmt.Sprintf("%s#%s:%s", e.topName, kind, detail)
	o := &Obl{Name: name, Kind: kind, Props: props, Guard: guard, Goal: goal, NItems: len(e.items), Pos: pos, Func: e.topName, Src: src}
	e.obls = append(e.obls, o)
	// once checked, assume it downstream
	e.assume(guard, goal)
	return o
}

func (e *Enc) smoke(guard, detail string) {
	name := fmt.Sprintf("%s#smoke:%s", e.topName, detail)
	e.obls = append(e.obls, &Obl{Name: name, Kind: "smoke", Guard: guard, Goal: "false", NItems: len(e.items), Func: e.topName, Smoke: true})
}

func (e *Enc) strLit(s string) string {
	if s == "" {
		return "sempty"
	}
	if n, ok := e.lits[s]; ok {
		return n
	}
	name := fmt.Sprintf("lit!%d", len(e.lits))
	e.lits[s] = name
	e.declare(fmt.Sprintf("(declare-const %s Str) ; %q", name, s))
	var sb strings.Builder
	fmt.Fprintf(&sb, "(assert (and (= (slen %s) %d)", name, len(s))
	for i := 0; i < len(s); i++ {
		fmt.Fprintf(&sb, " (= (sat %s %d) %d)", name, i, s[i])
	}
	sb.WriteString("))")
	e.declare(sb.String())
	return name
}

// ---------------------------------------------------------------- heap access

func (e *Enc) heapArr(name, elemSort string) {
	if _, ok := e.heaps[name]; ok {
		return
	}
	e.heaps[name] = &heapDecl{name: name, sort: "(Array Addr " + elemSort + ")", elem: elemSort}
	e.horder = append(e.horder, name)
	e.declare(fmt.Sprintf("(declare-const %s@in (Array Addr %s))", name, elemSort))
}

func (e *Enc) heapGet(st *State, name, elemSort string) string {
	e.heapArr(name, elemSort)
	if e.heapRec != nil {
		e.heapRec[name] = elemSort
	}
	if t, ok := st.heap[name]; ok {
		return t
	}
	return name + "@in"
}

func (e *Enc) heapSet(st *State, name, elemSort, t string) {
	e.heapArr(name, elemSort)
	st.heap[name] = e.define(name, "(Array Addr "+elemSort+")", t)
}

func (e *Enc) ghostGet(st *State, name string) string {
	if t, ok := st.ghost[name]; ok {
		return t
	}
	in := name + "@in"
	if !e.declared[in] {
		e.declared[in] = true
		e.declare(fmt.Sprintf("(declare-const %s %s)", in, e.ghostSort(name)))
	}
	return in
}

func (e *Enc) ghostSort(name string) string {
	if name == "$alloc" {
		return "Int"
	}
	if t, ok := e.m.spec.Ghosts[name]; ok {
		return e.specSort(t)
	}
	return "Int"
}

// field array name for struct field
func (e *Enc) fieldArr(si *structInfo, i int) (string, string) {
	return fmt.Sprintf("H$%s$%s", si.sort[2:], si.st.Field(i).Name()), e.m.sortOf(si.st.Field(i).Type())
}

func (e *Enc) cellArr(t types.Type) (string, string) {
	return "M$" + e.m.typeKey(t), e.m.sortOf(t)
}

func isStruct(t types.Type) bool {
	_, ok := t.Underlying().(*types.Struct)
	return ok
}

// loadAt loads a value of type t stored at address term a.
func (e *Enc) loadAt(st *State, a string, t types.Type) string {
	if si := e.m.structOf(t); si != nil && isStruct(t) {
		if si.st.NumFields() == 0 {
			return "mk" + si.sort[1:]
		}
		var sb strings.Builder
		sb.WriteString("(mk" + si.sort[1:])
		for i := 0; i < si.st.NumFields(); i++ {
			ft := si.st.Field(i).Type()
			if isStruct(ft) && e.m.structOf(ft) != nil {
				sb.WriteString(" " + e.loadAt(st, fmt.Sprintf("(Fld %s %d)", a, i), ft))
			} else {
				n, s := e.fieldArr(si, i)
				sb.WriteString(fmt.Sprintf(" (select %s %s)", e.heapGet(st, n, s), a))
			}
		}
		sb.WriteString(")")
		return sb.String()
	}
	if e.m.sortOf(t) == "Opaque" {
		return "opaque0"
	}
	n, s := e.cellArr(t)
	return fmt.Sprintf("(select %s %s)", e.heapGet(st, n, s), a)
}

// storeAt stores value term v of type t at address a.
func (e *Enc) storeAt(st *State, a string, t types.Type, v string) {
	if si := e.m.structOf(t); si != nil && isStruct(t) {
		for i := 0; i < si.st.NumFields(); i++ {
			ft := si.st.Field(i).Type()
			fv := fmt.Sprintf("(%s %s)", fieldCtor(si, i), v)
			if isStruct(ft) && e.m.structOf(ft) != nil {
				e.storeAt(st, fmt.Sprintf("(Fld %s %d)", a, i), ft, fv)
			} else {
				n, s := e.fieldArr(si, i)
				e.heapSet(st, n, s, fmt.Sprintf("(store %s %s %s)", e.heapGet(st, n, s), a, fv))
			}
		}
		return
	}
	if e.m.sortOf(t) == "Opaque" {
		return
	}
	n, s := e.cellArr(t)
	e.heapSet(st, n, s, fmt.Sprintf("(store %s %s %s)", e.heapGet(st, n, s), a, v))
}

// project / update a struct term along a field path
func (e *Enc) project(v string, t types.Type, path []int) (string, types.Type) {
	for _, i := range path {
		si := e.m.structOf(t)
		v = fmt.Sprintf("(%s %s)", fieldCtor(si, i), v)
		t = si.st.Field(i).Type()
	}
	return v, t
}

func (e *Enc) update(v string, t types.Type, path []int, nv string) string {
	if len(path) == 0 {
		return nv
	}
	si := e.m.structOf(t)
	var sb strings.Builder
	sb.WriteString("(mk" + si.sort[1:])
	for i := 0; i < si.st.NumFields(); i++ {
		fv := fmt.Sprintf("(%s %s)", fieldCtor(si, i), v)
		if i == path[0] {
			fv = e.update(fv, si.st.Field(i).Type(), path[1:], nv)
		}
		sb.WriteString(" " + fv)
	}
	sb.WriteString(")")
	return sb.String()
}

// typeAssume returns a formula constraining a value of Go type t (ranges etc.)
func (e *Enc) typeAssume(st *State, v string, t types.Type) string {
	switch u := t.Underlying().(type) {
	case *types.Basic:
		switch u.Kind() {
		case types.Int, types.Int64:
			return fmt.Sprintf("(and (<= (- 9223372036854775808) %s) (<= %s 9223372036854775807))", v, v)
		case types.Uint8:
			return fmt.Sprintf("(and (<= 0 %s) (<= %s 255))", v, v)
		case types.Int32:
			return fmt.Sprintf("(and (<= (- 2147483648) %s) (<= %s 2147483647))", v, v)
		case types.Uint, types.Uint64, types.Uintptr:
			return fmt.Sprintf("(and (<= 0 %s) (<= %s 18446744073709551615))", v, v)
		case types.Uint16:
			return fmt.Sprintf("(and (<= 0 %s) (<= %s 65535))", v, v)
		case types.Uint32:
			return fmt.Sprintf("(and (<= 0 %s) (<= %s 4294967295))", v, v)
		case types.Int8:
			return fmt.Sprintf("(and (<= (- 128) %s) (<= %s 127))", v, v)
		case types.Int16:
			return fmt.Sprintf("(and (<= (- 32768) %s) (<= %s 32767))", v, v)
		case types.String:
			return fmt.Sprintf("(<= (slen %s) 4611686018427387904)", v)
		}
	case *types.Slice:
		return fmt.Sprintf("(and (<= 0 (sl_off %s)) (<= 0 (sl_len %s)) (<= (sl_len %s) (sl_cap %s)) (<= (sl_cap %s) 4611686018427387904) (< (rootid (sl_base %s)) %s) (=> (= (sl_base %s) Nil) (= (sl_cap %s) 0)))", v, v, v, v, v, v, e.allocBound(st), v, v)
	case *types.Pointer, *types.Map:
		if e.m.noElemPtrs {
			return fmt.Sprintf("(and (< (rootid %s) %s) (not (inelem %s)))", v, e.allocBound(st), v)
		}
		return fmt.Sprintf("(< (rootid %s) %s)", v, e.allocBound(st))
	case *types.Struct:
		si := e.m.structOf(t)
		if si == nil {
			return "true"
		}
		var parts []string
		for i := 0; i < si.st.NumFields(); i++ {
			p := e.typeAssume(st, fmt.Sprintf("(%s %s)", fieldCtor(si, i), v), si.st.Field(i).Type())
			if p != "true" {
				parts = append(parts, p)
			}
		}
		if len(parts) == 0 {
			return "true"
		}
		return "(and " + strings.Join(parts, " ") + ")"
	}
	return "true"
}

// ---------------------------------------------------------------- function contexts

type fctx struct {
	fn       *ssa.Function
	vals     map[ssa.Value]Val
	freevars map[*ssa.FreeVar]Val
	params   []Val
	depth    int
	defers   []deferred
	isTop    bool
	tag      string // naming prefix for obligations inside inlined callees
	loops    []*loopInfo
	contract *Contract
	entrySt  *State
	namedLoc map[string][]*ssa.Alloc
	retCount int
	mods     map[string][]string
}

type deferred struct {
	call  *ssa.CallCommon
	guard string
}

type retInfo struct {
	guard string
	st    *State
	vals  []Val
	pos   token.Pos
}

type edge struct {
	guard string
	st    *State
	from  *ssa.BasicBlock
}

type loopInfo struct {
	head   *ssa.BasicBlock
	blocks map[*ssa.BasicBlock]bool
	idx    int
	minPos token.Pos
}

func (e *Enc) findLoops(fn *ssa.Function) []*loopInfo {
	byHead := map[*ssa.BasicBlock]*loopInfo{}
	var loops []*loopInfo
	for _, b := range fn.Blocks {
		for _, s := range b.Succs {
			if s.Dominates(b) {
				li := byHead[s]
				if li == nil {
					li = &loopInfo{head: s, blocks: map[*ssa.BasicBlock]bool{s: true}}
					byHead[s] = li
					loops = append(loops, li)
				}
				// add all blocks that reach b without passing head
				var stack []*ssa.BasicBlock
				if !li.blocks[b] {
					li.blocks[b] = true
					stack = append(stack, b)
				}
				for len(stack) > 0 {
					x := stack[len(stack)-1]
					stack = stack[:len(stack)-1]
					for _, p := range x.Preds {
						if !li.blocks[p] {
							li.blocks[p] = true
							stack = append(stack, p)
						}
					}
				}
			}
		}
	}
	for _, li := range loops {
		li.minPos = token.NoPos
		for b := range li.blocks {
			for _, ins := range b.Instrs {
				if p := ins.Pos(); p.IsValid() && (li.minPos == token.NoPos || p < li.minPos) {
					li.minPos = p
				}
			}
		}
	}
	sort.SliceStable(loops, func(i, j int) bool {
		if loops[i].minPos != loops[j].minPos {
			return loops[i].minPos < loops[j].minPos
		}
		if len(loops[i].blocks) != len(loops[j].blocks) {
			return len(loops[i].blocks) > len(loops[j].blocks)
		}
		return loops[i].head.Index < loops[j].head.Index
	})
	for i, li := range loops {
		li.idx = i
	}
	return loops
}

func rpo(fn *ssa.Function, isBack func(from, to *ssa.BasicBlock) bool) []*ssa.BasicBlock {
	seen := map[*ssa.BasicBlock]bool{}
	var post []*ssa.BasicBlock
	var visit func(b *ssa.BasicBlock)
	visit = func(b *ssa.BasicBlock) {
		seen[b] = true
		for _, s := range b.Succs {
			if !seen[s] && !isBack(b, s) {
				visit(s)
			}
		}
		post = append(post, b)
	}
	visit(fn.Blocks[0])
	for i, j := 0, len(post)-1; i < j; i, j = i+1, j-1 {
		post[i], post[j] = post[j], post[i]
	}
	return post
}

// join merges incoming edges into one guard and one state.
func (e *Enc) join(fc *fctx, b *ssa.BasicBlock, in []edge) (string, *State) {
	if len(in) == 1 {
		// phis with single incoming edge
		st := in[0].st
		for _, ins := range b.Instrs {
			phi, ok := ins.(*ssa.Phi)
			if !ok {
				break
			}
			for i, p := range b.Preds {
				if p == in[0].from {
					fc.vals[phi] = e.value(fc, phi.Edges[i])
				}
			}
		}
		return in[0].guard, st
	}
	// lazily allocated locals: if some incoming paths have materialised a variable and others have not,
	// materialise it on the others first
	{
		all := map[*ssa.Alloc]bool{}
		for _, ed := range in {
			for a := range ed.st.mat {
				all[a] = true
			}
		}
		for a := range all {
			for i := range in {
				if _, ok := in[i].st.mat[a]; ok {
					continue
				}
				if _, has := in[i].st.loc[a]; !has {
					continue
				}
				in[i].st = in[i].st.clone()
				tmp := &cursor{guard: in[i].guard, st: in[i].st, fc: fc, block: in[i].from}
				e.materialize(tmp, a)
			}
		}
	}
	// a local pointer variable that holds the address of a not-yet-materialised local on some incoming
	// path: unless all paths agree, the address has to exist now
	for a := range in[0].st.loc {
		agree, any := true, false
		for _, ed := range in {
			t, ok := ed.st.loc[a]
			if ok && strings.HasPrefix(t, "@lazy!") {
				any = true
			}
			if !ok || t != in[0].st.loc[a] {
				agree = false
			}
		}
		if !any || agree {
			continue
		}
		for i := range in {
			t, ok := in[i].st.loc[a]
			if !ok || !strings.HasPrefix(t, "@lazy!") {
				continue
			}
			in[i].st = in[i].st.clone()
			tmp := &cursor{guard: in[i].guard, st: in[i].st, fc: fc, block: in[i].from}
			saved := e.cur
			e.cur = tmp
			in[i].st.loc[a] = e.asTerm(e.lazyRef(in[i].st, t))
			e.cur = saved
		}
	}
	r := e.fresh("r", "Bool")
	var gs []string
	for _, ed := range in {
		gs = append(gs, ed.guard)
	}
	e.assume(r, "(or "+strings.Join(gs, " ")+")")
	st := newState()
	// locals present in all preds
	for a, t0 := range in[0].st.loc {
		all, same := true, true
		for _, ed := range in[1:] {
			t, ok := ed.st.loc[a]
			if !ok {
				all = false
				break
			}
			if t != t0 {
				same = false
			}
		}
		if !all {
			continue
		}
		if same {
			st.loc[a] = t0
			continue
		}
		f := e.fresh(a.Comment, e.m.sortOf(a.Type().(*types.Pointer).Elem()))
		for _, ed := range in {
			e.assume(ed.guard, fmt.Sprintf("(= %s %s)", f, ed.st.loc[a]))
		}
		st.loc[a] = f
	}
	mergeMap := func(get func(s *State) map[string]string, init func(k string) string, sortOf func(k string) string) map[string]string {
		out := map[string]string{}
		keys := map[string]bool{}
		for _, ed := range in {
			for k := range get(ed.st) {
				keys[k] = true
			}
		}
		for _, k := range sortedKeys(keys) {
			var ts []string
			same := true
			for _, ed := range in {
				t, ok := get(ed.st)[k]
				if !ok {
					t = init(k)
				}
				ts = append(ts, t)
				if t != ts[0] {
					same = false
				}
			}
			if same {
				out[k] = ts[0]
				continue
			}
			f := e.fresh(k, sortOf(k))
			for i, ed := range in {
				e.assume(ed.guard, fmt.Sprintf("(= %s %s)", f, ts[i]))
			}
			out[k] = f
		}
		return out
	}
	st.heap = mergeMap(func(s *State) map[string]string { return s.heap }, func(k string) string { return k + "@in" }, func(k string) string { return e.heaps[k].sort })
	st.ghost = mergeMap(func(s *State) map[string]string { return s.ghost }, func(k string) string { return e.ghostGet(newState(), k) }, func(k string) string { return e.ghostSort(k) })
	for a, t0 := range in[0].st.mat {
		all, same := true, true
		for _, ed := range in[1:] {
			t, ok := ed.st.mat[a]
			if !ok {
				all = false
				break
			}
			if t != t0 {
				same = false
			}
		}
		if !all {
			continue
		}
		if same {
			st.mat[a] = t0
			continue
		}
		f := e.fresh("mat", "Addr")
		for _, ed := range in {
			e.assume(ed.guard, fmt.Sprintf("(= %s %s)", f, ed.st.mat[a]))
		}
		e.freshAddrs[f] = true
		st.mat[a] = f
	}
	for a, n := range in[0].st.seen {
		all := true
		for _, ed := range in[1:] {
			m, ok := ed.st.seen[a]
			if !ok {
				all = false
				break
			}
			if m > n {
				n = m
			}
		}
		if all {
			st.seen[a] = n
		}
	}
	// a compiler-generated range index stays readable (by exit clauses: "the scan stopped at k") after
	// control merges with paths that skipped its loop; on those paths its value is arbitrary
	for _, a := range namedAllocs(fc.fn) {
		if a.Comment != "rangeindex" || a.Heap {
			continue
		}
		if _, done := st.loc[a]; done {
			continue
		}
		some := false
		for _, ed := range in {
			if t, ok := ed.st.loc[a]; ok && !strings.HasPrefix(t, "@lazy!") {
				some = true
			}
		}
		if !some {
			continue
		}
		f := e.fresh(a.Comment, e.m.sortOf(a.Type().(*types.Pointer).Elem()))
		n := 0
		for _, ed := range in {
			if t, ok := ed.st.loc[a]; ok && !strings.HasPrefix(t, "@lazy!") {
				e.assume(ed.guard, fmt.Sprintf("(= %s %s)", f, t))
				if m := ed.st.seen[a]; m > n {
					n = m
				}
			}
		}
		st.loc[a] = f
		st.seen[a] = n
	}
	// iterators
	for k, t0 := range in[0].st.iter {
		all, same := true, true
		for _, ed := range in[1:] {
			t, ok := ed.st.iter[k]
			if !ok {
				all = false
				break
			}
			if t != t0 {
				same = false
			}
		}
		if !all {
			continue
		}
		if same {
			st.iter[k] = t0
			continue
		}
		f := e.fresh("iter", e.iterSort(k))
		for _, ed := range in {
			e.assume(ed.guard, fmt.Sprintf("(= %s %s)", f, ed.st.iter[k]))
		}
		st.iter[k] = f
	}
	// phis
	for _, ins := range b.Instrs {
		phi, ok := ins.(*ssa.Phi)
		if !ok {
			break
		}
		f := e.fresh("phi", e.m.sortOf(phi.Type()))
		for _, ed := range in {
			for i, p := range b.Preds {
				if p == ed.from {
					saved := e.cur
					e.cur = &cursor{guard: ed.guard, st: ed.st, fc: fc, block: ed.from}
					v := e.value(fc, phi.Edges[i])
					e.assume(ed.guard, fmt.Sprintf("(= %s %s)", f, e.asTerm(v)))
					e.cur = saved
				}
			}
		}
		fc.vals[phi] = term(f, phi.Type())
	}
	return r, st
}

func (e *Enc) iterSort(v ssa.Value) string {
	r := v.(*ssa.Range)
	if _, ok := r.X.Type().Underlying().(*types.Map); ok {
		m := r.X.Type().Underlying().(*types.Map)
		return "(Array " + e.m.sortOf(m.Key()) + " Bool)"
	}
	return "Int"
}

// runFunc symbolically executes fn from (guard, st). onRet is called at each return.
func (e *Enc) runFunc(fc *fctx, guard string, st *State) []retInfo {
	fn := fc.fn
	if fn.Blocks == nil {
		e.unsupportedf("function %s has no body", fn)
		return nil
	}
	loops := e.findLoops(fn)
	fc.loops = loops
	headOf := map[*ssa.BasicBlock]*loopInfo{}
	for _, l := range loops {
		headOf[l.head] = l
	}
	isBack := func(from, to *ssa.BasicBlock) bool {
		l := headOf[to]
		return l != nil && l.blocks[from]
	}
	order := rpo(fn, isBack)
	incoming := map[*ssa.BasicBlock][]edge{}
	incoming[fn.Blocks[0]] = []edge{{guard, st, nil}}
	var rets []retInfo
	// loop-head bookkeeping: state at head for inv-step checks
	for _, b := range order {
		in := incoming[b]
		if len(in) == 0 {
			continue
		}
		g, s := e.join(fc, b, in)
		if len(in) == 1 {
			s = s.clone()
		}
		if l := headOf[b]; l != nil {
			g, s = e.loopHead(fc, l, g, s)
		}
		cur := &cursor{guard: g, st: s, fc: fc, block: b}
		dead := false
		for ii, ins := range b.Instrs {
			if _, ok := ins.(*ssa.Phi); ok {
				continue
			}
			cur.idx = ii
			e.cur = cur
			switch x := ins.(type) {
			case *ssa.If:
				c := e.asTerm(e.value(fc, x.Cond))
				tg := e.define("g", "Bool", fmt.Sprintf("(and %s %s)", cur.guard, c))
				fg := e.define("g", "Bool", fmt.Sprintf("(and %s (not %s))", cur.guard, c))
				e.flow(fc, headOf, isBack, incoming, b, b.Succs[0], tg, cur.st)
				e.flow(fc, headOf, isBack, incoming, b, b.Succs[1], fg, cur.st)
			case *ssa.Jump:
				e.flow(fc, headOf, isBack, incoming, b, b.Succs[0], cur.guard, cur.st)
			case *ssa.Return:
				var vs []Val
				for _, r := range x.Results {
					e.publishCheck(cur, r, x.Pos(), "returned")
					rv := e.value(fc, r)
					if rv.K == vLocal && e.lazy[rv.Alloc] {
						// the address of a lazily allocated local is returned: it escapes here
						e.materialize(cur, rv.Alloc)
						rv = e.resolveLocal(cur.st, rv)
					}
					vs = append(vs, rv)
				}
				rets = append(rets, retInfo{cur.guard, cur.st, vs, x.Pos()})
			case *ssa.Panic:
				if !e.knownPanicOK(fc, x) {
					e.oblige(cur.guard, "panic", fmt.Sprintf("%sexplicit-panic#%d", fc.tag, e.ordinal(fc.tag+"panic")), "false", []string{"C01"}, x.Pos(), "panic(...) must be unreachable")
				}
				dead = true
			default:
				e.instr(cur, ins)
				if cur.dead {
					dead = true
				}
			}
			if dead {
				break
			}
		}
	}
	return rets
}

func (e *Enc) knownPanicOK(fc *fctx, p *ssa.Panic) bool { return false }

func (e *Enc) flow(fc *fctx, headOf map[*ssa.BasicBlock]*loopInfo, isBack func(a, b *ssa.BasicBlock) bool, incoming map[*ssa.BasicBlock][]edge, from, to *ssa.BasicBlock, guard string, st *State) {
	if isBack(from, to) {
		e.loopBack(fc, headOf[to], guard, st)
		return
	}
	incoming[to] = append(incoming[to], edge{guard, st, from})
}

type cursor struct {
	guard string
	st    *State
	fc    *fctx
	block *ssa.BasicBlock
	idx   int // index of the instruction being executed within block
	dead  bool
}

// ---------------------------------------------------------------- loops

func (e *Enc) loopInvs(fc *fctx, l *loopInfo) []*Clause {
	var out []*Clause
	if fc.contract == nil {
		return nil
	}
	for _, c := range fc.contract.Invs {
		if c.Loop == l.idx {
			out = append(out, c)
		}
	}
	return out
}

func (e *Enc) loopHead(fc *fctx, l *loopInfo, guard string, st *State) (string, *State) {
	invs := e.loopInvs(fc, l)
	// 1. invariants hold on entry
	for _, c := range invs {
		sc := e.specCtx(fc, st, guard)
		e.bindLoopIndex(sc, fc, l, st)
		goal := e.specBool(sc, c.Expr)
		e.oblige(guard, "inv-entry", fmt.Sprintf("%sL%d.%s", fc.tag, l.idx, clauseLabel(c)), goal, e.clauseProps(fc, c), l.head.Instrs[0].Pos(), c.Src)
	}
	// 2. havoc everything the loop may modify
	eff := e.loopEffects(fc, l)
	ns := st.clone()
	for a := range eff.locals {
		if curv, ok := ns.loc[a]; ok {
			et := a.Type().(*types.Pointer).Elem()
			// a struct variable of which only some fields are assigned in the loop keeps the others
			whole := false
			for _, p := range eff.lpaths[a] {
				if len(p) == 0 {
					whole = true
				}
			}
			if !whole && len(eff.lpaths[a]) > 0 && isStruct(et) && e.m.structOf(et) != nil {
				nv := curv
				seen := map[string]bool{}
				for _, p := range eff.lpaths[a] {
					key := fmt.Sprint(p)
					if seen[key] {
						continue
					}
					seen[key] = true
					_, ft := e.project(nv, et, p)
					f := e.fresh(a.Comment, e.m.sortOf(ft))
					e.assume(guard, e.typeAssume(ns, f, ft))
					nv = e.update(nv, et, p, f)
				}
				ns.loc[a] = e.define(a.Comment, e.m.sortOf(et), nv)
				continue
			}
			f := e.fresh(a.Comment, e.m.sortOf(et))
			ns.loc[a] = f
			e.assume(guard, e.typeAssume(ns, f, et))
		}
	}
	// implicit frame invariant (functions with a modifies clause): checked on entry
	if fc.isTop && fc.contract != nil && fc.contract.HasMod {
		for _, h := range sortedKeys(eff.allHeap()) {
			if f := e.frameFormula(fc, h, eff.allHeap()[h], st); f != "" {
				e.oblige(guard, "inv-entry", fmt.Sprintf("%sL%d.frame.%s", fc.tag, l.idx, h), f, e.contractProps(fc.contract, "frame"), l.head.Instrs[0].Pos(), "loop frame (modifies clause)")
			}
		}
	}
	e.havocEffects(ns, eff, guard)
	if fc.isTop && fc.contract != nil && fc.contract.HasMod {
		for _, h := range sortedKeys(eff.allHeap()) {
			if f := e.frameFormula(fc, h, eff.allHeap()[h], ns); f != "" {
				e.assume(guard, f)
			}
		}
	}
	for _, r := range eff.iters {
		if _, ok := ns.iter[r]; ok {
			ns.iter[r] = e.fresh("iter", e.iterSort(r))
			if e.iterSort(r) == "Int" {
				e.assume(guard, fmt.Sprintf("(<= 0 %s)", ns.iter[r]))
			}
		}
	}
	// 2a. a local slice that is only ever assigned make(...) or append(itself, ...) lives in storage
	// allocated by this function: its backing array is fresh at every loop head (by construction)
	for a := range eff.locals {
		if cur, ok := ns.loc[a]; ok && e.selfGrownSlice(fc.fn, a) {
			e.assume(guard, fmt.Sprintf("(or (= (sl_base %s) Nil) (>= (rootid (sl_base %s)) $alloc@in))", cur, cur))
		}
	}
	// 2b. compiler-generated range index: -1 <= rangeindex <= bound-1 holds by construction of
	// range-over-slice/string-index loops (the hidden index is assigned only by the loop header)
	e.rangeIndexFacts(fc, l, guard, ns)
	e.inductionFacts(fc, l, guard, ns, st)
	// 3. assume invariants
	for _, c := range invs {
		sc := e.specCtx(fc, ns, guard)
		e.bindLoopIndex(sc, fc, l, ns)
		e.assume(guard, e.specBool(sc, c.Expr))
	}
	e.smoke(guard, fmt.Sprintf("%sL%d.head", fc.tag, l.idx))
	return guard, ns
}

func (e *Enc) selfGrownSlice(fn *ssa.Function, a *ssa.Alloc) bool {
	if os.Getenv("GOVC_DEBUG") != "" {
		fmt.Fprintf(os.Stderr, "selfGrown? %s heap=%v type=%s\n", a.Comment, a.Heap, a.Type())
	}
	if a.Heap {
		return false
	}
	if _, ok := a.Type().(*types.Pointer).Elem().Underlying().(*types.Slice); !ok {
		return false
	}
	if fn != a.Parent() {
		return false
	}
	n := 0
	for _, b := range fn.Blocks {
		for _, ins := range b.Instrs {
			st, ok := ins.(*ssa.Store)
			if !ok || st.Addr != a {
				continue
			}
			n++
			switch v := st.Val.(type) {
			case *ssa.MakeSlice:
			case *ssa.Slice:
				// make([]T, const) is compiled to new [const]T + slice
				if al, ok := v.X.(*ssa.Alloc); !ok || !al.Heap {
					return false
				}
			case *ssa.Const:
				if v.Value != nil {
					return false
				}
			case *ssa.Call:
				b, ok := v.Call.Value.(*ssa.Builtin)
				if !ok || b.Name() != "append" {
					return false
				}
				ld, ok := v.Call.Args[0].(*ssa.UnOp)
				if !ok || ld.X != a {
					return false
				}
			default:
				return false
			}
		}
	}
	// every other use must be a plain load (the address must not escape)
	if os.Getenv("GOVC_DEBUG") != "" {
		fmt.Fprintf(os.Stderr, "selfGrown %s: stores=%d refs=%d\n", a.Comment, n, len(*a.Referrers()))
		for _, ref := range *a.Referrers() {
			fmt.Fprintf(os.Stderr, "   ref %T %s\n", ref, ref)
		}
	}
	for _, ref := range *a.Referrers() {
		switch r := ref.(type) {
		case *ssa.Store:
			if r.Addr != a {
				return false
			}
		case *ssa.UnOp, *ssa.DebugRef:
		default:
			return false
		}
	}
	return n > 0
}

// privateSlice: a self-grown local slice (selfGrownSlice) whose value is otherwise only measured,
// indexed, ranged over or returned.  No callee can hold a pointer into its backing array before the
// function returns, so calls leave its elements alone.
func (e *Enc) privateSlice(fn *ssa.Function, a *ssa.Alloc) bool {
	if v, ok := e.privSlice[a]; ok {
		return v
	}
	res := e.selfGrownSlice(fn, a)
	if res {
	outer:
		for _, ref := range *a.Referrers() {
			ld, ok := ref.(*ssa.UnOp)
			if !ok {
				continue
			}
			for _, use := range *ld.Referrers() {
				switch u := use.(type) {
				case *ssa.Call:
					if b, ok := u.Call.Value.(*ssa.Builtin); ok && (b.Name() == "len" || b.Name() == "cap" || (b.Name() == "append" && u.Call.Args[0] == ssa.Value(ld))) {
						continue
					}
					res = false
					break outer
				case *ssa.IndexAddr, *ssa.Range, *ssa.Return, *ssa.DebugRef:
				case *ssa.Store:
					// copied into an unnamed result slot on the way to a return
					if slot, ok := u.Addr.(*ssa.Alloc); ok && !slot.Heap && slot.Comment == "" && u.Val == ssa.Value(ld) {
						continue
					}
					res = false
					break outer
				default:
					res = false
					break outer
				}
			}
		}
	}
	e.privSlice[a] = res
	return res
}

// preservePrivateSlices: after a call, the elements of private local slices are what they were before.
func (e *Enc) preservePrivateSlices(cur *cursor, pre *State) {
	fn := cur.fc.fn
	for a, sl := range cur.st.loc {
		if a.Parent() != fn || !e.privateSlice(fn, a) {
			continue
		}
		st, ok := a.Type().(*types.Pointer).Elem().Underlying().(*types.Slice)
		if !ok {
			continue
		}
		leaves := map[string]string{}
		e.m.cellLeaves(st.Elem(), leaves)
		for _, ln := range sortedKeys(leaves) {
			now, was := e.heapGet(cur.st, ln, leaves[ln]), e.heapGet(pre, ln, leaves[ln])
			if now == was {
				continue
			}
			e.assume(cur.guard, fmt.Sprintf("(forall ((k Int)) (! (=> (and (<= 0 k) (< k (sl_cap %s))) (= (select %s %s) (select %s %s))) :pattern ((select %s %s))))", sl, now, selemT(sl, "k"), was, selemT(sl, "k"), now, selemT(sl, "k")))
		}
	}
}

// inductionFacts: a local integer that every store inside the loop only increases by a positive
// constant (`i++`, `i += 2`) is, at the loop head, at least what it was when the loop was entered.
// Sound by the syntactic check itself (no other store to the variable in the loop, address never taken).
func (e *Enc) inductionFacts(fc *fctx, l *loopInfo, guard string, st, entry *State) {
	cands := map[*ssa.Alloc]bool{}
	for b := range l.blocks {
		for _, ins := range b.Instrs {
			s, ok := ins.(*ssa.Store)
			if !ok {
				continue
			}
			a, ok := s.Addr.(*ssa.Alloc)
			if !ok || a.Heap {
				continue
			}
			bt, ok := a.Type().(*types.Pointer).Elem().Underlying().(*types.Basic)
			if !ok || bt.Info()&types.IsInteger == 0 {
				continue
			}
			good := false
			if add, ok := s.Val.(*ssa.BinOp); ok && add.Op == token.ADD {
				if ld, ok := add.X.(*ssa.UnOp); ok && ld.Op == token.MUL && ld.X == ssa.Value(a) {
					if c, ok := add.Y.(*ssa.Const); ok && c.Value != nil && constant.Sign(c.Value) > 0 {
						good = true
					}
				}
			}
			if prev, seen := cands[a]; seen {
				cands[a] = prev && good
			} else {
				cands[a] = good
			}
		}
	}
	stored := map[*ssa.Alloc]int{}
	for b := range l.blocks {
		for _, ins := range b.Instrs {
			if s, ok := ins.(*ssa.Store); ok {
				if a, ok := s.Addr.(*ssa.Alloc); ok {
					stored[a]++
				}
			}
		}
	}
	for a, ok := range cands {
		if !ok || a.Comment == "rangeindex" {
			continue
		}
		now, has := st.loc[a]
		was, had := entry.loc[a]
		if !has || !had || strings.HasPrefix(now, "@lazy!") || strings.HasPrefix(was, "@lazy!") || now == was {
			continue
		}
		e.assume(guard, fmt.Sprintf("(>= %s %s)", now, was))
		// the counting loop `for ...; a < bound; a++`: a never passes the bound it is tested against
		// (unless it started beyond it), provided a is stepped by exactly one, once, and the bound is a
		// constant, a local the loop does not assign, or the length of such a local
		if stored[a] != 1 {
			continue
		}
		ifi, ok := l.head.Instrs[len(l.head.Instrs)-1].(*ssa.If)
		if !ok {
			continue
		}
		cmp, ok := ifi.Cond.(*ssa.BinOp)
		if !ok || cmp.Op != token.LSS {
			continue
		}
		ld, ok := cmp.X.(*ssa.UnOp)
		if !ok || ld.Op != token.MUL || ld.X != ssa.Value(a) {
			continue
		}
		stepOne := false
		for b := range l.blocks {
			// the step must run at most once per iteration: not inside a loop nested in this one
			nested := false
			for _, l2 := range fc.loops {
				if l2 != l && l2.blocks[b] && l.blocks[l2.head] {
					nested = true
				}
			}
			for _, ins := range b.Instrs {
				if s, ok := ins.(*ssa.Store); ok && s.Addr == ssa.Value(a) && !nested {
					if add, ok := s.Val.(*ssa.BinOp); ok {
						if c, ok := add.Y.(*ssa.Const); ok && c.Value != nil && constant.Compare(c.Value, token.EQL, constant.MakeInt64(1)) {
							stepOne = true
						}
					}
				}
			}
		}
		if !stepOne {
			continue
		}
		localTerm := func(v ssa.Value) (string, types.Type, bool) {
			u, ok := v.(*ssa.UnOp)
			if !ok || u.Op != token.MUL {
				return "", nil, false
			}
			b, ok := u.X.(*ssa.Alloc)
			if !ok || b.Heap || stored[b] != 0 {
				return "", nil, false
			}
			t, ok := st.loc[b]
			if !ok || strings.HasPrefix(t, "@lazy!") {
				return "", nil, false
			}
			return t, b.Type().(*types.Pointer).Elem(), true
		}
		bound := ""
		switch y := cmp.Y.(type) {
		case *ssa.Const:
			if y.Value != nil && y.Value.Kind() == constant.Int {
				bound = y.Value.ExactString()
			}
		case *ssa.UnOp:
			if t, _, ok := localTerm(y); ok {
				bound = t
			}
		case *ssa.Call:
			if bi, ok := y.Call.Value.(*ssa.Builtin); ok && bi.Name() == "len" && len(y.Call.Args) == 1 {
				if t, ty, ok := localTerm(y.Call.Args[0]); ok {
					switch e.m.sortOf(ty) {
					case "Slice":
						bound = fmt.Sprintf("(sl_len %s)", t)
					case "Str":
						bound = fmt.Sprintf("(slen %s)", t)
					}
				}
			}
		}
		if bound != "" {
			e.assume(guard, fmt.Sprintf("(or (<= %s %s) (= %s %s))", now, bound, now, was))
		}
	}
}

func (e *Enc) rangeIndexFacts(fc *fctx, l *loopInfo, guard string, st *State) {
	for _, ins := range l.head.Instrs {
		cmp, ok := ins.(*ssa.BinOp)
		if !ok || cmp.Op != token.LSS {
			continue
		}
		inc, ok := cmp.X.(*ssa.BinOp)
		if !ok || inc.Op != token.ADD {
			continue
		}
		ld, ok := inc.X.(*ssa.UnOp)
		if !ok || ld.Op != token.MUL {
			continue
		}
		al, ok := ld.X.(*ssa.Alloc)
		if !ok || al.Comment != "rangeindex" || al.Heap {
			continue
		}
		cur, ok := st.loc[al]
		if !ok {
			continue
		}
		bv, ok := fc.vals[cmp.Y]
		if !ok || bv.K != vTerm {
			continue
		}
		e.assume(guard, fmt.Sprintf("(and (<= (- 1) %s) (<= %s (- %s 1)) (<= 0 %s))", cur, cur, bv.T, bv.T))
	}
}

func (e *Enc) loopBack(fc *fctx, l *loopInfo, guard string, st *State) {
	if fc.isTop && fc.contract != nil && fc.contract.HasMod {
		eff := e.loopEffects(fc, l)
		for _, h := range sortedKeys(eff.allHeap()) {
			if f := e.frameFormula(fc, h, eff.allHeap()[h], st); f != "" {
				key := fmt.Sprintf("%sL%d.frame.%s", fc.tag, l.idx, h)
				e.oblige(guard, "inv-step", fmt.Sprintf("%s#%d", key, e.ordinal(key)), f, e.contractProps(fc.contract, "frame"), l.head.Instrs[0].Pos(), "loop frame (modifies clause)")
			}
		}
	}
	for _, c := range e.loopInvs(fc, l) {
		sc := e.specCtx(fc, st, guard)
		e.bindLoopIndex(sc, fc, l, st)
		goal := e.specBool(sc, c.Expr)
		e.oblige(guard, "inv-step", fmt.Sprintf("%sL%d.%s#%d", fc.tag, l.idx, clauseLabel(c), e.ordinal(fmt.Sprintf("%sL%d.%s", fc.tag, l.idx, clauseLabel(c)))), goal, e.clauseProps(fc, c), l.head.Instrs[0].Pos(), c.Src)
	}
}

func clauseLabel(c *Clause) string {
	if c.Label != "" {
		return c.Label
	}
	return fmt.Sprintf("line%d", c.Line)
}

func (e *Enc) clauseProps(fc *fctx, c *Clause) []string {
	if len(c.Props) > 0 {
		return c.Props
	}
	if fc.contract != nil {
		return fc.contract.Props
	}
	return nil
}

// havocEffects replaces every heap array / ghost in eff by a fresh constant.
func (e *Enc) havocEffects(st *State, eff *Effects, guard string) {
	allocNow := e.ghostGet(st, "$alloc")
	for _, h := range sortedKeys(eff.heap) {
		hd := e.heaps[h]
		if hd == nil {
			e.heapArr(h, eff.heap[h])
			hd = e.heaps[h]
		}
		st.heap[h] = e.fresh(h, hd.sort)
	}
	// arrays written only at freshly allocated addresses: everything allocated so far keeps its contents
	for _, h := range sortedKeys(eff.fheap) {
		if _, general := eff.heap[h]; general {
			continue
		}
		e.heapArr(h, eff.fheap[h])
		hd := e.heaps[h]
		old := e.heapGet(st, h, hd.elem)
		nw := e.fresh(h, hd.sort)
		e.assume(guard, fmt.Sprintf("(forall ((a Addr)) (! (=> (< (rootid a) %s) (= (select %s a) (select %s a))) :pattern ((select %s a))))", allocNow, nw, old, nw))
		st.heap[h] = nw
	}
	for _, g := range sortedKeys(eff.ghost) {
		old := e.ghostGet(st, g)
		st.ghost[g] = e.fresh(g, e.ghostSort(g))
		if g == "$alloc" {
			e.assume(guard, fmt.Sprintf("(<= %s %s)", old, st.ghost[g]))
		}
	}
}

// allocBound is the allocation counter that bounds values read from the heap: the current one, or the
// entry counter while a value is being read from a heap array nobody has written since entry
// (see withEntryAlloc), so that such a value is known not to be fresh.
func (e *Enc) allocBound(st *State) string {
	if e.allocOverride != "" {
		return e.allocOverride
	}
	return e.ghostGet(st, "$alloc")
}

// typeAssumeFrom is typeAssume for a value just read from the heap array term arr.
func (e *Enc) typeAssumeFrom(st *State, arr, v string, t types.Type) string {
	if strings.HasSuffix(arr, "@in") {
		e.allocOverride = "$alloc@in"
		defer func() { e.allocOverride = "" }()
	}
	return e.typeAssume(st, v, t)
}

// bindLoopIndex makes `rangeindex` in the invariants of loop l denote this loop's own iteration index:
// the compiler-generated index of a range loop, or, when the loop was written (or rewritten) as
// `for i := 0; i < n; i++`, its induction variable minus one -- at the loop head both count the
// completed iterations minus one.  This keeps invariants stated with rangeindex valid across
// range <-> index conversions of the loop.
func (e *Enc) bindLoopIndex(sc *specCtx, fc *fctx, l *loopInfo, st *State) {
	var rangeIdx, induction *ssa.Alloc
	for _, ins := range l.head.Instrs {
		if ld, ok := ins.(*ssa.UnOp); ok && ld.Op == token.MUL {
			if a, ok := ld.X.(*ssa.Alloc); ok && a.Comment == "rangeindex" && !a.Heap {
				rangeIdx = a
			}
		}
	}
	if rangeIdx == nil {
		if ifi, ok := l.head.Instrs[len(l.head.Instrs)-1].(*ssa.If); ok {
			if cmp, ok := ifi.Cond.(*ssa.BinOp); ok && (cmp.Op == token.LSS || cmp.Op == token.LEQ || cmp.Op == token.NEQ) {
				if ld, ok := cmp.X.(*ssa.UnOp); ok && ld.Op == token.MUL {
					if a, ok := ld.X.(*ssa.Alloc); ok && !a.Heap && a.Comment != "" {
						if b, ok := a.Type().(*types.Pointer).Elem().Underlying().(*types.Basic); ok && b.Info()&types.IsInteger != 0 {
							induction = a
						}
					}
				}
			}
		}
	}
	// a range over a Go map: `visited(k)` in the loop's invariants says that key k has been handed out by
	// an earlier iteration (the iterator's own bookkeeping: empty at the range statement, one key more per
	// iteration, the whole domain when the loop ends)
	for _, ins := range l.head.Instrs {
		if nx, ok := ins.(*ssa.Next); ok && !nx.IsString {
			if r, ok := nx.Iter.(*ssa.Range); ok {
				if mt, ok := r.X.Type().Underlying().(*types.Map); ok {
					if t, ok := st.iter[r]; ok {
						sc.vars["$visited"] = SV{T: t, Ty: types.NewMap(mt.Key(), types.Typ[types.Bool])}
					}
				}
			}
		}
	}
	switch {
	case rangeIdx != nil:
		if t, ok := st.loc[rangeIdx]; ok && !strings.HasPrefix(t, "@lazy!") {
			sc.vars["rangeindex"] = e.svOfTerm(t, types.Typ[types.Int])
		}
	case induction != nil:
		if _, has := sc.vars["rangeindex"]; has {
			// another loop's range index is in scope under that name: this loop has none of its own
		}
		if t, ok := st.loc[induction]; ok && !strings.HasPrefix(t, "@lazy!") {
			sc.vars["rangeindex"] = e.svOfTerm(fmt.Sprintf("(- %s 1)", t), types.Typ[types.Int])
		}
	}
}
