package main

// Property checks: select contracts, discharge, report violations, write evidence.

import (
	"context"
	"encoding/json"
	"go/token"
	"go/types"
	"fmt"
	"os"
	"os/exec"
	"path/filepath"
	"runtime"
	"sort"
	"strconv"
	"strings"
	"time"

	"golang.org/x/tools/go/ssa"
)

type knownFinding struct {
	Property   string `json:"property"`
	Obligation string `json:"obligation"`
	Witness    string `json:"witness"`
	Note       string `json:"note"`
}

type knownFile struct {
	Open  []knownFinding `json:"open"`
	Fixed []string       `json:"fixed"`
}

func verifRoot() string {
	if v := os.Getenv("GOVC_VERIF"); v != "" {
		return v
	}
	return "/verif"
}

func loadKnown() knownFile {
	var k knownFile
	data, err := os.ReadFile(filepath.Join(toolRoot(), "known_findings.json"))
	if err == nil {
		json.Unmarshal(data, &k)
	}
	return k
}

type oblRecord struct {
	Name   string `json:"name"`
	Kind   string `json:"kind"`
	Status string `json:"status"`
	Solver string `json:"solver"`
	Ms     int64  `json:"ms"`
}

func hasStr(l []string, s string) bool {
	for _, x := range l {
		if x == s {
			return true
		}
	}
	return false
}

func (m *Model) runCheck(prop, tier string, keep bool, timeout int) int {
	t0 := time.Now()
	seed := 1
	if s := os.Getenv("VERIF_SEED"); s != "" {
		if v, err := strconv.Atoi(s); err == nil {
			seed = v
		}
	}
	tmo := 6
	if tier == "thorough" {
		tmo = 60
	}
	if timeout > 0 {
		tmo = timeout
	}
	root := verifRoot()
	replayDir := filepath.Join(root, "replays", prop)
	os.RemoveAll(replayDir)
	os.MkdirAll(replayDir, 0o755)
	work, _ := os.MkdirTemp("", "govc-"+prop)
	defer os.RemoveAll(work)

	type job struct {
		e    *Enc
		obls []*Obl
	}
	var jobs []job
	var funcs []string
	var allObls []*Obl
	var encs []*Enc
	contractErrs := 0
	for _, name := range m.spec.Order {
		ct := m.spec.Contracts[name]
		if !ct.hasProp(prop) && !(prop == "C01" && ct.Opts["safety"] != "off") {
			continue
		}
		if prop == "C01" && !ct.hasProp("C01") && ct.Opts["safety"] != "on" {
			continue
		}
		if ct.Trusted {
			continue
		}
		e, err := m.verifyFunc(name, ct)
		if err != nil {
			fmt.Printf("ERROR %v\n", err)
			contractErrs++
			// a contract naming a function that no longer exists is a failed obligation
			o := &Obl{Name: name + "#contract:function-exists", Kind: "contract", Props: []string{prop}, Status: "error", Output: err.Error(), Func: name, Src: "function under contract must exist"}
			allObls = append(allObls, o)
			continue
		}
		funcs = append(funcs, name)
		encs = append(encs, e)
		var sel []*Obl
		for _, o := range e.obls {
			// the proofs of this property's clauses assume the function's run-time safety obligations
			// (each is assumed once stated), so those are checked along with them for every function
			// whose contract header names the property
			// ... and likewise its loop invariants, frames and type invariants: every obligation of a function
			// whose contract header names the property is checked with it (clauses of other functions only when
			// tagged with the property)
			safetyOfOwn := ct.hasProp(prop)
			if o.Smoke || hasStr(o.Props, prop) || safetyOfOwn {
				sel = append(sel, o)
			}
		}
		// contract resolution errors / unsupported constructs make the function's result untrustworthy
		for _, u := range e.unsupported {
			o := &Obl{Name: name + "#unsupported:" + sanitize(u), Kind: "unsupported", Props: []string{prop}, Status: "error", Output: u, Func: name, Src: u}
			allObls = append(allObls, o)
		}
		jobs = append(jobs, job{e, sel})
	}
	if prop == "C10" {
		allObls = append(allObls, m.structuralC10()...)
	}
	if prop == "C20" {
		allObls = append(allObls, m.structuralC20()...)
	}
	if prop == "C11" || prop == "C01" {
		allObls = append(allObls, m.structuralErrorsUsed(prop)...)
	}
	if prop == "C20" || prop == "C01" {
		allObls = append(allObls, m.structuralRecursion(prop)...)
	}
	// discharge, all functions in one pool
	type task struct {
		e *Enc
		o *Obl
		i int
	}
	var tasks []task
	for _, j := range jobs {
		for i, o := range j.obls {
			tasks = append(tasks, task{j.e, o, i})
			allObls = append(allObls, o)
		}
	}
	opt := solveOpts{timeoutS: tmo, seed: seed, workers: runtime.NumCPU(), dir: work, keep: keep}
	sem := make(chan struct{}, opt.workers)
	done := make(chan struct{}, len(tasks))
	for _, t := range tasks {
		sem <- struct{}{}
		go func(t task) {
			t.e.solveOne(t.o, opt, t.i)
			if tier == "thorough" && t.o.Status == "unsat" && !t.o.Smoke {
				// stability: a second seed must agree
				o2 := *t.o
				o2.Output = ""
				opt2 := opt
				opt2.seed = seed + 7919
				t.e.solveOne(&o2, opt2, t.i+100000)
				if o2.Status != "unsat" {
					t.o.Output += "second seed: " + o2.Status + "\n" + o2.Output
					t.o.Status = "unstable"
				}
			}
			<-sem
			done <- struct{}{}
		}(t)
	}
	for range tasks {
		<-done
	}

	// second chance for obligations that were not discharged: a loaded machine can push a query over the
	// quick timeout.  Re-run them a few at a time with four times the budget before calling it a violation
	// (at most 12, so a tree that really breaks many obligations is still reported quickly).
	{
		var again []task
		for _, t := range tasks {
			if !t.o.Smoke && t.o.Status != "unsat" && t.o.Status != "sat" && t.o.Status != "failed" && t.o.Status != "error" {
				again = append(again, t)
			}
		}
		if len(again) > 12 {
			again = again[:12]
		}
		opt2 := opt
		opt2.timeoutS = tmo * 4
		sem2 := make(chan struct{}, 4)
		done2 := make(chan struct{}, len(again))
		for _, t := range again {
			sem2 <- struct{}{}
			go func(t task) {
				first := t.o.Status
				t.e.solveOne(t.o, opt2, t.i+200000)
				if t.o.Status == "unsat" {
					t.o.Output += fmt.Sprintf("(first attempt with the quick budget: %s)\n", first)
				}
				<-sem2
				done2 <- struct{}{}
			}(t)
		}
		for range again {
			<-done2
		}
	}
	known := loadKnown()
	var recs []oblRecord
	var samples []interface{}
	violations, discharged, total, smokeN, smokeBad := 0, 0, 0, 0, 0
	var solverMs int64
	var knownHit []string
	sort.SliceStable(allObls, func(i, j int) bool { return allObls[i].Name < allObls[j].Name })
	for _, o := range allObls {
		solverMs += o.Ms
		if o.Smoke {
			smokeN++
			if o.Status == "unsat" {
				smokeBad++
				if strings.HasSuffix(o.Name, "#smoke:entry") {
					// contradictory precondition: nothing this function "proves" can be believed
					violations++
					p := writeReplay(replayDir, o, "precondition of the contract is unsatisfiable (vacuous proof)")
					fmt.Printf("VIOLATION property=%s replay=%s no-failing-input-found\n", prop, p)
				}
			}
			continue
		}
		total++
		recs = append(recs, oblRecord{o.Name, o.Kind, o.Status, o.Solver, o.Ms})
		if o.Status == "unsat" {
			discharged++
			if len(samples) < 3 {
				samples = append(samples, map[string]string{"obligation": o.Name, "clause": o.Src, "goal_smt": truncate(o.Goal, 600), "guard": o.Guard})
			}
			continue
		}
		// failed
		isKnown := false
		for _, k := range known.Open {
			// findings are recorded by obligation (function#kind:label), not by return ordinal or line; an
			// obligation of another property's clause that this check re-proves (selection rule) is the same finding
			if k.Obligation == o.Name || k.Obligation == stripRet(o.Name) {
				isKnown = true
				if k.Property == prop {
					fmt.Printf("KNOWN-FINDING: property=%s %s: %s\n", k.Property, o.Name, k.Witness)
				} else {
					// a clause of another property that this check re-proves because it shares the function:
					// that property's own check reports the finding
					fmt.Printf("  (not counted: %s fails, the recorded finding of property %s)\n", o.Name, k.Property)
				}
				knownHit = append(knownHit, o.Name)
				break
			}
		}
		if isKnown {
			continue
		}
		violations++
		p := writeReplay(replayDir, o, "")
		fmt.Printf("VIOLATION property=%s replay=%s no-failing-input-found\n", prop, p)
		fmt.Printf("  obligation %s [%s] status=%s\n  clause: %s\n", o.Name, o.Kind, o.Status, o.Src)
	}
	// a concrete failing input, if the probe corpus has one: small self-contained tests per property with
	// expectations taken from the property statements (independent of the contracts), run against a scratch
	// copy of the working tree.  Only consulted after an obligation failed; a failing probe is replayable.
	if violations > 0 {
		if p, names := m.runProbes(prop, replayDir); p != "" {
			fmt.Printf("VIOLATION property=%s replay=%s\n", prop, p)
			fmt.Printf("  failing input found by replaying the probe corpus against the real code: %s\n", strings.Join(names, ", "))
		}
	}
	// vacuity: a function none of whose returns is reachable under its precondition and assumptions proves nothing
	{
		retSmokes, retDead := map[string]int{}, map[string]int{}
		for _, o := range allObls {
			if o.Smoke && strings.Contains(o.Name, "#smoke:ret") {
				retSmokes[o.Func]++
				if o.Status == "unsat" {
					retDead[o.Func]++
				}
			}
		}
		for _, f := range sortedKeys(retSmokes) {
			if retSmokes[f] > 0 && retDead[f] == retSmokes[f] {
				violations++
				o := &Obl{Name: f + "#vacuity:no-reachable-return", Kind: "vacuity", Func: f, Status: "unsat", Src: "every return of the function is unreachable under its contract's assumptions: the proof is vacuous"}
				p := writeReplay(replayDir, o, "vacuous proof")
				fmt.Printf("VIOLATION property=%s replay=%s no-failing-input-found\n", prop, p)
			}
		}
	}
	if total == 0 {
		fmt.Printf("ERROR: no obligations generated for %s\n", prop)
		violations++
	}
	// evidence
	assumed := map[string]bool{}
	inl := map[string]bool{}
	hav := map[string]bool{}
	var notes []string
	explicit := map[string]bool{}
	for _, e := range encs {
		for k := range e.explicitAssumes {
			explicit[k] = true
		}
		for k := range e.assumedCallees {
			assumed[k] = true
		}
		for k := range e.inlined {
			inl[k] = true
		}
		for k := range e.havocked {
			hav[k] = true
		}
		notes = append(notes, e.notes...)
	}
	var axioms []string
	for _, a := range m.spec.Axioms {
		axioms = append(axioms, a.Label+": "+a.Src)
	}
	ev := map[string]interface{}{
		"property_id": prop,
		"tier":        tier,
		"seed":        seed,
		"level":       "proof",
		"wall_s":      time.Since(t0).Seconds(),
		"violations":  violations,
		"coverage": map[string]interface{}{
			// obligations of recorded known findings are not part of what this run claims proved: they are
			// listed under known_findings_hit (and printed as KNOWN-FINDING by the finding's own property)
			"obligations":              total - len(knownHit),
			"discharged":               discharged,
			"obligations_generated":    total,
			"checker_cmd":              fmt.Sprintf("bin/govc check --property %s --tier %s", prop, tier),
			"trusted_base":             trustedBase(),
			"functions_under_contract": funcs,
			"obligation_results":       recs,
			"solver_time_s":            float64(solverMs) / 1000,
			"solver_timeout_s":         tmo,
			"smoke_obligations":        smokeN,
			"smoke_unreachable":        smokeBad,
			"known_findings_hit":       knownHit,
			"explanation":              knownExplanation(prop, knownHit),
			"assumed_contracts":        sortedKeys(assumed),
			"inlined_callees":          sortedKeys(inl),
			"havocked_callees":         sortedKeys(hav),
			"spec_axioms":              axioms,
			"explicit_assumptions":     sortedKeys(explicit),
			"samples":                  samples,
			"notes":                    notes,
			"repo_source_hash":         m.sourceHash(),
		},
		"assumptions": append(standingAssumptions(sortedKeys(assumed), sortedKeys(hav)), prefixAll("explicit assumption in a contract: ", sortedKeys(explicit))...),
	}
	data, _ := json.MarshalIndent(ev, "", " ")
	os.MkdirAll(filepath.Join(root, "evidence"), 0o755)
	os.WriteFile(filepath.Join(root, "evidence", prop+".json"), data, 0o644)
	fmt.Printf("%s: %d obligations, %d discharged, %d violations, %d known-finding obligations set aside, %d functions, %.1fs\n", prop, total-len(knownHit), discharged, violations, len(knownHit), len(funcs), time.Since(t0).Seconds())
	if violations > 0 {
		return 1
	}
	return 0
}

func isSafetyKind(k string) bool {
	switch k {
	case "nil", "idx", "slice", "div", "assert", "panic", "mapnil", "makeneg", "boxnil", "repeatneg", "fmtconst", "makecap", "mustcompile":
		return true
	}
	return false
}

func prefixAll(p string, l []string) []string {
	var out []string
	for _, x := range l {
		out = append(out, p+x)
	}
	return out
}

func truncate(s string, n int) string {
	if len(s) > n {
		return s[:n] + "..."
	}
	return s
}

func writeReplay(dir string, o *Obl, extra string) string {
	p := filepath.Join(dir, sanitize(o.Name)+".replay.txt")
	var sb strings.Builder
	fmt.Fprintf(&sb, "failed obligation: %s\nkind: %s\nfunction: %s\nclause: %s\nstatus: %s\n", o.Name, o.Kind, o.Func, o.Src, o.Status)
	if extra != "" {
		fmt.Fprintf(&sb, "note: %s\n", extra)
	}
	fmt.Fprintf(&sb, "counterexample: none (solver gave no model; quantified/uninterpreted theories) -- no-failing-input-found\n")
	fmt.Fprintf(&sb, "solver output:\n%s\n", o.Output)
	if o.Query != "" {
		if q, err := os.ReadFile(o.Query); err == nil {
			qp := filepath.Join(dir, sanitize(o.Name)+".smt2")
			os.WriteFile(qp, q, 0o644)
			fmt.Fprintf(&sb, "query: %s (re-run: z3-new -T:60 %s)\n", qp, qp)
		}
	}
	fmt.Fprintf(&sb, "goal:\n%s\n", o.Goal)
	os.WriteFile(p, []byte(sb.String()), 0o644)
	return p
}

func trustedBase() []string {
	return []string{
		"govc: go/ssa (naive form) to SMT translation, DESIGN.md section 2.3",
		"golang.org/x/tools v0.29.0 go/packages, go/ssa, go/types",
		"z3 5.1.0, z3 4.8.12, cvc5 1.0.3 (one unsat answer discharges an obligation)",
		"Go memory safety without unsafe/reflection; computed write sets",
	}
}

func standingAssumptions(assumed, hav []string) []string {
	out := []string{
		"int/int64 arithmetic treated as mathematical integers (no overflow obligations generated); uint8/16/32 wrap modelled",
		"strings are an uninterpreted sort with length/byte/substring/concat axioms (DESIGN.md 2.3)",
		"float64 is SMT FloatingPoint 11 53; int<->float conversions are uninterpreted with the axioms in enc_ext.go",
		"termination is not proved",
		"spec axioms listed under coverage.spec_axioms are assumed",
	}
	for _, a := range assumed {
		if strings.HasPrefix(a, "ext:") {
			out = append(out, "assumed library model: "+a[4:])
		}
		if strings.HasPrefix(a, "trusted:") {
			out = append(out, "trusted contract (assumed, body not verified against it): "+a[8:])
		}
	}
	for _, h := range hav {
		out = append(out, "callee treated as arbitrary within its write set: "+h)
	}
	return out
}

func (m *Model) sourceHash() string {
	return m.srcHash
}

// structuralC10: obligations decided on the SSA itself (DESIGN.md 4/C10): package state is written only
// by the lazy prototype initialisers, nothing reachable in package lang calls a source of
// nondeterminism, and Go maps are ranged over only in the functions whose contracts make the order
// unobservable.
func (m *Model) structuralC10() []*Obl {
	var out []*Obl
	add := func(name, src string, ok bool, detail string) {
		st := "unsat"
		if !ok {
			st = "failed"
		}
		out = append(out, &Obl{Name: name, Kind: "structural", Props: []string{"C10"}, Status: st, Solver: "govc (SSA scan)", Output: detail, Func: "package lang", Src: src})
	}
	allowedWriter := map[string]string{"arrayPrototype": "getArrayPrototype", "objPrototype": "getObjPrototype", "strPrototype": "getStrPrototype", "numPrototype": "getNumPrototype"}
	allowedRange := map[string]bool{"NewValue": true, "Value.toGoValueInterval": true, "Value.prettyStringInteral": true, "Evaluator.evalExpr": true, "Evaluator.evalCaseMatch": true, "Evaluator.evalStatement": true}
	badPkgs := map[string]bool{"time": true, "math/rand": true, "math/rand/v2": true, "crypto/rand": true, "os": true, "runtime": true, "unsafe": true, "reflect": true, "sync": true}
	var writes, ranges, calls []string
	for _, name := range sortedKeys(m.funcs) {
		f := m.funcs[name]
		if f.Pkg == nil && f.Parent() == nil {
			continue
		}
		pkg := f.Pkg
		for p := f.Parent(); pkg == nil && p != nil; p = p.Parent() {
			pkg = p.Pkg
		}
		if pkg == nil || pkg.Pkg.Name() != "lang" {
			continue
		}
		isInit := f.Name() == "init" && f.Parent() == nil
		for _, b := range f.Blocks {
			for _, ins := range b.Instrs {
				switch x := ins.(type) {
				case *ssa.Store:
					if g, ok := x.Addr.(*ssa.Global); ok && !isInit {
						if allowedWriter[g.Name()] != name {
							writes = append(writes, fmt.Sprintf("%s written in %s (%s)", g.Name(), name, m.fset.Position(x.Pos())))
						}
					}
				case *ssa.Range:
					if _, ok := x.X.Type().Underlying().(*types.Map); ok {
						if !allowedRange[name] {
							ranges = append(ranges, fmt.Sprintf("range over a map in %s (%s)", name, m.fset.Position(x.Pos())))
						} else if why := m.mapRangeOrderSensitive(f, x); why != "" {
							ranges = append(ranges, fmt.Sprintf("range over a map in %s (%s) whose body depends on the iteration order: %s", name, m.fset.Position(x.Pos()), why))
						}
					}
				case *ssa.Go, *ssa.Select:
					calls = append(calls, fmt.Sprintf("concurrency in %s (%s)", name, m.fset.Position(ins.Pos())))
				case ssa.CallInstruction:
					if c := x.Common().StaticCallee(); c != nil && c.Pkg != nil && badPkgs[c.Pkg.Pkg.Path()] {
						calls = append(calls, fmt.Sprintf("%s calls %s (%s)", name, c.String(), m.fset.Position(ins.Pos())))
					}
				}
			}
		}
	}
	// package-level variables that can hold references are state shared by every run in the process
	var shared []string
	okGlobal := map[string]bool{"arrayPrototype": true, "objPrototype": true, "strPrototype": true, "numPrototype": true,
		"errContinue": true, "errBreak": true, "errReturn": true, "errNext": true, "errExit": true}
	for g := range m.globals {
		if g.Pkg == nil || g.Pkg.Pkg.Name() != "lang" || okGlobal[g.Name()] || strings.HasPrefix(g.Name(), "init$") {
			continue
		}
		if holdsReference(g.Type().(*types.Pointer).Elem(), map[types.Type]bool{}) {
			shared = append(shared, fmt.Sprintf("%s %s (%s)", g.Name(), g.Type().(*types.Pointer).Elem(), m.fset.Position(g.Pos())))
		}
	}
	sort.Strings(shared)
	add("package lang#structural:no-other-shared-reference-state", "the only package-level variables of package lang that can hold references are the four prototype singletons and the five control-flow sentinels", len(shared) == 0, strings.Join(shared, "\n"))
	add("package lang#structural:package-state-written-only-by-prototype-initialisers", "no package-level variable of package lang is assigned outside init, except each prototype singleton by its own lazy initialiser", len(writes) == 0, strings.Join(writes, "\n"))
	add("package lang#structural:maps-ranged-only-where-order-is-unobservable", "range over a Go map occurs only in NewValue, toGoValueInterval, prettyStringInteral, evalExpr, evalCaseMatch, evalStatement, and there only with an order-insensitive body: no early exit, no output, no fault, no write to existing values other than entering distinct keys into a map or collecting the keys into a local slice (sorted before use: see the sorted-order invariants)", len(ranges) == 0, strings.Join(ranges, "\n"))
	add("package lang#structural:no-nondeterminism-source", "package lang starts no goroutine and calls nothing in time, math/rand, crypto/rand, os, runtime, reflect, unsafe, sync", len(calls) == 0, strings.Join(calls, "\n"))
	return out
}

// runProbes copies the working tree's sources into a scratch directory, adds the probe tests of the
// property (/verif/probes/<prop>*_probe_test.go) and runs them.  Returns the replay file and the failing
// test names, or "" when every probe passes (or nothing could be run).
func (m *Model) runProbes(prop, replayDir string) (string, []string) {
	probes, _ := filepath.Glob(filepath.Join(toolRoot(), "probes", prop+"*_probe_test.go"))
	if len(probes) == 0 {
		return "", nil
	}
	tmp, err := os.MkdirTemp("", "govc-probe")
	if err != nil {
		return "", nil
	}
	defer os.RemoveAll(tmp)
	for _, f := range []string{"go.mod", "go.sum", "jqawk.go"} {
		if data, err := os.ReadFile(filepath.Join(m.repo, f)); err == nil {
			os.WriteFile(filepath.Join(tmp, f), data, 0o644)
		}
	}
	for _, d := range []string{"src", "cli"} {
		os.MkdirAll(filepath.Join(tmp, d), 0o755)
		ents, _ := os.ReadDir(filepath.Join(m.repo, d))
		for _, en := range ents {
			if strings.HasSuffix(en.Name(), ".go") {
				if data, err := os.ReadFile(filepath.Join(m.repo, d, en.Name())); err == nil {
					os.WriteFile(filepath.Join(tmp, d, en.Name()), data, 0o644)
				}
			}
		}
	}
	for _, f := range probes {
		if data, err := os.ReadFile(f); err == nil {
			os.WriteFile(filepath.Join(tmp, filepath.Base(f)), data, 0o644)
		}
	}
	ctx, cancel := context.WithTimeout(context.Background(), 120*time.Second)
	defer cancel()
	cmd := exec.CommandContext(ctx, "go", "test", "-vet=off", "-count=1", "-timeout", "90s", "-v", ".")
	cmd.Dir = tmp
	cmd.Env = append(os.Environ(), "GOFLAGS=-mod=mod", "GOPROXY=off", "GOSUMDB=off", "GOTOOLCHAIN=local")
	out, _ := cmd.CombinedOutput()
	var failing []string
	for _, l := range strings.Split(string(out), "\n") {
		l = strings.TrimSpace(l)
		if strings.HasPrefix(l, "--- FAIL: ") {
			name := strings.Fields(strings.TrimPrefix(l, "--- FAIL: "))[0]
			if !strings.Contains(name, "/") {
				failing = append(failing, name)
			}
		}
	}
	if len(failing) == 0 {
		return "", nil
	}
	p := filepath.Join(replayDir, "failing-input.replay.txt")
	var sb strings.Builder
	fmt.Fprintf(&sb, "property %s: a concrete failing input for the violated obligations (see the other replay files in this directory)\n", prop)
	fmt.Fprintf(&sb, "failing probe tests: %s\n", strings.Join(failing, ", "))
	fmt.Fprintf(&sb, "probe sources: %s\n", strings.Join(probes, " "))
	fmt.Fprintf(&sb, "re-run: T=$(mktemp -d) && cp -r %s/go.mod %s/go.sum %s/jqawk.go %s/src %s/cli $T/ && cp %s $T/ && (cd $T && GOFLAGS=-mod=mod GOPROXY=off GOSUMDB=off go test -vet=off -count=1 -run '%s' -v .); rm -rf $T\n", m.repo, m.repo, m.repo, m.repo, m.repo, strings.Join(probes, " "), strings.Join(failing, "|"))
	fmt.Fprintf(&sb, "\noutput of the failing run:\n%s\n", truncate(string(out), 20000))
	os.WriteFile(p, []byte(sb.String()), 0o644)
	return p, failing
}

// stripRet drops the "@retN" suffix of an obligation name.
func stripRet(n string) string {
	if i := strings.LastIndex(n, "@ret"); i >= 0 {
		return n[:i]
	}
	return n
}

// mapRangeOrderSensitive inspects the body of a range-over-map loop.  It returns "" when the body cannot
// make the iteration order observable: it has no early exit (return, break, panic), calls only functions
// that write no existing heap location and no ghost state (output, fault latch), and itself only assigns
// locals, appends to local slices and enters keys into maps.
func (m *Model) mapRangeOrderSensitive(f *ssa.Function, rng *ssa.Range) string {
	var next *ssa.Next
	for _, r := range *rng.Referrers() {
		if n, ok := r.(*ssa.Next); ok {
			next = n
		}
	}
	if next == nil {
		return "no Next instruction found"
	}
	hb := next.Block()
	ifi, ok := hb.Instrs[len(hb.Instrs)-1].(*ssa.If)
	if !ok || len(hb.Succs) != 2 {
		return "unexpected loop shape"
	}
	_ = ifi
	body := map[*ssa.BasicBlock]bool{}
	var walk func(b *ssa.BasicBlock)
	walk = func(b *ssa.BasicBlock) {
		if b == hb || body[b] {
			return
		}
		body[b] = true
		for _, s := range b.Succs {
			walk(s)
		}
	}
	// everything reachable from the body entry without passing the header ...
	walk(hb.Succs[0])
	// ... that can get back to the header is the body; the rest is code after an early exit
	reach := map[*ssa.BasicBlock]bool{}
	changed := true
	for changed {
		changed = false
		for b := range body {
			if reach[b] {
				continue
			}
			for _, s := range b.Succs {
				if s == hb || reach[s] {
					reach[b] = true
					changed = true
				}
			}
		}
	}
	for b := range body {
		if !reach[b] {
			return fmt.Sprintf("early exit from the loop (%s)", m.fset.Position(firstPos(b)))
		}
	}
	eff := newEffects()
	for b := range body {
		for _, ins := range b.Instrs {
			switch x := ins.(type) {
			case *ssa.Return, *ssa.Panic:
				return fmt.Sprintf("early exit from the loop (%s)", m.fset.Position(ins.Pos()))
			case *ssa.Store:
				// stores into local variables (including the argument array of a variadic call) are local
				a := x.Addr
				for {
					switch y := a.(type) {
					case *ssa.FieldAddr:
						a = y.X
						continue
					case *ssa.IndexAddr:
						a = y.X
						continue
					}
					break
				}
				if _, ok := a.(*ssa.Alloc); !ok {
					return fmt.Sprintf("store through a pointer (%s)", m.fset.Position(x.Pos()))
				}
			case *ssa.Go, *ssa.Defer, *ssa.Send:
				return fmt.Sprintf("%T in the body (%s)", ins, m.fset.Position(ins.Pos()))
			case ssa.CallInstruction:
				if bi, ok := x.Common().Value.(*ssa.Builtin); ok && (bi.Name() == "append" || bi.Name() == "len" || bi.Name() == "cap") {
					continue
				}
				m.callEffects(x.Common(), eff)
				delete(eff.ghost, "$alloc") // allocation is not observable
				if len(eff.heap)+len(eff.ghost) != 0 {
					return fmt.Sprintf("a call that may write existing values, print or fail (%s; writes %v %v)", m.fset.Position(ins.Pos()), sortedKeys(eff.heap), sortedKeys(eff.ghost))
				}
			}
		}
	}
	return ""
}

func firstPos(b *ssa.BasicBlock) token.Pos {
	for _, ins := range b.Instrs {
		if ins.Pos().IsValid() {
			return ins.Pos()
		}
	}
	return token.NoPos
}

// holdsReference: a value of type t can contain a pointer, map, slice, channel, function or interface.
func holdsReference(t types.Type, seen map[types.Type]bool) bool {
	if seen[t] {
		return false
	}
	seen[t] = true
	switch u := t.Underlying().(type) {
	case *types.Basic:
		return u.Kind() == types.UnsafePointer
	case *types.Array:
		return holdsReference(u.Elem(), seen)
	case *types.Struct:
		for i := 0; i < u.NumFields(); i++ {
			if holdsReference(u.Field(i).Type(), seen) {
				return true
			}
		}
		return false
	}
	return true
}

func knownExplanation(prop string, hit []string) string {
	if len(hit) == 0 {
		return "every generated obligation was discharged"
	}
	return fmt.Sprintf("%d generated obligations belong to genuine defects recorded in /verif/known_findings.json (open findings, DESIGN.md 10.5); they fail as recorded, are reported as KNOWN-FINDING by the check of the finding's own property, and are not counted under obligations/discharged: %s", len(hit), strings.Join(hit, ", "))
}

// structuralErrorsUsed: in package lang no error result of a call is discarded (C11: a fault stops the
// run at the fault; C01: the error funnel), except at the listed sites.
func (m *Model) structuralErrorsUsed(prop string) []*Obl {
	allowed := map[string]string{
		// output errors of the evaluator's writer are not part of the language
		"fmt.Fprint": "output", "fmt.Fprintf": "output", "fmt.Fprintln": "output",
		"(*strings.Builder).WriteString": "cannot fail", "(*strings.Builder).WriteByte": "cannot fail", "(*strings.Builder).WriteRune": "cannot fail",
	}
	allowedSite := map[string]string{
		// sort copies elements that were already copied into the array, so copying cannot fail
		// (explicit assumption array-elements-are-never-functions)
		"getArrayPrototype/sort -> copyValue": "explicit assumption",
		// the root frame has depth 0, which pushFrame never refuses (its contract: refused-iff-too-deep)
		"NewEvaluator -> (*Evaluator).pushFrame": "cannot fail",
	}
	errT := types.Universe.Lookup("error").Type()
	var dropped []string
	for _, name := range sortedKeys(m.funcs) {
		f := m.funcs[name]
		pkg := f.Pkg
		for p := f.Parent(); pkg == nil && p != nil; p = p.Parent() {
			pkg = p.Pkg
		}
		if pkg == nil || pkg.Pkg.Name() != "lang" {
			continue
		}
		for _, b := range f.Blocks {
			for _, ins := range b.Instrs {
				call, ok := ins.(*ssa.Call)
				if !ok {
					continue
				}
				res := call.Call.Signature().Results()
				idx := -1
				for i := 0; i < res.Len(); i++ {
					if types.Identical(res.At(i).Type(), errT) {
						idx = i
					}
				}
				if idx < 0 {
					continue
				}
				used := false
				for _, r := range *call.Referrers() {
					if _, isDbg := r.(*ssa.DebugRef); isDbg {
						continue
					}
					if res.Len() == 1 {
						used = true
						break
					}
					if ex, ok := r.(*ssa.Extract); ok && ex.Index == idx {
						for _, r2 := range *ex.Referrers() {
							if _, isDbg := r2.(*ssa.DebugRef); !isDbg {
								used = true
							}
						}
					}
				}
				if used {
					continue
				}
				callee := "dynamic call"
				if sc := call.Call.StaticCallee(); sc != nil {
					callee = sc.String()
					if i := strings.LastIndex(callee, "/"); i >= 0 && !strings.HasPrefix(callee, "(") {
						callee = callee[i+1:]
					}
					callee = strings.Replace(callee, "github.com/alligator/jqawk/src.", "", 1)
					callee = strings.Replace(callee, "src.", "", 1)
				}
				if allowed[callee] != "" || allowedSite[name+" -> "+callee] != "" {
					continue
				}
				dropped = append(dropped, fmt.Sprintf("%s discards the error of %s (%s)", name, callee, m.fset.Position(call.Pos())))
			}
		}
	}
	st := "unsat"
	if len(dropped) > 0 {
		st = "failed"
	}
	return []*Obl{{Name: "package lang#structural:no-error-result-is-discarded", Kind: "structural", Props: []string{prop}, Status: st, Solver: "govc (SSA scan)", Output: strings.Join(dropped, "\n"), Func: "package lang",
		Src: "no call in package lang discards an error result, except output errors of the writer, strings.Builder writes, the element copies of sort and the root frame push"}}
}

// structuralC20: the three nesting counters are written only by the functions that count with them, so
// no other code can reset or skip a count (the bounds themselves are proved as invariants: evOK, parserOK,
// wfFrame).
func (m *Model) structuralC20() []*Obl {
	writers := map[string]map[string]bool{
		"Evaluator.evalDepth": {"Evaluator.evalExpr": true, "Evaluator.evalExpr$1": true, "Evaluator.evalStatement": true, "Evaluator.evalStatement$1": true},
		"Parser.depth":        {"Parser.expressionWithPrec": true, "Parser.expressionWithPrec$1": true, "Parser.statement": true, "Parser.statement$1": true},
		"stackFrame.depth":    {"Evaluator.pushFrame": true},
	}
	var bad []string
	for _, name := range sortedKeys(m.funcs) {
		f := m.funcs[name]
		pkg := f.Pkg
		for p := f.Parent(); pkg == nil && p != nil; p = p.Parent() {
			pkg = p.Pkg
		}
		if pkg == nil || pkg.Pkg.Name() != "lang" {
			continue
		}
		for _, b := range f.Blocks {
			for _, ins := range b.Instrs {
				st, ok := ins.(*ssa.Store)
				if !ok {
					continue
				}
				fa, ok := st.Addr.(*ssa.FieldAddr)
				if !ok {
					continue
				}
				pt, ok := fa.X.Type().Underlying().(*types.Pointer)
				if !ok {
					continue
				}
				nt, ok := pt.Elem().(*types.Named)
				if !ok {
					continue
				}
				stt, ok := nt.Underlying().(*types.Struct)
				if !ok {
					continue
				}
				key := nt.Obj().Name() + "." + stt.Field(fa.Field).Name()
				if w, tracked := writers[key]; tracked && !w[name] {
					bad = append(bad, fmt.Sprintf("%s writes %s (%s)", name, key, m.fset.Position(st.Pos())))
				}
			}
		}
	}
	status := "unsat"
	if len(bad) > 0 {
		status = "failed"
	}
	return []*Obl{{Name: "package lang#structural:nesting-counters-written-only-by-their-counting-functions", Kind: "structural", Props: []string{"C20"}, Status: status, Solver: "govc (SSA scan)", Output: strings.Join(bad, "\n"), Func: "package lang",
		Src: "Evaluator.evalDepth is stored only by evalExpr/evalStatement, Parser.depth only by expressionWithPrec/statement, stackFrame.depth only by pushFrame"}}
}

// structuralRecursion: every cycle of the call graph of package lang passes through one of the four
// functions that count nesting depth against a limit (C20, C01: recursion of any shape is refused by a
// limit, not by the Go stack), or uses only the listed edges, each with the reason its depth is bounded.
// The call graph is static callees plus, for interface method calls, every method of that name on a
// type of package lang that implements the interface (class-hierarchy approximation).
func (m *Model) structuralRecursion(prop string) []*Obl {
	counted := map[string]bool{"Evaluator.evalExpr": true, "Evaluator.evalStatement": true, "Parser.expressionWithPrec": true, "Parser.statement": true}
	// caller -> callee edges that may lie on a cycle without a counter, with the bound
	allowed := map[string]string{
		// the interface call in the default arm of leftmostToken's type switch has a receiver that is neither
		// an ExprBinary nor an ExprCall, so it does not come back (the two arms are loops, not calls)
		"leftmostToken -> ExprBinary.Token": "default arm excludes the node kind",
		"leftmostToken -> ExprCall.Token":   "default arm excludes the node kind",
		"ExprBinary.Token -> leftmostToken": "no recursion behind it, see above",
		"ExprCall.Token -> leftmostToken":   "no recursion behind it, see above",
		// one level per nesting level of a decoded JSON value: bounded by the decoder's nesting limit (10000)
		"NewValue -> NewValue": "JSON nesting limit",
		// one level per container on the path from the value printed or converted; the path is scanned for
		// recurrence, so a cycle ends the descent; depth is the value's nesting depth (DESIGN.md 7: memory)
		"Value.prettyStringInteral -> Value.prettyStringInteral": "value nesting depth, cycles cut",
		"Value.toGoValueInterval -> Value.toGoValueInterval":     "value nesting depth, cycles cut",
		// one level per link of a placeholder chain a.b.c...: one link per member access evaluated, which
		// evalExpr counts
		"Evaluator.createSpeculativeObjects -> Evaluator.createSpeculativeObjects": "placeholder chain <= evaluation depth",
		"existingContainer -> existingContainer":                                   "placeholder chain <= evaluation depth",
		// one level per link of the prototype chain: array/string/number prototype -> object prototype -> none
		// (the prototypes are package singletons; programs cannot set Proto)
		"Value.GetMember -> Value.getProtoMember": "prototype chain of length <= 2",
		"Value.getProtoMember -> Value.GetMember": "prototype chain of length <= 2",
		// one level per nesting level of an array pattern, which the parser counts
		"Evaluator.evalCaseMatch -> Evaluator.evalCaseMatch": "pattern nesting <= parse depth",
	}
	inLang := func(f *ssa.Function) bool {
		pkg := f.Pkg
		for p := f.Parent(); pkg == nil && p != nil; p = p.Parent() {
			pkg = p.Pkg
		}
		return pkg != nil && pkg.Pkg.Name() == "lang"
	}
	nameOf := map[*ssa.Function]string{}
	for n, f := range m.funcs {
		if inLang(f) {
			nameOf[f] = n
		}
	}
	// methods by name, for interface calls
	byMethod := map[string][]*ssa.Function{}
	for f, n := range nameOf {
		if f.Signature.Recv() != nil {
			byMethod[f.Name()] = append(byMethod[f.Name()], f)
		}
		_ = n
	}
	edges := map[string]map[string]bool{}
	add := func(a, b string) {
		if edges[a] == nil {
			edges[a] = map[string]bool{}
		}
		edges[a][b] = true
	}
	for f, n := range nameOf {
		owner := n
		for _, b := range f.Blocks {
			for _, ins := range b.Instrs {
				var cc *ssa.CallCommon
				switch x := ins.(type) {
				case *ssa.Call:
					cc = &x.Call
				case *ssa.Defer:
					cc = &x.Call
				case *ssa.Go:
					cc = &x.Call
				}
				if cc == nil {
					continue
				}
				if cc.IsInvoke() {
					it, _ := cc.Value.Type().Underlying().(*types.Interface)
					for _, g := range byMethod[cc.Method.Name()] {
						rt := g.Signature.Recv().Type()
						if it == nil || types.Implements(rt, it) {
							add(owner, nameOf[g])
						}
					}
					continue
				}
				if g := cc.StaticCallee(); g != nil {
					if gn, ok := nameOf[g]; ok {
						add(owner, gn)
					}
					continue
				}
				// a call through a function value: the parse-rule table and native functions; parselets are
				// reached only from expressionWithPrec (counted), natives only from callFunction under evalExpr
			}
		}
	}
	// drop the counted functions, then every remaining cycle edge must be listed
	var bad []string
	index := map[string]int{}
	low := map[string]int{}
	onStack := map[string]bool{}
	var stack []string
	comp := map[string]int{}
	n, nc := 0, 0
	var strong func(v string)
	strong = func(v string) {
		index[v], low[v] = n, n
		n++
		stack = append(stack, v)
		onStack[v] = true
		for _, w := range sortedKeys(edges[v]) {
			if counted[w] {
				continue
			}
			if _, seen := index[w]; !seen {
				strong(w)
				if low[w] < low[v] {
					low[v] = low[w]
				}
			} else if onStack[w] && index[w] < low[v] {
				low[v] = index[w]
			}
		}
		if low[v] == index[v] {
			for {
				w := stack[len(stack)-1]
				stack = stack[:len(stack)-1]
				onStack[w] = false
				comp[w] = nc
				if w == v {
					break
				}
			}
			nc++
		}
	}
	for _, v := range sortedKeys(edges) {
		if counted[v] {
			continue
		}
		if _, seen := index[v]; !seen {
			strong(v)
		}
	}
	for _, a := range sortedKeys(edges) {
		if counted[a] {
			continue
		}
		for _, b := range sortedKeys(edges[a]) {
			if counted[b] {
				continue
			}
			if comp[a] == comp[b] && (a != b || edges[a][a]) {
				// a and b lie on a common cycle (or a calls itself)
				if a != b {
					// same component: the edge is on some cycle
				}
				if allowed[a+" -> "+b] == "" {
					bad = append(bad, fmt.Sprintf("%s -> %s is on a call cycle that passes no depth counter", a, b))
				}
			}
		}
	}
	st := "unsat"
	if len(bad) > 0 {
		st = "failed"
	}
	return []*Obl{{Name: "package lang#structural:recursion-is-depth-counted-or-bounded", Kind: "structural", Props: []string{prop}, Status: st, Solver: "govc (SSA call graph)", Output: strings.Join(bad, "\n"), Func: "package lang",
		Src: "every call cycle in package lang passes through evalExpr, evalStatement, expressionWithPrec or statement (which count depth against a limit), or uses only listed edges whose depth is bounded otherwise"}}
}
