package main

// Translation of contract expressions to SMT terms in a symbolic state.

import (
	"fmt"
	"go/constant"
	"go/types"
	"strings"

	"golang.org/x/tools/go/ssa"
)

// SV is a spec-level value: an SMT term with a Go type; struct values that live
// in the heap are kept as places (Addr set, T empty) until materialised.
type SV struct {
	T    string
	Ty   types.Type
	Addr string // address of a struct place in the heap
	Nil  bool   // untyped nil
	FRef *Val   // pointer to a scalar field (from &x.f) — only deref allowed
	LazyPtr bool // stands for a pointer to a not-yet-materialised local: T/Ty are the pointee's value and type
}

type specCtx struct {
	e     *Enc
	st    *State
	old   *State
	guard string
	vars  map[string]SV
	oldVars map[string]SV
	fc    *fctx
	pkg   *types.Package
	inOld bool
	errs  []string
}

var untypedInt = types.Typ[types.UntypedInt]

func (e *Enc) pkgOf(fn *ssa.Function) *types.Package {
	if fn.Pkg != nil {
		return fn.Pkg.Pkg
	}
	if fn.Parent() != nil {
		return e.pkgOf(fn.Parent())
	}
	return e.m.lang.Pkg
}

// specCtx for the function being verified (invariants, asserts, ensures at returns).
func (e *Enc) specCtx(fc *fctx, st *State, guard string) *specCtx {
	sc := &specCtx{e: e, st: st, old: fc.entrySt, guard: guard, vars: map[string]SV{}, oldVars: map[string]SV{}, fc: fc, pkg: e.pkgOf(fc.fn)}
	for i, p := range fc.fn.Params {
		v := fc.params[i]
		sv := SV{T: e.asTermQuiet(v), Ty: p.Type()}
		sc.oldVars[p.Name()] = sv
		sc.vars[p.Name()] = sv
		if rn := e.m.recordedParamName(fc.fn, i); rn != "" {
			sc.oldVars[rn] = sv
			sc.vars[rn] = sv
		}
	}
	for _, fv := range fc.fn.FreeVars {
		if v, ok := fc.freevars[fv]; ok {
			// captured by reference: value is the pointee
			if v.K == vTerm {
				if pt, ok := fv.Type().Underlying().(*types.Pointer); ok {
					sc.vars[fv.Name()] = SV{T: e.loadAt(st, v.T, pt.Elem()), Ty: pt.Elem()}
				}
			}
		}
	}
	// current values of named locals (incl. spilled params)
	for name, cands := range fc.namedLoc {
		// several locals may share a name (switch cases, nested scopes): take the one most recently
		// allocated on this path
		var a *ssa.Alloc
		best := -1
		for _, c := range cands {
			if n, ok := st.seen[c]; ok && n > best {
				a, best = c, n
			}
		}
		// name#k: the k-th variable of that name in source order, whether or not it is the most recent.
		// Compiler-generated locals (range indices) have no position: the order of their allocation
		// instructions decides (namedAllocs).
		{
			var all []*ssa.Alloc
			for _, na := range namedAllocs(fc.fn) {
				if na.Comment == name {
					all = append(all, na)
				}
			}
			if len(all) > 1 {
				for k, c := range all {
					if _, ok := st.seen[c]; ok {
						e.bindLocal(sc, fmt.Sprintf("%s#%d", name, k), c, st, fc)
					} else {
						e.bindUnseen(sc, fmt.Sprintf("%s#%d", name, k), c)
					}
				}
			}
		}
		if a == nil {
			if len(cands) == 1 {
				e.bindUnseen(sc, name, cands[0])
			}
			continue
		}
		e.bindLocal(sc, name, a, st, fc)
	}
	// names recorded for the pinned tree that no longer exist (renamed locals): bind them by position
	for key, a := range e.renamedLocals(fc.fn) {
		if _, ok := st.seen[a]; !ok {
			continue
		}
		e.bindLocal(sc, key, a, st, fc)
		base := key[:strings.Index(key, "#")]
		if _, ok := sc.vars[base]; !ok {
			e.bindLocal(sc, base, a, st, fc)
		}
	}
	return sc
}

func (e *Enc) bindLocal(sc *specCtx, name string, a *ssa.Alloc, st *State, fc *fctx) {
	{
		et := a.Type().(*types.Pointer).Elem()
		if m, ok := st.mat[a]; ok {
			if isStruct(et) && e.m.structOf(et) != nil {
				sc.vars[name] = SV{Addr: m, Ty: et}
			} else {
				sc.vars[name] = SV{T: e.loadAt(st, m, et), Ty: et}
			}
		} else if !a.Heap || e.lazy[a] {
			if t, ok := st.loc[a]; ok && !strings.HasPrefix(t, "@lazy!") {
				sc.vars[name] = e.svOfTerm(t, et)
			} else if ok {
				// a pointer to a not-yet-materialised local: usable in contracts through its pointee
				ref := e.lazyRef(st, t)
				if ref.K == vLocal && len(ref.Path) == 0 {
					if pv, ok := st.loc[ref.Alloc]; ok {
						sc.vars[name] = SV{T: pv, Ty: ref.Alloc.Type().(*types.Pointer).Elem(), LazyPtr: true}
					}
				} else if ref.K == vTerm {
					sc.vars[name] = e.svOfTerm(ref.T, et)
				}
			}
		} else if v, ok := fc.vals[a]; ok && v.K == vTerm {
			if isStruct(et) && e.m.structOf(et) != nil {
				sc.vars[name] = SV{Addr: v.T, Ty: et}
			} else {
				sc.vars[name] = SV{T: e.loadAt(st, v.T, et), Ty: et}
			}
		}
	}
}

// bindUnseen gives a local that was not allocated on this path an arbitrary value of its type, so
// that a clause which mentions it behind a guard is still well sorted; nothing is known about it.
func (e *Enc) bindUnseen(sc *specCtx, name string, a *ssa.Alloc) {
	et := a.Type().(*types.Pointer).Elem()
	if isStruct(et) || a.Heap && !e.lazy[a] {
		return
	}
	switch et.Underlying().(type) {
	case *types.Basic, *types.Pointer, *types.Slice, *types.Map, *types.Interface:
		sc.vars[name] = e.svOfTerm(e.fresh("unseen", e.m.sortOf(et)), et)
	}
}

func (e *Enc) svOfTerm(t string, ty types.Type) SV { return SV{T: t, Ty: ty} }

func (e *Enc) asTermQuiet(v Val) string {
	switch v.K {
	case vTerm, vClosure:
		return v.T
	case vFunc:
		return e.fnRef(v.Fn)
	}
	return "Nil"
}

func (sc *specCtx) fail(format string, a ...interface{}) SV {
	msg := fmt.Sprintf(format, a...)
	sc.errs = append(sc.errs, msg)
	sc.e.unsupportedf("contract: %s", msg)
	return SV{T: "false", Ty: types.Typ[types.Bool]}
}

func (e *Enc) specBool(sc *specCtx, x SExpr) string {
	v := sc.val(x)
	t := sc.mat(v)
	if sc.e.m.sortOf(v.Ty) != "Bool" {
		sc.fail("expected boolean, got %s in %s", v.Ty, sexprString(x))
		return "false"
	}
	return t
}

// mat materialises a value as an SMT term.
func (sc *specCtx) mat(v SV) string {
	if v.T != "" {
		return v.T
	}
	if v.Nil {
		return "Nil"
	}
	if v.Addr != "" {
		return sc.e.loadAt(sc.cur(), v.Addr, v.Ty)
	}
	return "false"
}

func (sc *specCtx) cur() *State {
	if sc.inOld {
		return sc.old
	}
	return sc.st
}

func (e *Enc) specSort(tn string) string {
	sc := &specCtx{e: e, pkg: e.m.lang.Pkg}
	t := sc.typeByName(tn)
	if t == nil {
		return "Int"
	}
	return e.m.sortOf(t)
}

func (sc *specCtx) typeByName(n string) types.Type {
	n = strings.TrimSpace(n)
	switch {
	case strings.HasPrefix(n, "*"):
		t := sc.typeByName(n[1:])
		if t == nil {
			return nil
		}
		return types.NewPointer(t)
	case strings.HasPrefix(n, "[]"):
		t := sc.typeByName(n[2:])
		if t == nil {
			return nil
		}
		return types.NewSlice(t)
	case strings.HasPrefix(n, "map["):
		d, i := 0, 3
		for ; i < len(n); i++ {
			if n[i] == '[' {
				d++
			} else if n[i] == ']' {
				d--
				if d == 0 {
					break
				}
			}
		}
		k, v := sc.typeByName(n[4:i]), sc.typeByName(n[i+1:])
		if k == nil || v == nil {
			return nil
		}
		return types.NewMap(k, v)
	}
	if n == "any" {
		return types.NewInterfaceType(nil, nil)
	}
	if obj := types.Universe.Lookup(n); obj != nil {
		if tn, ok := obj.(*types.TypeName); ok {
			return tn.Type()
		}
	}
	pkg := sc.pkg
	if i := strings.Index(n, "."); i >= 0 {
		found := false
		for _, sp := range sc.e.m.pkgs {
			if sp != nil && sp.Pkg.Name() == n[:i] {
				pkg = sp.Pkg
				found = true
			}
		}
		if !found {
			// a dependency (os.File, ...): the package with that name and the shortest import path
			best := ""
			for _, sp := range sc.e.m.prog.AllPackages() {
				if sp.Pkg.Name() == n[:i] && (best == "" || len(sp.Pkg.Path()) < len(best)) {
					best = sp.Pkg.Path()
					pkg = sp.Pkg
				}
			}
		}
		n = n[i+1:]
	}
	for _, p := range []*types.Package{pkg, sc.e.m.lang.Pkg} {
		if p == nil {
			continue
		}
		if obj := p.Scope().Lookup(n); obj != nil {
			if tn, ok := obj.(*types.TypeName); ok {
				return tn.Type()
			}
		}
	}
	return nil
}

func (sc *specCtx) sortOf(t types.Type) string { return sc.e.m.sortOf(t) }

func (sc *specCtx) ident(name string) SV {
	if sc.inOld {
		if v, ok := sc.oldVars[name]; ok {
			return v
		}
	}
	if v, ok := sc.vars[name]; ok {
		return v
	}
	if strings.HasPrefix(name, "$") {
		if _, ok := sc.e.m.spec.Ghosts[name]; ok || name == "$alloc" {
			ty := types.Type(types.Typ[types.Int])
			if tn, ok := sc.e.m.spec.Ghosts[name]; ok {
				if t := sc.typeByName(tn); t != nil {
					ty = t
				}
			}
			return SV{T: sc.e.ghostGet(sc.cur(), name), Ty: ty}
		}
	}
	// package-level objects
	for _, p := range []*types.Package{sc.pkg, sc.e.m.lang.Pkg} {
		if p == nil {
			continue
		}
		obj := p.Scope().Lookup(name)
		switch o := obj.(type) {
		case *types.Const:
			ty := o.Type()
			switch sc.sortOf(ty) {
			case "Int":
				return SV{T: intLit(constant.ToInt(o.Val()).ExactString()), Ty: ty}
			case "Bool":
				return SV{T: fmt.Sprint(constant.BoolVal(o.Val())), Ty: ty}
			case "Str":
				return SV{T: sc.e.strLit(constant.StringVal(o.Val())), Ty: ty}
			case "F64":
				f, _ := constant.Float64Val(o.Val())
				return SV{T: f64lit(f), Ty: ty}
			}
		case *types.Var:
			for g, gi := range sc.e.m.globals {
				if g.Object() == o {
					if gi.readonly {
						switch gi.initKind {
						case "const":
							return SV{T: sc.e.m.constTerm(sc.e, gi.initVal), Ty: o.Type()}
						case "errnew":
							return SV{T: fmt.Sprintf("(APtr %d (Glob %d))", sc.e.m.tidKey("plainerror"), 1000+gi.id), Ty: o.Type()}
						case "zero":
							return SV{T: sc.e.m.zero(o.Type()), Ty: o.Type()}
						}
					}
					a := fmt.Sprintf("(Glob %d)", gi.id)
					if isStruct(o.Type()) && sc.e.m.structOf(o.Type()) != nil {
						return SV{Addr: a, Ty: o.Type()}
					}
					return SV{T: sc.e.loadAt(sc.cur(), a, o.Type()), Ty: o.Type()}
				}
			}
		}
	}
	return sc.fail("unknown identifier %q", name)
}

func isNilSV(v SV) bool { return v.Nil }

func (sc *specCtx) nilOf(t types.Type) string {
	return sc.e.m.zero(t)
}

func isUntypedNum(t types.Type) bool {
	b, ok := t.(*types.Basic)
	return ok && b.Info()&types.IsUntyped != 0
}

func (sc *specCtx) val(x SExpr) SV {
	e := sc.e
	switch n := x.(type) {
	case *SIdent:
		return sc.ident(n.Name)
	case *SInt:
		return SV{T: intLit(parseIntLit(n.V)), Ty: untypedInt}
	case *SFloat:
		return SV{T: f64lit(n.V), Ty: types.Typ[types.Float64]}
	case *SStr:
		return SV{T: e.strLit(n.V), Ty: types.Typ[types.String]}
	case *SBool:
		return SV{T: fmt.Sprint(n.V), Ty: types.Typ[types.Bool]}
	case *SNil:
		return SV{Nil: true, Ty: types.Typ[types.UntypedNil]}
	case *SLet:
		v := sc.val(n.X)
		old, had := sc.vars[n.Name]
		if v.T != "" {
			v.T = e.define("let_"+n.Name, sc.sortOf(v.Ty), v.T)
		}
		sc.vars[n.Name] = v
		r := sc.val(n.Body)
		if had {
			sc.vars[n.Name] = old
		} else {
			delete(sc.vars, n.Name)
		}
		return r
	case *SIte:
		c := sc.boolOf(n.C)
		a, b := sc.val(n.A), sc.val(n.B)
		a, b = sc.unify(a, b)
		return SV{T: fmt.Sprintf("(ite %s %s %s)", c, sc.mat(a), sc.mat(b)), Ty: a.Ty}
	case *SQuant:
		saved := map[string]*SV{}
		var binders []string
		var ranges []string
		for _, v := range n.Vars {
			ty := sc.typeByName(v.Type)
			if ty == nil {
				return sc.fail("unknown type %q in quantifier", v.Type)
			}
			if old, ok := sc.vars[v.Name]; ok {
				o := old
				saved[v.Name] = &o
			} else {
				saved[v.Name] = nil
			}
			bn := "q_" + v.Name
			sc.vars[v.Name] = SV{T: bn, Ty: ty}
			binders = append(binders, fmt.Sprintf("(%s %s)", bn, sc.sortOf(ty)))
			if b, ok := ty.Underlying().(*types.Basic); ok && b.Kind() == types.Uint8 {
				ranges = append(ranges, fmt.Sprintf("(<= 0 %s) (<= %s 255)", bn, bn))
			}
		}
		body := sc.boolOf(n.Body)
		var pats []string
		for _, tr := range n.Triggers {
			var ts []string
			for _, t := range tr {
				ts = append(ts, sc.mat(sc.val(t)))
			}
			pats = append(pats, ":pattern ("+strings.Join(ts, " ")+")")
		}
		for k, o := range saved {
			if o == nil {
				delete(sc.vars, k)
			} else {
				sc.vars[k] = *o
			}
		}
		if len(ranges) > 0 {
			if n.Forall {
				body = fmt.Sprintf("(=> (and %s) %s)", strings.Join(ranges, " "), body)
			} else {
				body = fmt.Sprintf("(and %s %s)", strings.Join(ranges, " "), body)
			}
		}
		if len(pats) > 0 {
			body = fmt.Sprintf("(! %s %s)", body, strings.Join(pats, " "))
		}
		q := "forall"
		if !n.Forall {
			q = "exists"
		}
		return SV{T: fmt.Sprintf("(%s (%s) %s)", q, strings.Join(binders, " "), body), Ty: types.Typ[types.Bool]}
	case *SUn:
		switch n.Op {
		case "!":
			return SV{T: fmt.Sprintf("(not %s)", sc.boolOf(n.X)), Ty: types.Typ[types.Bool]}
		case "-":
			v := sc.val(n.X)
			if sc.sortOf(v.Ty) == "F64" {
				return SV{T: fmt.Sprintf("(fneg %s)", sc.mat(v)), Ty: v.Ty}
			}
			return SV{T: fmt.Sprintf("(- %s)", sc.mat(v)), Ty: v.Ty}
		case "*":
			v := sc.val(n.X)
			if v.FRef != nil {
				n, s := e.fieldArr(v.FRef.SI, v.FRef.Field)
				return SV{T: fmt.Sprintf("(select %s %s)", e.heapGet(sc.cur(), n, s), v.FRef.Base), Ty: v.Ty.Underlying().(*types.Pointer).Elem()}
			}
			pt, ok := v.Ty.Underlying().(*types.Pointer)
			if !ok {
				return sc.fail("dereference of non-pointer %s", sexprString(n.X))
			}
			if isStruct(pt.Elem()) && e.m.structOf(pt.Elem()) != nil {
				return SV{Addr: sc.mat(v), Ty: pt.Elem()}
			}
			return SV{T: e.loadAt(sc.cur(), sc.mat(v), pt.Elem()), Ty: pt.Elem()}
		case "&":
			v := sc.addrOf(n.X)
			return v
		}
	case *SBin:
		return sc.bin(n)
	case *SSel:
		return sc.sel(n)
	case *SIdx:
		return sc.idx(n)
	case *SSlice:
		v := sc.val(n.X)
		switch sc.sortOf(v.Ty) {
		case "Str":
			s := sc.mat(v)
			lo, hi := "0", fmt.Sprintf("(slen %s)", s)
			if n.Lo != nil {
				lo = sc.mat(sc.val(n.Lo))
			}
			if n.Hi != nil {
				hi = sc.mat(sc.val(n.Hi))
			}
			return SV{T: fmt.Sprintf("(ssub %s %s %s)", s, lo, hi), Ty: v.Ty}
		case "Slice":
			s := sc.mat(v)
			lo, hi := "0", fmt.Sprintf("(sl_len %s)", s)
			if n.Lo != nil {
				lo = sc.mat(sc.val(n.Lo))
			}
			if n.Hi != nil {
				hi = sc.mat(sc.val(n.Hi))
			}
			return SV{T: fmt.Sprintf("(mk_slice (sl_base %s) (+ (sl_off %s) %s) (- %s %s) (- (sl_cap %s) %s))", s, s, lo, hi, lo, s, lo), Ty: v.Ty}
		}
		return sc.fail("slice of %s", v.Ty)
	case *SCall:
		return sc.call(n)
	}
	return sc.fail("unsupported spec expression %T", x)
}

func parseIntLit(s string) string {
	if strings.HasPrefix(s, "0x") {
		var v uint64
		fmt.Sscanf(s[2:], "%x", &v)
		return fmt.Sprint(v)
	}
	return s
}

func (sc *specCtx) boolOf(x SExpr) string {
	v := sc.val(x)
	if sc.sortOf(v.Ty) != "Bool" {
		sc.fail("expected boolean, got %s in %s", v.Ty, sexprString(x))
		return "false"
	}
	return sc.mat(v)
}

// unify adapts untyped nil / untyped constants to the other operand's type.
func (sc *specCtx) unify(a, b SV) (SV, SV) {
	if a.Nil && !b.Nil {
		a = SV{T: sc.nilOf(b.Ty), Ty: b.Ty}
	} else if b.Nil && !a.Nil {
		b = SV{T: sc.nilOf(a.Ty), Ty: a.Ty}
	}
	if isUntypedNum(a.Ty) && !isUntypedNum(b.Ty) {
		if sc.sortOf(b.Ty) == "F64" {
			a = SV{T: fmt.Sprintf("(i2f %s)", a.T), Ty: b.Ty}
		} else {
			a.Ty = b.Ty
		}
	} else if isUntypedNum(b.Ty) && !isUntypedNum(a.Ty) {
		if sc.sortOf(a.Ty) == "F64" {
			b = SV{T: fmt.Sprintf("(i2f %s)", b.T), Ty: a.Ty}
		} else {
			b.Ty = a.Ty
		}
	}
	return a, b
}

func (sc *specCtx) bin(n *SBin) SV {
	boolT := types.Typ[types.Bool]
	switch n.Op {
	case "&&":
		return SV{T: fmt.Sprintf("(and %s %s)", sc.boolOf(n.L), sc.boolOf(n.R)), Ty: boolT}
	case "||":
		return SV{T: fmt.Sprintf("(or %s %s)", sc.boolOf(n.L), sc.boolOf(n.R)), Ty: boolT}
	case "==>":
		return SV{T: fmt.Sprintf("(=> %s %s)", sc.boolOf(n.L), sc.boolOf(n.R)), Ty: boolT}
	case "<==>":
		return SV{T: fmt.Sprintf("(= %s %s)", sc.boolOf(n.L), sc.boolOf(n.R)), Ty: boolT}
	}
	a, b := sc.unify(sc.val(n.L), sc.val(n.R))
	x, y := sc.mat(a), sc.mat(b)
	s := sc.sortOf(a.Ty)
	if a.Nil && b.Nil {
		s = "Addr"
	}
	if sb := sc.sortOf(b.Ty); sb != s && !(a.Nil || b.Nil) {
		return sc.fail("operand sorts differ (%s vs %s) in %s", a.Ty, b.Ty, sexprString(n))
	}
	switch n.Op {
	case "==", "!=":
		var t string
		switch s {
		case "Str":
			t = fmt.Sprintf("(seq %s %s)", x, y)
		case "F64":
			t = fmt.Sprintf("(feq %s %s)", x, y)
		default:
			t = fmt.Sprintf("(= %s %s)", x, y)
		}
		if n.Op == "!=" {
			t = "(not " + t + ")"
		}
		return SV{T: t, Ty: boolT}
	case "<", "<=", ">", ">=":
		switch s {
		case "Int":
			return SV{T: fmt.Sprintf("(%s %s %s)", n.Op, x, y), Ty: boolT}
		case "F64":
			op := map[string]string{"<": "flt", "<=": "fle", ">": "fgt", ">=": "fge"}[n.Op]
			return SV{T: fmt.Sprintf("(%s %s %s)", op, x, y), Ty: boolT}
		case "Str":
			return SV{T: fmt.Sprintf("(%s (scmp %s %s) 0)", n.Op, x, y), Ty: boolT}
		}
	case "+", "-", "*", "/", "%":
		switch s {
		case "Int":
			switch n.Op {
			case "/":
				return SV{T: fmt.Sprintf("(goquo %s %s)", x, y), Ty: a.Ty}
			case "%":
				return SV{T: fmt.Sprintf("(gorem %s %s)", x, y), Ty: a.Ty}
			}
			return SV{T: fmt.Sprintf("(%s %s %s)", n.Op, x, y), Ty: a.Ty}
		case "F64":
			op := map[string]string{"+": "fadd", "-": "fsub", "*": "fmul", "/": "fdiv"}[n.Op]
			if op != "" {
				return SV{T: fmt.Sprintf("(%s %s %s)", op, x, y), Ty: a.Ty}
			}
		case "Str":
			if n.Op == "+" {
				return SV{T: fmt.Sprintf("(scat %s %s)", x, y), Ty: a.Ty}
			}
		}
	}
	return sc.fail("operator %s not supported on %s in %s", n.Op, a.Ty, sexprString(n))
}

// heapFact: a pointer/slice/map value read from the heap by a contract expression refers to
// allocated storage (Go memory safety) -- the same fact the encoder assumes when code loads it.
func (sc *specCtx) heapFact(t string, ty types.Type) {
	if sc.guard == "" || sc.inOld {
		return
	}
	if strings.Contains(t, "q_") {
		// a pointer read under a quantifier: state the fact for the whole array version it is read from
		// (every pointer stored in the heap refers to allocated storage and not into a backing array)
		if _, isPtr := ty.Underlying().(*types.Pointer); isPtr && strings.HasPrefix(t, "(select ") {
			arr := firstSexpr(t[8:])
			if !strings.Contains(arr, "q_") {
				alloc := sc.e.ghostGet(sc.st, "$alloc")
				key := "hfq|" + sc.guard + "|" + arr + "|" + alloc
				if !sc.e.tinvSeen[key] {
					sc.e.tinvSeen[key] = true
					extra := ""
					if sc.e.m.noElemPtrs {
						extra = fmt.Sprintf(" (not (inelem (select %s a)))", arr)
					}
					sc.e.assume(sc.guard, fmt.Sprintf("(forall ((a Addr)) (! (and (< (rootid (select %s a)) %s)%s) :pattern ((select %s a))))", arr, alloc, extra, arr))
				}
			}
		}
		return
	}
	switch ty.Underlying().(type) {
	case *types.Pointer, *types.Map, *types.Slice:
		if f := sc.e.typeAssume(sc.st, t, ty); f != "true" {
			key := "hf|" + sc.guard + "|" + t
			if !sc.e.tinvSeen[key] {
				sc.e.tinvSeen[key] = true
				sc.e.assume(sc.guard, f)
			}
		}
	}
}

func (sc *specCtx) sel(n *SSel) SV {
	e := sc.e
	v := sc.val(n.X)
	if v.LazyPtr {
		v = SV{T: v.T, Ty: v.Ty} // p.f where p points to a local value: select on the value itself
	}
	t := v.Ty
	addr := v.Addr
	if pt, ok := t.Underlying().(*types.Pointer); ok {
		addr = sc.mat(v)
		t = pt.Elem()
		v = SV{Addr: addr, Ty: t}
	}
	si := e.m.structOf(t)
	if si == nil || !isStruct(t) {
		return sc.fail("selector .%s on non-struct %s", n.Name, v.Ty)
	}
	for i := 0; i < si.st.NumFields(); i++ {
		if si.st.Field(i).Name() != n.Name {
			continue
		}
		ft := si.st.Field(i).Type()
		if v.Addr != "" {
			if isStruct(ft) && e.m.structOf(ft) != nil {
				return SV{Addr: fmt.Sprintf("(Fld %s %d)", v.Addr, i), Ty: ft}
			}
			an, as := e.fieldArr(si, i)
			t := fmt.Sprintf("(select %s %s)", e.heapGet(sc.cur(), an, as), v.Addr)
			sc.heapFact(t, ft)
			return SV{T: t, Ty: ft}
		}
		return SV{T: fmt.Sprintf("(%s %s)", fieldCtor(si, i), v.T), Ty: ft}
	}
	return sc.fail("no field %s in %s", n.Name, t)
}

func (sc *specCtx) addrOf(x SExpr) SV {
	e := sc.e
	switch n := x.(type) {
	case *SSel:
		v := sc.val(n.X)
		t := v.Ty
		if pt, ok := t.Underlying().(*types.Pointer); ok {
			v = SV{Addr: sc.mat(v), Ty: pt.Elem()}
			t = pt.Elem()
		}
		si := e.m.structOf(t)
		if si == nil || v.Addr == "" {
			return sc.fail("cannot take address of %s", sexprString(x))
		}
		for i := 0; i < si.st.NumFields(); i++ {
			if si.st.Field(i).Name() == n.Name {
				ft := si.st.Field(i).Type()
				if isStruct(ft) && e.m.structOf(ft) != nil {
					return SV{T: fmt.Sprintf("(Fld %s %d)", v.Addr, i), Ty: types.NewPointer(ft)}
				}
				return SV{FRef: &Val{K: vFieldRef, Base: v.Addr, SI: si, Field: i}, Ty: types.NewPointer(ft), T: fmt.Sprintf("(Fld %s %d)", v.Addr, i)}
			}
		}
	case *SIdx:
		v := sc.val(n.X)
		if sl, ok := v.Ty.Underlying().(*types.Slice); ok {
			s := sc.mat(v)
			i := sc.mat(sc.val(n.I))
			return SV{T: selemT(s, i), Ty: types.NewPointer(sl.Elem())}
		}
	case *SIdent:
		v := sc.val(x)
		if v.Addr != "" {
			return SV{T: v.Addr, Ty: types.NewPointer(v.Ty)}
		}
	}
	return sc.fail("cannot take address of %s", sexprString(x))
}

func (sc *specCtx) idx(n *SIdx) SV {
	e := sc.e
	v := sc.val(n.X)
	i := sc.val(n.I)
	switch u := v.Ty.Underlying().(type) {
	case *types.Basic:
		if sc.sortOf(v.Ty) == "Str" {
			return SV{T: fmt.Sprintf("(sat %s %s)", sc.mat(v), sc.mat(i)), Ty: types.Typ[types.Uint8]}
		}
	case *types.Slice:
		s := sc.mat(v)
		a := selemT(s, sc.mat(i))
		if isStruct(u.Elem()) && e.m.structOf(u.Elem()) != nil {
			return SV{Addr: a, Ty: u.Elem()}
		}
		t := e.loadAt(sc.cur(), a, u.Elem())
		sc.heapFact(t, u.Elem())
		if e.elemNonNil(u.Elem()) && sc.guard != "" && !sc.inOld && !strings.Contains(t, "q_") && !e.isFreshAddr(fmt.Sprintf("(sl_base %s)", s)) {
			e.assume(sc.guard, fmt.Sprintf("(not (= %s %s))", t, e.nilOfType(u.Elem())))
		}
		return SV{T: t, Ty: u.Elem()}
	case *types.Map:
		dn, ds, vn, vs := e.mapArrs(v.Ty)
		_ = dn
		_ = ds
		m := sc.mat(v)
		if i.Nil {
			return sc.fail("nil map key")
		}
		return SV{T: fmt.Sprintf("(select (select %s %s) %s)", e.heapGet(sc.cur(), vn, vs), m, sc.mat(i)), Ty: u.Elem()}
	case *types.Pointer:
		if at, ok := u.Elem().Underlying().(*types.Array); ok {
			a := fmt.Sprintf("(Elem %s %s)", sc.mat(v), sc.mat(i))
			return SV{T: e.loadAt(sc.cur(), a, at.Elem()), Ty: at.Elem()}
		}
	}
	return sc.fail("index of %s", v.Ty)
}

func (sc *specCtx) call(n *SCall) SV {
	e := sc.e
	boolT := types.Typ[types.Bool]
	intT := types.Typ[types.Int]
	arg := func(i int) SV { return sc.val(n.Args[i]) }
	switch n.Fn {
	case "old":
		if sc.old == nil {
			return sc.fail("old() not available here")
		}
		was := sc.inOld
		sc.inOld = true
		v := sc.val(n.Args[0])
		if v.T == "" && v.Addr != "" {
			v = SV{T: sc.mat(v), Ty: v.Ty}
		}
		sc.inOld = was
		return v
	case "len":
		v := arg(0)
		switch sc.sortOf(v.Ty) {
		case "Str":
			return SV{T: fmt.Sprintf("(slen %s)", sc.mat(v)), Ty: intT}
		case "Slice":
			return SV{T: fmt.Sprintf("(sl_len %s)", sc.mat(v)), Ty: intT}
		case "Addr":
			if _, ok := v.Ty.Underlying().(*types.Map); ok {
				dn, ds, _, _ := e.mapArrs(v.Ty)
				ks := sc.sortOf(v.Ty.Underlying().(*types.Map).Key())
				e.needCard(ks)
				return SV{T: fmt.Sprintf("(mcard_%s (select %s %s))", sanitize(ks), e.heapGet(sc.cur(), dn, ds), sc.mat(v)), Ty: intT}
			}
		}
		return sc.fail("len of %s", v.Ty)
	case "cap":
		v := arg(0)
		return SV{T: fmt.Sprintf("(sl_cap %s)", sc.mat(v)), Ty: intT}
	case "has":
		m, k := arg(0), arg(1)
		if _, ok := m.Ty.Underlying().(*types.Map); !ok {
			return sc.fail("has() on non-map")
		}
		dn, ds, _, _ := e.mapArrs(m.Ty)
		mt := sc.mat(m)
		return SV{T: fmt.Sprintf("(and (not (= %s Nil)) (select (select %s %s) %s))", mt, e.heapGet(sc.cur(), dn, ds), mt, sc.mat(k)), Ty: boolT}
	case "visited":
		vs, ok := sc.vars["$visited"]
		if !ok {
			return sc.fail("visited() outside the invariant of a range-over-map loop")
		}
		return SV{T: fmt.Sprintf("(select %s %s)", vs.T, sc.mat(arg(0))), Ty: boolT}
	case "dom":
		m := arg(0)
		dn, ds, _, _ := e.mapArrs(m.Ty)
		return SV{T: fmt.Sprintf("(select %s %s)", e.heapGet(sc.cur(), dn, ds), sc.mat(m)), Ty: types.NewMap(m.Ty.Underlying().(*types.Map).Key(), boolT)}
	case "istype":
		v := arg(0)
		t := sc.typeFromExpr(n.Args[1])
		if t == nil {
			return sc.fail("istype: unknown type %s", sexprString(n.Args[1]))
		}
		return SV{T: e.isType(sc.mat(v), t), Ty: boolT}
	case "as":
		// as(x, T): payload of interface x viewed as T
		v := arg(0)
		t := sc.typeFromExpr(n.Args[1])
		if t == nil {
			return sc.fail("as: unknown type %s", sexprString(n.Args[1]))
		}
		return SV{T: e.unbox(sc.mat(v), t), Ty: t}
	case "fresh":
		v := arg(0)
		if sc.old == nil {
			return sc.fail("fresh() needs an old state")
		}
		if sc.sortOf(v.Ty) == "Slice" {
			return SV{T: fmt.Sprintf("(>= (rootid (sl_base %s)) %s)", sc.mat(v), e.ghostGet(sc.old, "$alloc")), Ty: boolT}
		}
		return SV{T: fmt.Sprintf("(>= (rootid %s) %s)", sc.mat(v), e.ghostGet(sc.old, "$alloc")), Ty: boolT}
	case "allocated":
		v := arg(0)
		return SV{T: fmt.Sprintf("(< (rootid %s) %s)", sc.mat(v), e.ghostGet(sc.cur(), "$alloc")), Ty: boolT}
	case "int", "byte", "rune", "uint8":
		v := arg(0)
		if sc.sortOf(v.Ty) == "F64" {
			return SV{T: fmt.Sprintf("(f2i %s)", sc.mat(v)), Ty: intT}
		}
		t := types.Type(intT)
		if n.Fn == "byte" || n.Fn == "uint8" {
			t = types.Typ[types.Uint8]
		}
		return SV{T: sc.mat(v), Ty: t}
	case "float64":
		v := arg(0)
		if sc.sortOf(v.Ty) == "F64" {
			return v
		}
		return SV{T: fmt.Sprintf("(i2f %s)", sc.mat(v)), Ty: types.Typ[types.Float64]}
	case "string":
		v := arg(0)
		if sc.sortOf(v.Ty) == "Int" {
			return SV{T: fmt.Sprintf("(srune %s)", sc.mat(v)), Ty: types.Typ[types.String]}
		}
		return v
	case "newerThan":
		// newerThan(p, n): pointer p refers to storage allocated when the allocation counter was >= n
		return SV{T: fmt.Sprintf("(>= (rootid %s) %s)", sc.mat(arg(0)), sc.mat(arg(1))), Ty: boolT}
	case "extvar":
		// extvar("pkg.Name"): current value of a package-level variable of an imported package (e.g. io.EOF)
		name := n.Args[0].(*SStr).V
		i := strings.LastIndex(name, ".")
		if i < 0 {
			return sc.fail("extvar: expected pkg.Name")
		}
		for _, pk := range e.m.prog.AllPackages() {
			if pk.Pkg.Path() == name[:i] || pk.Pkg.Name() == name[:i] {
				if g, ok := pk.Members[name[i+1:]].(*ssa.Global); ok {
					et := g.Type().(*types.Pointer).Elem()
					a := fmt.Sprintf("(Glob %d)", 100000+e.m.tid(g.Type()))
					return SV{T: e.loadAt(sc.cur(), a, et), Ty: et}
				}
			}
		}
		return sc.fail("extvar: unknown variable %s", name)
	case "fn":
		// fn("name"): the function value of a package-level function
		name := n.Args[0].(*SStr).V
		f := e.m.funcs[name]
		if f == nil {
			return sc.fail("fn: unknown function %s", name)
		}
		return SV{T: e.fnRef(f), Ty: f.Signature}
	case "thisfn":
		// thisfn(): in a function-type contract, the function value being called / verified
		if v, ok := sc.vars["$thisfn"]; ok {
			return v
		}
		return sc.fail("thisfn() used outside a function-type contract")
	case "disjointSlices":
		// disjointSlices(s, t): the two slices do not share a backing array (or one has no storage)
		a, b := sc.mat(arg(0)), sc.mat(arg(1))
		return SV{T: fmt.Sprintf("(or (not (= (sl_base %s) (sl_base %s))) (= (sl_cap %s) 0) (= (sl_cap %s) 0))", a, b, a, b), Ty: boolT}
	case "built":
		// built(sb): the text accumulated so far in the strings.Builder variable sb
		if id, ok := n.Args[0].(*SIdent); ok {
			if a := sc.builderAddr(id.Name); a != "" {
				return SV{T: fmt.Sprintf("(select %s %s)", sc.e.heapGet(sc.cur(), "M$builder", "Str"), a), Ty: types.Typ[types.String]}
			}
		}
		return sc.fail("built(x): x must be a local strings.Builder variable")
	case "sameBacking":
		// sameBacking(s, t): slices s and t share base, offset and capacity (t is s re-sliced in length only)
		a, b := sc.mat(arg(0)), sc.mat(arg(1))
		return SV{T: fmt.Sprintf("(and (= (sl_base %s) (sl_base %s)) (= (sl_off %s) (sl_off %s)) (= (sl_cap %s) (sl_cap %s)))", a, b, a, b, a, b), Ty: boolT}
	case "same":
		// same(a, b): identical values (for float64: bitwise-level identity incl. NaN, unlike ==)
		a, b := sc.unify(arg(0), arg(1))
		return SV{T: fmt.Sprintf("(= %s %s)", sc.mat(a), sc.mat(b)), Ty: boolT}
	case "isNaN":
		return SV{T: fmt.Sprintf("(fisnan %s)", sc.mat(arg(0))), Ty: boolT}
	case "smt":
		// smt("fname", T, args...) : raw SMT function application with result type T
		name := n.Args[0].(*SStr).V
		t := sc.typeFromExpr(n.Args[1])
		var as []string
		for _, a := range n.Args[2:] {
			as = append(as, sc.mat(sc.val(a)))
		}
		if name == "im_Token" && t != nil {
			// (declared on first use by a call; a contract may mention it where the code has no such call)
			e.declFun("im_Token", []string{"Any"}, sc.sortOf(t))
		}
		if len(as) == 0 {
			return SV{T: name, Ty: t}
		}
		return SV{T: fmt.Sprintf("(%s %s)", name, strings.Join(as, " ")), Ty: t}
	}
	if f, ok := e.m.spec.Funcs[n.Fn]; ok {
		if len(f.Params) != len(n.Args) {
			return sc.fail("%s: expected %d arguments", n.Fn, len(f.Params))
		}
		rt := sc.typeByName(f.Result)
		if rt == nil {
			return sc.fail("%s: unknown result type %s", n.Fn, f.Result)
		}
		var args []SV
		for i := range n.Args {
			a := sc.val(n.Args[i])
			pt := sc.typeByName(f.Params[i].Type)
			if pt == nil {
				return sc.fail("%s: unknown parameter type %s", n.Fn, f.Params[i].Type)
			}
			if a.Nil {
				a = SV{T: sc.nilOf(pt), Ty: pt}
			}
			if isUntypedNum(a.Ty) {
				if sc.sortOf(pt) == "F64" {
					a = SV{T: fmt.Sprintf("(i2f %s)", a.T), Ty: pt}
				} else {
					a.Ty = pt
				}
			}
			if sc.sortOf(a.Ty) != sc.sortOf(pt) {
				return sc.fail("%s: argument %d has type %s, want %s", n.Fn, i, a.Ty, pt)
			}
			if a.Addr != "" && a.T == "" && f.Body == nil {
				a = SV{T: sc.mat(a), Ty: a.Ty}
			}
			args = append(args, a)
		}
		if f.Body == nil {
			e.declSpecFunc(f)
			var as []string
			for _, a := range args {
				as = append(as, sc.mat(a))
			}
			if len(as) == 0 {
				return SV{T: "sf_" + f.Name, Ty: rt}
			}
			return SV{T: fmt.Sprintf("(sf_%s %s)", f.Name, strings.Join(as, " ")), Ty: rt}
		}
		if f.Opaque {
			return sc.opaqueCall(f, args, rt)
		}
		// macro expansion
		saved := sc.vars
		nv := map[string]SV{}
		for k, v := range saved {
			if strings.HasPrefix(k, "$") {
				nv[k] = v
			}
		}
		for i, p := range f.Params {
			a := args[i]
			a.Ty = sc.typeByName(p.Type)
			nv[p.Name] = a
		}
		sc.vars = nv
		savedOld := sc.oldVars
		sc.oldVars = nv
		r := sc.val(f.Body)
		sc.vars = saved
		sc.oldVars = savedOld
		if r.Nil {
			r = SV{T: sc.nilOf(rt), Ty: rt}
		}
		if isUntypedNum(r.Ty) {
			r.Ty = rt
		}
		return r
	}
	return sc.fail("unknown spec function %s", n.Fn)
}

// expandSpec: macro-expands the body of spec function f on the given arguments.
func (sc *specCtx) expandSpec(f *SpecFunc, args []SV, rt types.Type) SV {
	saved := sc.vars
	nv := map[string]SV{}
	for k, v := range saved {
		if strings.HasPrefix(k, "$") {
			nv[k] = v
		}
	}
	for i, p := range f.Params {
		a := args[i]
		a.Ty = sc.typeByName(p.Type)
		nv[p.Name] = a
	}
	sc.vars = nv
	savedOld := sc.oldVars
	sc.oldVars = nv
	r := sc.val(f.Body)
	sc.vars = saved
	sc.oldVars = savedOld
	if r.Nil {
		r = SV{T: sc.nilOf(rt), Ty: rt}
	}
	if isUntypedNum(r.Ty) {
		r.Ty = rt
	}
	return r
}

// opaqueCall: an opaque spec function is an uninterpreted function of its arguments and of the heap
// arrays its body reads; the definition is only available (as an equation about this very
// application) in functions whose contract says `reveal <name>`.
func (sc *specCtx) opaqueCall(f *SpecFunc, args []SV, rt types.Type) SV {
	e := sc.e
	if e.opaqueActive == nil {
		e.opaqueActive = map[string]int{}
	}
	if e.opaqueActive[f.Name] > 0 {
		// a recursive occurrence inside the function's own definition: stays an application of the
		// same uninterpreted symbol (the heap arguments of the enclosing call are filled in below)
		var as []string
		for _, a := range args {
			as = append(as, sc.mat(a))
		}
		return SV{T: fmt.Sprintf("(@rec!%s %s)", f.Name, strings.Join(as, " ")), Ty: rt}
	}
	e.opaqueActive[f.Name]++
	defer func() { e.opaqueActive[f.Name]-- }()
	savedRec := e.heapRec
	e.heapRec = map[string]string{}
	savedGuard := sc.guard
	sc.guard = "" // no side assumptions while expanding for analysis
	body := sc.expandSpec(f, args, rt)
	bodyT := sc.mat(body)
	sc.guard = savedGuard
	rec := e.heapRec
	e.heapRec = savedRec
	for k, v := range rec {
		if savedRec != nil {
			savedRec[k] = v
		}
	}
	var as, sorts []string
	for _, a := range args {
		as = append(as, sc.mat(a))
		sorts = append(sorts, sc.sortOf(a.Ty))
	}
	key := "sfo_" + f.Name
	for _, h := range sortedKeys(rec) {
		hd := e.heaps[h]
		as = append(as, e.heapGet(sc.cur(), h, hd.elem))
		sorts = append(sorts, hd.sort)
		key += "_" + sanitize(h)
	}
	e.declFun(key, sorts, sc.sortOf(rt))
	bodyT = fillRecursive(bodyT, "(@rec!"+f.Name+" ", key, as[len(args):])
	t := fmt.Sprintf("(%s %s)", key, strings.Join(as, " "))
	if len(as) == 0 {
		t = key
	}
	if e.contract != nil && e.contract.Opts["reveal:"+f.Name] != "" && !strings.Contains(t, "q_") {
		rk := "reveal|" + t
		if !e.tinvSeen[rk] {
			e.tinvSeen[rk] = true
			e.items = append(e.items, fmt.Sprintf("(assert (= %s %s)) ; reveal %s", t, bodyT, f.Name))
		}
	}
	return SV{T: t, Ty: rt}
}

func (sc *specCtx) typeFromExpr(x SExpr) types.Type {
	switch n := x.(type) {
	case *SIdent:
		return sc.typeByName(n.Name)
	case *SUn:
		if n.Op == "*" {
			t := sc.typeFromExpr(n.X)
			if t != nil {
				return types.NewPointer(t)
			}
		}
	case *SSel:
		if id, ok := n.X.(*SIdent); ok {
			return sc.typeByName(id.Name + "." + n.Name)
		}
	case *SStr:
		return sc.typeByName(n.V)
	}
	return nil
}

func (e *Enc) declSpecFunc(f *SpecFunc) {
	if e.specFnDeclared[f.Name] {
		return
	}
	e.specFnDeclared[f.Name] = true
	var ps []string
	for _, p := range f.Params {
		ps = append(ps, e.specSort(p.Type))
	}
	if len(ps) == 0 {
		e.declare(fmt.Sprintf("(declare-const sf_%s %s)", f.Name, e.specSort(f.Result)))
	} else {
		e.declare(fmt.Sprintf("(declare-fun sf_%s (%s) %s)", f.Name, strings.Join(ps, " "), e.specSort(f.Result)))
	}
}

func (e *Enc) needCard(ks string) {
	key := "mcard_" + sanitize(ks)
	if e.declared[key] {
		return
	}
	e.declared[key] = true
	e.declare(fmt.Sprintf("(declare-fun %s ((Array %s Bool)) Int)", key, ks))
	e.declare(fmt.Sprintf("(assert (forall ((d (Array %s Bool))) (! (>= (%s d) 0) :pattern ((%s d)))))", ks, key, key))
	e.declare(fmt.Sprintf("(assert (= (%s ((as const (Array %s Bool)) false)) 0))", key, ks))
	e.declare(fmt.Sprintf("(assert (forall ((d (Array %s Bool)) (k %s)) (! (= (%s (store d k true)) (ite (select d k) (%s d) (+ (%s d) 1))) :pattern ((%s (store d k true))))))", ks, ks, key, key, key, key))
}

// emitAxioms translates the file-level axioms once per encoding.
func (e *Enc) emitAxioms() {
	if e.axiomsDone {
		return
	}
	e.axiomsDone = true
	for _, ax := range e.m.spec.Axioms {
		sc := &specCtx{e: e, st: newState(), vars: map[string]SV{}, oldVars: map[string]SV{}, pkg: e.m.lang.Pkg}
		t := e.specBool(sc, ax.Expr)
		e.declare(fmt.Sprintf("(assert %s) ; axiom %s", t, ax.Label))
	}
}

func sexprString(x SExpr) string {
	switch n := x.(type) {
	case *SIdent:
		return n.Name
	case *SInt:
		return n.V
	case *SStr:
		return fmt.Sprintf("%q", n.V)
	case *SBool:
		return fmt.Sprint(n.V)
	case *SNil:
		return "nil"
	case *SBin:
		return "(" + sexprString(n.L) + " " + n.Op + " " + sexprString(n.R) + ")"
	case *SUn:
		return n.Op + sexprString(n.X)
	case *SSel:
		return sexprString(n.X) + "." + n.Name
	case *SIdx:
		return sexprString(n.X) + "[" + sexprString(n.I) + "]"
	case *SCall:
		var as []string
		for _, a := range n.Args {
			as = append(as, sexprString(a))
		}
		return n.Fn + "(" + strings.Join(as, ", ") + ")"
	case *SQuant:
		return "forall/exists ... :: " + sexprString(n.Body)
	}
	return fmt.Sprintf("%T", x)
}

// fillRecursive rewrites every placeholder application "(@rec!f a b)" in t to "(key a b h1 h2)".
func fillRecursive(t, marker, key string, heaps []string) string {
	for {
		i := strings.Index(t, marker)
		if i < 0 {
			return t
		}
		// find the closing parenthesis of this application
		depth, j := 0, i
		for ; j < len(t); j++ {
			if t[j] == '(' {
				depth++
			} else if t[j] == ')' {
				depth--
				if depth == 0 {
					break
				}
			}
		}
		inner := t[i+len(marker) : j]
		repl := "(" + key + " " + inner
		if len(heaps) > 0 {
			repl += " " + strings.Join(heaps, " ")
		}
		repl += ")"
		t = t[:i] + repl + t[j+1:]
	}
}

// builderAddr: the heap address of the local variable name (a strings.Builder whose address was taken).
func (sc *specCtx) builderAddr(name string) string {
	fc := sc.fc
	if fc == nil {
		return ""
	}
	var best *ssa.Alloc
	bn := -1
	for _, a := range fc.namedLoc[name] {
		if n, ok := sc.st.seen[a]; ok && n > bn {
			best, bn = a, n
		}
	}
	if best == nil {
		return ""
	}
	if m, ok := sc.st.mat[best]; ok {
		return m
	}
	if v, ok := fc.vals[best]; ok && v.K == vTerm {
		return v.T
	}
	return ""
}
