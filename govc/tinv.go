package main

// Type invariants (`//@ typeinv <Type> <specfunc>`): a predicate over a struct
// type that is *assumed* whenever a value of that type is loaded from a heap
// location the function under verification did not allocate itself, and
// *proved* at every store that writes such a value (or one of its fields) into
// the heap, at every by-value argument passed to a function under contract and
// at every by-value result returned.  DESIGN.md 4/C01 item 2 and section 8.5.

import (
	"fmt"
	"go/token"
	"go/types"
	"sort"
	"strings"

	"golang.org/x/tools/go/ssa"
)

func (e *Enc) tinvName(t types.Type) string {
	n, ok := t.(*types.Named)
	if !ok {
		if a, ok := t.(*types.Alias); ok {
			return e.tinvName(types.Unalias(a))
		}
		return ""
	}
	if !e.m.isLocalPkg(n.Obj().Pkg()) {
		return ""
	}
	return e.m.spec.TypeInvs[n.Obj().Name()]
}

func firstSexpr(s string) string {
	if s == "" {
		return s
	}
	if s[0] != '(' {
		for i := 0; i < len(s); i++ {
			if s[i] == ' ' || s[i] == ')' {
				return s[:i]
			}
		}
		return s
	}
	d := 0
	for i := 0; i < len(s); i++ {
		switch s[i] {
		case '(':
			d++
		case ')':
			d--
			if d == 0 {
				return s[:i+1]
			}
		}
	}
	return s
}

func rootTerm(a string) string {
	for {
		switch {
		case strings.HasPrefix(a, "(Fld "):
			a = firstSexpr(a[5:])
		case strings.HasPrefix(a, "(Elem "):
			a = firstSexpr(a[6:])
		default:
			return a
		}
	}
}

func (e *Enc) isFreshAddr(a string) bool {
	if strings.HasPrefix(a, "(sl_base ") {
		inner := firstSexpr(a[9:])
		if e.freshAddrs[inner] {
			return true
		}
		if strings.HasPrefix(inner, "(mk_slice ") {
			return e.isFreshAddr(firstSexpr(inner[10:]))
		}
		return false
	}
	return e.freshAddrs[rootTerm(a)]
}

func (e *Enc) tinvCtx(st *State, guard string) *specCtx {
	return &specCtx{e: e, st: st, old: st, guard: guard, vars: map[string]SV{}, oldVars: map[string]SV{}, pkg: e.m.lang.Pkg}
}

// tinvAt: invariant formula for the value of type t stored at heap address addr in state st.
func (e *Enc) tinvAt(st *State, addr string, t types.Type) string {
	fn := e.tinvName(t)
	if fn == "" {
		return "true"
	}
	sc := e.tinvCtx(st, "true")
	sc.vars["$self"] = SV{Addr: addr, Ty: t}
	return sc.mat(sc.call(&SCall{Fn: fn, Args: []SExpr{&SIdent{Name: "$self"}}}))
}

// tinvTerm: invariant formula for a by-value term of type t (its own invariant and those of the
// struct values nested inside it).
func (e *Enc) tinvTerm(st *State, term string, t types.Type) string {
	var parts []string
	if fn := e.tinvName(t); fn != "" {
		sc := e.tinvCtx(st, "true")
		sc.vars["$self"] = SV{T: term, Ty: t}
		parts = append(parts, sc.mat(sc.call(&SCall{Fn: fn, Args: []SExpr{&SIdent{Name: "$self"}}})))
	}
	if isStruct(t) {
		if si := e.m.structOf(t); si != nil {
			for i := 0; i < si.st.NumFields(); i++ {
				ft := si.st.Field(i).Type()
				if isStruct(ft) && e.m.structOf(ft) != nil {
					if p := e.tinvTerm(st, fmt.Sprintf("(%s %s)", fieldCtor(si, i), term), ft); p != "true" {
						parts = append(parts, p)
					}
				}
			}
		}
	}
	switch len(parts) {
	case 0:
		return "true"
	case 1:
		return parts[0]
	}
	return "(and " + strings.Join(parts, " ") + ")"
}

// hasTinv: values of type t carry a type invariant (directly or in a nested struct field).
func (e *Enc) hasTinv(t types.Type) bool {
	if len(e.m.spec.TypeInvs) == 0 {
		return false
	}
	if e.tinvName(t) != "" {
		return true
	}
	if isStruct(t) {
		if si := e.m.structOf(t); si != nil {
			for i := 0; i < si.st.NumFields(); i++ {
				ft := si.st.Field(i).Type()
				if isStruct(ft) && e.m.structOf(ft) != nil && e.hasTinv(ft) {
					return true
				}
			}
		}
	}
	return false
}

// invPlaces lists (address, type) of every invariant-carrying value inside a struct of type t at addr.
func (e *Enc) invPlaces(addr string, t types.Type, out *[][2]interface{}) {
	if e.tinvName(t) != "" {
		*out = append(*out, [2]interface{}{addr, t})
	}
	if !isStruct(t) {
		return
	}
	si := e.m.structOf(t)
	if si == nil {
		return
	}
	for i := 0; i < si.st.NumFields(); i++ {
		ft := si.st.Field(i).Type()
		if isStruct(ft) && e.m.structOf(ft) != nil {
			e.invPlaces(fmt.Sprintf("(Fld %s %d)", addr, i), ft, out)
		}
	}
}

func (e *Enc) heapVersionKey(st *State, t types.Type) string {
	leaves := map[string]string{}
	e.m.cellLeaves(t, leaves)
	var sb strings.Builder
	for _, k := range sortedKeys(leaves) {
		if v, ok := st.heap[k]; ok {
			sb.WriteString(v)
		}
		sb.WriteString(";")
	}
	return sb.String()
}

// tinvAssumeLoad: a value of (struct) type t is being read (wholly or one field) at heap address addr.
func (e *Enc) tinvAssumeLoad(cur *cursor, addr string, t types.Type) {
	if len(e.m.spec.TypeInvs) == 0 || e.isFreshAddr(addr) {
		return
	}
	var places [][2]interface{}
	e.invPlaces(addr, t, &places)
	for _, p := range places {
		a, pt := p[0].(string), p[1].(types.Type)
		key := cur.guard + "|" + a + "|" + e.heapVersionKey(cur.st, pt)
		if e.tinvSeen[key] {
			continue
		}
		e.tinvSeen[key] = true
		e.assume(cur.guard, e.tinvAt(cur.st, a, pt))
	}
}

// isLocalVarAlloc: a heap allocation that backs a named local variable whose address escapes
// (`x, err := f(); ...; use(&x)`).  Such a variable may hold a not-yet-validated value (e.g. the result
// of a failed call) until its address is published; its invariants are therefore checked when the
// pointer is published (boxed into an interface, stored into the heap, returned), not at each assignment.
func isLocalVarAlloc(v ssa.Value) (*ssa.Alloc, bool) {
	al, ok := v.(*ssa.Alloc)
	if !ok || !al.Heap {
		return nil, false
	}
	switch al.Comment {
	case "", "complit", "new", "varargs", "makeslice", "slicelit", "makechan":
		return nil, false
	}
	return al, true
}

// publishCheck: pointer value v (an escaping local variable) is being published.
func (e *Enc) publishCheck(cur *cursor, v ssa.Value, pos token.Pos, how string) {
	al, ok := isLocalVarAlloc(v)
	if !ok || len(e.m.spec.TypeInvs) == 0 {
		return
	}
	et := al.Type().(*types.Pointer).Elem()
	if !isStruct(et) {
		return
	}
	pv, ok := cur.fc.vals[al]
	if !ok || pv.K != vTerm {
		return
	}
	var places [][2]interface{}
	e.invPlaces(pv.T, et, &places)
	for _, p := range places {
		a, pt := p[0].(string), p[1].(types.Type)
		tag := cur.fc.tag
		e.oblige(cur.guard, "tinv", fmt.Sprintf("%spublish#%d", tag, e.ordinal(tag+"publish")), e.tinvAt(cur.st, a, pt), []string{"C01"}, pos, "type invariant "+e.tinvName(pt)+" of local variable "+al.Comment+" must hold when its address is "+how)
	}
}

// tinvObligeStore: a value of type t (or a field of it) has just been written at heap address addr.
func (e *Enc) tinvObligeStore(cur *cursor, addr string, t types.Type, pos token.Pos, what string) {
	if len(e.m.spec.TypeInvs) == 0 {
		return
	}
	var places [][2]interface{}
	e.invPlaces(addr, t, &places)
	for _, p := range places {
		a, pt := p[0].(string), p[1].(types.Type)
		goal := e.tinvAt(cur.st, a, pt)
		tag := cur.fc.tag
		e.oblige(cur.guard, "tinv", fmt.Sprintf("%sstore#%d", tag, e.ordinal(tag+"tinv")), goal, []string{"C01"}, pos, "type invariant "+e.tinvName(pt)+" must hold after the store to "+what)
	}
}

// ---------------------------------------------------------------- element invariants
//
// `//@ eleminv nonnil *Cell Expr ...`: a pointer/interface of one of these types stored inside a
// slice or a map is never nil.  Assumed when an element is read from a container the function did
// not allocate itself, proved when an element is written (indexed store, append, map update).

func (e *Enc) elemNonNil(t types.Type) bool {
	if len(e.m.spec.NonNilElems) == 0 {
		return false
	}
	name := types.TypeString(t, func(p *types.Package) string {
		if e.m.isLocalPkg(p) {
			return ""
		}
		return p.Name()
	})
	return e.m.spec.NonNilElems[name]
}

func (e *Enc) nilOfType(t types.Type) string { return e.m.zero(t) }

// elemLoadAssume: value v of type t was read from container element at address/slice base `root`.
func (e *Enc) elemLoadAssume(cur *cursor, v string, t types.Type, root string) {
	if !e.elemNonNil(t) || e.isFreshAddr(root) {
		return
	}
	e.assume(cur.guard, fmt.Sprintf("(not (= %s %s))", v, e.nilOfType(t)))
}

func (e *Enc) elemStoreOblige(cur *cursor, v string, t types.Type, pos token.Pos, what string) {
	if !e.elemNonNil(t) {
		return
	}
	tag := cur.fc.tag
	e.oblige(cur.guard, "elem", fmt.Sprintf("%snonnil#%d", tag, e.ordinal(tag+"elem")), fmt.Sprintf("(not (= %s %s))", v, e.nilOfType(t)), []string{"C01"}, pos, "element invariant: "+what+" must not be nil")
}

// ---------------------------------------------------------------- lazily allocated local variables
//
// A named local variable whose address escapes is heap-allocated by the compiler at its declaration.
// Until its address is actually used as a value nobody else can hold a pointer to it, so it is
// modelled as a plain local; at the first escaping use it is "materialised": a fresh address is
// allocated at that moment (so it is distinct from everything any earlier callee could have
// returned), the current value is written there (its type invariants are proved then), and from then
// on the variable lives in the heap.  This is only done when no escaping use sits in a loop that
// does not also contain the declaration (otherwise one variable would get several addresses).

func (e *Enc) lazyOK(fc *fctx, x *ssa.Alloc) bool {
	if _, ok := isLocalVarAlloc(x); !ok {
		return false
	}
	et := x.Type().(*types.Pointer).Elem()
	if _, isArr := et.Underlying().(*types.Array); isArr {
		return false
	}
	var sites []ssa.Instruction
	var walk func(v ssa.Value) bool
	walk = func(v ssa.Value) bool {
		refs := v.Referrers()
		if refs == nil {
			return false
		}
		for _, r := range *refs {
			switch u := r.(type) {
			case *ssa.Store:
				if u.Val == v {
					sites = append(sites, u)
					// the address is parked in a local pointer variable: it escapes wherever that variable is read
					if pv, ok := u.Addr.(*ssa.Alloc); ok && !pv.Heap && v == ssa.Value(x) {
						if prefs := pv.Referrers(); prefs != nil {
							for _, pr := range *prefs {
								if ld, ok := pr.(*ssa.UnOp); ok {
									sites = append(sites, ld)
								}
							}
						}
					}
				}
			case *ssa.UnOp, *ssa.DebugRef:
			case *ssa.FieldAddr:
				if !walk(u) {
					return false
				}
			case *ssa.IndexAddr:
				return false
			default:
				sites = append(sites, r)
			}
		}
		return true
	}
	if !walk(x) {
		return false
	}
	for _, site := range sites {
		for _, l := range fc.loops {
			if l.blocks[site.Block()] && !l.blocks[x.Block()] {
				return false
			}
		}
	}
	return true
}

func (e *Enc) materialize(cur *cursor, x *ssa.Alloc) string {
	if a, ok := cur.st.mat[x]; ok {
		return a
	}
	et := x.Type().(*types.Pointer).Elem()
	val, ok := cur.st.loc[x]
	if !ok {
		val = e.m.zero(et)
	}
	if e.hasTinv(et) {
		tag := cur.fc.tag
		e.oblige(cur.guard, "tinv", fmt.Sprintf("%spublish#%d", tag, e.ordinal(tag+"publish")), e.tinvTerm(cur.st, val, et), []string{"C01"}, x.Pos(), "type invariants of local variable "+x.Comment+" must hold when its address escapes")
	}
	a := e.allocAddr(cur)
	e.storeAt(cur.st, a, et, val)
	e.initBuilder(cur.st, a, et)
	cur.st.mat[x] = a
	delete(cur.st.loc, x)
	return a
}

// heapValForPath: the pointer value a.f1.f2... for a materialised variable at address a.
func (e *Enc) heapValForPath(a string, t types.Type, path []int, ty types.Type) Val {
	var outer []outerRef
	for k, i := range path {
		si := e.m.structOf(t)
		ft := si.st.Field(i).Type()
		outer = append(outer, outerRef{a, t})
		if isStruct(ft) && e.m.structOf(ft) != nil {
			a = fmt.Sprintf("(Fld %s %d)", a, i)
			t = ft
			continue
		}
		_ = k
		return Val{K: vFieldRef, Base: a, SI: si, Field: i, Ty: ty, Outer: outer}
	}
	v := term(a, ty)
	v.Outer = outer
	return v
}

// resolveLocal: a pointer into a local variable; if the variable has been materialised on this path,
// the corresponding heap pointer.
func (e *Enc) resolveLocal(st *State, v Val) Val {
	if v.K != vLocal || v.Alloc == nil {
		return v
	}
	a, ok := st.mat[v.Alloc]
	if !ok {
		return v
	}
	return e.heapValForPath(a, v.Alloc.Type().(*types.Pointer).Elem(), v.Path, v.Ty)
}

// lazyRef: the pointer value a "@lazy!<i>" marker stands for (resolved against the current state).
func (e *Enc) lazyRef(st *State, marker string) Val {
	var i int
	fmt.Sscanf(marker, "@lazy!%d", &i)
	return e.resolveLocal(st, e.lazyRefs[i])
}

// ---------------------------------------------------------------- rename tolerance for local names
//
// Contracts mention local variables by name (loop invariants, site clauses).  So that renaming a local
// does not break a proof, /verif/locals.json records, for the pinned tree, each named local of every
// function under contract as (type, ordinal among the named locals of that type in source order).  When
// a contract name no longer exists in the function, it is resolved to the local in that position.

type localShape struct {
	Name    string `json:"name"`
	Occ     int    `json:"occ"` // ordinal among locals of the same name
	Type    string `json:"type"`
	TypeOrd int    `json:"type_ord"`
}

func namedAllocs(fn *ssa.Function) []*ssa.Alloc {
	var out []*ssa.Alloc
	for _, b := range fn.Blocks {
		for _, ins := range b.Instrs {
			if a, ok := ins.(*ssa.Alloc); ok && a.Comment != "" {
				switch a.Comment {
				case "complit", "varargs", "makeslice", "new", "slicelit", "defer$stack":
					continue
				}
				out = append(out, a)
			}
		}
	}
	sort.SliceStable(out, func(i, j int) bool { return out[i].Pos() < out[j].Pos() })
	return out
}

func localShapes(fn *ssa.Function) []localShape {
	var out []localShape
	byName, byType := map[string]int{}, map[string]int{}
	for _, a := range namedAllocs(fn) {
		t := a.Type().(*types.Pointer).Elem().String()
		out = append(out, localShape{a.Comment, byName[a.Comment], t, byType[t]})
		byName[a.Comment]++
		byType[t]++
	}
	return out
}

// renamedLocals: contract names of fn that no longer exist, mapped to the allocation now in their recorded position.
func (e *Enc) renamedLocals(fn *ssa.Function) map[string]*ssa.Alloc {
	if e.renames != nil {
		if r, ok := e.renames[fn]; ok {
			return r
		}
	} else {
		e.renames = map[*ssa.Function]map[string]*ssa.Alloc{}
	}
	res := map[string]*ssa.Alloc{}
	e.renames[fn] = res
	shapes := e.m.localTable[e.m.fnName[fn]]
	if len(shapes) == 0 {
		return res
	}
	allocs := namedAllocs(fn)
	present := map[string]bool{}
	for _, a := range allocs {
		present[a.Comment] = true
	}
	recorded := map[string]bool{}
	for _, s := range shapes {
		recorded[s.Name] = true
	}
	for _, s := range shapes {
		if present[s.Name] {
			continue // the name still exists: no guessing
		}
		n := 0
		for _, a := range allocs {
			if a.Type().(*types.Pointer).Elem().String() != s.Type {
				continue
			}
			if n == s.TypeOrd {
				if !recorded[a.Comment] {
					res[fmt.Sprintf("%s#%d", s.Name, s.Occ)] = a
				}
				break
			}
			n++
		}
	}
	return res
}
