package main

import (
	"encoding/json"
	"flag"
	"fmt"
	"os"
	"path/filepath"
	"runtime"
	"sort"
	"strings"
	"time"
)

func usage() {
	fmt.Fprintln(os.Stderr, `usage:
  govc check --property <id> [--tier quick|thorough] [--repo /repo]
  govc func  <name> [--keep] [--timeout s]      verify one function's contract (debugging)
  govc dump  <name>                             print naive-form SSA
  govc list                                     list contracts`)
	os.Exit(2)
}

func main() {
	if len(os.Args) < 2 {
		usage()
	}
	cmd := os.Args[1]
	fs := flag.NewFlagSet(cmd, flag.ExitOnError)
	repo := fs.String("repo", "/repo", "repository root")
	prop := fs.String("property", "", "property id")
	tier := fs.String("tier", envOr("VERIF_TIER", "quick"), "quick|thorough")
	keep := fs.Bool("keep", false, "keep all query files")
	timeout := fs.Int("timeout", 0, "solver timeout (s)")
	verbose := fs.Bool("v", false, "verbose")
	var pos []string
	args := os.Args[2:]
	for len(args) > 0 && !strings.HasPrefix(args[0], "-") {
		pos = append(pos, args[0])
		args = args[1:]
	}
	fs.Parse(args)
	pos = append(pos, fs.Args()...)

	t0 := time.Now()
	m, err := loadModel(*repo)
	if err != nil {
		fmt.Fprintln(os.Stderr, "load:", err)
		os.Exit(3)
	}
	m.computeAllEffects()
	if *verbose {
		fmt.Fprintf(os.Stderr, "loaded in %v\n", time.Since(t0))
	}
	switch cmd {
	case "dump":
		for _, n := range pos {
			f := m.funcs[n]
			if f == nil {
				fmt.Println("no function", n)
				continue
			}
			f.WriteTo(os.Stdout)
		}
	case "list":
		for _, n := range m.spec.Order {
			c := m.spec.Contracts[n]
			fmt.Printf("%-40s %v req=%d ens=%d inv=%d\n", n, c.Props, len(c.Requires), len(c.Ensures), len(c.Invs))
		}
		names := sortedKeys(m.funcs)
		fmt.Println(len(names), "functions")
		fmt.Println("no escaping pointers into slice/array elements:", m.noElemPtrs, m.elemPtrSites)
	case "locals":
		// records the shape of the named locals of every function under contract (rename tolerance)
		tab := map[string][]localShape{}
		for _, n := range m.spec.Order {
			if f := m.funcs[n]; f != nil {
				if sh := localShapes(f); len(sh) > 0 {
					tab[n] = sh
				}
			}
		}
		data, _ := json.MarshalIndent(tab, "", " ")
		os.WriteFile(filepath.Join(toolRoot(), "locals.json"), data, 0o644)
		fmt.Println("wrote locals.json for", len(tab), "functions")
		ptab := map[string][]string{}
		for _, n := range m.spec.Order {
			if f := m.funcs[n]; f != nil {
				var ns []string
				for _, p := range f.Params {
					ns = append(ns, p.Name())
				}
				ptab[n] = ns
			}
		}
		data, _ = json.MarshalIndent(ptab, "", " ")
		os.WriteFile(filepath.Join(toolRoot(), "params.json"), data, 0o644)
	case "structural":
		// the SSA-scan obligations only (debugging)
		var obls []*Obl
		obls = append(obls, m.structuralC10()...)
		obls = append(obls, m.structuralC20()...)
		obls = append(obls, m.structuralErrorsUsed("C11")...)
		obls = append(obls, m.structuralRecursion("C20")...)
		for _, o := range obls {
			fmt.Printf("%-8s %s\n", o.Status, o.Name)
			if o.Output != "" {
				fmt.Println(o.Output)
			}
		}
	case "funcs":
		for _, n := range sortedKeys(m.funcs) {
			fmt.Println(n)
		}
	case "func":
		tmo := 10
		if *timeout > 0 {
			tmo = *timeout
		}
		bad := 0
		for _, n := range pos {
			ct := m.spec.Contracts[n]
			if ct == nil {
				ct = &Contract{Func: n, Opts: map[string]string{}}
			}
			e, err := m.verifyFunc(n, ct)
			if err != nil {
				fmt.Println("error:", err)
				os.Exit(3)
			}
			dir, _ := os.MkdirTemp("", "govc")
			e.solveAll(e.obls, solveOpts{timeoutS: tmo, seed: 1, workers: runtime.NumCPU(), dir: dir, keep: *keep})
			sort.SliceStable(e.obls, func(i, j int) bool { return e.obls[i].Name < e.obls[j].Name })
			for _, o := range e.obls {
				ok := o.Status == "unsat"
				if o.Smoke {
					ok = o.Status != "unsat"
				}
				mark := "ok  "
				if !ok {
					mark = "FAIL"
					bad++
				}
				if !ok || *verbose {
					fmt.Printf("%s %-70s %-8s %5dms %s %v\n", mark, o.Name, o.Status, o.Ms, o.Solver, o.Props)
					if !ok {
						fmt.Printf("       %s   @ %s\n       query: %s\n", truncate(o.Src, 160), m.fset.Position(o.Pos), o.Query)
					}
				}
			}
			fmt.Printf("%s: %d obligations, %d failed; unsupported: %v\n", n, len(e.obls), bad, e.unsupported)
			if len(e.notes) > 0 {
				fmt.Println(" notes:", e.notes)
			}
			fmt.Println(" inlined:", sortedKeys(e.inlined), "\n contracts used:", sortedKeys(e.assumedCallees), "\n havocked:", sortedKeys(e.havocked))
			if !*keep && bad == 0 {
				os.RemoveAll(dir)
			} else {
				fmt.Println(" query dir:", dir)
			}
		}
		if bad > 0 {
			os.Exit(1)
		}
	case "check":
		os.Exit(m.runCheck(*prop, *tier, *keep, *timeout))
	default:
		usage()
	}
}

func envOr(k, d string) string {
	if v := os.Getenv(k); v != "" {
		return v
	}
	return d
}

