package main

import (
	"fmt"
	"os"
	"go/types"

	"golang.org/x/tools/go/packages"
	"golang.org/x/tools/go/ssa"
	"golang.org/x/tools/go/ssa/ssautil"
)

func main() {
	cfg := &packages.Config{Mode: packages.LoadAllSyntax, Dir: "/repo", BuildFlags: []string{"-tags=verif"}}
	pkgs, err := packages.Load(cfg, "./src", "./cli")
	if err != nil {
		panic(err)
	}
	prog, spkgs := ssautil.AllPackages(pkgs, ssa.NaiveForm)
	prog.Build()
	for _, p := range spkgs {
		for _, m := range p.Members {
			if f, ok := m.(*ssa.Function); ok && len(os.Args) > 1 && f.Name() == os.Args[1] {
				f.WriteTo(os.Stdout)
			}
		}
		if len(os.Args) > 2 {
			t := p.Type(os.Args[1])
			if t != nil {
				f := prog.LookupMethod(types.NewPointer(t.Type()), p.Pkg, os.Args[2])
				if f != nil {
					f.WriteTo(os.Stdout)
					for _, an := range f.AnonFuncs { an.WriteTo(os.Stdout) }
				}
			}
		}
	}
	fmt.Println("ok")
}
