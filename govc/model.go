package main

// Program model: loading /repo, naming functions, Go type -> SMT sort mapping,
// struct datatypes, type ids, global-variable classification.

import (
	"crypto/sha256"
	"encoding/json"
	"fmt"
	"go/ast"
	"go/constant"
	"go/token"
	"go/types"
	"math"
	"os"
	"path/filepath"
	"sort"
	"strconv"
	"strings"

	"golang.org/x/tools/go/packages"
	"golang.org/x/tools/go/ssa"
	"golang.org/x/tools/go/ssa/ssautil"
)

type structInfo struct {
	sort   string
	name   string
	st     *types.Struct
	named  types.Type
	opaque bool
}

type globalInfo struct {
	g        *ssa.Global
	id       int
	readonly bool   // never stored to outside init
	initKind string // "const", "errnew", "nil", "unknown"
	initVal  *ssa.Const
}

type Model struct {
	fset    *token.FileSet
	prog    *ssa.Program
	pkgs    []*ssa.Package
	ppkgs   []*packages.Package
	lang    *ssa.Package
	spec    *SpecFile
	funcs   map[string]*ssa.Function
	fnName  map[*ssa.Function]string
	fnID    map[*ssa.Function]int
	fnByID  []*ssa.Function
	structs map[string]*structInfo // by sort name
	sorder  []string
	byType  map[types.Type]string // memo sortOf
	tids    map[string]int
	tidName []string
	globals map[*ssa.Global]*globalInfo
	ifaceStructs []string // struct sorts that get boxed into interfaces
	effects map[*ssa.Function]*Effects
	repo    string
	srcHash string
	localTable map[string][]localShape // recorded shapes of named locals (rename tolerance)
	paramTable map[string][]string     // recorded parameter names
	noElemPtrs bool     // no pointer into slice/array element storage ever escapes (checked over all analysed functions)
	elemPtrSites []string
}

func loadModel(repo string) (*Model, error) {
	cfg := &packages.Config{
		Mode:       packages.LoadAllSyntax,
		Dir:        repo,
		BuildFlags: []string{"-tags=verif"},
		Env:        append(os.Environ(), "GOFLAGS=-mod=mod", "GOPROXY=off", "GOSUMDB=off", "GOTOOLCHAIN=local"),
	}
	pkgs, err := packages.Load(cfg, "./src", "./cli")
	if err != nil {
		return nil, err
	}
	for _, p := range pkgs {
		if len(p.Errors) > 0 {
			return nil, fmt.Errorf("package %s: %v", p.PkgPath, p.Errors[0])
		}
	}
	prog, spkgs := ssautil.AllPackages(pkgs, ssa.NaiveForm)
	prog.Build()
	m := &Model{
		fset: prog.Fset, prog: prog, pkgs: spkgs, ppkgs: pkgs, repo: repo,
		funcs: map[string]*ssa.Function{}, fnName: map[*ssa.Function]string{}, fnID: map[*ssa.Function]int{},
		structs: map[string]*structInfo{}, byType: map[types.Type]string{}, tids: map[string]int{},
		globals: map[*ssa.Global]*globalInfo{}, effects: map[*ssa.Function]*Effects{},
	}
	m.tidName = append(m.tidName, "<none>")
	for _, sp := range spkgs {
		if sp == nil {
			continue
		}
		short := sp.Pkg.Name()
		if short == "lang" {
			m.lang = sp
		}
		var add func(f *ssa.Function, name string)
		add = func(f *ssa.Function, name string) {
			if f == nil {
				return
			}
			if short != "lang" {
				name = short + "." + name
			}
			m.funcs[name] = f
			m.fnName[f] = name
			keys := literalKeys(f)
			for i, an := range f.AnonFuncs {
				sub := fmt.Sprintf("%s$%d", strings.TrimPrefix(name, short+"."), i+1)
				// a function literal stored under a constant string key of a map literal is named by
				// that key, so that reordering the entries does not re-attach contracts
				if k, ok := keys[an]; ok {
					sub = fmt.Sprintf("%s/%s", strings.TrimPrefix(name, short+"."), k)
				}
				add(an, sub)
			}
		}
		for _, mem := range sp.Members {
			switch x := mem.(type) {
			case *ssa.Function:
				add(x, x.Name())
			case *ssa.Type:
				for _, recv := range []types.Type{x.Type(), types.NewPointer(x.Type())} {
					ms := prog.MethodSets.MethodSet(recv)
					for i := 0; i < ms.Len(); i++ {
						sel := ms.At(i)
						f := prog.MethodValue(sel)
						if f == nil || f.Synthetic != "" {
							continue
						}
						if _, seen := m.fnName[f]; seen {
							continue
						}
						add(f, x.Name()+"."+f.Name())
					}
				}
			case *ssa.Global:
				m.globals[x] = &globalInfo{g: x}
			}
		}
	}
	// stable ids
	names := sortedKeys(m.funcs)
	m.fnByID = append(m.fnByID, nil)
	for _, n := range names {
		m.fnID[m.funcs[n]] = len(m.fnByID)
		m.fnByID = append(m.fnByID, m.funcs[n])
	}
	m.classifyGlobals()
	// hash of the analysed sources (evidence only)
	h := sha256.New()
	for _, p := range pkgs {
		for _, f := range p.GoFiles {
			if data, err := os.ReadFile(f); err == nil {
				h.Write(data)
			}
		}
	}
	m.srcHash = fmt.Sprintf("%x", h.Sum(nil))[:16]
	// contracts
	m.spec = newSpecFile()
	for _, p := range pkgs {
		for _, f := range p.GoFiles {
			if strings.HasSuffix(f, "_verif.go") {
				if err := m.spec.load(f); err != nil {
					return nil, err
				}
			}
		}
	}
	// extra contract files kept under /verif (assumed external contracts etc.)
	if extra := os.Getenv("GOVC_EXTRA_SPECS"); extra != "" {
		fs, _ := filepath.Glob(filepath.Join(extra, "*.spec.go"))
		sort.Strings(fs)
		for _, f := range fs {
			if err := m.spec.load(f); err != nil {
				return nil, err
			}
		}
	}
	if err := m.spec.resolveImplements(); err != nil {
		return nil, err
	}
	// declare all structs of the analysed packages up front
	for _, sp := range spkgs {
		if sp == nil {
			continue
		}
		var tn []string
		for n, mem := range sp.Members {
			if _, ok := mem.(*ssa.Type); ok {
				tn = append(tn, n)
			}
		}
		sort.Strings(tn)
		for _, n := range tn {
			t := sp.Members[n].(*ssa.Type).Type()
			if _, ok := t.Underlying().(*types.Struct); ok {
				m.sortOf(t)
			}
		}
	}
	// struct types boxed into interfaces
	seen := map[string]bool{}
	for _, f := range m.fnByID {
		if f == nil {
			continue
		}
		for _, b := range f.Blocks {
			for _, ins := range b.Instrs {
				if mi, ok := ins.(*ssa.MakeInterface); ok {
					if _, ok := mi.X.Type().Underlying().(*types.Struct); ok {
						s := m.sortOf(mi.X.Type())
						if !seen[s] && strings.HasPrefix(s, "S$") {
							seen[s] = true
							m.ifaceStructs = append(m.ifaceStructs, s)
						}
					}
				}
			}
		}
	}
	sort.Strings(m.ifaceStructs)
	m.checkElemPointers()
	if data, err := os.ReadFile(filepath.Join(toolRoot(), "locals.json")); err == nil {
		json.Unmarshal(data, &m.localTable)
	}
	if data, err := os.ReadFile(filepath.Join(toolRoot(), "params.json")); err == nil {
		json.Unmarshal(data, &m.paramTable)
	}
	return m, nil
}

// toolRoot: the directory that holds the committed tables (locals.json, params.json, known_findings.json):
// the parent of the directory of the running binary (/verif/bin/govc -> /verif), or $GOVC_HOME.
func toolRoot() string {
	if v := os.Getenv("GOVC_HOME"); v != "" {
		return v
	}
	if exe, err := os.Executable(); err == nil {
		return filepath.Dir(filepath.Dir(exe))
	}
	return "/verif"
}

// checkElemPointers: structural check that no pointer into the element storage of a slice or array
// (&s[i], &s[i].f, ...) is ever used as a value (stored, passed, returned, boxed): such pointers are
// only dereferenced or compared on the spot.  When it holds, every pointer that is stored in the heap,
// received as a parameter or returned by a call points to (a field of) an allocated object or global,
// never into a backing array -- a separation fact the encoder then assumes for such pointers.
func (m *Model) checkElemPointers() {
	m.noElemPtrs = true
	var ok func(v ssa.Value) bool
	ok = func(v ssa.Value) bool {
		refs := v.Referrers()
		if refs == nil {
			return true
		}
		for _, r := range *refs {
			switch u := r.(type) {
			case *ssa.UnOp, *ssa.DebugRef:
			case *ssa.Store:
				if u.Val == v {
					return false
				}
			case *ssa.FieldAddr:
				if !ok(u) {
					return false
				}
			case *ssa.IndexAddr:
				if !ok(u) {
					return false
				}
			case *ssa.BinOp:
				if u.Op != token.EQL && u.Op != token.NEQ {
					return false
				}
			default:
				return false
			}
		}
		return true
	}
	for f := range m.fnName {
		for _, b := range f.Blocks {
			for _, ins := range b.Instrs {
				ia, isIA := ins.(*ssa.IndexAddr)
				if !isIA {
					continue
				}
				// element 0 of a compiler-made varargs array is written, then the array is sliced: fine
				if al, isAl := ia.X.(*ssa.Alloc); isAl && al.Comment == "varargs" {
					continue
				}
				if !ok(ia) {
					m.noElemPtrs = false
					m.elemPtrSites = append(m.elemPtrSites, m.fset.Position(ia.Pos()).String())
				}
			}
		}
	}
	sort.Strings(m.elemPtrSites)
}

func (m *Model) classifyGlobals() {
	var gs []*ssa.Global
	for g := range m.globals {
		gs = append(gs, g)
	}
	sort.Slice(gs, func(i, j int) bool { return gs[i].Pkg.Pkg.Path()+gs[i].Name() < gs[j].Pkg.Pkg.Path()+gs[j].Name() })
	for i, g := range gs {
		gi := m.globals[g]
		gi.id = i + 1
		gi.readonly = true
		gi.initKind = "zero"
	}
	for f := range m.fnName {
		isInit := f.Name() == "init" && f.Parent() == nil
		for _, b := range f.Blocks {
			for _, ins := range b.Instrs {
				// any use of a global other than as the address operand of a load
				ops := ins.Operands(nil)
				for _, op := range ops {
					if op == nil || *op == nil {
						continue
					}
					g, ok := (*op).(*ssa.Global)
					if !ok {
						continue
					}
					gi := m.globals[g]
					if gi == nil {
						continue
					}
					switch x := ins.(type) {
					case *ssa.UnOp:
						if x.Op == token.MUL {
							continue
						}
						gi.readonly = false
					case *ssa.Store:
						if x.Addr == g && isInit {
							// initialiser
							if x.Val == g {
								gi.readonly = false
							}
							switch v := x.Val.(type) {
							case *ssa.Const:
								gi.initKind = "const"
								gi.initVal = v
							case *ssa.Call:
								if c := v.Call.StaticCallee(); c != nil && c.Pkg != nil && c.Pkg.Pkg.Path() == "errors" && c.Name() == "New" {
									gi.initKind = "errnew"
								} else {
									gi.initKind = "unknown"
								}
							default:
								gi.initKind = "unknown"
							}
							continue
						}
						gi.readonly = false
					default:
						gi.readonly = false
					}
				}
			}
		}
	}
}

// ---------------------------------------------------------------- sorts

func sanitize(s string) string {
	var sb strings.Builder
	for _, c := range s {
		switch {
		case c >= 'a' && c <= 'z', c >= 'A' && c <= 'Z', c >= '0' && c <= '9', c == '_':
			sb.WriteRune(c)
		case c == '*':
			sb.WriteString("p_")
		case c == '[':
			sb.WriteString("L")
		case c == ']':
			sb.WriteString("J")
		default:
			sb.WriteString("_")
		}
	}
	return sb.String()
}

func (m *Model) typeKey(t types.Type) string {
	s := types.TypeString(t, func(p *types.Package) string {
		if p.Name() == "lang" {
			return ""
		}
		return p.Name()
	})
	return sanitize(s)
}

func (m *Model) isLocalPkg(p *types.Package) bool {
	if p == nil {
		return false
	}
	for _, sp := range m.pkgs {
		if sp != nil && sp.Pkg == p && (p.Name() == "lang" || p.Name() == "cli") {
			return true
		}
	}
	return false
}

func (m *Model) sortOf(t types.Type) string {
	if s, ok := m.byType[t]; ok {
		return s
	}
	s := m.sortOf0(t)
	m.byType[t] = s
	return s
}

func (m *Model) sortOf0(t types.Type) string {
	switch u := t.(type) {
	case *types.Named:
		if st, ok := u.Underlying().(*types.Struct); ok {
			name := u.Obj().Name()
			if !m.isLocalPkg(u.Obj().Pkg()) {
				return "Opaque"
			}
			sortName := "S$" + name
			if u.Obj().Pkg().Name() != "lang" {
				sortName = "S$" + u.Obj().Pkg().Name() + "_" + name
			}
			if _, ok := m.structs[sortName]; !ok {
				si := &structInfo{sort: sortName, name: name, st: st, named: u}
				m.structs[sortName] = si
				// make sure field sorts exist first
				for i := 0; i < st.NumFields(); i++ {
					m.sortOf(st.Field(i).Type())
				}
				m.sorder = append(m.sorder, sortName)
			}
			return sortName
		}
		return m.sortOf(u.Underlying())
	case *types.Alias:
		return m.sortOf(types.Unalias(u))
	case *types.Basic:
		switch {
		case u.Info()&types.IsBoolean != 0:
			return "Bool"
		case u.Info()&types.IsInteger != 0:
			return "Int"
		case u.Info()&types.IsFloat != 0:
			return "F64"
		case u.Info()&types.IsString != 0:
			return "Str"
		case u.Kind() == types.UntypedNil:
			return "Addr"
		case u.Kind() == types.UnsafePointer:
			return "Addr"
		}
		return "Opaque"
	case *types.Pointer:
		return "Addr"
	case *types.Slice:
		return "Slice"
	case *types.Map:
		return "Addr"
	case *types.Chan:
		return "Addr"
	case *types.Signature:
		return "Fn"
	case *types.Interface:
		return "Any"
	case *types.Struct:
		key := "S$anon_" + sanitize(u.String())
		if len(key) > 60 {
			key = fmt.Sprintf("S$anon%d", len(m.structs))
		}
		if _, ok := m.structs[key]; !ok {
			si := &structInfo{sort: key, name: key, st: u, named: u}
			m.structs[key] = si
			for i := 0; i < u.NumFields(); i++ {
				m.sortOf(u.Field(i).Type())
			}
			m.sorder = append(m.sorder, key)
		}
		return key
	case *types.Array:
		return "(Array Int " + m.sortOf(u.Elem()) + ")"
	case *types.Tuple:
		return "Tuple"
	case *types.TypeParam:
		return "Any"
	}
	return "Opaque"
}

func (m *Model) structOf(t types.Type) *structInfo {
	s := m.sortOf(t)
	return m.structs[s]
}

func (m *Model) tid(t types.Type) int {
	k := types.TypeString(t, nil)
	if id, ok := m.tids[k]; ok {
		return id
	}
	id := len(m.tidName)
	m.tids[k] = id
	m.tidName = append(m.tidName, k)
	return id
}

func fieldCtor(si *structInfo, i int) string {
	return fmt.Sprintf("%s$%s", si.sort[2:], si.st.Field(i).Name())
}

func (m *Model) zero(t types.Type) string {
	s := m.sortOf(t)
	return m.zeroOfSort(s, t)
}

func (m *Model) zeroOfSort(s string, t types.Type) string {
	switch s {
	case "Int":
		return "0"
	case "Bool":
		return "false"
	case "F64":
		return "fzero"
	case "Str":
		return "sempty"
	case "Addr":
		return "Nil"
	case "Slice":
		return "(mk_slice Nil 0 0 0)"
	case "Any":
		return "ANil"
	case "Fn":
		return "FNil"
	case "Opaque":
		return "opaque0"
	}
	if si, ok := m.structs[s]; ok {
		var sb strings.Builder
		sb.WriteString("(mk" + s[1:])
		for i := 0; i < si.st.NumFields(); i++ {
			sb.WriteString(" " + m.zero(si.st.Field(i).Type()))
		}
		sb.WriteString(")")
		if si.st.NumFields() == 0 {
			return "mk" + s[1:]
		}
		return sb.String()
	}
	if strings.HasPrefix(s, "(Array Int ") {
		el := t.Underlying().(*types.Array).Elem()
		return fmt.Sprintf("((as const %s) %s)", s, m.zero(el))
	}
	return "opaque0"
}

// prelude returns the fixed SMT prelude (sorts, datatypes, string theory axioms).
func (m *Model) prelude() string {
	var sb strings.Builder
	sb.WriteString(`(set-option :smt.mbqi false)
(set-option :auto_config false)
@@F64SORT@@
(declare-sort Str 0)
(declare-sort Opaque 0)
(declare-const opaque0 Opaque)
(declare-datatypes ((Addr 0)) (((Nil) (Base (base_id Int)) (Fld (fld_p Addr) (fld_i Int)) (Elem (elem_a Addr) (elem_i Int)) (Glob (glob_id Int)))))
(declare-datatypes ((Slice 0)) (((mk_slice (sl_base Addr) (sl_off Int) (sl_len Int) (sl_cap Int)))))
(declare-fun selem (Addr Int Int) Addr)
(assert (forall ((b Addr) (o Int) (k Int)) (! (= (selem b o k) (Elem b (+ o k))) :pattern ((selem b o k)))))
(declare-datatypes ((Fn 0)) (((FNil) (FStatic (fs_id Int)) (FClos (fc_id Int) (fc_env Int)))))
@@F64OPS@@
(declare-fun slen (Str) Int)
(declare-fun sat (Str Int) Int)
(declare-fun ssub (Str Int Int) Str)
(declare-fun scat (Str Str) Str)
(declare-fun sdiff (Str Str) Int)
(declare-fun seq (Str Str) Bool)
(declare-fun sbyte (Int) Str)
(declare-fun srune (Int) Str)
(declare-const sempty Str)
(declare-fun rootid (Addr) Int)
(assert (forall ((n Int)) (! (= (rootid (Base n)) n) :pattern ((Base n)))))
(assert (forall ((p Addr) (i Int)) (! (= (rootid (Fld p i)) (rootid p)) :pattern ((Fld p i)))))
(assert (forall ((p Addr) (i Int)) (! (= (rootid (Elem p i)) (rootid p)) :pattern ((Elem p i)))))
(assert (forall ((n Int)) (! (= (rootid (Glob n)) (- 0 1)) :pattern ((Glob n)))))
(assert (= (rootid Nil) (- 0 1)))
(declare-fun inelem (Addr) Bool)
(assert (forall ((p Addr) (i Int)) (! (inelem (Elem p i)) :pattern ((Elem p i)))))
(assert (forall ((p Addr) (i Int)) (! (= (inelem (Fld p i)) (inelem p)) :pattern ((Fld p i)))))
(assert (forall ((n Int)) (! (not (inelem (Base n))) :pattern ((Base n)))))
(assert (forall ((n Int)) (! (not (inelem (Glob n))) :pattern ((Glob n)))))
(assert (not (inelem Nil)))
(assert (= (slen sempty) 0))
(assert (forall ((s Str)) (! (>= (slen s) 0) :pattern ((slen s)))))
(assert (forall ((s Str) (i Int)) (! (and (<= 0 (sat s i)) (< (sat s i) 256)) :pattern ((sat s i)))))
(assert (forall ((s Str) (a Int) (b Int)) (! (=> (and (<= 0 a) (<= a b) (<= b (slen s))) (= (slen (ssub s a b)) (- b a))) :pattern ((ssub s a b)))))
(assert (forall ((s Str) (a Int) (b Int) (k Int)) (! (=> (and (<= 0 a) (<= a b) (<= b (slen s)) (<= 0 k) (< k (- b a))) (= (sat (ssub s a b) k) (sat s (+ a k)))) :pattern ((sat (ssub s a b) k)))))
(assert (forall ((s Str)) (! (= (ssub s 0 (slen s)) s) :pattern ((ssub s 0 (slen s))))))
(assert (forall ((s Str) (a Int)) (! (= (ssub s a a) sempty) :pattern ((ssub s a a)))))
(assert (forall ((s Str) (b Int)) (! (=> (and (<= 0 b) (< b (slen s))) (= (ssub s 0 (+ b 1)) (scat (ssub s 0 b) (sbyte (sat s b))))) :pattern ((ssub s 0 (+ b 1))))))
(assert (forall ((s Str) (t Str)) (! (= (slen (scat s t)) (+ (slen s) (slen t))) :pattern ((scat s t)))))
(assert (forall ((s Str) (t Str) (k Int)) (! (=> (and (<= 0 k) (< k (+ (slen s) (slen t)))) (= (sat (scat s t) k) (ite (< k (slen s)) (sat s k) (sat t (- k (slen s)))))) :pattern ((sat (scat s t) k)))))
(assert (forall ((s Str) (t Str)) (! (= (seq s t) (= s t)) :pattern ((seq s t)))))
(assert (forall ((s Str) (t Str)) (! (=> (and (= (slen s) (slen t)) (or (< (sdiff s t) 0) (>= (sdiff s t) (slen s)) (= (sat s (sdiff s t)) (sat t (sdiff s t))))) (= s t)) :pattern ((seq s t)))))
(assert (forall ((b Int)) (! (= (slen (sbyte b)) 1) :pattern ((sbyte b)))))
(assert (forall ((b Int)) (! (=> (and (<= 0 b) (< b 256)) (= (sat (sbyte b) 0) b)) :pattern ((sbyte b)))))
(assert (forall ((r Int)) (! (and (<= 1 (slen (srune r))) (<= (slen (srune r)) 4)) :pattern ((srune r)))))
(assert (forall ((r Int)) (! (=> (and (<= 0 r) (< r 128)) (and (= (slen (srune r)) 1) (= (sat (srune r) 0) r))) :pattern ((srune r)))))
`)
	// struct datatypes, in dependency order
	for _, s := range m.sorder {
		si := m.structs[s]
		if si.st.NumFields() == 0 {
			fmt.Fprintf(&sb, "(declare-datatypes ((%s 0)) (((mk%s))))\n", s, s[1:])
			continue
		}
		fmt.Fprintf(&sb, "(declare-datatypes ((%s 0)) (((mk%s", s, s[1:])
		for i := 0; i < si.st.NumFields(); i++ {
			fmt.Fprintf(&sb, " (%s %s)", fieldCtor(si, i), m.sortOf(si.st.Field(i).Type()))
		}
		sb.WriteString("))))\n")
	}
	// Any: declared after the structs it may box. Struct sorts containing
	// interface fields need Any first, so Any is declared mutually: we use a
	// two-phase trick — interfaces inside structs are rare here (Expr/Statement
	// fields) so Any must precede the structs. We therefore declare Any first
	// with struct payloads referenced through an index sort.
	return sb.String()
}

// The Any sort must exist before struct datatypes with interface fields, and
// boxed struct payloads need the struct sorts.  To avoid mutual recursion,
// boxed structs are stored through uninterpreted projection functions.
func (m *Model) preludeAny() string {
	var sb strings.Builder
	sb.WriteString(`(declare-datatypes ((Any 0)) (((ANil) (APtr (aptr_t Int) (aptr_a Addr)) (AStr (astr_t Int) (astr_v Str)) (ABool (abool_t Int) (abool_v Bool)) (AF64 (af64_t Int) (af64_v F64)) (AInt (aint_t Int) (aint_v Int)) (ASlice (asl_t Int) (asl_v Slice)) (AMap (amap_t Int) (amap_v Addr)) (AFn (afn_t Int) (afn_v Fn)) (ABox (abox_t Int) (abox_id Int)))))
`)
	return sb.String()
}

func (m *Model) fullPrelude() string {
	p := m.prelude()
	// insert Any right after Fn datatype declaration
	marker := "@@F64OPS@@"
	i := strings.Index(p, marker)
	out := p[:i] + m.preludeAny() + p[i:]
	var sb strings.Builder
	sb.WriteString(out)
	// boxing functions for struct payloads
	for _, s := range m.ifaceStructs {
		fmt.Fprintf(&sb, "(declare-fun box%s (%s) Int)\n(declare-fun unbox%s (Int) %s)\n", s[1:], s, s[1:], s)
		fmt.Fprintf(&sb, "(assert (forall ((x %s)) (! (= (unbox%s (box%s x)) x) :pattern ((box%s x)))))\n", s, s[1:], s[1:], s[1:])
	}
	return sb.String()
}

// selemT: address of element k of slice term s.  An uninterpreted function of (base, offset, index)
// (axiomatised as Elem(base, offset+index)) so that quantifier patterns over slice elements match
// modulo equal bases/offsets and are not destroyed by arithmetic normalisation.
func selemT(s, k string) string {
	return fmt.Sprintf("(selem (sl_base %s) (sl_off %s) %s)", s, s, k)
}

// ---------------------------------------------------------------- constants

// float64 literals are named constants fl_<bits>; their meaning depends on the float encoding used
// for a query (uninterpreted with distinctness facts, or IEEE FloatingPoint), see floatPrelude.
var flits = map[string]float64{}

func f64lit(f float64) string {
	if f == 0 && !math.Signbit(f) {
		return "fzero"
	}
	name := fmt.Sprintf("fl_%016x", math.Float64bits(f))
	flits[name] = f
	return name
}

func fpTerm(f float64) string {
	b := math.Float64bits(f)
	sign := b >> 63
	exp := (b >> 52) & 0x7ff
	man := b & ((1 << 52) - 1)
	return fmt.Sprintf("(fp #b%d #b%011b #x%013x)", sign, exp, man)
}

// floatPrelude: the two encodings of float64.  "uf": an uninterpreted sort with uninterpreted
// operations and a few sound IEEE facts (fast; a proof found here holds for real doubles because every
// fact is an IEEE theorem).  "fp": SMT FloatingPoint 11 53 (exact, slow) -- tried when "uf" fails.
func floatPrelude(mode string) (sortDecl, ops string) {
	var sb strings.Builder
	names := make([]string, 0, len(flits))
	for n := range flits {
		names = append(names, n)
	}
	sort.Strings(names)
	if mode == "fp" {
		sb.WriteString(`(define-fun fzero () F64 (_ +zero 11 53))
(define-fun fadd ((a F64) (b F64)) F64 (fp.add RNE a b))
(define-fun fsub ((a F64) (b F64)) F64 (fp.sub RNE a b))
(define-fun fmul ((a F64) (b F64)) F64 (fp.mul RNE a b))
(define-fun fdiv ((a F64) (b F64)) F64 (fp.div RNE a b))
(define-fun fneg ((a F64)) F64 (fp.neg a))
(define-fun feq ((a F64) (b F64)) Bool (fp.eq a b))
(define-fun flt ((a F64) (b F64)) Bool (fp.lt a b))
(define-fun fle ((a F64) (b F64)) Bool (fp.leq a b))
(define-fun fgt ((a F64) (b F64)) Bool (fp.gt a b))
(define-fun fge ((a F64) (b F64)) Bool (fp.geq a b))
(define-fun fisnan ((a F64)) Bool (fp.isNaN a))
(define-fun fisinf ((a F64)) Bool (fp.isInfinite a))
(define-fun frtn ((a F64)) F64 (fp.roundToIntegral RTN a))
(define-fun frtp ((a F64)) F64 (fp.roundToIntegral RTP a))
(define-fun frna ((a F64)) F64 (fp.roundToIntegral RNA a))
`)
		for _, n := range names {
			fmt.Fprintf(&sb, "(define-fun %s () F64 %s)\n", n, fpTerm(flits[n]))
		}
		return "(define-sort F64 () (_ FloatingPoint 11 53))", sb.String()
	}
	sb.WriteString(`(declare-const fzero F64)
(declare-fun fadd (F64 F64) F64)
(declare-fun fsub (F64 F64) F64)
(declare-fun fmul (F64 F64) F64)
(declare-fun fdiv (F64 F64) F64)
(declare-fun fneg (F64) F64)
(declare-fun feq (F64 F64) Bool)
(declare-fun flt (F64 F64) Bool)
(declare-fun fle (F64 F64) Bool)
(define-fun fgt ((a F64) (b F64)) Bool (flt b a))
(define-fun fge ((a F64) (b F64)) Bool (fle b a))
(declare-fun fisnan (F64) Bool)
(declare-fun fisinf (F64) Bool)
(declare-fun frtn (F64) F64)
(declare-fun frtp (F64) F64)
(declare-fun frna (F64) F64)
(assert (forall ((a F64) (b F64)) (! (= (fadd a b) (fadd b a)) :pattern ((fadd a b)))))
(assert (forall ((a F64) (b F64)) (! (= (fmul a b) (fmul b a)) :pattern ((fmul a b)))))
(assert (forall ((a F64) (b F64)) (! (=> (flt a b) (and (not (flt b a)) (not (feq a b)) (fle a b))) :pattern ((flt a b)))))
(assert (forall ((a F64) (b F64)) (! (= (feq a b) (feq b a)) :pattern ((feq a b)))))
(assert (forall ((a F64) (b F64)) (! (=> (feq a b) (and (fle a b) (fle b a))) :pattern ((feq a b)))))
(assert (forall ((a F64)) (! (= (feq a a) (not (fisnan a))) :pattern ((feq a a)))))
(assert (not (fisnan fzero)))
`)
	all := append([]string{"fzero"}, names...)
	val := func(n string) float64 {
		if n == "fzero" {
			return 0
		}
		return flits[n]
	}
	for _, n := range names {
		fmt.Fprintf(&sb, "(declare-const %s F64)\n", n)
		if math.IsNaN(flits[n]) {
			fmt.Fprintf(&sb, "(assert (fisnan %s))\n", n)
		} else {
			fmt.Fprintf(&sb, "(assert (not (fisnan %s)))\n", n)
		}
	}
	for i, a := range all {
		for _, b := range all[i+1:] {
			fmt.Fprintf(&sb, "(assert (not (= %s %s)))\n", a, b)
			va, vb := val(a), val(b)
			switch {
			case math.IsNaN(va) || math.IsNaN(vb):
			case va < vb:
				fmt.Fprintf(&sb, "(assert (flt %s %s))\n", a, b)
			case vb < va:
				fmt.Fprintf(&sb, "(assert (flt %s %s))\n", b, a)
			default:
				fmt.Fprintf(&sb, "(assert (feq %s %s))\n", a, b)
			}
		}
	}
	return "(declare-sort F64 0)", sb.String()
}

func intLit(s string) string {
	if strings.HasPrefix(s, "-") {
		return "(- " + s[1:] + ")"
	}
	return s
}

func (m *Model) constTerm(e *Enc, c *ssa.Const) string {
	t := c.Type()
	s := m.sortOf(t)
	if c.Value == nil {
		return m.zeroOfSort(s, t)
	}
	switch s {
	case "Int":
		if v, ok := constant.Int64Val(constant.ToInt(c.Value)); ok {
			return intLit(fmt.Sprint(v))
		}
		if v, ok := constant.Uint64Val(constant.ToInt(c.Value)); ok {
			return fmt.Sprint(v)
		}
		return intLit(c.Value.ExactString())
	case "Bool":
		if constant.BoolVal(c.Value) {
			return "true"
		}
		return "false"
	case "F64":
		f, _ := constant.Float64Val(c.Value)
		return f64lit(f)
	case "Str":
		return e.strLit(constant.StringVal(c.Value))
	}
	return m.zeroOfSort(s, t)
}

// literalKeys maps the function literals of f that sit (alone) in the value of a `"key": ...` entry of a
// map composite literal to that key.  Keys used by more than one literal are dropped.
func literalKeys(f *ssa.Function) map[*ssa.Function]string {
	out := map[*ssa.Function]string{}
	if f.Syntax() == nil || len(f.AnonFuncs) == 0 {
		return out
	}
	byLit := map[*ast.FuncLit]*ssa.Function{}
	for _, an := range f.AnonFuncs {
		if fl, ok := an.Syntax().(*ast.FuncLit); ok {
			byLit[fl] = an
		}
	}
	used := map[string]int{}
	var walk func(n ast.Node, key string)
	walk = func(n ast.Node, key string) {
		ast.Inspect(n, func(x ast.Node) bool {
			switch v := x.(type) {
			case *ast.KeyValueExpr:
				if bl, ok := v.Key.(*ast.BasicLit); ok && bl.Kind == token.STRING && key == "" {
					if k, err := strconv.Unquote(bl.Value); err == nil && isIdentLike(k) {
						// count the literals directly inside this entry
						n := 0
						var only *ast.FuncLit
						ast.Inspect(v.Value, func(y ast.Node) bool {
							if fl, ok := y.(*ast.FuncLit); ok {
								n++
								only = fl
								return false
							}
							return true
						})
						if n == 1 && byLit[only] != nil {
							out[byLit[only]] = k
							used[k]++
						}
						return false
					}
				}
			case *ast.FuncLit:
				if v != f.Syntax() {
					return false
				}
			}
			return true
		})
	}
	walk(f.Syntax(), "")
	for fn, k := range out {
		if used[k] > 1 {
			delete(out, fn)
		}
	}
	return out
}

func isIdentLike(s string) bool {
	if s == "" {
		return false
	}
	for _, r := range s {
		if !(r == '_' || r >= 'a' && r <= 'z' || r >= 'A' && r <= 'Z' || r >= '0' && r <= '9') {
			return false
		}
	}
	return true
}
