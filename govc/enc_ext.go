package main

// Models (assumed contracts) of standard-library functions.  Every model used
// in a run is listed in the evidence under assumed_contracts.

import (
	"fmt"
	"go/token"
	"go/types"
	"strings"

	"golang.org/x/tools/go/ssa"
)

var extPrelude = strings.NewReplacer("@@ONE@@", f64lit(1), "@@MONE@@", f64lit(-1), "@@P63@@", f64lit(9223372036854775808.0), "@@M63@@", f64lit(-9223372036854775808.0)).Replace(`(define-fun goquo ((a Int) (b Int)) Int (ite (>= a 0) (ite (> b 0) (div a b) (- (div a (- b)))) (ite (> b 0) (- (div (- a) b)) (div (- a) (- b)))))
(define-fun gorem ((a Int) (b Int)) Int (- a (* b (goquo a b))))
(declare-fun scmp (Str Str) Int)
(assert (forall ((a Str) (b Str)) (! (and (<= (- 1) (scmp a b)) (<= (scmp a b) 1) (= (= (scmp a b) 0) (= a b)) (= (scmp a b) (- (scmp b a)))) :pattern ((scmp a b)))))
(declare-fun i2f (Int) F64)
(declare-fun f2i (F64) Int)
(assert (= (i2f 0) fzero))
(assert (= (i2f 1) @@ONE@@))
(assert (forall ((x F64)) (! (=> (and (fgt x @@MONE@@) (flt x @@ONE@@)) (= (f2i x) 0)) :pattern ((f2i x)))))
(assert (forall ((x F64)) (! (=> (and (not (fisnan x)) (not (fisinf x)) (or (fge x @@ONE@@) (fle x @@MONE@@)) (flt x @@P63@@) (fgt x @@M63@@)) (not (= (f2i x) 0))) :pattern ((f2i x)))))
(assert (forall ((x F64)) (! (and (<= (- 9223372036854775808) (f2i x)) (<= (f2i x) 9223372036854775807)) :pattern ((f2i x)))))
(assert (forall ((i Int)) (! (=> (and (< (- 9007199254740992) i) (< i 9007199254740992)) (= (f2i (i2f i)) i)) :pattern ((i2f i)))))
(assert (forall ((i Int)) (! (not (fisnan (i2f i))) :pattern ((i2f i)))))
(assert (forall ((i Int)) (! (= (feq (i2f i) fzero) (= i 0)) :pattern ((i2f i)))))
(declare-fun pf_ok (Str) Bool)
(declare-fun pf_val (Str) F64)
(declare-fun fmtf (F64) Str)
(declare-fun pi_ok (Str Int) Bool)
(declare-fun pi_val (Str Int) Int)
(declare-fun uni_isdigit (Int) Bool)
(declare-fun uni_isletter (Int) Bool)
(declare-fun re_ok (Str) Bool)
(declare-fun re_pat (Addr) Str)
(declare-fun re_match (Str Str) Bool)
(declare-fun s_lower (Str) Str)
(declare-fun s_upper (Str) Str)
(declare-fun s_repeat (Str Int) Str)
(declare-fun s_split_n (Str Str) Int)
(declare-fun s_split_at (Str Str Int) Str)
(assert (forall ((s Str) (n Int)) (! (=> (>= n 0) (= (slen (s_repeat s n)) (* n (slen s)))) :pattern ((s_repeat s n)))))
(declare-fun im_Error (Any) Str)
(declare-fun sprintf (Int Int) Str)
(define-fun isdigit ((r Int)) Bool (ite (and (<= 0 r) (< r 128)) (and (<= 48 r) (<= r 57)) (uni_isdigit r)))
(define-fun isletter ((r Int)) Bool (ite (and (<= 0 r) (< r 128)) (or (and (<= 65 r) (<= r 90)) (and (<= 97 r) (<= r 122))) (uni_isletter r)))
`)

// external returns true when a model was applied.
func (e *Enc) external(cur *cursor, v ssa.Value, callee *ssa.Function, args []Val, sig *types.Signature, pos token.Pos, c *ssa.CallCommon) bool {
	full := callee.String()
	at := func(i int) string { return e.asTerm(args[i]) }
	set := func(ts ...string) {
		e.assumedCallees["ext:"+full] = true
		e.setResults(cur, v, sig, ts)
	}
	st := cur.st
	if strings.HasPrefix(full, "slices.SortStableFunc[") {
		// assumed contract: permutes the elements of the slice in place (stably, ordered by cmp); everything
		// else is untouched; cmp is only applied to elements of the slice
		sl := at(0)
		elT := c.Args[0].Type().Underlying().(*types.Slice).Elem()
		an, as := e.cellArr(elT)
		arr := e.heapGet(st, an, as)
		na := e.fresh(an, "(Array Addr "+as+")")
		e.nfresh++
		perm := fmt.Sprintf("sperm!%d", e.nfresh)
		e.declare(fmt.Sprintf("(declare-fun %s (Int) Int)", perm))
		el := func(arrT, k string) string { return fmt.Sprintf("(select %s %s)", arrT, selemT(sl, k)) }
		rng := func(k string) string { return fmt.Sprintf("(and (<= 0 %s) (< %s (sl_len %s)))", k, k, sl) }
		e.assume(cur.guard, fmt.Sprintf("(forall ((j Int)) (! (=> %s (and %s (= %s %s))) :pattern (%s)))", rng("j"), rng("("+perm+" j)"), el(na, "j"), el(arr, "("+perm+" j)"), el(na, "j")))
		e.assume(cur.guard, fmt.Sprintf("(forall ((a Addr)) (! (=> (not (and ((_ is Elem) a) (= (elem_a a) (sl_base %s)) (<= (sl_off %s) (elem_i a)) (< (elem_i a) (+ (sl_off %s) (sl_len %s))))) (= (select %s a) (select %s a))) :pattern ((select %s a))))", sl, sl, sl, sl, na, arr, na))
		st.heap[an] = na
		e.assumedCallees["ext:slices.SortStableFunc"] = true
		e.setResults(cur, v, sig, nil)
		return true
	}
	switch full {
	case "flag.String", "flag.Bool", "flag.Int":
		// assumed contract: returns a pointer to freshly allocated storage for the flag's value
		set(e.allocAddr(cur))
		return true
	case "errors.New", "fmt.Errorf":
		set(e.newError(cur))
		if _, ok := e.m.spec.Ghosts["$faulted"]; ok {
			// fault latch (DESIGN.md C11): creating an error value is a fault
			cur.st.ghost["$faulted"] = "true"
		}
	case "fmt.Sprintf", "fmt.Sprint", "fmt.Sprintln":
		set(e.fresh("sprintf", "Str"))
	case "fmt.Fprint", "fmt.Fprintf", "fmt.Fprintln", "fmt.Print", "fmt.Printf", "fmt.Println":
		e.fprint(cur, v, full, callee, args, sig, c)
		e.assumedCallees["ext:"+full] = true
	case "strings.HasPrefix":
		set(fmt.Sprintf("(and (<= (slen %s) (slen %s)) (seq (ssub %s 0 (slen %s)) %s))", at(1), at(0), at(0), at(1), at(1)))
	case "strings.Compare":
		set(fmt.Sprintf("(scmp %s %s)", at(0), at(1)))
	case "strings.ToLower":
		set(fmt.Sprintf("(s_lower %s)", at(0)))
	case "strings.ToUpper":
		set(fmt.Sprintf("(s_upper %s)", at(0)))
	case "strings.Repeat":
		// strings.Repeat panics on a negative count
		e.safety(cur, "repeatneg", fmt.Sprintf("(<= 0 %s)", at(1)), v.Pos(), "strings.Repeat: negative Repeat count")
		set(fmt.Sprintf("(s_repeat %s %s)", at(0), at(1)))
	case "strconv.ParseFloat":
		errT := e.fresh("pferr", "Any")
		e.assume(cur.guard, fmt.Sprintf("(= (= %s ANil) (pf_ok %s))", errT, at(0)))
		set(fmt.Sprintf("(pf_val %s)", at(0)), errT)
	case "strconv.ParseInt":
		errT := e.fresh("pierr", "Any")
		// the base is part of the function: ParseInt(s, 0, ..) reads a leading 0 as octal
		e.assume(cur.guard, fmt.Sprintf("(= (= %s ANil) (pi_ok %s %s))", errT, at(0), at(1)))
		set(fmt.Sprintf("(pi_val %s %s)", at(0), at(1)), errT)
	case "strconv.FormatFloat":
		set(fmt.Sprintf("(fmtf %s)", at(0)))
	case "unicode.IsDigit":
		set(fmt.Sprintf("(isdigit %s)", at(0)))
	case "unicode.IsLetter":
		set(fmt.Sprintf("(isletter %s)", at(0)))
	case "regexp.MustCompile":
		// panics on an invalid pattern
		e.safety(cur, "mustcompile", fmt.Sprintf("(re_ok %s)", at(0)), pos, "regexp.MustCompile panics on an invalid pattern")
		re := e.allocAddr(cur)
		e.assume(cur.guard, fmt.Sprintf("(= (re_pat %s) %s)", re, at(0)))
		set(re)
	case "regexp.Compile":
		re := e.allocAddr(cur)
		errT := e.fresh("reerr", "Any")
		e.assume(cur.guard, fmt.Sprintf("(= (= %s ANil) (re_ok %s))", errT, at(0)))
		e.assume(cur.guard, fmt.Sprintf("(= (re_pat %s) %s)", re, at(0)))
		set(fmt.Sprintf("(ite (= %s ANil) %s Nil)", errT, re), errT)
	case "(*regexp.Regexp).MatchString":
		set(fmt.Sprintf("(re_match (re_pat %s) %s)", at(0), at(1)))
	case "sort.Strings":
		// assumed contract: the slice header is unchanged, its elements are permuted (perm is a
		// bijection on [0,len)) and end up in non-decreasing bytewise order
		sl := at(0)
		arr := e.heapGet(st, "M$string", "Str")
		na := e.fresh("M$string", "(Array Addr Str)")
		e.nfresh++
		perm, inv := fmt.Sprintf("perm!%d", e.nfresh), fmt.Sprintf("perminv!%d", e.nfresh)
		e.declare(fmt.Sprintf("(declare-fun %s (Int) Int)", perm))
		e.declare(fmt.Sprintf("(declare-fun %s (Int) Int)", inv))
		el := func(arrT, k string) string { return fmt.Sprintf("(select %s %s)", arrT, selemT(sl, k)) }
		rng := func(k string) string { return fmt.Sprintf("(and (<= 0 %s) (< %s (sl_len %s)))", k, k, sl) }
		e.assume(cur.guard, fmt.Sprintf("(forall ((j Int)) (! (=> %s (and %s (= %s %s) (= (%s (%s j)) j))) :pattern (%s)))", rng("j"), rng("("+perm+" j)"), el(na, "j"), el(arr, "("+perm+" j)"), inv, perm, el(na, "j")))
		e.assume(cur.guard, fmt.Sprintf("(forall ((i Int)) (! (=> %s (and %s (= (%s (%s i)) i))) :pattern ((%s i))))", rng("i"), rng("("+inv+" i)"), perm, inv, inv))
		e.assume(cur.guard, fmt.Sprintf("(forall ((i Int) (j Int)) (! (=> (and (<= 0 i) (< i j) (< j (sl_len %s))) (<= (scmp %s %s) 0)) :pattern (%s %s)))", sl, el(na, "i"), el(na, "j"), el(na, "i"), el(na, "j")))
		e.assume(cur.guard, fmt.Sprintf("(forall ((a Addr)) (! (=> (not (and ((_ is Elem) a) (= (elem_a a) (sl_base %s)) (<= (sl_off %s) (elem_i a)) (< (elem_i a) (+ (sl_off %s) (sl_len %s))))) (= (select %s a) (select %s a))) :pattern ((select %s a))))", sl, sl, sl, sl, na, arr, na))
		st.heap["M$string"] = na
		e.assumedCallees["ext:"+full] = true
		e.setResults(cur, v, sig, nil)
	case "encoding/json.MarshalIndent", "encoding/json.Marshal":
		// assumed contract: either some bytes, or an error of the library's own (not one of the
		// interpreter's error types or sentinels); like every error creation it sets the fault latch
		a := e.allocAddr(cur)
		n := e.fresh("jsonlen", "Int")
		e.assume(cur.guard, fmt.Sprintf("(<= 0 %s)", n))
		errNew := e.newError(cur)
		isErr := e.fresh("marshalfails", "Bool")
		errT := fmt.Sprintf("(ite %s %s ANil)", isErr, errNew)
		if _, ok := e.m.spec.Ghosts["$faulted"]; ok {
			cur.st.ghost["$faulted"] = e.define("$faulted", "Bool", fmt.Sprintf("(or %s %s)", e.ghostGet(cur.st, "$faulted"), isErr))
		}
		set(fmt.Sprintf("(ite %s (mk_slice Nil 0 0 0) (mk_slice %s 0 %s %s))", isErr, a, n, n), errT)
		e.freshAddrs[a] = true
	case "strings.Split":
		// assumed contract: a fresh slice of s_split_n(s, sep) >= 0 strings, the k-th being s_split_at(s, sep, k).
		// (That the pieces contain no separator and join back to s is the library's documentation; the
		// contracts only tie jqawk's split to this function applied to receiver and separator.)
		a := e.allocAddr(cur)
		arr := e.heapGet(st, "M$string", "Str")
		na := e.fresh("M$string", "(Array Addr Str)")
		n := fmt.Sprintf("(s_split_n %s %s)", at(0), at(1))
		e.assume(cur.guard, fmt.Sprintf("(<= 0 %s)", n))
		e.assume(cur.guard, fmt.Sprintf("(forall ((k Int)) (! (=> (and (<= 0 k) (< k %s)) (= (select %s (Elem %s k)) (s_split_at %s %s k))) :pattern ((select %s (Elem %s k)))))", n, na, a, at(0), at(1), na, a))
		e.assume(cur.guard, fmt.Sprintf("(forall ((x Addr)) (! (=> (not (and ((_ is Elem) x) (= (elem_a x) %s))) (= (select %s x) (select %s x))) :pattern ((select %s x))))", a, na, arr, na))
		st.heap["M$string"] = na
		set(fmt.Sprintf("(mk_slice %s 0 %s %s)", a, n, n))
		e.freshAddrs[a] = true
	case "math.Floor":
		set(fmt.Sprintf("(frtn %s)", at(0)))
	case "math.Ceil":
		set(fmt.Sprintf("(frtp %s)", at(0)))
	case "math.Round":
		set(fmt.Sprintf("(frna %s)", at(0)))
	case "(*strings.Builder).WriteByte":
		arr := e.heapGet(st, "M$builder", "Str")
		e.heapSet(st, "M$builder", "Str", fmt.Sprintf("(store %s %s (scat (select %s %s) (sbyte %s)))", arr, at(0), arr, at(0), at(1)))
		set("ANil")
	case "(*strings.Builder).WriteString":
		arr := e.heapGet(st, "M$builder", "Str")
		e.heapSet(st, "M$builder", "Str", fmt.Sprintf("(store %s %s (scat (select %s %s) %s))", arr, at(0), arr, at(0), at(1)))
		set(fmt.Sprintf("(slen %s)", at(1)), "ANil")
	case "(*strings.Builder).String":
		set(fmt.Sprintf("(select %s %s)", e.heapGet(st, "M$builder", "Str"), at(0)))
	case "(*strings.Builder).Len":
		set(fmt.Sprintf("(slen (select %s %s))", e.heapGet(st, "M$builder", "Str"), at(0)))
	default:
		return false
	}
	return true
}

// fprint: output primitives append to the ghost output $out (or $err for os.Stderr).
func (e *Enc) fprint(cur *cursor, v ssa.Value, full string, callee *ssa.Function, args []Val, sig *types.Signature, c *ssa.CallCommon) {
	ghost := "$out"
	ai := 0
	if strings.HasPrefix(full, "fmt.Fp") {
		ai = 1
		if u, ok := c.Args[0].(*ssa.MakeInterface); ok {
			if l, ok := u.X.(*ssa.UnOp); ok {
				if g, ok := l.X.(*ssa.Global); ok && g.Name() == "Stderr" {
					ghost = "$err"
				}
			}
		}
	}
	if _, ok := e.m.spec.Ghosts["$faulted"]; ok && ghost == "$out" {
		e.oblige(cur.guard, "pre", fmt.Sprintf("%soutput-after-fault#%d", cur.fc.tag, e.ordinal(cur.fc.tag+"oaf")), fmt.Sprintf("(not %s)", e.ghostGet(cur.st, "$faulted")), []string{"C11"}, c.Pos(), "nothing is printed after a fault: the fault latch must be clear at every output primitive")
	}
	if _, ok := e.m.spec.Ghosts[ghost]; !ok {
		// output not tracked in this run
		e.setResults(cur, v, sig, e.freshResults(cur, sig, "fprint"))
		return
	}
	var text string
	isF := strings.HasSuffix(full, "f")
	if isF {
		// a format that is not a compile-time constant is interpreted for directives: whatever '%' the
		// text contains is consumed (the fmt vet check, as an obligation)
		if _, ok := c.Args[ai].(*ssa.Const); !ok {
			e.oblige(cur.guard, "fmtconst", fmt.Sprintf("%sfmtconst#%d", cur.fc.tag, e.ordinal(cur.fc.tag+"fmtconst")), "false", []string{"C01"}, c.Pos(), full+": the format string is not a constant, so text containing '%' would not be written verbatim")
		}
	}
	isLn := strings.HasSuffix(full, "ln")
	var fmtS string
	rest := c.Args[ai:]
	restVals := args[ai:]
	if isF {
		fmtS = e.asTerm(restVals[0])
		rest = rest[1:]
	}
	elems, _, known := e.sliceElems(cur, rest[len(rest)-1])
	switch {
	case known && !isF && len(elems) == 1:
		// Fprint(w, x): exact when x is a string
		text = fmt.Sprintf("(ite ((_ is AStr) %s) (astr_v %s) (fmt_any %s))", elems[0], elems[0], elems[0])
		e.declFun("fmt_any", []string{"Any"}, "Str")
	case known && isF && len(elems) == 1:
		if lit, ok := c.Args[ai].(*ssa.Const); ok && lit.Value != nil && strings.Trim(lit.Value.ExactString(), "\"") == "%s" {
			text = fmt.Sprintf("(ite ((_ is AStr) %s) (astr_v %s) (fmt_any %s))", elems[0], elems[0], elems[0])
			e.declFun("fmt_any", []string{"Any"}, "Str")
		} else {
			e.declFun("fmt_f1", []string{"Str", "Any"}, "Str")
			text = fmt.Sprintf("(fmt_f1 %s %s)", fmtS, elems[0])
		}
	case known && len(elems) == 0 && isF:
		// Fprintf(w, f) with no operands prints f verbatim only if f contains no '%' verbs
		if lit, ok := c.Args[ai].(*ssa.Const); ok && lit.Value != nil && !strings.Contains(lit.Value.ExactString(), "%") {
			text = fmtS
		} else {
			e.declFun("fmt_f0", []string{"Str"}, "Str")
			text = fmt.Sprintf("(fmt_f0 %s)", fmtS)
		}
	default:
		text = e.fresh("printed", "Str")
	}
	if isLn {
		text = fmt.Sprintf("(scat %s %s)", text, e.strLit("\n"))
	}
	cur.st.ghost[ghost] = e.define(ghost, "Str", fmt.Sprintf("(scat %s %s)", e.ghostGet(cur.st, ghost), text))
	e.setResults(cur, v, sig, e.freshResults(cur, sig, "fprint"))
}
