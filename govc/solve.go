package main

// Discharging obligations with the installed SMT solvers.

import (
	"bytes"
	"context"
	"fmt"
	"os"
	"os/exec"
	"path/filepath"
	"strings"
	"sync"
	"time"
)

type solverSpec struct {
	name string
	args func(file string, timeoutS int, seed int) []string
	bin  string
}

var solvers = []solverSpec{
	{"z3-5.1.0", func(f string, t, seed int) []string {
		return []string{fmt.Sprintf("-T:%d", t), fmt.Sprintf("smt.random_seed=%d", seed), f}
	}, "z3-new"},
	{"z3-4.8.12", func(f string, t, seed int) []string {
		return []string{fmt.Sprintf("-T:%d", t), fmt.Sprintf("smt.random_seed=%d", seed), f}
	}, "z3"},
	{"cvc5-1.0.3", func(f string, t, seed int) []string {
		return []string{"-q", fmt.Sprintf("--tlimit=%d", t*1000), fmt.Sprintf("--seed=%d", seed), f}
	}, "cvc5"},
}

func (e *Enc) queryText(o *Obl, forCvc5 bool, fmode string) string {
	var sb strings.Builder
	pre := e.m.fullPrelude() + extPrelude
	srt, ops := floatPrelude(fmode)
	pre = strings.Replace(strings.Replace(pre, "@@F64SORT@@", srt, 1), "@@F64OPS@@", ops, 1)
	if forCvc5 {
		var keep []string
		for _, l := range strings.Split(pre, "\n") {
			if strings.HasPrefix(l, "(set-option :smt.") || strings.HasPrefix(l, "(set-option :auto_config") {
				continue
			}
			keep = append(keep, l)
		}
		pre = "(set-logic ALL)\n" + strings.Join(keep, "\n")
	}
	sb.WriteString(pre)
	sb.WriteString("\n")
	for _, d := range e.decls {
		sb.WriteString(d)
		sb.WriteString("\n")
	}
	for _, it := range e.items[:o.NItems] {
		sb.WriteString(it)
		sb.WriteString("\n")
	}
	fmt.Fprintf(&sb, "; obligation %s\n", o.Name)
	if o.Guard != "true" {
		fmt.Fprintf(&sb, "(assert %s)\n", o.Guard)
	}
	fmt.Fprintf(&sb, "(assert (not %s))\n(check-sat)\n", o.Goal)
	return sb.String()
}

func runSolver(s solverSpec, file string, timeoutS, seed int) (status string, out string, ms int64) {
	ctx, cancel := context.WithTimeout(context.Background(), time.Duration(timeoutS+2)*time.Second)
	defer cancel()
	t0 := time.Now()
	cmd := exec.CommandContext(ctx, s.bin, s.args(file, timeoutS, seed)...)
	var buf bytes.Buffer
	cmd.Stdout = &buf
	cmd.Stderr = &buf
	_ = cmd.Run()
	ms = time.Since(t0).Milliseconds()
	out = buf.String()
	first := ""
	for _, l := range strings.Split(out, "\n") {
		l = strings.TrimSpace(l)
		if l == "" || strings.HasPrefix(l, "WARNING") {
			continue
		}
		first = l
		break
	}
	switch first {
	case "unsat", "sat", "unknown", "timeout":
		return first, out, ms
	}
	if ctx.Err() != nil {
		return "timeout", out, ms
	}
	if strings.Contains(out, "timeout") {
		return "timeout", out, ms
	}
	return "error", out, ms
}

type solveOpts struct {
	timeoutS int
	seed     int
	workers  int
	dir      string
	keep     bool
}

// solveAll discharges all obligations of an encoding, in parallel.
func (e *Enc) solveAll(obls []*Obl, opt solveOpts) {
	var wg sync.WaitGroup
	sem := make(chan struct{}, opt.workers)
	for i, o := range obls {
		wg.Add(1)
		sem <- struct{}{}
		go func(i int, o *Obl) {
			defer wg.Done()
			defer func() { <-sem }()
			e.solveOne(o, opt, i)
		}(i, o)
	}
	wg.Wait()
}

func (e *Enc) solveOne(o *Obl, opt solveOpts, idx int) {
	// float64 encoding: uninterpreted first (fast, sound), IEEE FloatingPoint when that does not prove it
	e.solveMode(o, opt, idx, "uf")
	if o.Status == "unsat" || o.Smoke {
		return
	}
	ufStatus, ufOut := o.Status, o.Output
	e.solveMode(o, opt, idx, "fp")
	if o.Status != "unsat" {
		o.Output = "[float64 uninterpreted] " + ufStatus + "\n" + ufOut + "[float64 IEEE] " + o.Status + "\n" + o.Output
	}
}

func (e *Enc) solveMode(o *Obl, opt solveOpts, idx int, fmode string) {
	base := filepath.Join(opt.dir, fmt.Sprintf("%s_%d_%s", sanitize(o.Name), idx, fmode))
	q := e.queryText(o, false, fmode)
	f := base + ".smt2"
	os.WriteFile(f, []byte(q), 0o644)
	o.Query = f
	o.Status, o.Output, o.Solver = "", "", ""
	var total int64
	tmo := opt.timeoutS
	if o.Smoke {
		tmo = 2
	}
	for si, s := range solvers {
		file := f
		if s.bin == "cvc5" {
			if o.Smoke {
				continue
			}
			file = base + ".cvc5.smt2"
			os.WriteFile(file, []byte(e.queryText(o, true, fmode)), 0o644)
		}
		st, out, ms := runSolver(s, file, tmo, opt.seed)
		total += ms
		o.Output += fmt.Sprintf("[%s] %s (%d ms)\n", s.name, strings.TrimSpace(firstLines(out, 3)), ms)
		if st == "unsat" || st == "sat" {
			o.Status, o.Solver, o.Ms = st, s.name, o.Ms+total
			if fmode == "fp" {
				o.Solver += " (IEEE floats)"
			}
			if !opt.keep && st == "unsat" && !o.Smoke {
				os.Remove(f)
				os.Remove(base + ".cvc5.smt2")
			}
			return
		}
		if si == 0 {
			o.Status = st
		}
		if o.Smoke {
			break
		}
	}
	o.Ms += total
	if o.Status == "" {
		o.Status = "unknown"
	}
}

func firstLines(s string, n int) string {
	ls := strings.Split(s, "\n")
	if len(ls) > n {
		ls = ls[:n]
	}
	return strings.Join(ls, " | ")
}
