package main

import (
	"strings"
	"testing"

	lang "github.com/alligator/jqawk/src"
)

// A `return <value>` must leave only the function it appears in. A function
// whose body runs to its end without executing a return yields null, no
// matter which returns were executed by functions it called (from inside
// loops and conditionals) before it finished. The conditions below are driven
// by the result of such a function, so a leaked return value changes which
// branches and how many loop iterations are executed.
func TestDemoC07C(t *testing.T) {
	prog := `
function find(xs, want) {
	for (x, i in xs) {
		if (x == want) {
			return i + 1
		}
	}
	return 0
}

function record(xs, want) {
	pos = find(xs, want)
	if (pos) {
		hits++
	}
}

BEGIN {
	hits = 0
	data = [4, 8, 15, 16]

	if (record(data, 15)) print "then 15"
	else print "else 15"

	n = 0
	while (record(data, 8)) {
		n++
		print "loop", n
		if (n >= 3) break
	}

	for (w in [16, 23, 4]) {
		if (record(data, w)) {
			print "then", w
			continue
		}
		print "else", w
	}
	print "hits", hits, "n", n
}
`
	expected := "else 15\nelse 16\nelse 23\nelse 4\nhits 4 n 0\n"

	var sb strings.Builder
	_, err := lang.EvalProgram(prog, nil, nil, &sb, false)
	if err != nil {
		t.Fatalf("unexpected error: %v", err)
	}
	if sb.String() != expected {
		t.Fatalf("wrong execution order\nexpected:\n%s\ngot:\n%s", expected, sb.String())
	}
}
