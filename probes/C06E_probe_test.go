package main

import (
	"strings"
	"testing"

	lang "github.com/alligator/jqawk/src"
)

// Assignment operators (= += -= *= /=) group right to left, so a chain written
// without parentheses must evaluate exactly like its fully parenthesised form.
func TestDemoC06E(t *testing.T) {
	run := func(prog string) (string, error) {
		var sb strings.Builder
		_, err := lang.EvalProgram(prog, nil, nil, &sb, false)
		return sb.String(), err
	}

	cases := []struct {
		plain, parenthesised, expected string
	}{
		// every compound operator followed by another compound assignment
		{"a += b += 2", "a += (b += 2)", "74 10\n"},
		{"a -= b -= 2", "a -= (b -= 2)", "58 6\n"},
		{"a *= b *= 2", "a *= (b *= 2)", "1024 16\n"},
		{"a /= b /= 2", "a /= (b /= 2)", "16 4\n"},
		// every compound operator followed by a plain assignment
		{"a += b = 2", "a += (b = 2)", "66 2\n"},
		{"a -= b = 2", "a -= (b = 2)", "62 2\n"},
		{"a *= b = 2", "a *= (b = 2)", "128 2\n"},
		{"a /= b = 2", "a /= (b = 2)", "32 2\n"},
		// a plain assignment followed by every compound operator
		{"a = b /= 2", "a = (b /= 2)", "4 4\n"},
		{"a = b *= 2", "a = (b *= 2)", "16 16\n"},
		// three deep, mixed
		{"c = a /= b -= 4", "c = (a /= (b -= 4))", "16 4\n"},
	}

	for _, tc := range cases {
		wrap := func(expr string) string {
			return "BEGIN { a = 64; b = 8; " + expr + "; print a, b }"
		}
		gotParen, err := run(wrap(tc.parenthesised))
		if err != nil {
			t.Fatalf("%s: unexpected error: %v", tc.parenthesised, err)
		}
		if gotParen != tc.expected {
			t.Fatalf("%s: expected %q, got %q", tc.parenthesised, tc.expected, gotParen)
		}
		gotPlain, err := run(wrap(tc.plain))
		if err != nil {
			t.Fatalf("%s: unexpected error %q, but %s evaluates to %q", tc.plain, err.Error(), tc.parenthesised, gotParen)
		}
		if gotPlain != gotParen {
			t.Fatalf("%s gives %q but %s gives %q", tc.plain, gotPlain, tc.parenthesised, gotParen)
		}
	}
}
