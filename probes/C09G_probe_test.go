package main

import (
	"strings"
	"testing"

	lang "github.com/alligator/jqawk/src"
)

// Assigning to a variable changes exactly that variable. Two parameters that
// were both left out of the call (the awk idiom for declaring locals) are
// distinct variables: storing into one must not be visible through the other.
func TestDemoC09G(t *testing.T) {
	run := func(prog string, doc string) string {
		t.Helper()
		var sb strings.Builder
		files := []lang.InputFile{{Name: "in.json", Reader: strings.NewReader(doc)}}
		_, err := lang.EvalProgram(prog, files, nil, &sb, false)
		if err != nil {
			t.Fatalf("unexpected error: %v", err)
		}
		return sb.String()
	}

	// one missing parameter: nothing to alias with
	got := run(`
		function one(a, tmp) { tmp = a + 1; return tmp }
		{ print one($.n) }
	`, `{"n": 4}`)
	if got != "5\n" {
		t.Errorf("one missing parameter: got %q, want %q", got, "5\n")
	}

	// two missing parameters, used as locals
	got = run(`
		function f(a, x, y) {
			x = 'set'
			print x, y, a
			y = 7
			print x, y, a
			x++
			print x, y, a
		}
		{ f($.n) }
	`, `{"n": 4}`)
	want := "set null 4\nset 7 4\n1 7 4\n"
	if got != want {
		t.Errorf("two missing parameters:\n got %q\nwant %q", got, want)
	}

	// the awk idiom: sum(arr,   i, total)
	got = run(`
		function sum(arr, i, total) {
			total = 0
			for (i = 0; i < arr.length(); i++) {
				total += arr[i]
			}
			return total
		}
		{ print sum($.xs); print json($) }
	`, `{"xs": [10, 20, 30]}`)
	want = "60\n{\n  \"xs\": [\n    10,\n    20,\n    30\n  ]\n}\n"
	if got != want {
		t.Errorf("sum with locals declared as parameters:\n got %q\nwant %q", got, want)
	}
}
