package main

import (
	"fmt"
	"strings"
	"testing"

	lang "github.com/alligator/jqawk/src"
)

// runC01B runs a program with root selectors and reports how the run ended:
// "ok", one of the three reported error kinds, "other error" or "panic".
func runC01B(prog string, selectors []string, input string) (outcome string, detail string) {
	defer func() {
		if r := recover(); r != nil {
			outcome = "panic"
			detail = fmt.Sprint(r)
		}
	}()

	files := []lang.InputFile{{Name: "<demo>", Reader: strings.NewReader(input)}}
	var sb strings.Builder
	_, err := lang.EvalProgram(prog, files, selectors, &sb, false)
	if err == nil {
		return "ok", sb.String()
	}
	switch err.(type) {
	case lang.SyntaxError:
		return "syntax error", err.Error()
	case lang.RuntimeError:
		return "runtime error", err.Error()
	case lang.JsonError:
		return "json error", err.Error()
	default:
		return "other error", fmt.Sprintf("%#v", err)
	}
}

// An exit statement reached while evaluating a root selector (only possible in
// the block body of a match case) ends the run successfully. The internal exit
// signal must not come back to the caller as an error.
func TestDemoC01B(t *testing.T) {
	cases := []struct {
		name      string
		prog      string
		selectors []string
		input     string
		expected  string
	}{
		{
			name:      "exit in the only selector",
			prog:      "BEGIN { print 'start' } { print } END { print 'end' }",
			selectors: []string{"match ($) { x => { exit } }"},
			input:     `{ "items": [1, 2] }`,
			expected:  "start\n",
		},
		{
			name:      "exit in the second selector, on the second document",
			prog:      "{ print }",
			selectors: []string{"$.items", "match ($.stop) { true => { exit } }"},
			input:     `{ "items": [1, 2] } { "items": [3], "stop": true } { "items": [4] }`,
			// document 1: the second selector does not match and selects null
			expected: "1\n2\nnull\n",
		},
	}

	for _, tc := range cases {
		outcome, detail := runC01B(tc.prog, tc.selectors, tc.input)
		if outcome != "ok" {
			t.Errorf("%s: expected the run to succeed, got %s: %s", tc.name, outcome, detail)
			continue
		}
		if detail != tc.expected {
			t.Errorf("%s: expected output %q, got %q", tc.name, tc.expected, detail)
		}
	}

	// sanity: a selector that does not exit still selects the root
	outcome, detail := runC01B("{ print }", []string{"match ($) { x => x.items }"}, `{ "items": [1, 2] }`)
	if outcome != "ok" || detail != "1\n2\n" {
		t.Errorf("plain match selector: got %s: %q", outcome, detail)
	}
}
