package main

import (
	"strings"
	"testing"

	lang "github.com/alligator/jqawk/src"
)

// for-in over an array visits the elements the array had when the loop
// started, each exactly once and in order, whatever the body does to the array.
func TestDemoC07O(t *testing.T) {
	cases := []struct{ prog, want string }{
		{
			// the body appends to the array it iterates (worklist idiom)
			`BEGIN { a = [1, 2, 3]; for (x, i in a) { if (x < 3) a.push(x * 10); print i, x } print a.length() }`,
			"0 1\n1 2\n2 3\n5\n",
		},
		{
			// the body shrinks the array it iterates
			`BEGIN { a = [1, 2, 3, 4]; for (x in a) { a.pop(); print x } print a.length() }`,
			"1\n2\n3\n4\n0\n",
		},
		{
			// nested: the inner loop drains the array the outer loop walks
			`BEGIN { a = [1, 2, 3]; for (x in a) { for (y in a) { if (y == x) continue; n++ } a.pop() } print n }`,
			"4\n",
		},
	}
	for _, tc := range cases {
		var sb strings.Builder
		_, err := lang.EvalProgram(tc.prog, nil, nil, &sb, false)
		if err != nil {
			t.Fatalf("%s: unexpected error %v", tc.prog, err)
		}
		if sb.String() != tc.want {
			t.Errorf("%s:\n got %q\nwant %q", tc.prog, sb.String(), tc.want)
		}
	}
}
