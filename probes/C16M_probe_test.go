package main

import (
	"fmt"
	"strings"
	"testing"

	lang "github.com/alligator/jqawk/src"
)

// s.split(sep): no piece contains sep, and the pieces joined with sep give s
// back. That has to hold for every string, however many separators it holds.
func TestDemoC16M(t *testing.T) {
	run := func(prog string, input string) string {
		t.Helper()
		var sb strings.Builder
		files := []lang.InputFile{{Name: "<demo>", Reader: strings.NewReader(input)}}
		if _, err := lang.EvalProgram(prog, files, nil, &sb, false); err != nil {
			t.Fatalf("unexpected error running %q: %v", prog, err)
		}
		return sb.String()
	}

	// an ordinary split, to show the method works at all
	if got, want := run(`{ print $.split(",") }`, `"a,b,,c,"`), "[\"a\", \"b\", \"\", \"c\", \"\"]\n"; got != want {
		t.Fatalf("small split: got %q, want %q", got, want)
	}

	// a long line: 1024*1024+3 fields
	const fields = 1024*1024 + 3
	input := `"` + strings.Repeat("x,", fields-1) + `x"`

	prog := `{
		parts = $.split(",")
		last = parts[-1]
		print parts.length(), last.length(), last.split(",").length()
	}`
	got := run(prog, input)
	want := fmt.Sprintf("%d 1 1\n", fields)
	if got != want {
		t.Fatalf("split of a string with %d separators:\n got (pieces, len(last piece), pieces in last piece) = %q\nwant %q", fields-1, got, want)
	}
}
