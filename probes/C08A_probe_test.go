package main

import (
	"strings"
	"testing"

	lang "github.com/alligator/jqawk/src"
)

// A match case whose body is a single expression calls a function that
// executes `next`. Once that record is abandoned nothing of the match may be
// left behind: the name bound by the pattern must not be visible in later
// records, and any number of such records must be processed the same way.
func TestDemoC08A(t *testing.T) {
	run := func(prog string, json string) (string, error) {
		var sb strings.Builder
		files := []lang.InputFile{{Name: "<demo>", Reader: strings.NewReader(json)}}
		_, err := lang.EvalProgram(prog, files, nil, &sb, false)
		return sb.String(), err
	}

	// part 1: the pattern binding of an abandoned record is not visible later
	prog1 := `
		function keep_odd(v) {
			if (v % 2 == 0) next
			return v
		}

		{ kept = match ($) { rec => keep_odd(rec) } }
		{ print kept, rec is unknown }
	`
	out, err := run(prog1, "[1, 2, 3, 5]")
	if err != nil {
		t.Fatalf("part 1: unexpected error: %v", err)
	}
	expected := "1 true\n3 true\n5 true\n"
	if out != expected {
		t.Fatalf("part 1: expected %q, got %q", expected, out)
	}

	// part 2: a long input where most records are skipped from inside a match
	var sb strings.Builder
	sb.WriteString("[")
	n := 6000
	for i := 0; i < n; i++ {
		if i > 0 {
			sb.WriteString(",")
		}
		if i%100 == 99 {
			sb.WriteString("1")
		} else {
			sb.WriteString("2")
		}
	}
	sb.WriteString("]")

	prog2 := `
		function keep_odd(v) {
			if (v % 2 == 0) next
			return v
		}

		{ total += match ($) { rec => keep_odd(rec) } }
		END { print total }
	`
	out, err = run(prog2, sb.String())
	if err != nil {
		t.Fatalf("part 2: unexpected error: %v", err)
	}
	if out != "60\n" {
		t.Fatalf("part 2: expected %q, got %q", "60\n", out)
	}
}
