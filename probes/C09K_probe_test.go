package main

import (
	"strings"
	"testing"

	lang "github.com/alligator/jqawk/src"
)

// Arguments are passed by value: a scalar (and a null read from a missing
// member or from past the end of an array is a scalar) is copied when it is
// handed to a function, so assigning to the parameter, or to the array slot the
// argument was pushed into, changes that parameter / slot only. It must never
// create or change a member of the object (here: the input document) the
// argument was read from.
func TestDemoC09K(t *testing.T) {
	prog := `
		function fill(p) {
			p = 5
			return p
		}

		{
			# $.m does not exist, $.list[7] is past the end
			r1 = fill($.m)
			r2 = fill($.list[7])

			seen = []
			seen.push($.opt)
			seen[0] = "x"

			print r1, r2, seen
			print $
		}
	`
	input := `{"a": 1, "list": [1, 2]}`
	files := []lang.InputFile{{Name: "<demo>", Reader: strings.NewReader(input)}}

	var sb strings.Builder
	ev, err := lang.EvalProgram(prog, files, nil, &sb, false)
	if err != nil {
		t.Fatalf("unexpected error: %v", err)
	}

	expected := "5 5 [\"x\"]\n{\"a\": 1, \"list\": [1, 2]}\n"
	if sb.String() != expected {
		t.Fatalf("assigning to a parameter / pushed element changed the input\nexpected %q\ngot      %q", expected, sb.String())
	}

	j, err := ev.GetRootJson()
	if err != nil {
		t.Fatalf("unexpected error: %v", err)
	}
	compact := strings.Join(strings.Fields(j), "")
	if compact != `{"a":1,"list":[1,2]}` {
		t.Fatalf("input document changed: %s", compact)
	}
}
