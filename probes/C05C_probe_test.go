package main

import (
	"strings"
	"testing"

	lang "github.com/alligator/jqawk/src"
)

// runs a jqawk program over one JSON document and returns what it printed
func demoC05CRun(t *testing.T, prog string, json string) string {
	t.Helper()
	var sb strings.Builder
	files := []lang.InputFile{{Name: "<demo>", Reader: strings.NewReader(json)}}
	if _, err := lang.EvalProgram(prog, files, nil, &sb, false); err != nil {
		t.Fatalf("program %q: unexpected error: %v", prog, err)
	}
	return sb.String()
}

// a + b with a string operand concatenates the *string forms*; the string form
// of a number is the positional decimal with the shortest digits that read
// back as that number. That has to hold for negative zero and for huge whole
// numbers too, and for `~`, which matches against the same string form.
func TestDemoC05C(t *testing.T) {
	cases := []struct {
		name, prog, json, want string
	}{
		// negative zero, produced by arithmetic on literals
		{"negzero literal", `BEGIN { z = -0; print z + "" }`, ``, "-0\n"},
		{"negzero product", `BEGIN { print (0 * -1) + "x" }`, ``, "-0x\n"},
		{"negzero on the right", `BEGIN { z = -0; print "v=" + z }`, ``, "v=-0\n"},
		// negative zero coming from a document field
		{"negzero field", `{ print $.n + "|" }`, `{"n": -0.0}`, "-0|\n"},
		{"negated zero field", `{ print -$.z + "|" }`, `{"z": 0}`, "-0|\n"},
		// ~ sees the same string form
		{"negzero match", `BEGIN { z = -0; print z ~ "^-" }`, ``, "true\n"},
		{"negzero no match", `BEGIN { z = -0; print z !~ "^-0$" }`, ``, "false\n"},
		// huge whole numbers: shortest digits that read back, then zero padding
		{"2^62", `BEGIN { print 4611686018427387904 + "" }`, ``, "4611686018427388000\n"},
		{"2^63", `BEGIN { print 9223372036854775808 + "" }`, ``, "9223372036854776000\n"},
		{"-2^63 - a bit", `BEGIN { print "" + (0 - 9223372036854775808) }`, ``, "-9223372036854776000\n"},
		{"1e17+ field", `{ print $.big + "" }`, `{"big": 123456789012345678}`, "123456789012345680\n"},
		// sanity: ordinary values (same on both trees)
		{"plain int", `BEGIN { print 42 + "" }`, ``, "42\n"},
		{"fraction", `BEGIN { print 1.5 + "" }`, ``, "1.5\n"},
		{"1e19", `{ print $.big + "" }`, `{"big": 1e19}`, "10000000000000000000\n"},
	}
	for _, c := range cases {
		got := demoC05CRun(t, c.prog, c.json)
		if got != c.want {
			t.Errorf("%s: %s\n  got  %q\n  want %q", c.name, c.prog, got, c.want)
		}
	}
}
