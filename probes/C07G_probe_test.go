package main

import (
	"strings"
	"testing"

	lang "github.com/alligator/jqawk/src"
)

// next executed while a rule's pattern is being evaluated (here: inside a
// function that the pattern calls, from within a loop and a conditional) must
// leave the rule AND abandon every remaining rule for the current item.
func TestDemoC07G(t *testing.T) {
	prog := `
function keep(x) {
	for (d in x.tags) {
		if (d == 'skip') {
			next
		}
	}
	return true
}

keep($) { print 'first', $.id }
{ print 'second', $.id }
$.id > 0 { print 'third', $.id }
END { print 'done' }
`
	input := `[
		{"id": 1, "tags": ["a", "b"]},
		{"id": 2, "tags": ["a", "skip", "b"]},
		{"id": 3, "tags": []}
	]`
	expected := "first 1\nsecond 1\nthird 1\n" +
		// item 2: next fired inside the pattern, no rule body may run
		"first 3\nsecond 3\nthird 3\n" +
		"done\n"

	var sb strings.Builder
	files := []lang.InputFile{{Name: "<demo>", Reader: strings.NewReader(input)}}
	_, err := lang.EvalProgram(prog, files, nil, &sb, false)
	if err != nil {
		t.Fatalf("unexpected error: %v", err)
	}
	if sb.String() != expected {
		t.Fatalf("statements ran in the wrong order\nexpected:\n%s\ngot:\n%s", expected, sb.String())
	}
}
