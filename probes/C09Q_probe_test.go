package main

import (
	"encoding/json"
	"reflect"
	"strings"
	"testing"

	lang "github.com/alligator/jqawk/src"
)

// demoC09QRun runs prog over the JSON document doc and returns what it printed
// and the document as -o would write it, decoded again.
func demoC09QRun(t *testing.T, prog string, doc string) (string, interface{}) {
	t.Helper()
	files := []lang.InputFile{{Name: "<demo>", Reader: strings.NewReader(doc)}}
	var sb strings.Builder
	ev, err := lang.EvalProgram(prog, files, nil, &sb, false)
	if err != nil {
		t.Fatalf("program %q failed: %v", prog, err)
	}
	out, err := ev.GetRootJson()
	if err != nil {
		t.Fatalf("GetRootJson: %v", err)
	}
	var got interface{}
	if err := json.Unmarshal([]byte(out), &got); err != nil {
		t.Fatalf("output document is not JSON: %v\n%s", err, out)
	}
	return sb.String(), got
}

func demoC09QWant(t *testing.T, src string) interface{} {
	t.Helper()
	var want interface{}
	if err := json.Unmarshal([]byte(src), &want); err != nil {
		t.Fatal(err)
	}
	return want
}

// C09: an assignment changes exactly the addressed location. An assignment past
// the end of an array pads the gap with nulls; a LATER assignment to one of the
// padded slots must change that slot only, the other padded slots stay null.
func TestDemoC09Q(t *testing.T) {
	// step 1 alone: the padding itself is right
	_, got := demoC09QRun(t, `{ $.a[4] = "e" }`, `{"a":[1],"keep":[null,null]}`)
	want := demoC09QWant(t, `{"a":[1,null,null,null,"e"],"keep":[null,null]}`)
	if !reflect.DeepEqual(got, want) {
		t.Fatalf("after $.a[4] = \"e\": document is %v, want %v", got, want)
	}

	// step 2: write into the middle of the padding
	printed, got := demoC09QRun(t, `{ $.a[4] = "e"; $.a[2] = "c"; print $.a[1], $.a[2], $.a[3] }`, `{"a":[1],"keep":[null,null]}`)
	want = demoC09QWant(t, `{"a":[1,null,"c",null,"e"],"keep":[null,null]}`)
	if !reflect.DeepEqual(got, want) {
		t.Errorf("after $.a[4] = \"e\"; $.a[2] = \"c\": document is %v, want %v (the assignment to index 2 changed other elements)", got, want)
	}
	if printed != "null c null\n" {
		t.Errorf("neighbours of the assigned slot read back as %q, want %q", printed, "null c null\n")
	}

	// the same through a plain variable, an implicitly created nested array and ++
	printed, _ = demoC09QRun(t, `{ v[3] = 1; v[0]++; print v; w.x[2].y = 1; w.x[1] = 7; print w }`, `{}`)
	wantPrinted := "[1, null, null, 1]\n{\"x\": [null, 7, {\"y\": 1}]}\n"
	if printed != wantPrinted {
		t.Errorf("variables after writes into padded slots:\n got %q\nwant %q", printed, wantPrinted)
	}
}
