package main

import (
	"bytes"
	"strings"
	"testing"

	lang "github.com/alligator/jqawk/src"
)

// runDemoC08M runs a program without input files and returns what it printed
// and the error message (empty if the run succeeded)
func runDemoC08M(prog string) (string, string) {
	var out bytes.Buffer
	_, err := lang.EvalProgram(prog, []lang.InputFile{}, nil, &out, false)
	if err != nil {
		return out.String(), err.Error()
	}
	return out.String(), ""
}

// Genuinely nested calls count towards the recursion limit wherever the
// recursive call sits: a recursion 5000 calls deep is refused with "call depth
// limit exceeded", also when every call is made from inside a match case.
func TestDemoC08M(t *testing.T) {
	// sanity: recursion well inside the limit works, plain and through a match
	out, errMsg := runDemoC08M(`
		function plain(n) { if (n == 0) return 0; return 1 + plain(n - 1) }
		function viaExpr(n) { return match (n) { 0 => 0, k => 1 + viaExpr(k - 1) } }
		function viaBlock(n) { match (n) { 0 => { return 0 }, k => { return 1 + viaBlock(k - 1) } } }
		BEGIN { print plain(1000), viaExpr(1000), viaBlock(1000) }
	`)
	if errMsg != "" || out != "1000 1000 1000\n" {
		t.Fatalf("shallow recursion: got output %q, error %q", out, errMsg)
	}

	// 5000 genuinely nested calls are over the limit of 4096
	progs := map[string]string{
		"plain": `
			function f(n) { if (n == 0) return 0; return 1 + f(n - 1) }
			BEGIN { print f(5000) }`,
		"match expression body": `
			function f(n) { return match (n) { 0 => 0, k => 1 + f(k - 1) } }
			BEGIN { print f(5000) }`,
		"match block body": `
			function f(n) { match (n) { 0 => { return 0 }, k => { return 1 + f(k - 1) } } }
			BEGIN { print f(5000) }`,
		"mutual recursion, one side in a match": `
			function a(n) { if (n == 0) return 0; return 1 + b(n - 1) }
			function b(n) { return match (n) { 0 => 0, k => 1 + a(k - 1) } }
			BEGIN { print a(5000) }`,
	}
	for name, prog := range progs {
		out, errMsg := runDemoC08M(prog)
		if !strings.Contains(errMsg, "call depth limit exceeded") {
			t.Errorf("%s: 5000 nested calls must hit the call depth limit, got output %q, error %q", name, out, errMsg)
		}
	}
}
