package main

import (
	"strings"
	"testing"

	lang "github.com/alligator/jqawk/src"
)

// A numeric literal is a digit sequence with an optional fraction and denotes
// that decimal number, however it is spelled: leading zeros change nothing.
func TestDemoC13E(t *testing.T) {
	run := func(prog string) string {
		t.Helper()
		var sb strings.Builder
		_, err := lang.EvalProgram(prog, []lang.InputFile{}, nil, &sb, false)
		if err != nil {
			t.Fatalf("program %q: unexpected error: %v", prog, err)
		}
		return sb.String()
	}

	// every pair is two spellings of the same number
	pairs := [][2]string{
		{"10", "010"},
		{"17", "017"},
		{"100", "0100"},
		{"777", "000777"},
		{"8", "08"},
		{"19", "019"},
		{"10.5", "010.5"},
		{"0", "00"},
	}
	for _, p := range pairs {
		want := run("BEGIN { print " + p[0] + " }")
		got := run("BEGIN { print " + p[1] + " }")
		if got != want {
			t.Errorf("literal %s printed %q, but %s printed %q", p[1], got, p[0], want)
		}
	}

	// the same inside arithmetic and comparisons, written without spaces
	if got, want := run("BEGIN { x=010+1; print x, 010==10, 5-010 }"), "11 true -5\n"; got != want {
		t.Errorf("got %q, want %q", got, want)
	}
}
