package main

import (
	"strings"
	"testing"

	lang "github.com/alligator/jqawk/src"
)

// runs a program over a JSON document, returns what it printed and its error
func demoC05QRun(prog string, json string) (string, error) {
	files := make([]lang.InputFile, 0)
	if json != "" {
		files = append(files, lang.InputFile{Name: "<demo>", Reader: strings.NewReader(json)})
	}
	var sb strings.Builder
	_, err := lang.EvalProgram(prog, files, nil, &sb, false)
	return sb.String(), err
}

// C05: `l ~ r` / `l !~ r` test an RE2 match of the string form of l against the
// regex or string r -- the r of THIS evaluation -- and an invalid pattern is a
// runtime error. Here the right operand of one and the same ~ expression is a
// string that differs from one evaluation to the next (a document field, a
// loop variable, a function parameter).
func TestDemoC05Q(t *testing.T) {
	// 1. pattern taken from a field of each record
	doc := `[
		{ "s": "apple",  "p": "^a" },
		{ "s": "banana", "p": "^b" },
		{ "s": "cherry", "p": "rr" },
		{ "s": "date",   "p": "^x" }
	]`
	out, err := demoC05QRun(`{ print $.s ~ $.p, $.s !~ $.p }`, doc)
	if err != nil {
		t.Fatalf("pattern from a field: unexpected error %v", err)
	}
	want := "true false\ntrue false\ntrue false\nfalse true\n"
	if out != want {
		t.Errorf("pattern from a field: `$.s ~ $.p, $.s !~ $.p` per record\nwant %q\ngot  %q", want, out)
	}

	// 2. pattern in a loop variable
	out, err = demoC05QRun(`BEGIN {
		pats = ["^[0-9]+$", "^[a-z]+$", "7"]
		for (p in pats) { print "abc" ~ p, "127" ~ p }
	}`, "")
	if err != nil {
		t.Fatalf("pattern from a loop variable: unexpected error %v", err)
	}
	want = "false true\ntrue false\nfalse true\n"
	if out != want {
		t.Errorf("pattern from a loop variable\nwant %q\ngot  %q", want, out)
	}

	// 3. pattern passed as a function parameter
	out, err = demoC05QRun(`
		function has(s, p) { return s ~ p }
		BEGIN { print has("hello", "ell"), has("hello", "^ell"), has("hello", "o$") }
	`, "")
	if err != nil {
		t.Fatalf("pattern from a parameter: unexpected error %v", err)
	}
	want = "true false true\n"
	if out != want {
		t.Errorf("pattern from a parameter\nwant %q\ngot  %q", want, out)
	}

	// 4. an invalid pattern is a runtime error whenever it is the operand, not
	// only the first time the expression is evaluated
	out, err = demoC05QRun(`{ print $.s ~ $.p }`, `[{ "s": "a", "p": "a" }, { "s": "a", "p": "(" }]`)
	if err == nil {
		t.Errorf("invalid pattern in the second record: want a runtime error, got none (printed %q)", out)
	} else if _, ok := err.(lang.RuntimeError); !ok {
		t.Errorf("invalid pattern in the second record: want a lang.RuntimeError, got %T %v", err, err)
	}
}
