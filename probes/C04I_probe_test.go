package main

import (
	"encoding/json"
	"flag"
	"os"
	"path/filepath"
	"reflect"
	"testing"

	cli "github.com/alligator/jqawk/cli"
)

// The document is written through -o by a program that does not modify it (the
// empty program). What lands in the output file must parse to the value that
// was read. The strings of this document contain percent signs.
func TestDemoC04I(t *testing.T) {
	const doc = `{
  "discount": "100%",
  "format": "%d items for %s",
  "path": "a%20b%2Fc",
  "plain": "no percent sign here",
  "list": ["50%", 0.5, null, true, {}, []]
}`

	dir := t.TempDir()
	inPath := filepath.Join(dir, "in.json")
	outPath := filepath.Join(dir, "out.json")
	if err := os.WriteFile(inPath, []byte(doc), 0o644); err != nil {
		t.Fatal(err)
	}

	// run the command line front end in-process, on a private flag set so that
	// it neither sees the flags of the test binary nor registers its own twice
	oldArgs, oldFlags := os.Args, flag.CommandLine
	defer func() { os.Args, flag.CommandLine = oldArgs, oldFlags }()
	flag.CommandLine = flag.NewFlagSet("jqawk", flag.ContinueOnError)
	os.Args = []string{"jqawk", "-o", outPath, "", inPath}

	if code := cli.Run("demo"); code != 0 {
		t.Fatalf("jqawk -o exited with status %d", code)
	}

	written, err := os.ReadFile(outPath)
	if err != nil {
		t.Fatal(err)
	}

	var want, got interface{}
	if err := json.Unmarshal([]byte(doc), &want); err != nil {
		t.Fatal(err)
	}
	if err := json.Unmarshal(written, &got); err != nil {
		t.Fatalf("the file written by -o is not valid JSON: %v\n%s", err, written)
	}
	if !reflect.DeepEqual(want, got) {
		t.Fatalf("the file written by -o does not hold the value that was read\nread:    %#v\nwritten: %#v\nfile:\n%s", want, got, written)
	}
}
