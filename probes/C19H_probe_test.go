package main

import (
	"bytes"
	"strings"
	"testing"

	lang "github.com/alligator/jqawk/src"
)

func runDemoC19H(prog string, json string) (string, error) {
	var out bytes.Buffer
	files := []lang.InputFile{{Name: "demo.json", Reader: strings.NewReader(json)}}
	_, err := lang.EvalProgram(prog, files, nil, &out, false)
	return out.String(), err
}

// Once a case has matched, nothing of the cases after it is evaluated: neither
// their bodies nor their patterns. Patterns have no side effects, so the only
// way to see a later pattern being evaluated is that evaluating it fails.
func TestDemoC19H(t *testing.T) {
	cases := []struct {
		name, prog, json, want string
	}{
		{
			// comparing an array with a number is an error (as it is for ==),
			// but the literal case is never reached for an array subject
			name: "literal case after the matching array case",
			prog: `
				{
					print match ($) {
						[a, b] => a + b,
						0 => 'zero',
						_ => 'other',
					}
				}
			`,
			json: `[[1, 2], 0, 7]`,
			want: "3\nzero\nother\n",
		},
		{
			// same one level down, the later case compares an element
			name: "nested literal after the matching case",
			prog: `
				{
					print match ($) {
						[x, [y]] => x + y,
						[x, 5] => 'five',
					}
				}
			`,
			json: `[[1, [2]]]`,
			want: "3\n",
		},
		{
			// a string pattern with a bad escape only fails when it is evaluated
			name: "bad escape in a later pattern",
			prog: `
				{
					print match ($) {
						'a' => 'first',
						'\q' => 'never',
					}
				}
			`,
			json: `["a"]`,
			want: "first\n",
		},
		{
			// an unsupported pattern only fails when it is reached
			name: "unsupported pattern in a later case",
			prog: `
				{
					print match ($) {
						1 => { print 'one' }
						-1 => 'minus one',
					}
				}
			`,
			json: `[1]`,
			want: "one\nnull\n",
		},
	}

	for _, tc := range cases {
		got, err := runDemoC19H(tc.prog, tc.json)
		if err != nil {
			t.Errorf("%s: unexpected error: %v", tc.name, err)
			continue
		}
		if got != tc.want {
			t.Errorf("%s: got %q, want %q", tc.name, got, tc.want)
		}
	}

	// sanity: when such a case is reached (nothing before it matched), its
	// pattern is evaluated and the error is reported
	if _, err := runDemoC19H(`{ print match ($) { 1 => 'one', -1 => 'minus one' } }`, `[2]`); err == nil {
		t.Errorf("expected an error when the unsupported pattern is reached")
	}
}
