package main

import (
	"fmt"
	"strings"
	"testing"

	lang "github.com/alligator/jqawk/src"
)

// runC01A runs a program and reports how the run ended: "ok", one of the three
// reported error kinds, "other error" or "panic".
func runC01A(prog string, input string) (outcome string, detail string) {
	defer func() {
		if r := recover(); r != nil {
			outcome = "panic"
			detail = fmt.Sprint(r)
		}
	}()

	files := []lang.InputFile{{Name: "<demo>", Reader: strings.NewReader(input)}}
	var sb strings.Builder
	_, err := lang.EvalProgram(prog, files, nil, &sb, false)
	if err == nil {
		return "ok", sb.String()
	}
	switch err.(type) {
	case lang.SyntaxError:
		return "syntax error", err.Error()
	case lang.RuntimeError:
		return "runtime error", err.Error()
	case lang.JsonError:
		return "json error", err.Error()
	default:
		return "other error", fmt.Sprintf("%#v", err)
	}
}

// A modulo whose divisor is non-zero but truncates to zero (a fraction strictly
// between -1 and 1) must end in a reported runtime error, not a Go crash.
func TestDemoC01A(t *testing.T) {
	cases := []struct {
		prog  string
		input string
	}{
		{"BEGIN { print 5 % 0.5 }", ""},
		{"BEGIN { print 7 % -0.25 }", ""},
		{"BEGIN { x = '0.9'; print 3 % x }", ""},
		{"{ print $.total % $.rate }", `[{ "total": 10, "rate": 0.5 }]`},
	}

	for _, tc := range cases {
		outcome, detail := runC01A(tc.prog, tc.input)
		if outcome != "runtime error" {
			t.Errorf("%q: expected a runtime error, got %s: %s", tc.prog, outcome, detail)
		}
	}

	// sanity: ordinary modulo still works and a plain zero divisor is still reported
	if outcome, detail := runC01A("BEGIN { print 7 % 2.5 }", ""); outcome != "ok" || detail != "1\n" {
		t.Errorf("7 %% 2.5: got %s: %q", outcome, detail)
	}
	if outcome, detail := runC01A("BEGIN { print 7 % 0 }", ""); outcome != "runtime error" {
		t.Errorf("7 %% 0: got %s: %s", outcome, detail)
	}
}
