package main

import (
	"encoding/json"
	"math"
	"strconv"
	"strings"
	"testing"

	lang "github.com/alligator/jqawk/src"
)

// print renders a number in plain positional decimal that reads back as the
// identical double. That includes negative zero: it is a double of its own
// (1/-0 is -Inf), JSON can carry it, and unary minus, multiplication and
// round()/ceil() produce it.
func TestDemoC17N(t *testing.T) {
	run := func(prog string, input string) string {
		t.Helper()
		var sb strings.Builder
		files := []lang.InputFile{}
		if input != "" {
			files = append(files, lang.InputFile{Name: "in.json", Reader: strings.NewReader(input)})
		}
		if _, err := lang.EvalProgram(prog, files, nil, &sb, false); err != nil {
			t.Fatalf("%s: unexpected error: %v", prog, err)
		}
		return sb.String()
	}

	// every number of the input, printed at top level, must read back as the
	// same bits
	input := `[0, -0, -0.0, 1, -1, 42, -7, 0.5, -0.25, 1e-7, 9007199254740991, 9007199254740992,
		9007199254740994, -9007199254740992, 18446744073709551616, 1e21, 123456789012345678,
		4.9e-324, -2.5e-300, 1.7976931348623157e308]`
	var want []float64
	if err := json.Unmarshal([]byte(input), &want); err != nil {
		t.Fatal(err)
	}
	lines := strings.Split(strings.TrimSuffix(run(`{ print $ }`, input), "\n"), "\n")
	if len(lines) != len(want) {
		t.Fatalf("expected %d lines, got %d: %q", len(want), len(lines), lines)
	}
	for i, line := range lines {
		if strings.ContainsAny(line, "eE") {
			t.Errorf("number %d: %q has an exponent", i, line)
		}
		got, err := strconv.ParseFloat(line, 64)
		if err != nil {
			t.Errorf("number %d: %q does not read back: %v", i, line, err)
			continue
		}
		if math.Float64bits(got) != math.Float64bits(want[i]) {
			t.Errorf("number %d: printed %q, which reads back as %v (bits %#x), the value was %v (bits %#x)",
				i, line, got, math.Float64bits(got), want[i], math.Float64bits(want[i]))
		}
	}

	// the same inside containers, and for negative zeros the program computes
	cases := []struct {
		prog     string
		input    string
		expected string
	}{
		{`{ print }`, `[[-0, 0], {"a": -0.0, "b": 1}]`, "[-0, 0]\n{\"a\": -0, \"b\": 1}\n"},
		{`BEGIN { z = 0; print -z, z * -1, [-z], {"k": -z} }`, ``, "-0 -0 [-0] {\"k\": -0}\n"},
		{`BEGIN { x = -0.4; y = -0.5; print x.round(), y.ceil(), 1, -1, 0 }`, ``, "-0 -0 1 -1 0\n"},
	}
	for _, tc := range cases {
		if got := run(tc.prog, tc.input); got != tc.expected {
			t.Errorf("program  %s\ninput    %s\nexpected %q\ngot      %q", tc.prog, tc.input, tc.expected, got)
		}
	}
}
