package main

import (
	"strings"
	"testing"

	lang "github.com/alligator/jqawk/src"
)

// C05: a ~ b / a !~ b test an RE2 match of the string form of a against the
// regex (or string) b *of this evaluation*. A regex is a value: it can be held
// in a variable, passed to a function or stored in an array, so the same ~
// expression can meet a different regex every time it is evaluated.
func TestDemoC05J(t *testing.T) {
	run := func(prog string, doc string) (string, error) {
		var sb strings.Builder
		files := []lang.InputFile{{Name: "<demo>", Reader: strings.NewReader(doc)}}
		_, err := lang.EvalProgram(prog, files, nil, &sb, false)
		return sb.String(), err
	}

	// one ~ site inside a function, called with different regex arguments
	got, err := run(`
		function has(s, r) { return s ~ r }
		function hasnot(s, r) { return s !~ r }
		BEGIN {
			print has("abc", /b/), has("abc", /x/), has("xyz", /x/), has("abc", "x"), has("abc", /^a.c$/)
			print hasnot("abc", /x/), hasnot("abc", /b/), hasnot(12.5, /^12\.5$/), hasnot(12.5, /^13/)
		}
	`, `[]`)
	if err != nil {
		t.Fatalf("unexpected error: %v", err)
	}
	want := "true false true false true\ntrue false false true\n"
	if got != want {
		t.Fatalf("~ with a regex passed as an argument:\n got: %q\nwant: %q", got, want)
	}

	// one ~ site in a loop over regexes held in an array, and a variable that is
	// reassigned between the records of the document
	got, err = run(`
		BEGIN { pat = /^a/ }
		{
			for (r in [/1/, /2/, /[a-z]/]) {
				print $.v ~ r
			}
			print "pat", $.v ~ pat
			pat = /2$/
		}
	`, `[{"v": "a1"}, {"v": 2}, {"v": "a12"}]`)
	if err != nil {
		t.Fatalf("unexpected error: %v", err)
	}
	want = "true\nfalse\ntrue\npat true\n" +
		"false\ntrue\nfalse\npat true\n" +
		"true\ntrue\ntrue\npat true\n"
	if got != want {
		t.Fatalf("~ with regexes held in an array and in a variable:\n got: %q\nwant: %q", got, want)
	}

	// an invalid regex reaching a site that saw a valid one is still an error
	_, err = run(`
		function has(s, r) { return s ~ r }
		BEGIN { print has("abc", /b/); print has("abc", /(/) }
	`, `[]`)
	if _, ok := err.(lang.RuntimeError); !ok {
		t.Fatalf("expected a runtime error for the invalid regex, got %#v", err)
	}
}
