package main

import (
	"io"
	"strings"
	"testing"

	lang "github.com/alligator/jqawk/src"
)

// A runtime fault confined to a single line is reported on that line, the quoted
// text is that line, and the column falls inside the faulting expression,
// wherever in a multi-line program the expression sits. A division by zero that
// is written as a compound assignment (x /= 0) is such a fault.
func TestDemoC12F(t *testing.T) {
	type tc struct {
		name   string
		prog   string
		faulty string // the faulting expression, occurs once in prog, on one line
	}
	cases := []tc{
		{"compound divide in BEGIN", "BEGIN {\n  x = 10\n  x /= 0\n  print x\n}\n", "x /= 0"},
		{"compound divide by an unset name", "BEGIN {\n  total = 4\n\n  # average\n  total /= count\n}\n", "total /= count"},
		{"compound divide on a member in a rule", "BEGIN { n = 0 }\n\n$.a > 0 {\n  $.a /= n\n}\n", "$.a /= n"},
		{"compound divide in a function after non-ascii and CRLF", "function half(v) {\r\n  s = 'caf\xc3\xa9' # \xc3\xa9\r\n  v /= s.length() - 5\r\n  return v\r\n}\r\nBEGIN {\r\n  half(3)\r\n}\r\n", "v /= s.length() - 5"},
		// control: the same fault written out in full
		{"plain divide", "BEGIN {\n  x = 10\n  x = x / 0\n  print x\n}\n", "x = x / 0"},
	}

	for _, c := range cases {
		off := strings.Index(c.prog, c.faulty)
		if off < 0 || strings.Count(c.prog, c.faulty) != 1 {
			t.Fatalf("%s: bad test, %q must occur exactly once", c.name, c.faulty)
		}
		lineStart := strings.LastIndexByte(c.prog[:off], '\n') + 1
		lineEnd := strings.IndexByte(c.prog[off:], '\n')
		if lineEnd < 0 {
			lineEnd = len(c.prog)
		} else {
			lineEnd += off
		}
		wantLine := strings.Count(c.prog[:off], "\n") + 1
		wantSrc := c.prog[lineStart:lineEnd]
		colLo := off - lineStart
		colHi := colLo + len(c.faulty) // exclusive

		files := []lang.InputFile{{Name: "<demo>", Reader: strings.NewReader(`[{"a":1}]`)}}
		_, err := lang.EvalProgram(c.prog, files, nil, io.Discard, false)
		rtErr, ok := err.(lang.RuntimeError)
		if !ok {
			t.Errorf("%s: expected a RuntimeError, got %#v", c.name, err)
			continue
		}
		if rtErr.Message != "divide by zero" {
			t.Errorf("%s: expected divide by zero, got %q", c.name, rtErr.Message)
			continue
		}
		if rtErr.Line != wantLine {
			t.Errorf("%s: fault on line %d reported on line %d (%q)", c.name, wantLine, rtErr.Line, rtErr.SrcLine)
		}
		if rtErr.SrcLine != wantSrc {
			t.Errorf("%s: quoted line %q, want %q", c.name, rtErr.SrcLine, wantSrc)
		}
		if rtErr.Col < colLo || rtErr.Col >= colHi {
			t.Errorf("%s: column %d is outside the faulting expression %q at [%d,%d)", c.name, rtErr.Col, c.faulty, colLo, colHi)
		}
	}
}
