package main

import (
	"encoding/json"
	"flag"
	"os"
	"path/filepath"
	"reflect"
	"testing"

	cli "github.com/alligator/jqawk/cli"
)

// -o FILE must leave FILE holding exactly the JSON of the current root, also
// when FILE already exists and held a longer document before (the usual
// situation when an export is re-run after the data shrank).
func TestDemoC04G(t *testing.T) {
	dir := t.TempDir()
	outPath := filepath.Join(dir, "out.json")

	// run the real command line entry point in-process, with its own flag set
	run := func(name, doc string) {
		t.Helper()
		inPath := filepath.Join(dir, name)
		if err := os.WriteFile(inPath, []byte(doc), 0o644); err != nil {
			t.Fatal(err)
		}
		oldArgs, oldFlags := os.Args, flag.CommandLine
		defer func() { os.Args, flag.CommandLine = oldArgs, oldFlags }()
		os.Args = []string{"jqawk", "-o", outPath, "{ n++ }", inPath}
		flag.CommandLine = flag.NewFlagSet("jqawk", flag.ContinueOnError)
		if rc := cli.Run("demo"); rc != 0 {
			t.Fatalf("jqawk -o %s '{ n++ }' %s: exit code %d", outPath, inPath, rc)
		}
	}

	check := func(doc string) {
		t.Helper()
		written, err := os.ReadFile(outPath)
		if err != nil {
			t.Fatal(err)
		}
		var got, want interface{}
		if err := json.Unmarshal([]byte(doc), &want); err != nil {
			t.Fatal(err)
		}
		if err := json.Unmarshal(written, &got); err != nil {
			t.Fatalf("the file written by -o is not valid JSON: %v\n--- file ---\n%s", err, written)
		}
		if !reflect.DeepEqual(got, want) {
			t.Fatalf("the file written by -o does not equal the input\ninput: %s\n--- file ---\n%s", doc, written)
		}
	}

	// first export: four records
	big := `[{"id": 1, "tags": ["a", "b"]}, {"id": 2, "tags": []}, {"id": 3, "tags": ["c"]}, {"id": 4, "tags": []}]`
	run("big.json", big)
	check(big)

	// second export into the same file: the data shrank to one record
	small := `[{"id": 1, "tags": []}]`
	run("small.json", small)
	check(small)
}
