package main

import (
	"strings"
	"testing"

	lang "github.com/alligator/jqawk/src"
)

// A name bound by a match case is a variable of its own. Assigning to it
// changes that variable and nothing else -- also when the matched value was a
// member that does not exist (or an index past the end of an array): the
// input document must not grow a member because a local name was assigned.
func TestDemoC09J(t *testing.T) {
	prog := `
		{
			match ($.nick) {
				n => {
					if (n is null) { n = "anon" }
					print n
				}
			}
			match ($.tags[3]) {
				tag => {
					tag = "none"
					print tag
				}
			}
			match ($.address.city) {
				c => {
					c = "unknown"
					print c
				}
			}
			print $
			print $.tags.length()
		}
	`
	input := `{ "name": "kim", "tags": ["a"] }`
	expected := "anon\nnone\nunknown\n" +
		`{"name": "kim", "tags": ["a"]}` + "\n1\n"

	var sb strings.Builder
	files := []lang.InputFile{{Name: "demo.json", Reader: strings.NewReader(input)}}
	ev, err := lang.EvalProgram(prog, files, nil, &sb, false)
	if err != nil {
		t.Fatalf("unexpected error: %v", err)
	}
	if sb.String() != expected {
		t.Fatalf("output:\n%s\nexpected:\n%s", sb.String(), expected)
	}

	// the document itself (what -o would write) is still the input
	j, err := ev.GetRootJson()
	if err != nil {
		t.Fatalf("unexpected error: %v", err)
	}
	compact := strings.Join(strings.Fields(j), "")
	if compact != `{"name":"kim","tags":["a"]}` {
		t.Fatalf("the input document changed: %s", compact)
	}
}
