package main

import (
	"errors"
	"io"
	"strings"
	"testing"
	"testing/iotest"

	lang "github.com/alligator/jqawk/src"
)

// TestDemoC03A checks the "faults reported" clause of the JSON value stream
// property: stray text between values and an unreadable input are reported as
// a JSON input error naming the file, after the earlier complete values have
// been processed; they are never silently treated as end of input.
func TestDemoC03A(t *testing.T) {
	const fileName = "<demoC03A>"
	errDisk := errors.New("demo: simulated I/O failure")

	cases := []struct {
		name     string
		reader   func() io.Reader
		expected string // output of the complete values before the fault
	}{
		{
			name:     "stray closing bracket between values",
			reader:   func() io.Reader { return strings.NewReader("[1, 2]\n]\n[3]\n") },
			expected: "1\n2\n",
		},
		{
			name:     "stray closing brace after the last value",
			reader:   func() io.Reader { return strings.NewReader("{\"a\": 1}\n}\n") },
			expected: "{\"a\": 1}\n",
		},
		{
			name: "reader fails between values",
			reader: func() io.Reader {
				return io.MultiReader(strings.NewReader("[1, 2]\n"), iotest.ErrReader(errDisk))
			},
			expected: "1\n2\n",
		},
		{
			name: "reader fails between values, one byte per read",
			reader: func() io.Reader {
				return io.MultiReader(iotest.OneByteReader(strings.NewReader("[1, 2] ")), iotest.ErrReader(errDisk))
			},
			expected: "1\n2\n",
		},
	}

	for _, tc := range cases {
		t.Run(tc.name, func(t *testing.T) {
			var sb strings.Builder
			files := []lang.InputFile{{Name: fileName, Reader: tc.reader()}}
			_, err := lang.EvalProgram("{ print }", files, nil, &sb, false)

			if sb.String() != tc.expected {
				t.Errorf("output of the complete values: expected %q, got %q", tc.expected, sb.String())
			}
			if err == nil {
				t.Fatalf("fault was silently treated as end of input (no error returned)")
			}
			jsonErr, ok := err.(lang.JsonError)
			if !ok {
				t.Fatalf("expected a lang.JsonError, got %#v", err)
			}
			if jsonErr.FileName != fileName {
				t.Errorf("JSON error names file %q, expected %q", jsonErr.FileName, fileName)
			}
		})
	}
}
