package main

import (
	"bytes"
	"strings"
	"testing"

	lang "github.com/alligator/jqawk/src"
)

// Printing an object whose keys differ only in letter case must give the same
// bytes on every repetition of the run.
func TestDemoC10O(t *testing.T) {
	run := func(prog, input string) string {
		var out bytes.Buffer
		files := []lang.InputFile{{Name: "in.json", Reader: strings.NewReader(input)}}
		_, err := lang.EvalProgram(prog, files, nil, &out, false)
		if err != nil {
			t.Fatalf("unexpected error: %v", err)
		}
		return out.String()
	}

	// ordinary objects (no two keys equal up to case) are not concerned
	if got, want := run("{ print }", `{"b": 1, "a": 2, "c": 3}`), "{\"a\": 2, \"b\": 1, \"c\": 3}\n"; got != want {
		t.Fatalf("plain object: got %q, want %q", got, want)
	}

	input := `{"id": 1, "ID": 2, "Id": 3, "iD": 4}`
	progs := []string{
		"{ print }",
		"{ print $ }",
		"{ printf(\"%v\\n\", $) }",
		"{ o = {}; o.Id = $.Id; o.iD = $.iD; o.ID = $.ID; o.id = $.id; print [o] }",
	}
	for _, prog := range progs {
		first := run(prog, input)
		for i := 0; i < 200; i++ {
			if got := run(prog, input); got != first {
				t.Fatalf("program %q: repetition %d printed %q, the first run printed %q", prog, i+1, got, first)
			}
		}
	}
}
