package main

import (
	"bytes"
	"strings"
	"testing"

	lang "github.com/alligator/jqawk/src"
)

func runDemoC15N(t *testing.T, prog string, input string) string {
	t.Helper()
	var buf bytes.Buffer
	files := []lang.InputFile{{Name: "in.json", Reader: strings.NewReader(input)}}
	_, err := lang.EvalProgram(prog, files, nil, &buf, false)
	if err != nil {
		t.Fatalf("unexpected error: %v", err)
	}
	return buf.String()
}

// sort orders an array numerically whenever every element is a number, no
// matter which other arrays were sorted before it (in the same rule, for an
// earlier record, or by an earlier program run in the same process).
func TestDemoC15N(t *testing.T) {
	// each record sorts its own array: the second record holds strings, the
	// first and third only numbers
	prog := `{ print $.xs.sort(), $.xs }`
	input := `[
		{ "xs": [10, 9, 100, 1] },
		{ "xs": ["pear", 3, "apple"] },
		{ "xs": [10, 9, 100, 1] }
	]`
	expected := `[1, 9, 10, 100] [10, 9, 100, 1]
[3, "apple", "pear"] ["pear", 3, "apple"]
[1, 9, 10, 100] [10, 9, 100, 1]
`
	if got := runDemoC15N(t, prog, input); got != expected {
		t.Fatalf("sort of a numbers-only array depends on what was sorted before\nexpected:\n%s\ngot:\n%s", expected, got)
	}

	// interleaved on several arrays held by names, results fed into methods
	prog = `
BEGIN {
	nums = [2.5, -3, 20, 100]
	words = ["b", "a"]
	print nums.sort()
	print words.sort()
	nums.push(words.sort().length())
	print nums.sort(), nums.sort().pop(), nums.sort()[0], nums
}
`
	expected = `[-3, 2.5, 20, 100]
["a", "b"]
[-3, 2, 2.5, 20, 100] 100 -3 [2.5, -3, 20, 100, 2]
`
	if got := runDemoC15N(t, prog, "null"); got != expected {
		t.Fatalf("sort of a numbers-only array is not numeric\nexpected:\n%s\ngot:\n%s", expected, got)
	}
}
