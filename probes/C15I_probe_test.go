package main

import (
	"strings"
	"testing"

	lang "github.com/alligator/jqawk/src"
)

// A value that was pushed is an element of the array like any other: writing it
// through an index changes that array (and nothing else), whatever expression
// the pushed value was read from.
func TestDemoC15I(t *testing.T) {
	run := func(prog string, json string) (string, error) {
		var sb strings.Builder
		files := []lang.InputFile{{Name: "<demo>", Reader: strings.NewReader(json)}}
		_, err := lang.EvalProgram(prog, files, nil, &sb, false)
		return sb.String(), err
	}

	cases := []struct {
		name     string
		prog     string
		json     string
		expected string
	}{
		{
			name: "push an element read past the end of another array, then write it",
			prog: `BEGIN {
				a = [1]; b = [1, 2, 3]
				a.push(b[9])
				print a, a.length()
				a[-1] = 7
				print a, a.length()
				print b, b.length()
			}`,
			json:     "[]",
			expected: "[1, null] 2\n[1, 7] 2\n[1, 2, 3] 3\n",
		},
		{
			name: "push a missing member of an object, then write it",
			prog: `BEGIN {
				a = []; o = {}
				a.push(o.missing)
				a[0] = 5
				print a, o
			}`,
			json:     "[]",
			expected: "[5] {}\n",
		},
		{
			name: "push a character of a string, then write it",
			prog: `BEGIN {
				a = []; s = "abc"
				a.push(s[0])
				a[-1] = "z"
				print a, a.contains("z"), s
			}`,
			json:     "[]",
			expected: "[\"z\"] true abc\n",
		},
		{
			name: "arrays inside the document",
			prog: `{
				$.tags.push($.extra[2])
				$.tags[-1] = "new"
				print $.tags, $.tags.length(), $.extra, $.extra.length()
			}`,
			json:     `[{ "tags": ["x"], "extra": [] }]`,
			expected: "[\"x\", \"new\"] 2 [] 0\n",
		},
	}

	for _, tc := range cases {
		out, err := run(tc.prog, tc.json)
		if err != nil {
			t.Errorf("%s: unexpected error: %v", tc.name, err)
			continue
		}
		if out != tc.expected {
			t.Errorf("%s:\nexpected %q\ngot      %q", tc.name, tc.expected, out)
		}
	}
}
