package main

import (
	"strings"
	"testing"

	lang "github.com/alligator/jqawk/src"
)

// A newline that separates two statements may be replaced by ';' (unless the
// first statement ends in '}'). This must also hold when the first statement
// is a bare `return`: `return; stmt` on one line means the same as
// `return <newline> stmt`.
func TestDemoC13G(t *testing.T) {
	run := func(prog string) (string, error) {
		var sb strings.Builder
		_, err := lang.EvalProgram(prog, nil, nil, &sb, false)
		return sb.String(), err
	}

	const want = "neg\n-1\nneg\n"

	// reference layout: the bare return and the statement after it are
	// separated by a newline
	withNewline := "function f(x) {\n" +
		"\tif (x < 0) { print 'neg' } else return\n" +
		"\tprint x\n" +
		"}\n" +
		"function g(x) {\n" +
		"\tif (x > 0) return\n" +
		"\tprint 'neg'\n" +
		"}\n" +
		"BEGIN { f(-1); f(3); g(-1); g(3) }\n"
	out, err := run(withNewline)
	if err != nil {
		t.Fatalf("reference layout failed: %v", err)
	}
	if out != want {
		t.Fatalf("reference layout: got %q, want %q", out, want)
	}

	// same token sequence, the separating newline replaced by ';'
	withSemi := "function f(x) {\n" +
		"\tif (x < 0) { print 'neg' } else return; print x\n" +
		"}\n" +
		"function g(x) {\n" +
		"\tif (x > 0) return; print 'neg'\n" +
		"}\n" +
		"BEGIN { f(-1); f(3); g(-1); g(3) }\n"
	out, err = run(withSemi)
	if err != nil {
		t.Fatalf("';' in place of the newline after a bare return changed the program: %v", err)
	}
	if out != want {
		t.Fatalf("';' layout: got %q, want %q", out, want)
	}

	// the simplest shape
	out, err = run("function h(x) { if (x) return; print 'no' } BEGIN { h(true); h(false); h(0) }")
	if err != nil {
		t.Fatalf("`return; print` on one line: %v", err)
	}
	if out != "no\nno\n" {
		t.Fatalf("got %q, want %q", out, "no\nno\n")
	}
}
