package main

import (
	"strings"
	"testing"

	lang "github.com/alligator/jqawk/src"
)

// runDemoC13D evaluates prog (no input files) and returns what it printed, or
// "ERR: <message>" if parsing/evaluation failed.
func runDemoC13D(prog string) (out string) {
	defer func() {
		if r := recover(); r != nil {
			out = "PANIC"
		}
	}()
	var sb strings.Builder
	if _, err := lang.EvalProgram(prog, []lang.InputFile{}, nil, &sb, false); err != nil {
		return sb.String() + "ERR: " + err.Error()
	}
	return sb.String()
}

// A newline that separates two statements may be replaced by ';' (the first
// statement here is a bare `return`, which does not end in '}'). Each template
// contains the marker <SEP> between a bare return and the statement that follows
// it; every spelling of the separator must give the same behaviour.
func TestDemoC13D(t *testing.T) {
	cases := []struct {
		tmpl string
		want string
	}{
		{
			"function f(n) { if (n <= 0) return<SEP>print n }\nBEGIN { f(2); f(0); f(3) }",
			"2\n3\n",
		},
		{
			"function f(n) { print 'a'; return<SEP>print n }\nBEGIN { f(2); print 'ok' }",
			"a\nok\n",
		},
		{
			"function f(n) { while (n > 0) { n--; if (n == 1) return<SEP>print n } }\nBEGIN { f(4) }",
			"3\n2\n",
		},
		{
			"function f(n) { for (i = 0; i < n; i++) if (i == 2) return<SEP>return i }\nBEGIN { print f(1), f(5) }",
			"1 null\n",
		},
	}
	seps := []string{"\n", ";\n", ";", "; ", " ;\t", " # bare\n", "; # bare\n", "\n\n"}

	for _, c := range cases {
		for _, sep := range seps {
			prog := strings.Replace(c.tmpl, "<SEP>", sep, 1)
			got := runDemoC13D(prog)
			if got != c.want {
				t.Errorf("program %q: got %q, want %q", prog, got, c.want)
			}
		}
	}
}
