package main

import (
	"strings"
	"testing"

	lang "github.com/alligator/jqawk/src"
)

// A string literal denotes exactly the characters between its quotes (only
// \n, \t and \\ are escapes), whatever the layout of the program around it. A
// carriage return is plain whitespace between tokens, but inside a literal it
// is a character like any other - there is no escape that could spell it.
func TestDemoC13L(t *testing.T) {
	run := func(prog string) string {
		var sb strings.Builder
		_, err := lang.EvalProgram(prog, nil, nil, &sb, false)
		if err != nil {
			return sb.String() + "error: " + err.Error()
		}
		return sb.String()
	}

	cr, lf := "\r", "\n"

	// a literal holding the line terminator "\r\n", built three ways: written
	// out in one literal, and concatenated from one-character literals
	lines := []string{
		`BEGIN {`,
		`  eol = '` + cr + lf + `'`,
		`  parts = '` + cr + `' + "` + lf + `"`,
		`  esc = '` + cr + `' + '\n'`,
		`  print eol.length(), parts.length(), eol == parts, eol == esc`,
		`  n = 0`,
		`  for (c in "a` + cr + lf + `b") n++`,
		`  print n`,
		`}`,
	}
	expected := "2 2 true true\n4\n"

	// the same token sequence in unix, windows and mixed layout
	for _, sep := range []string{"\n", "\r\n", " \r \n", " # note\r\n"} {
		prog := strings.Join(lines, sep) + sep
		if got := run(prog); got != expected {
			t.Errorf("line separator %q: program %q\nexpected %q\ngot      %q", sep, prog, expected, got)
		}
	}

	// a header block written as one multi-line literal in a CRLF file
	prog := "BEGIN { h = \"A: 1\r\nB: 2\r\n\"\r\n print h.split('\r').length(), h.length() }\r\n"
	if got := run(prog); got != "3 12\n" {
		t.Errorf("program %q\nexpected %q\ngot      %q", prog, "3 12\n", got)
	}
}
