package main

import (
	"strings"
	"testing"

	lang "github.com/alligator/jqawk/src"
)

// runs a jqawk program over the given JSON documents and returns what it
// printed and the error it ended with, if any
func demoC05DRun(prog string, json string) (string, error) {
	var sb strings.Builder
	files := []lang.InputFile{{Name: "<demo>", Reader: strings.NewReader(json)}}
	_, err := lang.EvalProgram(prog, files, nil, &sb, false)
	return sb.String(), err
}

// a ~ b / a !~ b test whether the pattern that b holds *at the time the
// operator is evaluated* matches str(a); a pattern RE2 rejects is a runtime
// error. Here the same ~ expression is evaluated several times while the regex
// value on its right hand side (a variable, a parameter, a loop variable)
// changes between evaluations.
func TestDemoC05D(t *testing.T) {
	cases := []struct {
		name, prog, json, want string
	}{
		{
			"loop over regex values",
			`BEGIN { pats = [/^a/, /^b/]; for (p in pats) { print "banana" ~ p, "banana" !~ p } }`,
			``,
			"false true\ntrue false\n",
		},
		{
			"regex passed as a parameter",
			`function m(s, r) { return s ~ r }
			 BEGIN { print m("x", /x/), m("x", /y/), m("x", "y"), m("y", /y/) }`,
			``,
			"true false false true\n",
		},
		{
			"regex variable reassigned between records",
			`{ r = /^a/; if ($.k == 2) r = /^b/; print $.s ~ r }`,
			`{"k": 1, "s": "bob"} {"k": 2, "s": "bob"} {"k": 3, "s": "bob"}`,
			"false\ntrue\nfalse\n",
		},
		// sanity: literal on the right, and strings on the right (same on both trees)
		{
			"literal regex per record",
			`{ print $.s ~ /^b/, $.s !~ /^a/ }`,
			`{"s": "bob"} {"s": "alice"}`,
			"true true\nfalse false\n",
		},
		{
			"string patterns",
			`BEGIN { pats = ["^a", "^b"]; for (p in pats) { print "banana" ~ p } }`,
			``,
			"false\ntrue\n",
		},
	}
	for _, c := range cases {
		got, err := demoC05DRun(c.prog, c.json)
		if err != nil {
			t.Errorf("%s: unexpected error: %v", c.name, err)
			continue
		}
		if got != c.want {
			t.Errorf("%s: %s\n  got  %q\n  want %q", c.name, c.prog, got, c.want)
		}
	}

	// an invalid pattern is a runtime error, also when a valid one went through
	// the same expression before
	out, err := demoC05DRun(`BEGIN { pats = [/a/, /(/]; for (p in pats) { print "a(" ~ p } }`, ``)
	if _, ok := err.(lang.RuntimeError); !ok {
		t.Errorf("invalid pattern after a valid one: want a runtime error, got err=%v output=%q", err, out)
	}
	if out != "true\n" {
		t.Errorf("invalid pattern after a valid one: output before the error: got %q, want %q", out, "true\n")
	}
}
