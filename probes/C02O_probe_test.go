package main

import (
	"strings"
	"testing"

	lang "github.com/alligator/jqawk/src"
)

// Every END rule runs with $ null, whatever an earlier END rule did to its own $.
func TestDemoC02O(t *testing.T) {
	run := func(prog string, inputs ...string) string {
		t.Helper()
		files := make([]lang.InputFile, 0, len(inputs))
		for i, in := range inputs {
			files = append(files, lang.InputFile{
				Name:   "<in" + string(rune('1'+i)) + ">",
				Reader: strings.NewReader(in),
			})
		}
		var sb strings.Builder
		if _, err := lang.EvalProgram(prog, files, nil, &sb, false); err != nil {
			t.Fatalf("unexpected error for %q: %v", prog, err)
		}
		return sb.String()
	}

	cases := []struct {
		name, prog string
		inputs     []string
		want       string
	}{
		{
			// a single END rule, or END rules that only read $, always see null
			name:   "END rules that only read $",
			prog:   `{ n += $ } END { print "a", $ } END { print "b", $, n }`,
			inputs: []string{`[1, 2, 3]`},
			want:   "a null\nb null 6\n",
		},
		{
			// an END rule that uses $ as a scratch variable must not leak it
			// into the END rule that follows it
			name: "END rule assigns $, next END rule still sees null",
			prog: `
				{ n += $ }
				END { $ = { total: n }; print "first", $.total }
				ENDFILE { print "endfile", $ }
				END { print "second", $ }
				END { if ($ is null) { print "third sees null" } else { print "third sees", $ } }
			`,
			inputs: []string{`[1, 2]`, `[3]`},
			want:   "endfile [1, 2]\nendfile [3]\nfirst 6\nsecond null\nthird sees null\n",
		},
		{
			name:   "increment of $ in END, no input at all",
			prog:   `END { $++ } END { $++ } END { print }`,
			inputs: nil,
			want:   "null\n",
		},
	}

	for _, tc := range cases {
		got := run(tc.prog, tc.inputs...)
		if got != tc.want {
			t.Errorf("%s:\n got %q\nwant %q", tc.name, got, tc.want)
		}
	}
}
