package main

import (
	"encoding/json"
	"reflect"
	"strings"
	"testing"

	lang "github.com/alligator/jqawk/src"
)

// demoC04QDocs are well-formed JSON documents. The last ones carry a string
// whose *value* contains a backslash followed by u003c (six characters, not an
// escape sequence): that is what JSON embedded in a JSON string looks like when
// the inner document was written by an encoder that escapes <, > and &.
func demoC04QDocs(t *testing.T) []string {
	inner, err := json.Marshal(map[string]interface{}{"html": "<b>R&D</b>"})
	if err != nil {
		t.Fatal(err)
	}
	// inner is {"html":"\u003cb\u003eR\u0026D\u003c/b\u003e"}: the encoder escaped <, > and &
	embedded, err := json.Marshal(map[string]interface{}{"payload": string(inner)})
	if err != nil {
		t.Fatal(err)
	}
	return []string{
		`{"s": "a < b && c > d"}`,
		`["plain", "<>&", {"k<": ">"}]`,
		`{"note": "write \\u003c to get a less-than sign"}`,
		`{"k\\u0026": 1}`,
		string(embedded),
	}
}

// demoC04QCheck fails unless text is valid JSON that parses to the same value
// as doc.
func demoC04QCheck(t *testing.T, what string, doc string, text string) {
	t.Helper()
	var want, got interface{}
	if err := json.Unmarshal([]byte(doc), &want); err != nil {
		t.Fatalf("bad test document %s: %v", doc, err)
	}
	if !json.Valid([]byte(text)) {
		t.Errorf("%s of %s is not valid JSON:\n%s", what, doc, text)
		return
	}
	if err := json.Unmarshal([]byte(text), &got); err != nil {
		t.Errorf("%s of %s does not parse: %v\n%s", what, doc, err, text)
		return
	}
	if !reflect.DeepEqual(want, got) {
		t.Errorf("%s of %s parses to a different value\nwant %#v\ngot  %#v\ntext %s", what, doc, want, got, text)
	}
}

func TestDemoC04Q(t *testing.T) {
	for _, doc := range demoC04QDocs(t) {
		// -o of a program that does not modify the document
		var out strings.Builder
		files := []lang.InputFile{{Name: "<demo>", Reader: strings.NewReader(doc)}}
		ev, err := lang.EvalProgram("{ }", files, nil, &out, false)
		if err != nil {
			t.Fatalf("%s: %v", doc, err)
		}
		text, err := ev.GetRootJson()
		if err != nil {
			t.Fatalf("GetRootJson of %s: %v", doc, err)
		}
		demoC04QCheck(t, "-o output", doc, text)

		// json($) printed from ENDFILE, where $ is the whole document
		out.Reset()
		files = []lang.InputFile{{Name: "<demo>", Reader: strings.NewReader(doc)}}
		_, err = lang.EvalProgram("ENDFILE { print json($) }", files, nil, &out, false)
		if err != nil {
			t.Fatalf("json($) of %s: %v", doc, err)
		}
		demoC04QCheck(t, "json($)", doc, out.String())
	}
}
