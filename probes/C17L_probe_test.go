package main

import (
	"bytes"
	"math"
	"strconv"
	"strings"
	"testing"

	lang "github.com/alligator/jqawk/src"
)

// print renders a number in plain positional decimal, without an exponent,
// and the text reads back as the identical double (same bits: the sign of a
// zero and integers far beyond 2^53 included), at the top level and nested.
func TestDemoC17L(t *testing.T) {
	run := func(prog string, input string) string {
		t.Helper()
		var out bytes.Buffer
		files := []lang.InputFile{{Name: "in.json", Reader: strings.NewReader(input)}}
		_, err := lang.EvalProgram(prog, files, nil, &out, false)
		if err != nil {
			t.Fatalf("program %q failed: %v", prog, err)
		}
		return out.String()
	}

	// checks that text is a plain decimal rendering of want
	check := func(what string, text string, want float64) {
		t.Helper()
		if strings.ContainsAny(text, "eE+ ") || text == "" {
			t.Errorf("%s: %q is not plain positional decimal", what, text)
			return
		}
		got, err := strconv.ParseFloat(text, 64)
		if err != nil {
			t.Errorf("%s: %q does not read back as a number: %v", what, text, err)
			return
		}
		if math.Float64bits(got) != math.Float64bits(want) {
			t.Errorf("%s: printed %q, which reads back as %v (bits %016x), the value is %v (bits %016x)",
				what, text, got, math.Float64bits(got), want, math.Float64bits(want))
		}
	}

	two63 := math.Ldexp(1, 63) // 9223372036854775808
	negZero := math.Copysign(0, -1)

	// values taken from the input: one rule run per element, bare print
	input := `[9223372036854775808, -9223372036854775808, -0, 0, 9007199254740993, 4611686018427387904, 18446744073709551616, -2.5, 0.000001]`
	wants := []float64{two63, -two63, negZero, 0, 9007199254740992, math.Ldexp(1, 62), math.Ldexp(1, 64), -2.5, 0.000001}
	lines := strings.Split(strings.TrimSuffix(run(`{ print }`, input), "\n"), "\n")
	if len(lines) != len(wants) {
		t.Fatalf("expected %d lines, got %d: %q", len(wants), len(lines), lines)
	}
	for i, want := range wants {
		check("input element "+strconv.Itoa(i), lines[i], want)
	}

	// values computed by the program
	out := run(`BEGIN {
		x = 4611686018427387904
		print x * 2
		print x + x
		print -0
		print 0 * -1
		print 0 - x - x
	}`, `[]`)
	lines = strings.Split(strings.TrimSuffix(out, "\n"), "\n")
	wants = []float64{two63, two63, negZero, negZero, -two63}
	if len(lines) != len(wants) {
		t.Fatalf("expected %d lines, got %d: %q", len(wants), len(lines), lines)
	}
	for i, want := range wants {
		check("computed value "+strconv.Itoa(i), lines[i], want)
	}

	// nested in containers: [a, b] and {"k": v}
	out = run(`{ print $ }`, `[[9223372036854775808, -0], {"big": 9223372036854775808, "z": -0}]`)
	lines = strings.Split(strings.TrimSuffix(out, "\n"), "\n")
	if len(lines) != 2 {
		t.Fatalf("expected 2 lines, got %q", lines)
	}
	arr := strings.Split(strings.TrimSuffix(strings.TrimPrefix(lines[0], "["), "]"), ", ")
	if len(arr) != 2 {
		t.Fatalf("unexpected array rendering %q", lines[0])
	}
	check("array element 0", arr[0], two63)
	check("array element 1", arr[1], negZero)

	obj := strings.Split(strings.TrimSuffix(strings.TrimPrefix(lines[1], "{"), "}"), ", ")
	if len(obj) != 2 || !strings.HasPrefix(obj[0], `"big": `) || !strings.HasPrefix(obj[1], `"z": `) {
		t.Fatalf("unexpected object rendering %q", lines[1])
	}
	check("object member big", strings.TrimPrefix(obj[0], `"big": `), two63)
	check("object member z", strings.TrimPrefix(obj[1], `"z": `), negZero)
}
