package main

import (
	"strings"
	"testing"

	lang "github.com/alligator/jqawk/src"
)

func demoC19CRun(t *testing.T, prog string, json string) string {
	t.Helper()
	var sb strings.Builder
	files := []lang.InputFile{}
	if json != "" {
		files = append(files, lang.InputFile{Name: "<demo>", Reader: strings.NewReader(json)})
	}
	if _, err := lang.EvalProgram(prog, files, nil, &sb, false); err != nil {
		t.Fatalf("program %q failed: %v", prog, err)
	}
	return sb.String()
}

// The names bound in a case body are those of the alternative that matched,
// and nothing else. An earlier alternative of the same case that got part of
// the way through an array pattern before failing must leave nothing behind.
func TestDemoC19C(t *testing.T) {
	cases := []struct {
		name, prog, json, want string
	}{
		{
			// [x, 1] fails on the second element after x was bound to the
			// first; [2, y] then matches. x in the body is the outer x.
			name: "failed alternative must not shadow an outer variable",
			prog: `BEGIN {
				x = 'outer'
				print match ([2, 5]) {
					[x, 1], [2, y] => x + ':' + y,
					_ => 'none',
				}
			}`,
			want: "outer:5\n",
		},
		{
			// same shape, the later alternative is a catch-all identifier
			name: "failed alternative followed by catch-all",
			prog: `{
				n = 'kept'
				print match ($) {
					[n, 0], rest => n,
				}
			}`,
			json: `[[7, 0], [7, 1]]`,
			want: "7\nkept\n",
		},
		{
			// sanity: the ordinary behaviours
			name: "ordinary binding",
			prog: `{
				print match ($) {
					[a, [b, c]] => a + b + c,
					[1, x], [x, 1] => x,
					_ => 'other',
				}
			}`,
			json: `[[1, 5], [6, 1], [1, [2, 3]], 9]`,
			want: "5\n6\n6\nother\n",
		},
	}
	for _, tc := range cases {
		got := demoC19CRun(t, tc.prog, tc.json)
		if got != tc.want {
			t.Errorf("%s: got %q, want %q", tc.name, got, tc.want)
		}
	}
}
