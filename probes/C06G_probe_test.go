package main

import (
	"strings"
	"testing"

	lang "github.com/alligator/jqawk/src"
)

// Property: call, member and index bind tighter than the prefix operators, so
// `-2.5.floor()` means `-((2.5).floor())` and never `(-2.5).floor()`.
func TestDemoC06G(t *testing.T) {
	run := func(prog string) string {
		t.Helper()
		var sb strings.Builder
		_, err := lang.EvalProgram(prog, nil, nil, &sb, false)
		if err != nil {
			t.Fatalf("program %q: unexpected error: %v", prog, err)
		}
		return sb.String()
	}

	// each pair: an expression without redundant parentheses and its fully
	// parenthesised form under the grammar; both must print the same value
	pairs := []struct {
		plain  string
		parens string
		want   string
	}{
		{"-2.5.floor()", "-((2.5).floor())", "-2\n"},
		{"-2.5.ceil()", "-((2.5).ceil())", "-3\n"},
		{"-2.4.round()", "-((2.4).round())", "-2\n"},
		{"1 - -2.5.floor()", "1 - (-((2.5).floor()))", "3\n"},
		{"3 * -2.5.floor() + 1", "(3 * (-((2.5).floor()))) + 1", "-5\n"},
		{"!-0.5.ceil()", "!(-((0.5).ceil()))", "false\n"},
		{"[-7.5.floor()][0]", "([-((7.5).floor())])[0]", "-7\n"},
		// controls that hold with or without the negative literal shortcut
		{"-2.5", "-(2.5)", "-2.5\n"},
		{"-2 * 3", "(-2) * 3", "-6\n"},
		{"- 2.5.floor()", "-((2.5).floor())", "-2\n"},
		{"[1, 2, 3][-1]", "([1, 2, 3])[-1]", "3\n"},
	}

	for _, pc := range pairs {
		plain := run("BEGIN { print " + pc.plain + " }")
		parens := run("BEGIN { print " + pc.parens + " }")
		if parens != pc.want {
			t.Errorf("%s: parenthesised form printed %q, want %q", pc.parens, parens, pc.want)
		}
		if plain != parens {
			t.Errorf("%s printed %q but its fully parenthesised form %s printed %q",
				pc.plain, plain, pc.parens, parens)
		}
	}

	// the same through a variable, to make sure the receiver of the method is
	// the number and not the negated number
	got := run("BEGIN { x = 10; y = x + -1.5.floor(); print y }")
	if got != "9\n" {
		t.Errorf("x + -1.5.floor() with x = 10 printed %q, want \"9\\n\"", got)
	}
}
