package main

import (
	"strings"
	"testing"

	lang "github.com/alligator/jqawk/src"
)

// A case with several array alternatives: the first alternative binds x for
// element 0 and then fails on element 1, the second alternative matches and
// binds only y. The body must see y from the matching alternative and must
// not see an x left over from the alternative that failed: x in the body is
// the enclosing variable.
func TestDemoC19O(t *testing.T) {
	run := func(prog string) string {
		var sb strings.Builder
		files := []lang.InputFile{{Name: "<demo>", Reader: strings.NewReader("null")}}
		if _, err := lang.EvalProgram(prog, files, nil, &sb, false); err != nil {
			t.Fatalf("program %q failed: %v", prog, err)
		}
		return sb.String()
	}

	got := run(`BEGIN { x = "outer"; print match ([1, 3]) { [x, 2], [1, y] => x + "/" + y, z => "none" } }`)
	if want := "outer/3\n"; got != want {
		t.Fatalf("failed alternative leaked a binding: got %q, want %q", got, want)
	}

	// same through a nested pattern, with the catch-all alternative last
	got = run(`BEGIN { a = "A"; print match ([[7, 8], 9]) { [[a, 0], b], [c, 9] => a, z => "none" } }`)
	if want := "A\n"; got != want {
		t.Fatalf("failed nested alternative leaked a binding: got %q, want %q", got, want)
	}
}
