package main

import (
	"strings"
	"testing"

	lang "github.com/alligator/jqawk/src"
)

func demoC16QRun(t *testing.T, prog string, json string) string {
	t.Helper()
	files := []lang.InputFile{{Name: "<demoC16Q>", Reader: strings.NewReader(json)}}
	var sb strings.Builder
	if _, err := lang.EvalProgram(prog, files, nil, &sb, false); err != nil {
		t.Fatalf("program %q failed: %v", prog, err)
	}
	return sb.String()
}

// o.pluck(k...) returns a NEW object holding the original's values and leaves o
// unchanged: the result must not share storage with the receiver, so writing to
// a member of the result must not show through o, and vice versa.
func TestDemoC16Q(t *testing.T) {
	// 1. write to the plucked object, then look at the original
	got := demoC16QRun(t, `{
		q = $.pluck("a", "z")
		print q
		q.a = 99
		q.z = 5
		print $
		print q
	}`, `[{"a": 1, "b": 2}]`)
	want := "{\"a\": 1, \"z\": null}\n{\"a\": 1, \"b\": 2}\n{\"a\": 99, \"z\": 5}\n"
	if got != want {
		t.Errorf("assigning to a member of o.pluck(...) changed o (or the result is wrong)\nwant:\n%s\ngot:\n%s", want, got)
	}

	// 2. write to the original afterwards, then look at the plucked object:
	// it holds the values o had when pluck was called
	got = demoC16QRun(t, `BEGIN {
		o = {"a": "x", "b": "y"}
		q = o.pluck("b", "a", "b")
		o.b = "changed"
		o.a += "!"
		print q
		print o
	}`, `[]`)
	want = "{\"a\": \"x\", \"b\": \"y\"}\n{\"a\": \"x!\", \"b\": \"changed\"}\n"
	if got != want {
		t.Errorf("o.pluck(...) result changed when o was assigned to afterwards\nwant:\n%s\ngot:\n%s", want, got)
	}
}
