package main

import (
	"bytes"
	"strings"
	"testing"

	lang "github.com/alligator/jqawk/src"
)

func demoC10LRun(t *testing.T, prog string, input string) string {
	var stdout bytes.Buffer
	files := []lang.InputFile{{Name: "<demo>", Reader: strings.NewReader(input)}}
	_, err := lang.EvalProgram(prog, files, nil, &stdout, false)
	if err != nil {
		t.Fatalf("unexpected error: %s", err.Error())
	}
	return stdout.String()
}

// Repeating a run must print byte-identical output. The programs below
// iterate objects whose keys are written differently but denote the same
// number ("7", "07", "7.0": zero padded ids), or are not ordered at all
// ("nan").
func TestDemoC10L(t *testing.T) {
	cases := []struct {
		name  string
		prog  string
		input string
	}{
		{
			name:  "counters keyed by id",
			prog:  `{ seen[$.id]++ } END { for (id, n in seen) print id, n }`,
			input: `[{"id": "7"}, {"id": "07"}, {"id": "7.0"}, {"id": "7"}, {"id": "12"}, {"id": "x"}]`,
		},
		{
			name:  "keys of an input object",
			prog:  `{ for (k in $) out = out + k + ";"; print out }`,
			input: `[{"1": "a", "01": "b", "1e0": "c", "+1": "d"}]`,
		},
		{
			name:  "a key called nan",
			prog:  `{ for (k, v in $) print k, v }`,
			input: `[{"nan": 0, "3": 1, "1": 2, "2": 3, "10": 4}]`,
		},
	}

	for _, tc := range cases {
		first := demoC10LRun(t, tc.prog, tc.input)
		if first == "" {
			t.Fatalf("%s: nothing was printed", tc.name)
		}
		for i := 0; i < 200; i++ {
			again := demoC10LRun(t, tc.prog, tc.input)
			if again != first {
				t.Errorf("%s: repetition %d printed different output:\nfirst %q\nthen  %q", tc.name, i+1, first, again)
				break
			}
		}
	}
}
