package main

import (
	"io"
	"strings"
	"testing"

	lang "github.com/alligator/jqawk/src"
)

// Property: the line number of a syntax error and the quoted source line agree
// with the program text (the quoted line is exactly line N), and an illegal
// character is reported on its own line and column -- whatever precedes it,
// including string and regex literals that span several lines.
func TestDemoC12K(t *testing.T) {
	progs := []struct {
		name string
		src  string
	}{
		{
			"illegal char after a string literal spanning two lines",
			"BEGIN {\n  s = \"first\nsecond\"\n  x = 1 @ 2\n}\n",
		},
		{
			"illegal char after a regex literal spanning three lines",
			"BEGIN {\n  r = /a\nb\nc/\n\n  # comment\n  y = r ` 1\n}\n",
		},
		{
			"unterminated string after a multi-line string",
			"BEGIN {\n  s = 'one\ntwo\nthree'\n  t = \"oops\n",
		},
		{
			"control: no multi-line literal",
			"BEGIN {\n\n  # comment\n  x = 1 @ 2\n}\n",
		},
	}

	for _, p := range progs {
		_, err := lang.EvalProgram(p.src, nil, nil, io.Discard, false)
		if err == nil {
			t.Fatalf("%s: expected a syntax error", p.name)
		}
		serr, ok := err.(lang.SyntaxError)
		if !ok {
			t.Fatalf("%s: expected a SyntaxError, got %T: %v", p.name, err, err)
		}

		lines := strings.Split(p.src, "\n")
		if serr.Line < 1 || serr.Line > len(lines) {
			t.Fatalf("%s: line %d is outside the program (%d lines)", p.name, serr.Line, len(lines))
		}
		if lines[serr.Line-1] != serr.SrcLine {
			t.Errorf("%s: reported line %d, which is %q, but quoted %q",
				p.name, serr.Line, lines[serr.Line-1], serr.SrcLine)
		}

		// where the fault really is: the illegal character, or the character
		// just after the opening quote of the unterminated string
		var want int
		switch {
		case strings.ContainsAny(p.src, "@`"):
			want = strings.IndexAny(p.src, "@`")
		default:
			want = strings.LastIndex(p.src, "\"") + 1
		}
		wantLine := 1 + strings.Count(p.src[:want], "\n")
		wantCol := want - (strings.LastIndex(p.src[:want], "\n") + 1)
		if serr.Line != wantLine || serr.Col != wantCol {
			t.Errorf("%s: fault is at line %d col %d, reported line %d col %d (%s)",
				p.name, wantLine, wantCol, serr.Line, serr.Col, serr.Message)
		}
	}
}
