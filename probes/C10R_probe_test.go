package main

import (
	"fmt"
	"strings"
	"testing"

	lang "github.com/alligator/jqawk/src"
)

// one run of a program over one input, everything observable rendered as a string
func demoC10RRun(prog string, input string, selectors []string) string {
	files := []lang.InputFile{{Name: "<demo>", Reader: strings.NewReader(input)}}
	var sb strings.Builder
	_, err := lang.EvalProgram(prog, files, selectors, &sb, false)
	if err != nil {
		return fmt.Sprintf("stdout=%q error=%T %q", sb.String(), err, err.Error())
	}
	return fmt.Sprintf("stdout=%q ok", sb.String())
}

// C10: the result of a run is a function of program, selectors and input bytes
// only; unrelated earlier runs in the same process must not change it.
func TestDemoC10R(t *testing.T) {
	type demoC10RCase struct {
		prog      string
		input     string
		selectors []string
	}
	// the runs whose results must not depend on history
	probes := []demoC10RCase{
		{`{ total += num($.n) } END { print total }`, `[{"n": "1.5"}, {"n": "2"}]`, nil},
		{`{ printf("%s=%f\n", $.k, $.v) }`, `[{"k": "a", "v": 1}, {"k": "b", "v": 2}]`, nil},
		{`END { print json([1, {"a": 2}]) }`, `[]`, nil},
		{`{ print $ }`, `{"xs": ["3", "4"]}`, []string{`num($.xs[0])`, `num($.xs[1])`}},
	}
	// unrelated programs that happen to use the names of the runtime functions
	// for their own variables
	history := []demoC10RCase{
		{`{ num = num + 1 } END { print num }`, `[10, 20, 30]`, nil},
		{`BEGIN { json = "{}" } { print json }`, `[1]`, nil},
		{`{ for (printf in $) { print printf } }`, `[{"a": 1, "b": 2}]`, nil},
	}

	fresh := make([]string, len(probes))
	for i, p := range probes {
		fresh[i] = demoC10RRun(p.prog, p.input, p.selectors)
		if !strings.HasSuffix(fresh[i], " ok") {
			t.Fatalf("probe %d does not even run: %s", i, fresh[i])
		}
	}
	for _, h := range history {
		demoC10RRun(h.prog, h.input, h.selectors)
	}
	for i, p := range probes {
		again := demoC10RRun(p.prog, p.input, p.selectors)
		if again != fresh[i] {
			t.Errorf("the same run gives a different result after unrelated runs in the same process\nprogram: %s\ninput:   %s\nbefore:  %s\nafter:   %s", p.prog, p.input, fresh[i], again)
		}
	}
}
