package main

import (
	"bytes"
	"os"
	"os/exec"
	"path/filepath"
	"strings"
	"testing"

	lang "github.com/alligator/jqawk/src"
)

// runs the binary built by TestMain and returns stdout, stderr and the exit code
func demoC14QRun(t *testing.T, stdin string, args ...string) (string, string, int) {
	t.Helper()
	exe, err := filepath.Abs("./jqawk")
	if err != nil {
		t.Fatal(err)
	}
	cmd := exec.Command(exe, args...)
	cmd.Stdin = strings.NewReader(stdin)
	var stdout, stderr bytes.Buffer
	cmd.Stdout = &stdout
	cmd.Stderr = &stderr
	err = cmd.Run()
	code := 0
	if err != nil {
		exitErr, ok := err.(*exec.ExitError)
		if !ok {
			t.Fatalf("could not run %s: %v", exe, err)
		}
		code = exitErr.ExitCode()
	}
	return stdout.String(), stderr.String(), code
}

// -o FILE must write exactly the bytes that -o - prints (after the program's
// own output), also when FILE already exists and held the longer result of an
// earlier run.
func TestDemoC14Q(t *testing.T) {
	dir := t.TempDir()
	bigPath := filepath.Join(dir, "big.json")
	smallPath := filepath.Join(dir, "small.json")
	outPath := filepath.Join(dir, "out.json")

	big := `[{"name": "alpha", "tags": ["x", "y", "z"]}, {"name": "beta", "tags": ["p", "q"]}]`
	small := `[1]`
	if err := os.WriteFile(bigPath, []byte(big), 0644); err != nil {
		t.Fatal(err)
	}
	if err := os.WriteFile(smallPath, []byte(small), 0644); err != nil {
		t.Fatal(err)
	}

	prog := `{ print "seen", $ }`

	for step, inPath := range []string{bigPath, smallPath} {
		input, _ := os.ReadFile(inPath)

		// what the library produces
		var sb strings.Builder
		ev, err := lang.EvalProgram(prog, []lang.InputFile{{Name: inPath, Reader: bytes.NewReader(input)}}, nil, &sb, false)
		if err != nil {
			t.Fatalf("step %d: library failed: %v", step, err)
		}
		wantJson, err := ev.GetRootJson()
		if err != nil {
			t.Fatalf("step %d: GetRootJson failed: %v", step, err)
		}
		wantStdout := sb.String()

		// -o -
		dashOut, dashErr, dashCode := demoC14QRun(t, "", "-o", "-", prog, inPath)
		if dashCode != 0 || dashErr != "" {
			t.Fatalf("step %d: -o - failed: exit %d, stderr %q", step, dashCode, dashErr)
		}
		if dashOut != wantStdout+wantJson {
			t.Fatalf("step %d: -o - printed %q, library says %q", step, dashOut, wantStdout+wantJson)
		}

		// -o FILE, the same FILE in both steps
		fileOut, fileErr, fileCode := demoC14QRun(t, "", "-o", outPath, prog, inPath)
		if fileCode != 0 || fileErr != "" {
			t.Fatalf("step %d: -o FILE failed: exit %d, stderr %q", step, fileCode, fileErr)
		}
		if fileOut != wantStdout {
			t.Fatalf("step %d: -o FILE printed %q on stdout, want %q", step, fileOut, wantStdout)
		}
		written, err := os.ReadFile(outPath)
		if err != nil {
			t.Fatalf("step %d: %v", step, err)
		}
		if fileOut+string(written) != dashOut {
			t.Fatalf("step %d: -o FILE wrote %q\nbut -o - printed %q after the program's output",
				step, string(written), strings.TrimPrefix(dashOut, wantStdout))
		}
	}
}
