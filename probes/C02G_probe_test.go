package main

import (
	"strings"
	"testing"

	lang "github.com/alligator/jqawk/src"
)

// exit (and next) reached through a function that is being evaluated as an
// operand of print / a call argument / an array element must behave exactly
// like exit (next) written directly in the rule body: exit ends the whole run
// at once and successfully, END included; next only drops the current element.
func TestDemoC02G(t *testing.T) {
	type tcase struct {
		name     string
		prog     string
		files    []string
		expected string
	}

	cases := []tcase{
		{
			name: "exit inside a function used as a print operand",
			prog: `
				function upto(v) { if (v == 3) exit; return v }
				BEGIN { print "begin" }
				BEGINFILE { print "beginfile", $file }
				{ print $index, upto($) }
				{ print "second rule", $ }
				ENDFILE { print "endfile" }
				END { print "end" }
			`,
			files:    []string{"[1, 2, 3, 4]", "[5]"},
			expected: "begin\nbeginfile f0\n0 1\nsecond rule 1\n1 2\nsecond rule 2\n",
		},
		{
			name: "exit inside a function used as a call argument",
			prog: `
				function upto(v) { if (v == 3) exit; return v }
				BEGIN { seen = [] }
				{ seen.push(upto($)); print seen }
				END { print "end" }
			`,
			files:    []string{"[1, 2, 3, 4]"},
			expected: "[1]\n[1, 2]\n",
		},
		{
			name: "exit inside a function used as an array element, in ENDFILE",
			prog: `
				function stop() { exit }
				{ n++ }
				ENDFILE { print n; x = [n, stop()]; print "not reached" }
				END { print "end" }
			`,
			files:    []string{"[1, 2]", "[3]"},
			expected: "2\n",
		},
		{
			name: "next inside a function used as a print operand",
			prog: `
				function need(v) { if (v is null) next; return v }
				{ print $index, need($.a) }
				{ kept++ }
				END { print "kept", kept }
			`,
			files:    []string{`[{"a": 1}, {"b": 2}, {"a": 3}]`},
			expected: "0 1\n2 3\nkept 2\n",
		},
	}

	for _, tc := range cases {
		t.Run(tc.name, func(t *testing.T) {
			files := make([]lang.InputFile, 0)
			for i, src := range tc.files {
				files = append(files, lang.InputFile{
					Name:   "f" + string(rune('0'+i)),
					Reader: strings.NewReader(src),
				})
			}
			var sb strings.Builder
			_, err := lang.EvalProgram(tc.prog, files, nil, &sb, false)
			if err != nil {
				t.Fatalf("the run must end successfully, got error %q (output so far %q)", err.Error(), sb.String())
			}
			if sb.String() != tc.expected {
				t.Fatalf("expected %q\ngot      %q", tc.expected, sb.String())
			}
		})
	}
}
