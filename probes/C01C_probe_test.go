package main

import (
	"fmt"
	"io"
	"strings"
	"testing"

	lang "github.com/alligator/jqawk/src"
)

// runDemoC01C runs one program over one input and classifies how the run ended:
// "ok", "syntax", "runtime", "json", or a description of a property violation
// (a panic, or an error that is none of the three reported kinds).
func runDemoC01C(prog string, input string) (outcome string) {
	defer func() {
		if r := recover(); r != nil {
			outcome = fmt.Sprintf("VIOLATION: panic: %v", r)
		}
	}()
	files := []lang.InputFile{{Name: "<demo>", Reader: strings.NewReader(input)}}
	_, err := lang.EvalProgram(prog, files, nil, io.Discard, false)
	if err == nil {
		return "ok"
	}
	switch err.(type) {
	case lang.SyntaxError:
		return "syntax"
	case lang.RuntimeError:
		return "runtime"
	case lang.JsonError:
		return "json"
	default:
		return fmt.Sprintf("VIOLATION: untyped error surfaced to the caller: %#v (%q)", err, err.Error())
	}
}

// A break/continue that is not inside any loop must be rejected by the parser
// (a syntax error), no matter what was parsed before it. In particular a
// for-in loop earlier in the program must not make a later stray break or
// continue acceptable: if it were accepted, the errBreak/errContinue sentinel
// would have no loop to consume it and would surface from EvalProgram.
func TestDemoC01C(t *testing.T) {
	cases := []struct {
		name  string
		prog  string
		input string
	}{
		{
			name:  "break in a pattern rule after a for-in loop in BEGIN",
			prog:  "BEGIN { for (x in [1, 2]) { n = n + x } }\n{ if ($ > 1) { break } print $ }",
			input: "[1, 2, 3]",
		},
		{
			name:  "continue in END after a for-in loop over an object, with index",
			prog:  "{ for (k, v in $) { sum += v } }\nEND { if (sum > 0) { continue } print sum }",
			input: `[{"a": 1}, {"b": 2}]`,
		},
		{
			name:  "break after a for-in loop in the same block",
			prog:  "{ for (c in 'abc') { s = c } break }",
			input: "[1]",
		},
		{
			name:  "break in a rule after a for-in loop inside a function",
			prog:  "function f(a) { for (x in a) { return x } }\n{ print f($); break }",
			input: "[[1], [2]]",
		},
	}

	for _, tc := range cases {
		got := runDemoC01C(tc.prog, tc.input)
		if got != "syntax" {
			t.Errorf("%s: expected the run to stop with a syntax error, got: %s", tc.name, got)
		}
	}

	// sanity: break/continue inside (possibly nested) loops still work
	if got := runDemoC01C("{ for (x in $) { for (y in $) { if (y > 1) { break } } continue } }", "[[1, 2, 3]]"); got != "ok" {
		t.Errorf("nested for-in with break/continue: expected ok, got: %s", got)
	}
}
