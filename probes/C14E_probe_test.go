package main

import (
	"bytes"
	"os"
	"os/exec"
	"path/filepath"
	"strings"
	"testing"

	lang "github.com/alligator/jqawk/src"
)

// TestDemoC14E: `-r E` must behave as `BEGINFILE { $ = E }` and as the library
// called with the selector E, for every expression E -- including one that
// contains a comma (an array literal, a call with two arguments).
func TestDemoC14E(t *testing.T) {
	dir := t.TempDir()

	// build the command line tool from the package under test
	exe := filepath.Join(dir, "jqawk-demo")
	build := exec.Command("go", "build", "-o", exe, ".")
	if out, err := build.CombinedOutput(); err != nil {
		t.Fatalf("go build failed: %v\n%s", err, out)
	}

	input := `{"a": [1, 2], "b": [3], "c": "x-y-z"}`
	inPath := filepath.Join(dir, "in.json")
	if err := os.WriteFile(inPath, []byte(input), 0o644); err != nil {
		t.Fatal(err)
	}

	cases := []struct {
		name      string
		selectors []string
		prog      string
	}{
		{"array literal", []string{"[$.b, $.a]"}, "{ print $index, $ }"},
		{"call with two arguments", []string{"$.pluck('b', 'c')"}, "{ print }"},
		{"two selectors, one with a comma", []string{"$.a", "[$.b, $.a]"}, "{ print } END { print 'done' }"},
	}

	for _, tc := range cases {
		t.Run(tc.name, func(t *testing.T) {
			// what the library produces for the same program, selectors and input
			var want strings.Builder
			files := []lang.InputFile{{Name: inPath, Reader: strings.NewReader(input)}}
			ev, err := lang.EvalProgram(tc.prog, files, tc.selectors, &want, false)
			if err != nil {
				t.Fatalf("the library rejects the case: %v", err)
			}
			wantJson, err := ev.GetRootJson()
			if err != nil {
				t.Fatal(err)
			}

			args := []string{"-o", "-"}
			for _, s := range tc.selectors {
				args = append(args, "-r", s)
			}
			args = append(args, tc.prog, inPath)

			cmd := exec.Command(exe, args...)
			var stdout, stderr bytes.Buffer
			cmd.Stdout = &stdout
			cmd.Stderr = &stderr
			runErr := cmd.Run()
			if runErr != nil {
				t.Fatalf("jqawk %q failed: %v\nstderr: %s", args, runErr, stderr.String())
			}
			if got := stdout.String(); got != want.String()+wantJson {
				t.Fatalf("jqawk %q\nexpected %q\ngot      %q", args, want.String()+wantJson, got)
			}
		})
	}

	// the README's equivalence, for a single selector with a comma
	runCli := func(args ...string) (string, error) {
		cmd := exec.Command(exe, args...)
		var stdout, stderr bytes.Buffer
		cmd.Stdout = &stdout
		cmd.Stderr = &stderr
		err := cmd.Run()
		if err != nil {
			t.Logf("stderr of %q: %s", args, stderr.String())
		}
		return stdout.String(), err
	}
	viaRule, err := runCli("-o", "-", "BEGINFILE { $ = [$.b, $.a] } { print $index, $ }", inPath)
	if err != nil {
		t.Fatalf("BEGINFILE form failed: %v", err)
	}
	viaFlag, err := runCli("-o", "-", "-r", "[$.b, $.a]", "{ print $index, $ }", inPath)
	if err != nil {
		t.Fatalf("-r form failed: %v", err)
	}
	if viaRule != viaFlag {
		t.Fatalf("-r E differs from BEGINFILE { $ = E }\n-r:        %q\nBEGINFILE: %q", viaFlag, viaRule)
	}
}
