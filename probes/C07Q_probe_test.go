package main

import (
	"strings"
	"testing"

	lang "github.com/alligator/jqawk/src"
)

// A long-running loop whose iterations leave with continue / break / return
// must run to completion and execute every statement in the documented order,
// however many iterations there are.
func TestDemoC07Q(t *testing.T) {
	prog := `
		function first_big(a) {
			for (x in a) {
				if (x > 1) {
					return x
				}
			}
			return 0
		}

		BEGIN {
			kept = 0
			skipped = 0
			sum = 0
			for (i = 0; i < 90000; i++) {
				if (i % 3 == 0) {
					skipped++
					continue
				}
				j = 0
				while (true) {
					j++
					if (j == 2) break
				}
				sum += first_big([1, 2, 3]) + j
				kept++
				if (i % 30000 == 1) print "at", i
			}
			print "kept", kept, "skipped", skipped, "sum", sum
		}

		{
			if ($ == 2) next
			print "item", $
		}

		END { print "end" }
	`
	expected := "at 1\nat 30001\nat 60001\nkept 60000 skipped 30000 sum 240000\nitem 1\nitem 3\nend\n"

	files := []lang.InputFile{{Name: "<demo>", Reader: strings.NewReader("[1, 2, 3]")}}
	var demoC07QOut strings.Builder
	_, err := lang.EvalProgram(prog, files, nil, &demoC07QOut, false)
	if err != nil {
		t.Fatalf("the program is valid and must run to completion, got error %q after output %q", err.Error(), demoC07QOut.String())
	}
	if demoC07QOut.String() != expected {
		t.Fatalf("statement trace differs\nexpected %q\ngot      %q", expected, demoC07QOut.String())
	}
}
