package main

import (
	"strings"
	"testing"

	lang "github.com/alligator/jqawk/src"
)

// A zero-padded directive followed, in the same format string, by directives
// whose width is written without a leading 0: those must be padded with spaces.
func TestDemoC18A(t *testing.T) {
	cases := []struct {
		prog     string
		expected string
	}{
		// zero pad then space pad on the left
		{`BEGIN { printf("%05f|%5s|", 42, "ab") }`, "00042|   ab|"},
		// zero pad then space pad on the right (negative width)
		{`BEGIN { printf("%03f|%-4s|%4v|", 7, "x", 1) }`, "007|x   |   1|"},
		// a second printf call starts fresh either way
		{`BEGIN { printf("%04f|", 1); printf("%4f|", 1) }`, "0001|   1|"},
	}

	for _, tc := range cases {
		var sb strings.Builder
		_, err := lang.EvalProgram(tc.prog, nil, nil, &sb, false)
		if err != nil {
			t.Fatalf("%s: unexpected error: %v", tc.prog, err)
		}
		if sb.String() != tc.expected {
			t.Errorf("%s:\nexpected %q\n     got %q", tc.prog, tc.expected, sb.String())
		}
	}
}
