package main

import (
	"strings"
	"testing"

	lang "github.com/alligator/jqawk/src"
)

// print must write top-level strings raw and nested strings / keys merely
// wrapped in double quotes, for ALL strings -- including ones that contain a
// percent sign.
func demoC17QRun(t *testing.T, prog string, input string) string {
	t.Helper()
	files := []lang.InputFile{{Name: "<demo>", Reader: strings.NewReader(input)}}
	var sb strings.Builder
	if _, err := lang.EvalProgram(prog, files, nil, &sb, false); err != nil {
		t.Fatalf("program %q failed: %v", prog, err)
	}
	return sb.String()
}

func TestDemoC17Q(t *testing.T) {
	cases := []struct {
		prog, input, want string
	}{
		// top-level strings are written raw
		{`BEGIN { print "100%" }`, `[]`, "100%\n"},
		{`BEGIN { print "rate", "50% off", 3 }`, `[]`, "rate 50% off 3\n"},
		{`BEGIN { print "a%%b" }`, `[]`, "a%%b\n"},
		{`BEGIN { print "%s and %d" }`, `[]`, "%s and %d\n"},
		// nested strings and keys are the string between double quotes
		{`BEGIN { print ["%v", 1] }`, `[]`, "[\"%v\", 1]\n"},
		{`{ print }`, `[{"cpu%": 12.5, "note": "up 3%"}]`, "{\"cpu%\": 12.5, \"note\": \"up 3%\"}\n"},
		// a rule without a body prints $ the same way
		{`$ ~ "%"`, `["5%", "none", "%x"]`, "5%\n%x\n"},
	}
	for _, c := range cases {
		got := demoC17QRun(t, c.prog, c.input)
		if got != c.want {
			t.Errorf("program %s on %s\n  printed %q\n  want    %q", c.prog, c.input, got, c.want)
		}
	}
}
