package main

import (
	"strings"
	"testing"

	lang "github.com/alligator/jqawk/src"
)

// exit "immediately exits the program", also when it is executed inside a
// loop inside a function that a pattern rule called: no later statement of
// any rule (remaining items, ENDFILE, further input, END) may run after it.
func TestDemoC07R(t *testing.T) {
	prog := `
		function scan(row) {
			for (v, i in row) {
				while (true) {
					if (v < 0) {
						print "stop at", i
						exit
					}
					break
				}
				print "ok", v
			}
			return row.length()
		}

		BEGINFILE { print "beginfile", $file }

		{
			print "row", $index
			n = scan($)
			print "scanned", n
		}

		{ print "second rule", $index }

		ENDFILE { print "endfile", $file }

		END { print "end" }
	`
	expected := "beginfile one\n" +
		"row 0\nok 1\nok 2\nscanned 2\nsecond rule 0\n" +
		"row 1\nok 3\nstop at 1\n"

	files := []lang.InputFile{
		{Name: "one", Reader: strings.NewReader("[[1, 2], [3, -1, 4], [5]]")},
		{Name: "two", Reader: strings.NewReader("[[6]]")},
	}
	var demoC07ROut strings.Builder
	_, err := lang.EvalProgram(prog, files, nil, &demoC07ROut, false)
	if err != nil {
		t.Fatalf("unexpected error %q", err.Error())
	}
	if demoC07ROut.String() != expected {
		t.Fatalf("statements ran after exit (or in the wrong order)\nexpected %q\ngot      %q", expected, demoC07ROut.String())
	}
}
