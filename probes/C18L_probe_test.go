package main

import (
	"strings"
	"testing"

	lang "github.com/alligator/jqawk/src"
)

// printf writes exactly the expanded format: %% becomes one percent sign, and
// a percent sign that arrives through an argument rendering is written as it
// is. Nothing reinterprets the assembled text before it reaches the output.
func TestDemoC18L(t *testing.T) {
	cases := []struct {
		prog     string
		json     string
		expected string
	}{
		// %% in the middle, before a letter, and at the very end of the format
		{`BEGIN { printf("%f%% done\n", 50) }`, "", "50% done\n"},
		{`BEGIN { printf("100%%") }`, "", "100%"},
		{`BEGIN { printf("%%s|%%%s|\n", "x") }`, "", "%s|%x|\n"},
		// a percent sign inside the renderings of %s and %v arguments
		{`{ printf("%-6s|%v|\n", $.rate, $) }`, `[{"rate": "5%d"}]`, "5%d   |{\"rate\": \"5%d\"}|\n"},
		// no percent sign anywhere in the output: unaffected
		{`BEGIN { printf("%s %f %v\n", "a", 1, [1, "b"]) }`, "", "a 1 [1, \"b\"]\n"},
	}

	for _, tc := range cases {
		files := []lang.InputFile{}
		if tc.json != "" {
			files = append(files, lang.InputFile{Name: "<demo>", Reader: strings.NewReader(tc.json)})
		}
		var sb strings.Builder
		_, err := lang.EvalProgram(tc.prog, files, nil, &sb, false)
		if err != nil {
			t.Fatalf("%s: unexpected error %v", tc.prog, err)
		}
		if sb.String() != tc.expected {
			t.Errorf("%s:\nexpected %q\ngot      %q", tc.prog, tc.expected, sb.String())
		}
	}
}
