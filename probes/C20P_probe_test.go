package main

import (
	"fmt"
	"strings"
	"testing"

	lang "github.com/alligator/jqawk/src"
)

// Extending an array to an index far beyond the fill limit has to be refused
// with an ordinary runtime error, for every way of reaching the array: also
// when the array does not exist yet and is created, as a member of an object
// or of another array, by the very assignment that indexes it.
func TestDemoC20P(t *testing.T) {
	run := func(prog string) (out string, err error, crash interface{}) {
		var sb strings.Builder
		defer func() {
			if r := recover(); r != nil {
				out, crash = sb.String(), r
			}
		}()
		_, err = lang.EvalProgram(prog, nil, nil, &sb, false)
		return sb.String(), err, nil
	}

	// small indices create and fill the missing array
	out, err, crash := run(`BEGIN { o = {}; o.x[3] = 1; o.y[1][2] = 5; print o }`)
	if crash != nil || err != nil {
		t.Fatalf("small index: unexpected failure: err=%v crash=%v", err, crash)
	}
	if out != "{\"x\": [null, null, null, 1], \"y\": [null, [null, null, 5]]}\n" {
		t.Fatalf("small index: unexpected output %q", out)
	}

	// huge indices are refused, whatever the array is a member of
	targets := []string{
		"a = []; a[%s] = 1",     // an array that exists
		"u[%s] = 1",             // an unset variable
		"o = {}; o.x[%s] = 1",   // a missing member of an object
		"o = {}; o.x.y[%s] = 1", // a missing member of a missing member
		"a = []; a[2][%s] = 1",  // a missing element of an array
		"o = {}; o.x[%s].k = 1", // the huge index in the middle of the chain
		"o = {}; o.x[%s]++",     // through an increment
	}
	indices := []string{
		"1000000000000000",    // 1e15
		"4000000000000000000", // 4e18, still an int64
		"2000000",             // just beyond the limit
	}
	for _, target := range targets {
		for _, index := range indices {
			prog := `BEGIN { print "start"; ` + fmt.Sprintf(target, index) + `; print "not reached" }`
			out, err, crash := run(prog)
			if crash != nil {
				t.Fatalf("%s: crashed instead of reporting an error: %v", prog, crash)
			}
			if err == nil {
				t.Fatalf("%s: expected an error, output %q", prog, out)
			}
			rtErr, ok := err.(lang.RuntimeError)
			if !ok {
				t.Fatalf("%s: expected a runtime error, got %T: %v", prog, err, err)
			}
			if rtErr.Message != "index too large to auto-fill array" {
				t.Fatalf("%s: unexpected error message %q", prog, rtErr.Message)
			}
			if out != "start\n" {
				t.Fatalf("%s: output before the error should be kept and nothing else printed, got %q", prog, out)
			}
		}
	}
}
