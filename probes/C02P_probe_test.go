package main

import (
	"strconv"
	"strings"
	"testing"

	lang "github.com/alligator/jqawk/src"
)

// `next` abandons the remaining rules for the current element only: the
// elements that follow are processed exactly as if it had never happened,
// however many times it is used and wherever in a rule it sits.
func TestDemoC02P(t *testing.T) {
	run := func(prog string, input string) (string, error) {
		files := []lang.InputFile{{Name: "<in>", Reader: strings.NewReader(input)}}
		var sb strings.Builder
		_, err := lang.EvalProgram(prog, files, nil, &sb, false)
		return sb.String(), err
	}

	// 1. sanity: next from a match case skips the rest of the rules for that
	// element and nothing else
	got, err := run(`
		{ match ($ % 2) { 0 => { next } } }
		{ print $index, $ }
		END { print "done" }
	`, `[1, 2, 3, 4, 5]`)
	if err != nil {
		t.Fatalf("short input: unexpected error: %v", err)
	}
	if want := "0 1\n2 3\n4 5\ndone\n"; got != want {
		t.Errorf("short input:\n got %q\nwant %q", got, want)
	}

	// 2. a long input: every element is still visited, the ones that follow
	// the many skipped ones included, and END runs
	const n = 12000
	var in strings.Builder
	in.WriteByte('[')
	for i := 0; i < n; i++ {
		if i > 0 {
			in.WriteByte(',')
		}
		in.WriteString(strconv.Itoa(i))
	}
	in.WriteByte(']')
	got, err = run(`
		{ match ($ % 2) { 0 => { next } } }
		{ odd++; last = $index }
		END { print odd, last }
	`, in.String())
	if err != nil {
		t.Errorf("long input: the run failed: %v (output so far %q)", err, got)
	} else if want := "6000 11999\n"; got != want {
		t.Errorf("long input:\n got %q\nwant %q", got, want)
	}

	// 3. the names a match case binds are gone once the case is left, also
	// when it is left with next: the following elements see the global again
	got, err = run(`
		BEGIN { k = "global" }
		{ match ($) { [k, v] => { if (v < 0) { next } } } }
		{ print $index, k }
	`, `[["a", 1], ["b", -1], ["c", 2], ["d", -2], ["e", 3]]`)
	if err != nil {
		t.Fatalf("bindings: unexpected error: %v", err)
	}
	if want := "0 global\n2 global\n4 global\n"; got != want {
		t.Errorf("bindings:\n got %q\nwant %q", got, want)
	}
}
