package main

import (
	"strings"
	"testing"

	lang "github.com/alligator/jqawk/src"
)

func runDemoC16D(prog string, json string) (string, error) {
	var sb strings.Builder
	files := []lang.InputFile{{Name: "<demo>", Reader: strings.NewReader(json)}}
	_, err := lang.EvalProgram(prog, files, nil, &sb, false)
	return sb.String(), err
}

// o.pluck(...) returns a new object and leaves o unchanged: afterwards o still
// has all its keys and values, and it is still an ordinary object whose
// length() counts its keys and which can be plucked again.
func TestDemoC16D(t *testing.T) {
	cases := []struct {
		name string
		prog string
		json string
		want string
	}{
		{
			name: "variable plucked, then used again",
			prog: `BEGIN {
				o = { a: 1, b: 2, c: 3 }
				p = o.pluck("a", "zz")
				print p
				print o
				print o.length()
				print o.pluck("b", "a", "b")
				print p.length()
			}`,
			json: "[]",
			want: "{\"a\": 1, \"zz\": null}\n" +
				"{\"a\": 1, \"b\": 2, \"c\": 3}\n" +
				"3\n" +
				"{\"a\": 1, \"b\": 2}\n" +
				"2\n",
		},
		{
			name: "record plucked, then measured",
			prog: `{ small = $.pluck("id"); print small, $.length() }`,
			json: `[{ "id": 1, "name": "x", "tags": [] }, { "id": 2 }]`,
			want: "{\"id\": 1} 3\n{\"id\": 2} 1\n",
		},
		{
			name: "pluck with no keys",
			prog: `BEGIN { o = { k: "v" }; e = o.pluck(); print e, e.length(), o.length() }`,
			json: "[]",
			want: "{} 0 1\n",
		},
	}

	for _, tc := range cases {
		out, err := runDemoC16D(tc.prog, tc.json)
		if err != nil {
			t.Errorf("%s: unexpected error %q (output so far %q)", tc.name, err.Error(), out)
			continue
		}
		if out != tc.want {
			t.Errorf("%s:\n got  %q\n want %q", tc.name, out, tc.want)
		}
	}
}
