package main

import (
	"encoding/json"
	"os"
	"os/exec"
	"path/filepath"
	"reflect"
	"testing"
)

// TestDemoC04F: what `-o FILE` leaves in FILE must be valid JSON equal to the
// document, whatever FILE held before the run: a longer result of an earlier
// run, or the input itself when a file is rewritten in place and the
// re-serialised text is shorter than the original text (wider indentation,
// \uXXXX escapes that are written back as plain characters).
func TestDemoC04F(t *testing.T) {
	dir := t.TempDir()
	exe := filepath.Join(dir, "jqawk-demo")
	build := exec.Command("go", "build", "-o", exe, ".")
	if out, err := build.CombinedOutput(); err != nil {
		t.Fatalf("building jqawk: %v\n%s", err, out)
	}

	run := func(t *testing.T, args ...string) {
		t.Helper()
		cmd := exec.Command(exe, args...)
		cmd.Stdin = nil
		if out, err := cmd.CombinedOutput(); err != nil {
			t.Fatalf("jqawk %v: %v\n%s", args, err, out)
		}
	}

	check := func(t *testing.T, path string, wantSrc string) {
		t.Helper()
		var want, got interface{}
		if err := json.Unmarshal([]byte(wantSrc), &want); err != nil {
			t.Fatal(err)
		}
		written, err := os.ReadFile(path)
		if err != nil {
			t.Fatal(err)
		}
		if err := json.Unmarshal(written, &got); err != nil {
			t.Fatalf("-o wrote invalid JSON: %v\n%s", err, written)
		}
		if !reflect.DeepEqual(got, want) {
			t.Fatalf("-o wrote a different value\n got: %s\nwant: %s", written, wantSrc)
		}
	}

	t.Run("fresh output file", func(t *testing.T) {
		in := filepath.Join(dir, "a.json")
		out := filepath.Join(dir, "a.out.json")
		doc := `{"rows": [{"id": 1}, {"id": 2}, {"id": 3}], "empty": [], "none": {}}`
		if err := os.WriteFile(in, []byte(doc), 0644); err != nil {
			t.Fatal(err)
		}
		run(t, "-o", out, "{ n++ }", in)
		check(t, out, doc)
	})

	t.Run("output file holds a longer earlier result", func(t *testing.T) {
		big := filepath.Join(dir, "big.json")
		small := filepath.Join(dir, "small.json")
		out := filepath.Join(dir, "b.out.json")
		bigDoc := `[{"name": "alpha", "tags": ["x", "y", "z"]}, {"name": "beta", "tags": []}, {"name": "gamma", "tags": ["w"]}]`
		smallDoc := `[{"name": "alpha", "tags": []}]`
		if err := os.WriteFile(big, []byte(bigDoc), 0644); err != nil {
			t.Fatal(err)
		}
		if err := os.WriteFile(small, []byte(smallDoc), 0644); err != nil {
			t.Fatal(err)
		}
		run(t, "-o", out, "{ n++ }", big)
		check(t, out, bigDoc)
		// same command again, the data has shrunk in the meantime
		run(t, "-o", out, "{ n++ }", small)
		check(t, out, smallDoc)
	})

	t.Run("rewriting the input in place", func(t *testing.T) {
		path := filepath.Join(dir, "c.json")
		// 8-space indentation and \u escapes: the 2-space re-serialisation
		// of the same value is shorter than this text
		doc := "{\n        \"caf\\u00e9\": [\n                1,\n                2\n        ],\n        \"s\": \"\\u00fc\\u00f6\"\n}\n"
		if err := os.WriteFile(path, []byte(doc), 0644); err != nil {
			t.Fatal(err)
		}
		run(t, "-o", path, "{ n++ }", path)
		check(t, path, doc)
	})
}
