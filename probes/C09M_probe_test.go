package main

import (
	"strings"
	"testing"

	lang "github.com/alligator/jqawk/src"
)

// Assigning to one variable changes exactly that variable. Here the variables
// are parameters that the caller left out (the awk idiom of declaring extra
// parameters to get local scratch variables): each of them starts out null and
// must be a location of its own, so a store to one of them must not show up in
// the others, and must not show up in a later call either.
func TestDemoC09M(t *testing.T) {
	prog := `
		function tally(list, count, total, last) {
			for (v in list) {
				count++
				total += v
				last = v
			}
			return [count, total, last]
		}

		function one(p, q) {
			q = 'set'
			return p
		}

		BEGIN {
			print tally([5, 7, 9])
			print tally([])
			print one()
			print one(1)
			print one(1, 2)
		}

		{
			print tally($.xs)
		}
	`
	input := `{"xs": [1, 2, 3]}`
	expected := strings.Join([]string{
		"[3, 21, 9]",
		"[null, null, null]",
		"null",
		"1",
		"1",
		"[3, 6, 3]",
		"",
	}, "\n")

	var sb strings.Builder
	files := []lang.InputFile{{Name: "demo.json", Reader: strings.NewReader(input)}}
	_, err := lang.EvalProgram(prog, files, nil, &sb, false)
	if err != nil {
		t.Fatalf("unexpected error: %v (output so far %q)", err, sb.String())
	}
	if sb.String() != expected {
		t.Fatalf("parameters omitted by the caller are not independent locations\nexpected:\n%s\ngot:\n%s", expected, sb.String())
	}
}
