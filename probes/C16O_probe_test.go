package main

import (
	"os"
	"os/exec"
	"strings"
	"testing"

	lang "github.com/alligator/jqawk/src"
)

// floor, ceil and round must work on every number, including the integers the
// interpreter builds itself (string/object/array lengths, $index, loop indices,
// results of %), no matter what the process has evaluated before.
//
// The property depends on process-wide state (the lazily built number
// prototype), so the checks run in a fresh copy of the test binary in which
// nothing else has been evaluated yet. Running the checks in-process after the
// rest of the suite would hide the history dependence.
func TestDemoC16O(t *testing.T) {
	if os.Getenv("JQAWK_DEMO_C16O_CHILD") != "1" {
		cmd := exec.Command(os.Args[0], "-test.run=^TestDemoC16O$", "-test.count=1", "-test.v")
		cmd.Env = append(os.Environ(), "JQAWK_DEMO_C16O_CHILD=1")
		out, err := cmd.CombinedOutput()
		if err != nil {
			t.Fatalf("checks failed in a fresh process: %v\n%s", err, out)
		}
		if !strings.Contains(string(out), "PASS") {
			t.Fatalf("fresh process did not report PASS:\n%s", out)
		}
		return
	}

	cases := []struct {
		name     string
		prog     string
		json     string
		expected string
	}{
		{
			// a string length is the first number this process ever builds
			name:     "floor/ceil/round of a string length",
			prog:     `BEGIN { s = "héllo"; print s.length().floor(), s.length().ceil(), s.length().round() }`,
			json:     "",
			expected: "6 6 6\n",
		},
		{
			// input without a single JSON number
			name:     "round of a length and ceil of $index on number-free input",
			prog:     `{ print $.name.length().round(), $index.ceil() }`,
			json:     `[{"name": "ab"}, {"name": "xyz"}]`,
			expected: "2 0\n3 1\n",
		},
		{
			name:     "floor of an object length and of a loop index",
			prog:     `{ print $.length().floor(); for (v, i in $.list) print i.floor(), v }`,
			json:     `{"list": ["x", "y"], "k": null}`,
			expected: "2\n0 x\n1 y\n",
		},
	}

	for _, tc := range cases {
		files := make([]lang.InputFile, 0)
		if tc.json != "" {
			files = append(files, lang.InputFile{Name: "<demo>", Reader: strings.NewReader(tc.json)})
		}
		var sb strings.Builder
		_, err := lang.EvalProgram(tc.prog, files, nil, &sb, false)
		if err != nil {
			t.Errorf("%s: unexpected error: %v", tc.name, err)
			continue
		}
		if sb.String() != tc.expected {
			t.Errorf("%s: expected %q, got %q", tc.name, tc.expected, sb.String())
		}
	}
}
