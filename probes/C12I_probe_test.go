package main

import (
	"io"
	"strings"
	"testing"

	lang "github.com/alligator/jqawk/src"
)

// An invalid assignment target is a fault confined to one line. Whatever form
// the assignment takes (=, +=, postfix or PREFIX ++/--), the syntax error must
// be reported on the line holding the construct, quote exactly that line, and
// its 0-based byte column must fall inside the construct.
func TestDemoC12I(t *testing.T) {
	type tc struct {
		name      string
		prog      string
		construct string // the offending construct, occurs once in prog
	}
	cases := []tc{
		// controls: the operator follows the target
		{"assign", "BEGIN {\n  x = 1;\n  5 = x\n  print x\n}\n", "5 = x"},
		{"compound", "BEGIN {\n  x = 1;\n  (x + 1) += 2\n  print x\n}\n", "(x + 1) += 2"},
		{"postfix", "BEGIN {\n  x = 1;\n  5++\n  print x\n}\n", "5++"},
		// prefix forms, the operand is the last thing on its line
		{"prefix first in block", "BEGIN {\n  ++5\n  print 1\n}\n", "++5"},
		{"prefix after semicolon", "BEGIN {\n  x = 1;\n  --(x + 1)\n  print x\n}\n", "--(x + 1)"},
		{"prefix, comment and blank line follow", "# é\r\nBEGIN {\r\n  ++f()   # bump\r\n\r\n  print 1\r\n}\r\n", "++f()"},
		{"prefix, last line of program", "BEGIN { x = 1 }\nEND { ++'s' }", "++'s'"},
	}

	for _, c := range cases {
		_, err := lang.EvalProgram(c.prog, nil, nil, io.Discard, false)
		serr, ok := err.(lang.SyntaxError)
		if !ok {
			t.Errorf("%s: expected a SyntaxError, got %#v", c.name, err)
			continue
		}
		if serr.Message != "invalid assignment" {
			t.Errorf("%s: unexpected message %q", c.name, serr.Message)
			continue
		}

		start := strings.Index(c.prog, c.construct)
		if start < 0 || strings.Count(c.prog, c.construct) != 1 {
			t.Fatalf("%s: bad test case", c.name)
		}
		wantLine := 1 + strings.Count(c.prog[:start], "\n")
		lineStart := strings.LastIndex(c.prog[:start], "\n") + 1
		lineEnd := len(c.prog)
		if i := strings.Index(c.prog[lineStart:], "\n"); i >= 0 {
			lineEnd = lineStart + i
		}
		wantSrcLine := c.prog[lineStart:lineEnd]
		colLo := start - lineStart
		colHi := colLo + len(c.construct)

		if serr.Line != wantLine {
			t.Errorf("%s: error reported on line %d (%q), the fault is on line %d (%q)",
				c.name, serr.Line, serr.SrcLine, wantLine, wantSrcLine)
			continue
		}
		if serr.SrcLine != wantSrcLine {
			t.Errorf("%s: quoted line %q is not line %d of the program (%q)", c.name, serr.SrcLine, wantLine, wantSrcLine)
		}
		if serr.Col < colLo || serr.Col >= colHi {
			t.Errorf("%s: column %d is outside the offending construct %q at [%d,%d)", c.name, serr.Col, c.construct, colLo, colHi)
		}
	}
}
