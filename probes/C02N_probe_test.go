package main

import (
	"strings"
	"testing"

	lang "github.com/alligator/jqawk/src"
)

// every BEGIN rule and every END rule starts with $ null, whatever an earlier
// BEGIN or END rule did to its own $
func TestDemoC02N(t *testing.T) {
	prog := `
		BEGIN { $ = "scratch"; print "begin-1", $ }
		BEGIN { print "begin-2", $ }
		BEGINFILE { print "beginfile", $file, $ }
		{ print "item", $ }
		ENDFILE { print "endfile", $file, $ }
		END { print "end-1", $; $ = 42 }
		END { print "end-2", $ }
		END
	`
	files := []lang.InputFile{
		{Name: "a.json", Reader: strings.NewReader(`[1, 2]`)},
		{Name: "b.json", Reader: strings.NewReader(`{"k": 3}`)},
	}
	var sb strings.Builder
	_, err := lang.EvalProgram(prog, files, nil, &sb, false)
	if err != nil {
		t.Fatalf("unexpected error %q", err.Error())
	}
	want := "begin-1 scratch\n" +
		"begin-2 null\n" +
		"beginfile a.json [1, 2]\n" +
		"item 1\n" +
		"item 2\n" +
		"endfile a.json [1, 2]\n" +
		"beginfile b.json {\"k\": 3}\n" +
		"item {\"k\": 3}\n" +
		"endfile b.json {\"k\": 3}\n" +
		"end-1 null\n" +
		"end-2 null\n" +
		"null\n"
	if sb.String() != want {
		t.Fatalf("want %q\ngot  %q", want, sb.String())
	}
}
