package main

import (
	"strings"
	"testing"

	lang "github.com/alligator/jqawk/src"
)

// o.pluck(k1, ...) returns a new object holding exactly the requested keys,
// with null for the keys o does not have. That has to hold for every object,
// the empty one included.
func TestDemoC16G(t *testing.T) {
	run := func(prog string, input string) string {
		t.Helper()
		var sb strings.Builder
		files := []lang.InputFile{}
		if input != "" {
			files = append(files, lang.InputFile{Name: "<demo>", Reader: strings.NewReader(input)})
		}
		if _, err := lang.EvalProgram(prog, files, nil, &sb, false); err != nil {
			t.Fatalf("program %q failed: %v", prog, err)
		}
		return sb.String()
	}

	cases := []struct {
		prog     string
		input    string
		expected string
	}{
		// sanity: absent keys of a non-empty object become null
		{
			prog:     `BEGIN { o = {a: 1}; p = o.pluck("a", "b"); print p, p.length(), o }`,
			expected: "{\"a\": 1, \"b\": null} 2 {\"a\": 1}\n",
		},
		// an empty object literal
		{
			prog:     `BEGIN { o = {}; p = o.pluck("a", "b"); print p, p.length(), o }`,
			expected: "{\"a\": null, \"b\": null} 2 {}\n",
		},
		// empty objects arriving in the input, among non-empty ones
		{
			prog:     `{ print $.pluck("id", "name") }`,
			input:    `[{"id": 1, "name": "x", "z": 0}, {}, {"name": "y"}]`,
			expected: "{\"id\": 1, \"name\": \"x\"}\n{\"id\": null, \"name\": null}\n{\"id\": null, \"name\": \"y\"}\n",
		},
		// an object emptied by plucking nothing, then plucked again
		{
			prog:     `BEGIN { o = {a: 1}; e = o.pluck(); print e, e.pluck("a", "a").length() }`,
			expected: "{} 1\n",
		},
	}

	for _, tc := range cases {
		got := run(tc.prog, tc.input)
		if got != tc.expected {
			t.Errorf("program %q\n got:      %q\n expected: %q", tc.prog, got, tc.expected)
		}
	}
}
