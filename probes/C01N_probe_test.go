package main

import (
	"strings"
	"testing"

	lang "github.com/alligator/jqawk/src"
)

func demoC01NRun(prog string, input string) (out string, err error, panicked interface{}) {
	defer func() {
		if r := recover(); r != nil {
			panicked = r
		}
	}()
	var sb strings.Builder
	files := []lang.InputFile{{Name: "<demo>", Reader: strings.NewReader(input)}}
	_, err = lang.EvalProgram(prog, files, nil, &sb, false)
	return sb.String(), err, nil
}

// next, exit and return are internal control-flow signals: wherever they are
// executed they end the record, the run or the function, and never reach the
// caller of EvalProgram as an error. Here they are executed while the iterable
// of a for-in loop is being evaluated (in a helper function the iterable
// calls, or in a match body that is the iterable).
func TestDemoC01N(t *testing.T) {
	cases := []struct {
		name     string
		prog     string
		input    string
		expected string
	}{
		{
			name: "next in a helper called by the iterable",
			prog: `
				function rows(o) {
					if (o.skip) next
					return o.rows
				}
				{ for (r in rows($)) print r }
				END { print 'done' }
			`,
			input:    `[{"rows": [1, 2]}, {"skip": true, "rows": [3]}, {"rows": [4]}]`,
			expected: "1\n2\n4\ndone\n",
		},
		{
			name: "exit in a helper called by the iterable",
			prog: `
				function rows(o) {
					if (o.stop) exit
					return o.rows
				}
				{ for (r in rows($)) print r }
			`,
			input:    `[{"rows": [1, 2]}, {"stop": true}, {"rows": [4]}]`,
			expected: "1\n2\n",
		},
		{
			name: "return in a match body that is the iterable",
			prog: `
				function first(list) {
					for (x in match (list) { [] => { return 'none' }, l => l }) {
						return x
					}
				}
				{ print first($) }
			`,
			input:    `[[7, 8], []]`,
			expected: "7\nnone\n",
		},
	}

	for _, tc := range cases {
		out, err, panicked := demoC01NRun(tc.prog, tc.input)
		if panicked != nil {
			t.Fatalf("%s: the run ended in a panic: %v", tc.name, panicked)
		}
		if err != nil {
			t.Fatalf("%s: a control-flow signal surfaced as an error: %#v", tc.name, err)
		}
		if out != tc.expected {
			t.Fatalf("%s: expected output %q, got %q", tc.name, tc.expected, out)
		}
	}
}
