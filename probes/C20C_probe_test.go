package main

import (
	"strings"
	"testing"

	lang "github.com/alligator/jqawk/src"
)

// Recursion that passes through a match body on every level must be stopped by
// the call depth limit exactly like direct recursion: a chain of 6000 calls
// (well beyond the limit of 4096 frames) has to end in an ordinary runtime
// error, with the output printed before it kept, while a chain of 1000 calls of
// the same shape works.
//
// The recursion used here is bounded (it would stop by itself after n levels),
// so the test never exhausts the Go stack, whatever the interpreter does.
func runDemoC20C(t *testing.T, depth string) (string, error) {
	t.Helper()
	prog := `
		function down(n) {
			return match (n) {
				0 => 0,
				m => 1 + down(m - 1),
			}
		}
		BEGIN {
			print 'start';
			print down(` + depth + `);
			print 'done';
		}
	`
	var sb strings.Builder
	_, err := lang.EvalProgram(prog, nil, nil, &sb, false)
	return sb.String(), err
}

func TestDemoC20C(t *testing.T) {
	// well below the limit: works normally
	out, err := runDemoC20C(t, "1000")
	if err != nil {
		t.Fatalf("recursion 1000 deep through a match body failed: %v", err)
	}
	if out != "start\n1000\ndone\n" {
		t.Fatalf("recursion 1000 deep: unexpected output %q", out)
	}

	// beyond the limit: refused with a runtime error, prior output kept
	out, err = runDemoC20C(t, "6000")
	if err == nil {
		t.Fatalf("recursion 6000 deep through a match body was not refused, output %q", out)
	}
	rtErr, ok := err.(lang.RuntimeError)
	if !ok {
		t.Fatalf("expected a lang.RuntimeError, got %T: %v", err, err)
	}
	if !strings.Contains(rtErr.Message, "call depth limit exceeded") {
		t.Fatalf("unexpected error message %q", rtErr.Message)
	}
	if out != "start\n" {
		t.Fatalf("output before the error was not kept intact: %q", out)
	}
}
