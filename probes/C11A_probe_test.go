package main

import (
	"strings"
	"testing"

	lang "github.com/alligator/jqawk/src"
)

// A `return` outside of a function is a syntax error wherever it appears in
// the program text, in particular in a rule that FOLLOWS a function
// definition. The whole program must be rejected before anything runs: no
// output at all and a lang.SyntaxError.
func TestDemoC11A(t *testing.T) {
	progs := []string{
		// stray return in a BEGIN rule after a function definition
		`function id(x) { return x }
		 BEGIN { print "before"; return; print "after" }`,
		// stray return in a pattern rule, valid rules in between
		`BEGIN { print "start" }
		 function id(x) { return x }
		 { print id($) }
		 $ > 1 { print "big"; return }`,
		// control: no function at all
		`BEGIN { print "before"; return }`,
	}

	for i, prog := range progs {
		var sb strings.Builder
		files := []lang.InputFile{{Name: "<demo>", Reader: strings.NewReader("[1, 2, 3]")}}
		_, err := lang.EvalProgram(prog, files, nil, &sb, false)

		if err == nil {
			t.Fatalf("prog %d: expected a syntax error, got none (output %q)", i, sb.String())
		}
		synErr, ok := err.(lang.SyntaxError)
		if !ok {
			t.Fatalf("prog %d: expected a lang.SyntaxError, got %T %q (output %q)", i, err, err.Error(), sb.String())
		}
		if synErr.Message != "can only return inside a function" {
			t.Fatalf("prog %d: unexpected syntax error %q", i, synErr.Message)
		}
		if sb.String() != "" {
			t.Fatalf("prog %d: a program with a syntax error must print nothing, got %q", i, sb.String())
		}
	}
}
