package main

import (
	"strings"
	"testing"

	lang "github.com/alligator/jqawk/src"
)

// demoC15QRun evaluates prog over the given JSON document and returns what it printed.
func demoC15QRun(t *testing.T, prog string, json string) string {
	t.Helper()
	files := []lang.InputFile{{Name: "<demoC15Q>", Reader: strings.NewReader(json)}}
	var sb strings.Builder
	if _, err := lang.EvalProgram(prog, files, nil, &sb, false); err != nil {
		t.Fatalf("unexpected error: %v", err)
	}
	return sb.String()
}

// sort returns a sorted COPY and leaves the original untouched: index writes
// (and ++) applied to the copy afterwards must behave like writes to an
// independent ideal list, i.e. the array sort was invoked on keeps its contents.
func TestDemoC15Q(t *testing.T) {
	cases := []struct {
		name, prog, json, want string
	}{
		{
			name: "write into the sorted copy of a variable",
			prog: `BEGIN {
				s = [3, 1, 2]
				t = s.sort()
				print s, t
				t[0] = 99
				print s, t
				t[-1]++
				print s, t
				print s.contains(99), s.length(), s.pop(), s
			}`,
			json: `[]`,
			want: "[3, 1, 2] [1, 2, 3]\n" +
				"[3, 1, 2] [99, 2, 3]\n" +
				"[3, 1, 2] [99, 2, 4]\n" +
				"false 3 2 [3, 1]\n",
		},
		{
			name: "write into the sorted copy of an array inside the document",
			prog: `{
				t = $.names.sort()
				t[0] = "zed"
				print $.names, t
			}`,
			json: `[{"names": ["carol", "alice", "bob"]}]`,
			want: "[\"carol\", \"alice\", \"bob\"] [\"zed\", \"bob\", \"carol\"]\n",
		},
	}
	for _, c := range cases {
		got := demoC15QRun(t, c.prog, c.json)
		if got != c.want {
			t.Errorf("%s: sort did not leave the original array untouched\n got:\n%s want:\n%s", c.name, got, c.want)
		}
	}
}
