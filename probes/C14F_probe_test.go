package main

import (
	"bytes"
	"os"
	"os/exec"
	"path/filepath"
	"strings"
	"testing"

	lang "github.com/alligator/jqawk/src"
)

// TestDemoC14F: a program given with -f behaves as the same text given inline.
// In particular `jqawk -f prog.jqawk file.json` reads file.json, exactly as
// `jqawk PROG file.json` does, whatever standard input happens to be (a pipe,
// /dev/null, as in a cron job or a CI step).
func TestDemoC14F(t *testing.T) {
	dir := t.TempDir()

	// build the command line tool from the package under test
	exe := filepath.Join(dir, "jqawk-demo")
	build := exec.Command("go", "build", "-o", exe, ".")
	if out, err := build.CombinedOutput(); err != nil {
		t.Fatalf("go build failed: %v\n%s", err, out)
	}

	prog := "{ n++; print $file, $.name } END { print n }"
	progPath := filepath.Join(dir, "prog.jqawk")
	if err := os.WriteFile(progPath, []byte(prog), 0o644); err != nil {
		t.Fatal(err)
	}

	input := `[{"name": "ann"}, {"name": "bob"}]`
	inPath := filepath.Join(dir, "in.json")
	if err := os.WriteFile(inPath, []byte(input), 0o644); err != nil {
		t.Fatal(err)
	}
	in2Path := filepath.Join(dir, "in2.json")
	if err := os.WriteFile(in2Path, []byte(`[{"name": "cy"}]`), 0o644); err != nil {
		t.Fatal(err)
	}

	// what the library produces for the program and the named file
	var want strings.Builder
	files := []lang.InputFile{{Name: inPath, Reader: strings.NewReader(input)}}
	if _, err := lang.EvalProgram(prog, files, nil, &want, false); err != nil {
		t.Fatal(err)
	}

	type result struct {
		stdout, stderr string
		ok             bool
	}
	run := func(stdin *string, args ...string) result {
		cmd := exec.Command(exe, args...)
		if stdin != nil {
			cmd.Stdin = strings.NewReader(*stdin) // a pipe
		} // else /dev/null
		var stdout, stderr bytes.Buffer
		cmd.Stdout = &stdout
		cmd.Stderr = &stderr
		err := cmd.Run()
		return result{stdout.String(), stderr.String(), err == nil}
	}

	other := `[{"name": "from stdin"}]`
	for _, tc := range []struct {
		name  string
		stdin *string
	}{
		{"stdin is /dev/null", nil},
		{"stdin is a pipe with other data", &other},
	} {
		t.Run(tc.name, func(t *testing.T) {
			inline := run(tc.stdin, prog, inPath)
			fromFile := run(tc.stdin, "-f", progPath, inPath)

			if !inline.ok || inline.stdout != want.String() {
				t.Fatalf("inline program: ok=%v\nexpected %q\ngot      %q\nstderr: %s",
					inline.ok, want.String(), inline.stdout, inline.stderr)
			}
			if !fromFile.ok || fromFile.stdout != want.String() {
				t.Fatalf("-f program differs from the inline program: ok=%v\nexpected %q\ngot      %q\nstderr: %s",
					fromFile.ok, want.String(), fromFile.stdout, fromFile.stderr)
			}

			// and -o accepts the single input file in both forms
			inlineJson := run(tc.stdin, "-o", "-", prog, inPath)
			fromFileJson := run(tc.stdin, "-o", "-", "-f", progPath, inPath)
			if !inlineJson.ok || !fromFileJson.ok || inlineJson.stdout != fromFileJson.stdout {
				t.Fatalf("-o -: -f program differs from the inline program\ninline (ok=%v): %q\n-f     (ok=%v): %q\nstderr: %s",
					inlineJson.ok, inlineJson.stdout, fromFileJson.ok, fromFileJson.stdout, fromFileJson.stderr)
			}
		})
	}

	// sanity: the neighbouring shapes agree too (no file: stdin; two files: both, in order)
	t.Run("neighbouring shapes", func(t *testing.T) {
		a := run(&input, prog)
		b := run(&input, "-f", progPath)
		if !a.ok || !b.ok || a.stdout != b.stdout {
			t.Fatalf("stdin only: inline %q (ok=%v), -f %q (ok=%v)", a.stdout, a.ok, b.stdout, b.ok)
		}
		c := run(&other, prog, inPath, in2Path)
		d := run(&other, "-f", progPath, inPath, in2Path)
		if !c.ok || !d.ok || c.stdout != d.stdout {
			t.Fatalf("two files: inline %q (ok=%v), -f %q (ok=%v)", c.stdout, c.ok, d.stdout, d.ok)
		}
	})
}
