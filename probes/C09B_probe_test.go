package main

import (
	"strings"
	"testing"

	lang "github.com/alligator/jqawk/src"
)

// Scalars (including null) are copied when they are passed as arguments. A
// parameter is a location of its own: later assignments to the caller's
// variable must not show through it, and assigning to the parameter (or to a
// container slot that received the argument) must change only that location,
// never the input document or another object.
func TestDemoC09B(t *testing.T) {
	run := func(prog string, json string) string {
		t.Helper()
		files := []lang.InputFile{{Name: "<demo>", Reader: strings.NewReader(json)}}
		var sb strings.Builder
		_, err := lang.EvalProgram(prog, files, nil, &sb, false)
		if err != nil {
			t.Fatalf("unexpected error running %q: %v", prog, err)
		}
		return sb.String()
	}

	// 1. an argument is a snapshot of the scalar at the time it was evaluated;
	// a later argument with a side effect on the same variable must not change it
	got := run(`
		function first(a, b) { return a }
		BEGIN {
			i = 1
			print first(i, i = 2), i
			n = 10
			print first(n, n++), n
		}`, ``)
	want := "1 2\n10 11\n"
	if got != want {
		t.Errorf("argument snapshot: got %q, want %q", got, want)
	}

	// 2. passing a missing member of the input and assigning to the parameter
	// must leave the input document unchanged
	got = run(`
		function dflt(p) { if (p == null) p = 'none'; return p }
		{ print dflt($.nick); print $ }`,
		`[{ "name": "gate" }]`)
	want = "none\n{\"name\": \"gate\"}\n"
	if got != want {
		t.Errorf("parameter assignment: got %q, want %q", got, want)
	}

	// 3. same through a native method: the pushed null is a fresh array slot,
	// assigning to that slot must not touch the object the null was read from
	got = run(`BEGIN { o = { a: 1 }; l = []; l.push(o.zip); l[0] = 5; print l, o }`, ``)
	want = "[5] {\"a\": 1}\n"
	if got != want {
		t.Errorf("pushed null: got %q, want %q", got, want)
	}
}
