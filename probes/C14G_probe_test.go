package main

import (
	"flag"
	"os"
	"path/filepath"
	"testing"

	cli "github.com/alligator/jqawk/cli"
)

// runCLIC14G runs the command line entry point in-process with the given
// arguments and returns the exit status and what was written to standard
// output. Standard input is an empty regular file (not a terminal).
func runCLIC14G(t *testing.T, args ...string) (int, string) {
	t.Helper()
	dir := t.TempDir()

	outPath := filepath.Join(dir, "stdout")
	outFile, err := os.Create(outPath)
	if err != nil {
		t.Fatal(err)
	}
	errFile, err := os.Create(filepath.Join(dir, "stderr"))
	if err != nil {
		t.Fatal(err)
	}
	inFile, err := os.Create(filepath.Join(dir, "stdin"))
	if err != nil {
		t.Fatal(err)
	}

	oldArgs, oldFlags := os.Args, flag.CommandLine
	oldIn, oldOut, oldErr := os.Stdin, os.Stdout, os.Stderr
	defer func() {
		os.Args, flag.CommandLine = oldArgs, oldFlags
		os.Stdin, os.Stdout, os.Stderr = oldIn, oldOut, oldErr
		inFile.Close()
		outFile.Close()
		errFile.Close()
	}()

	os.Args = append([]string{"jqawk"}, args...)
	flag.CommandLine = flag.NewFlagSet("jqawk", flag.ContinueOnError)
	os.Stdin, os.Stdout, os.Stderr = inFile, outFile, errFile

	code := cli.Run("demo")

	os.Stdout = oldOut
	outFile.Close()
	b, err := os.ReadFile(outPath)
	if err != nil {
		t.Fatal(err)
	}
	return code, string(b)
}

func TestDemoC14G(t *testing.T) {
	const input = `[{ "x": 1 }, { "x": 2 }]`
	const prog = `{ $.x++ }`

	dir := t.TempDir()
	data := filepath.Join(dir, "data.json")
	if err := os.WriteFile(data, []byte(input), 0o644); err != nil {
		t.Fatal(err)
	}

	// what -o - prints for this program and input
	code, want := runCLIC14G(t, "-o", "-", prog, data)
	if code != 0 {
		t.Fatalf("-o -: exit status %d, want 0", code)
	}
	if want == "" || want == "null" {
		t.Fatalf("-o -: unexpected JSON %q", want)
	}

	// -o FILE must write exactly those bytes, also when FILE is the file the
	// input is read from (rewriting a document in place)
	same := filepath.Join(dir, "same.json")
	if err := os.WriteFile(same, []byte(input), 0o644); err != nil {
		t.Fatal(err)
	}
	code, stdout := runCLIC14G(t, "-o", same, prog, same)
	if code != 0 {
		t.Fatalf("-o FILE (in place): exit status %d, want 0", code)
	}
	if stdout != "" {
		t.Fatalf("-o FILE (in place): unexpected standard output %q", stdout)
	}
	got, err := os.ReadFile(same)
	if err != nil {
		t.Fatal(err)
	}
	if string(got) != want {
		t.Fatalf("-o FILE wrote %q\nbut -o - prints %q", got, want)
	}

	// a failing program prints no JSON with -o -, so -o FILE writes nothing
	// either: what was in FILE before stays there
	const failing = `{ $.x.y.z() }`
	code, stdout = runCLIC14G(t, "-o", "-", failing, data)
	if code == 0 || stdout != "" {
		t.Fatalf("-o - with failing program: status %d, stdout %q", code, stdout)
	}
	keep := filepath.Join(dir, "keep.json")
	if err := os.WriteFile(keep, []byte(`{"keep": true}`), 0o644); err != nil {
		t.Fatal(err)
	}
	code, _ = runCLIC14G(t, "-o", keep, failing, data)
	if code == 0 {
		t.Fatalf("-o FILE with failing program: exit status 0, want non-zero")
	}
	got, err = os.ReadFile(keep)
	if err != nil {
		t.Fatal(err)
	}
	if string(got) != `{"keep": true}` {
		t.Fatalf("-o FILE with failing program changed FILE to %q", got)
	}
}
