package main

import (
	"strings"
	"testing"

	lang "github.com/alligator/jqawk/src"
)

// C20: extending an array to an index beyond about a million is refused with
// an ordinary runtime error -- also when the array does not exist yet and the
// store is what creates it (first store through an unset variable).
func demoC20QRun(prog string) (string, error) {
	var sb strings.Builder
	_, err := lang.EvalProgram(prog, nil, nil, &sb, false)
	return sb.String(), err
}

func TestDemoC20Q(t *testing.T) {
	// sanity: a store below the limit through an unset variable works
	out, err := demoC20QRun(`BEGIN { s[1000] = 1; print s.length() }`)
	if err != nil || out != "1001\n" {
		t.Fatalf("small fill through an unset variable: out=%q err=%v", out, err)
	}

	// the same store on an array that already exists is refused
	out, err = demoC20QRun(`BEGIN { a = []; print "before"; a[2000000] = 1; print a.length() }`)
	if _, ok := err.(lang.RuntimeError); !ok || out != "before\n" {
		t.Fatalf("existing array: expected a runtime error after \"before\", got out=%q err=%v", out, err)
	}

	// ... and so it must be when the variable is still unset
	for _, index := range []string{"1048577", "2000000", "3000000.5"} {
		prog := `BEGIN { print "before"; b[` + index + `] = 1; print "len", b.length() }`
		out, err = demoC20QRun(prog)
		rtErr, ok := err.(lang.RuntimeError)
		if !ok {
			t.Fatalf("b[%s] = 1 on an unset b: expected the auto-fill limit to refuse the store with a runtime error, got err=%v out=%q", index, err, out)
		}
		if !strings.Contains(rtErr.Message, "index too large") {
			t.Fatalf("b[%s] = 1 on an unset b: unexpected error %q", index, rtErr.Message)
		}
		if out != "before\n" {
			t.Fatalf("b[%s] = 1 on an unset b: output %q, want only \"before\\n\"", index, out)
		}
	}
}
