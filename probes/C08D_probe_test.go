package main

import (
	"strings"
	"testing"

	lang "github.com/alligator/jqawk/src"
)

// Scalar arguments are passed by value and bound by position: the first
// parameter receives the value its argument had when that argument was
// evaluated, even if a later argument of the same call changes the variable
// it was read from (here through a nested call that bumps a global counter,
// and through a postfix increment).
func TestDemoC08D(t *testing.T) {
	prog := `
		function next_id() {
			seq = seq + 1
			return seq
		}

		function span(from, to) {
			return from + ".." + to
		}

		BEGIN {
			seq = 10
		}

		{
			print $, span(seq, next_id())
		}

		END {
			n = 1
			print span(n, n++), n
			s = "a"
			print span(s, s = "b"), s
		}
	`
	input := `["x", "y", "z"]`
	want := "x 10..11\ny 11..12\nz 12..13\n1..1 2\na..b b\n"

	var out strings.Builder
	files := []lang.InputFile{{Name: "input", Reader: strings.NewReader(input)}}
	if _, err := lang.EvalProgram(prog, files, nil, &out, false); err != nil {
		t.Fatalf("unexpected error: %v", err)
	}
	if out.String() != want {
		t.Fatalf("an argument changed after it was evaluated\nwant:\n%s\ngot:\n%s", want, out.String())
	}
}
