package main

import (
	"fmt"
	"strings"
	"testing"

	lang "github.com/alligator/jqawk/src"
)

func demoC13NRun(prog string) string {
	var sb strings.Builder
	_, err := lang.EvalProgram(prog, nil, nil, &sb, false)
	if err != nil {
		return sb.String() + fmt.Sprintf("ERROR: %v", err)
	}
	return sb.String()
}

// A newline may be put between any two tokens (except after print/return, after
// a comma of a print list and before ';') without changing what the program
// does. Here the same token sequences are laid out with and without a line
// break between an operand and its postfix ++ / --.
func TestDemoC13N(t *testing.T) {
	cases := []struct {
		name    string
		layouts []string
		want    string
	}{
		{
			name: "postfix statement followed by an expression statement",
			layouts: []string{
				"BEGIN { a = 1; b = 5\na ++\nb\nprint a, b }",
				"BEGIN { a = 1; b = 5\na\n++\nb\nprint a, b }",
				"BEGIN { a = 1; b = 5\na # counted\n++ # here\nb\nprint a, b }",
				"BEGIN {\n\ta = 1;\r\n\tb = 5\r\n\ta\r\n\t++\r\n\tb\r\n\tprint a, b\r\n}",
			},
			want: "2 5\n",
		},
		{
			name: "postfix decrement",
			layouts: []string{
				"BEGIN { a = 1; b = 5\na --\nb\nprint a, b }",
				"BEGIN { a = 1; b = 5\na\n--\nb\nprint a, b }",
			},
			want: "0 5\n",
		},
		{
			name: "for loop increment clause",
			layouts: []string{
				"BEGIN { for (i = 0; i < 3; i++) print i }",
				"BEGIN { for (\ni = 0;\ni < 3;\ni\n++\n)\nprint i }",
			},
			want: "0\n1\n2\n",
		},
		{
			name: "postfix inside a grouping and an index",
			layouts: []string{
				"BEGIN { a = [10, 20, 30]; i = 0; x = (i++) + a[i++]; print x, i }",
				"BEGIN { a = [10, 20, 30]; i = 0; x = (i\n++) + a[i\n++\n]; print x, i }",
			},
			want: "20 2\n",
		},
		{
			name: "postfix on a member",
			layouts: []string{
				"BEGIN { o = {n: 1}; o.n++; print o.n }",
				"BEGIN { o = {n: 1}; o\n.\nn\n++\nprint o.n }",
			},
			want: "2\n",
		},
	}

	for _, tc := range cases {
		for _, layout := range tc.layouts {
			if got := demoC13NRun(layout); got != tc.want {
				t.Errorf("%s: layout %q gave %q, want %q", tc.name, layout, got, tc.want)
			}
		}
	}
}
