package main

import (
	"strings"
	"testing"

	lang "github.com/alligator/jqawk/src"
)

// Spaces, tabs, carriage returns, comments and newlines may be inserted between
// any two tokens without changing what a program does, and a numeric literal is
// a digit sequence that never absorbs an adjacent operator: the unary minus in
// front of a number is a token of its own, so it may be separated from the
// number like any other pair of tokens.
func TestDemoC13J(t *testing.T) {
	run := func(prog string) (string, error) {
		var sb strings.Builder
		_, err := lang.EvalProgram(prog, nil, nil, &sb, false)
		return sb.String(), err
	}

	// each group lists layouts of one and the same token sequence, the first
	// one is the compact spelling
	groups := [][]string{
		{
			"BEGIN { x = -1; print x + 10 }",
			"BEGIN { x = - 1; print x + 10 }",
			"BEGIN { x = -\t1; print x + 10 }",
			"BEGIN { x = -\r1; print x + 10 }",
			"BEGIN { x = -\n1; print x + 10 }",
			"BEGIN { x = - # minus one\n 1; print x + 10 }",
		},
		{
			"BEGIN { print 3*-2.5 }",
			"BEGIN { print 3 * - 2.5 }",
		},
		{
			"BEGIN { a = [4, -7]; print a[1] }",
			"BEGIN { a = [ 4 , - 7 ] ; print a [ 1 ] }",
		},
		{
			"BEGIN { print 5 - -2 }",
			"BEGIN { print 5 - - 2 }",
		},
	}
	expected := []string{"9\n", "-7.5\n", "-7\n", "7\n"}

	for g, group := range groups {
		for _, prog := range group {
			got, err := run(prog)
			if err != nil {
				t.Errorf("program %q: unexpected error: %v", prog, err)
				continue
			}
			if got != expected[g] {
				t.Errorf("program %q: expected %q, got %q", prog, expected[g], got)
			}
		}
	}
}
