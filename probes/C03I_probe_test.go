package main

import (
	"io"
	"strings"
	"testing"

	lang "github.com/alligator/jqawk/src"
)

// demoC03IReader hands out one chunk per Read, the way a pipe whose writer
// pauses between values does. Each time the interpreter comes back for more
// input it records what has been written to the output so far: that is exactly
// what a consumer of the output sees while the input is blocked.
type demoC03IReader struct {
	chunks []string
	out    *strings.Builder
	seen   []string
}

func (r *demoC03IReader) Read(p []byte) (int, error) {
	r.seen = append(r.seen, r.out.String())
	if len(r.chunks) == 0 {
		return 0, io.EOF
	}
	n := copy(p, r.chunks[0])
	if n < len(r.chunks[0]) {
		r.chunks[0] = r.chunks[0][n:]
	} else {
		r.chunks = r.chunks[1:]
	}
	return n, nil
}

func TestDemoC03I(t *testing.T) {
	var out strings.Builder
	rd := &demoC03IReader{
		// every value comes with the one byte that ends it
		chunks: []string{"7 ", "[1,2] ", "\"x\"\n"},
		out:    &out,
	}
	files := []lang.InputFile{{Name: "in.json", Reader: rd}}

	// a program whose output has no newlines (a separator of its own)
	_, err := lang.EvalProgram(`{ printf("%v;", $) }`, files, nil, &out, false)
	if err != nil {
		t.Fatalf("unexpected error: %v", err)
	}
	if out.String() != "7;1;2;x;" {
		t.Fatalf("final output: got %q, want %q", out.String(), "7;1;2;x;")
	}

	// output visible at the moment of the 1st, 2nd, 3rd and 4th read: the
	// values delivered so far have been processed and their output written
	want := []string{"", "7;", "7;1;2;", "7;1;2;x;"}
	if len(rd.seen) < len(want) {
		t.Fatalf("expected at least %d reads, got %d", len(want), len(rd.seen))
	}
	for i, w := range want {
		if rd.seen[i] != w {
			t.Errorf("output written when read #%d was issued: got %q, want %q (the output of a complete value was held back until later input arrived)", i+1, rd.seen[i], w)
		}
	}
}
