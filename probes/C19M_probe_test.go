package main

import (
	"bytes"
	"strings"
	"testing"

	lang "github.com/alligator/jqawk/src"
)

// The bindings visible in a case body are exactly those of the alternative
// that matched. An earlier alternative of the same case that matched its first
// elements (binding their names) and then failed must leave nothing behind.
func TestDemoC19M(t *testing.T) {
	run := func(prog string, json string) string {
		t.Helper()
		var out bytes.Buffer
		var files []lang.InputFile
		if json != "" {
			files = []lang.InputFile{{Name: "in.json", Reader: strings.NewReader(json)}}
		}
		if _, err := lang.EvalProgram(prog, files, nil, &out, false); err != nil {
			t.Fatalf("unexpected error: %v\nprogram: %s", err, prog)
		}
		return out.String()
	}

	cases := []struct {
		name, prog, json, want string
	}{
		{
			// [kind, 'err'] binds kind = 'net' and then fails on 'warn';
			// ['net', lvl] is the alternative that matches, it binds only lvl,
			// so kind in the body is the variable set in BEGIN
			name: "failed alternative must not shadow an outer variable",
			prog: `
				BEGIN { kind = 'outer' }
				{
					print match ($) {
						[kind, 'err'], ['net', lvl] => kind + '/' + lvl,
						_ => 'other',
					}
				}`,
			json: `[["net", "warn"]]`,
			want: "outer/warn\n",
		},
		{
			// nested: the first alternative binds a and b before its last
			// element fails; the catch-all alternative binds only whole
			name: "failed nested alternative leaves its names unbound",
			prog: `
				BEGIN {
					print match ([1, [2, 3]]) {
						[a, [b, 4]], whole => [a is unknown, b is unknown, whole],
					}
				}`,
			want: "[true, true, [1, [2, 3]]]\n",
		},
		{
			// sanity: the matching alternative's own bindings are there
			name: "matching alternative binds",
			prog: `
				BEGIN {
					print match ([1, [2, 3]]) {
						[a, [b, 4]], [c, [d, 3]] => [c, d],
					}
				}`,
			want: "[1, 2]\n",
		},
	}

	for _, tc := range cases {
		if got := run(tc.prog, tc.json); got != tc.want {
			t.Errorf("%s:\n got  %q\n want %q", tc.name, got, tc.want)
		}
	}
}
