package main

import (
	"strings"
	"testing"

	lang "github.com/alligator/jqawk/src"
)

// The post-expression of a three-clause for runs after each completed or
// continued iteration, and NOT after an iteration that left with break.
// The loop variable therefore still holds the value it had when break ran.
func TestDemoC07A(t *testing.T) {
	cases := []struct {
		name     string
		prog     string
		expected string
	}{
		{
			// classic linear search: the index is read after the loop
			name: "search loop, index read after break",
			prog: `
				BEGIN {
					arr = [5, 8, 13, 21]
					for (i = 0; i < arr.length(); i++) {
						if (arr[i] == 13) break
					}
					print i
				}
			`,
			expected: "2\n",
		},
		{
			// post-expression with a visible side effect, break nested in if/else
			// inside an inner for, inside an outer for-in
			name: "nested, post-expression side effect",
			prog: `
				BEGIN {
					posts = 0
					for (row in [[1, 2, 3], [4, 5, 6]]) {
						for (j = 0; j < 3; posts = posts + 1) {
							if (row[j] % 2 == 0) {
								break
							} else {
								j++
								continue
							}
						}
						print j, posts
					}
				}
			`,
			// row 1: j=0 (1 odd) continue -> post (1); j=1 (2 even) break -> no post
			// row 2: j=0 (4 even) break -> no post
			expected: "1 1\n0 1\n",
		},
	}

	for _, tc := range cases {
		var sb strings.Builder
		_, err := lang.EvalProgram(tc.prog, nil, nil, &sb, false)
		if err != nil {
			t.Fatalf("%s: unexpected error: %v", tc.name, err)
		}
		if sb.String() != tc.expected {
			t.Fatalf("%s: expected %q, got %q", tc.name, tc.expected, sb.String())
		}
	}
}
