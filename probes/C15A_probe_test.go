package main

import (
	"fmt"
	"sort"
	"strings"
	"testing"

	lang "github.com/alligator/jqawk/src"
)

// TestDemoC15A checks that sort() is a *stable* sort on arrays long enough
// that an unstable algorithm actually reorders ties.
//
// In "string form" mode (the array is not all-numbers) many distinguishable
// elements share one sort key: 1 and "1" both have the key "1"; objects,
// arrays, booleans and null all have the key "". An ideal list sort keeps
// such ties in their original order.
func TestDemoC15A(t *testing.T) {
	type elem struct {
		src string // jqawk literal
		key string // string form used by sort
		out string // how print renders it inside an array
	}

	var elems []elem
	// 48 elements, only four distinct keys, every element distinguishable
	for i := 0; i < 12; i++ {
		elems = append(elems,
			elem{fmt.Sprintf("{id: %d}", i), "", fmt.Sprintf("{\"id\": %d}", i)},
			elem{"7", "7", "7"},
			elem{fmt.Sprintf("[%d]", i), "", fmt.Sprintf("[%d]", i)},
			elem{"'7'", "7", "\"7\""},
		)
	}

	srcs := make([]string, len(elems))
	for i, e := range elems {
		srcs[i] = e.src
	}
	prog := fmt.Sprintf(`
		BEGIN {
			a = [%s];
			s = a.sort();
			print s;
			print a;
			print a.length(), s.length();
		}
	`, strings.Join(srcs, ", "))

	// ideal list model
	sorted := make([]elem, len(elems))
	copy(sorted, elems)
	sort.SliceStable(sorted, func(i, j int) bool { return sorted[i].key < sorted[j].key })

	render := func(es []elem) string {
		outs := make([]string, len(es))
		for i, e := range es {
			outs[i] = e.out
		}
		return "[" + strings.Join(outs, ", ") + "]"
	}
	expected := render(sorted) + "\n" + render(elems) + "\n48 48\n"

	var sb strings.Builder
	_, err := lang.EvalProgram(prog, nil, nil, &sb, false)
	if err != nil {
		t.Fatalf("unexpected error: %v", err)
	}
	if sb.String() != expected {
		t.Fatalf("sort is not a stable sorted copy\nexpected:\n%s\ngot:\n%s", expected, sb.String())
	}

	// the same with a long all-number array is still numerically sorted
	var sb2 strings.Builder
	_, err = lang.EvalProgram(`BEGIN { a = [10, 9, 100, 1]; print a.sort(); print a }`, nil, nil, &sb2, false)
	if err != nil {
		t.Fatalf("unexpected error: %v", err)
	}
	if sb2.String() != "[1, 9, 10, 100]\n[10, 9, 100, 1]\n" {
		t.Fatalf("numeric sort wrong: %s", sb2.String())
	}
}
