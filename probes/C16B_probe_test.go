package main

import (
	"strings"
	"testing"

	lang "github.com/alligator/jqawk/src"
)

// o.pluck(k1, ...) must return a NEW object holding the requested keys with the
// original's values, and must leave o unchanged. In particular the returned
// object must be independent of o: writing to a member of the plucked copy must
// not write through to o, and writing to o afterwards must not change the copy.
func TestDemoC16B(t *testing.T) {
	input := `[{"a": 1, "b": "two", "c": 3}]`
	prog := `
		{
			p = $.pluck('a', 'b', 'missing')
			print "plucked:", p
			print "orig:", $

			# update the plucked copy only
			p.a = 99
			p.b = p.b.upper()
			p.missing = 'now set'
			print "plucked after write:", p
			print "orig after write to copy:", $

			# update the original only
			q = $.pluck('c')
			$.c = 1000
			print "second copy after write to orig:", q
			print "orig at end:", $
		}
	`
	expected := strings.Join([]string{
		`plucked: {"a": 1, "b": "two", "missing": null}`,
		`orig: {"a": 1, "b": "two", "c": 3}`,
		`plucked after write: {"a": 99, "b": "TWO", "missing": "now set"}`,
		`orig after write to copy: {"a": 1, "b": "two", "c": 3}`,
		`second copy after write to orig: {"c": 3}`,
		`orig at end: {"a": 1, "b": "two", "c": 1000}`,
		"",
	}, "\n")

	var sb strings.Builder
	files := []lang.InputFile{{Name: "<demo>", Reader: strings.NewReader(input)}}
	if _, err := lang.EvalProgram(prog, files, nil, &sb, false); err != nil {
		t.Fatalf("unexpected error: %v", err)
	}
	if sb.String() != expected {
		t.Fatalf("pluck() contract violated\nexpected:\n%s\ngot:\n%s", expected, sb.String())
	}
}
