package main

import (
	"fmt"
	"strings"
	"testing"

	lang "github.com/alligator/jqawk/src"
)

// A parameter for which the call supplies no argument is null in every call,
// whatever earlier (completed) calls did to their own parameters: a finished
// call leaves nothing behind, however many calls there have been.
func TestDemoC08F(t *testing.T) {
	run := func(prog string, json string) string {
		t.Helper()
		var sb strings.Builder
		files := []lang.InputFile{{Name: "<demo>", Reader: strings.NewReader(json)}}
		_, err := lang.EvalProgram(prog, files, nil, &sb, false)
		if err != nil {
			t.Fatalf("unexpected error: %v", err)
		}
		return sb.String()
	}

	// 1. the "optional parameter with a default" idiom in two different
	//    functions: the default chosen by one must not show up in the other
	prog := `
		function pad(s, width) {
			if (width is null) width = 3
			while (s.length() < width) s = ' ' + s
			return s
		}

		function repeat(s, times) {
			if (times is null) times = 2
			out = ''
			for (i = 0; i < times; i++) out = out + s
			return out
		}

		{
			print '[' + pad($) + ']'
			print '[' + repeat($) + ']'
		}
	`
	got := run(prog, `["a", "b"]`)
	want := "[  a]\n[aa]\n[  b]\n[bb]\n"
	if got != want {
		t.Fatalf("defaults of omitted parameters:\n got %q\nwant %q", got, want)
	}

	// 2. an omitted parameter used as a local accumulator starts from null in
	//    every call, also after thousands of completed calls
	prog = `
		function tally(x, acc) {
			acc += x
			return acc
		}
		{ total += tally($) }
		END { print total, tally(5) }
	`
	var input strings.Builder
	input.WriteString("[")
	n := 3000
	for i := 0; i < n; i++ {
		if i > 0 {
			input.WriteString(",")
		}
		input.WriteString("1")
	}
	input.WriteString("]")
	got = run(prog, input.String())
	want = fmt.Sprintf("%d 5\n", n)
	if got != want {
		t.Fatalf("omitted parameter as accumulator over %d calls:\n got %q\nwant %q", n, got, want)
	}

	// 3. two omitted parameters of one call are two separate nulls, and a
	//    recursive call's omitted parameter is not the caller's
	prog = `
		function two(a, b, c) {
			b = 'set'
			return c is null
		}
		function depth(n, mark) {
			if (n == 0) return mark is null
			mark = n
			return depth(n - 1)
		}
		BEGIN {
			print two(1)
			print depth(3)
		}
	`
	got = run(prog, `[]`)
	want = "true\ntrue\n"
	if got != want {
		t.Fatalf("separate omitted parameters:\n got %q\nwant %q", got, want)
	}
}
