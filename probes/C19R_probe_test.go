package main

import (
	"strings"
	"testing"

	lang "github.com/alligator/jqawk/src"
)

func demoC19RRun(t *testing.T, prog string, json string) string {
	t.Helper()
	files := []lang.InputFile{{Name: "<demoC19R>", Reader: strings.NewReader(json)}}
	var sb strings.Builder
	if _, err := lang.EvalProgram(prog, files, nil, &sb, false); err != nil {
		t.Fatalf("unexpected error: %v", err)
	}
	return sb.String()
}

// C19: the body of the selected case sees the names bound by the alternative
// that matched -- and only those. An alternative that did not match binds
// nothing, so a name it mentions keeps its outer meaning in the body.
func TestDemoC19R(t *testing.T) {
	prog := `
		BEGIN { k = "outer"; a = "A"; b = "B" }
		{
			print match ($) {
				# [k, 9] binds k; [2, x] binds only x, there k is the global
				[k, 9], [2, x] => k,
				# three-element subjects: either a,b or c,d get bound, never both
				[a, b, 1], [c, d, 2] => a + "/" + b + "/" + c + "/" + d,
				_ => "none",
			}
		}
	`
	got := demoC19RRun(t, prog, `[[7, 9], [2, 5], [3, 3], [4, 5, 1], [4, 5, 2]]`)
	want := "7\nouter\nnone\n4/5//\nA/B/4/5\n"
	if got != want {
		t.Fatalf("a case body saw names bound by an alternative that did not match (C19)\nprogram output:\n%s\nwanted:\n%s", got, want)
	}
}
