package main

import (
	"strings"
	"testing"

	lang "github.com/alligator/jqawk/src"
)

// A bare print (print with no arguments) prints $, exactly like a rule
// without a body does. Statements are ended by a newline, so a bare print at
// the end of a line is still a bare print, whatever follows on the next line.
func TestDemoC17J(t *testing.T) {
	cases := []struct {
		name     string
		prog     string
		json     string
		expected string
	}{
		{
			name:     "bare print, then a counter on the next line",
			prog:     "{ print\n  n = n + 1 }",
			json:     `[10, 20]`,
			expected: "10\n20\n",
		},
		{
			name:     "bare print of containers, then an assignment on the next line",
			prog:     "$.keep {\n  print\n  last = $.name\n}\nEND { print last }",
			json:     `[{"keep": true, "name": "a", "tags": ["x", "y"]}, {"keep": false, "name": "b"}]`,
			expected: "{\"keep\": true, \"name\": \"a\", \"tags\": [\"x\", \"y\"]}\na\n",
		},
		{
			name:     "same output as the rule without a body",
			prog:     "$ > 15\n$ > 15 { print\n  seen++ }",
			json:     `[10, 20]`,
			expected: "20\n20\n",
		},
		{
			name:     "control: bare print ended by ; or }",
			prog:     "{ print; n = n + 1 } { print }",
			json:     `[10, 20]`,
			expected: "10\n10\n20\n20\n",
		},
	}

	for _, tc := range cases {
		var out strings.Builder
		files := []lang.InputFile{{Name: "<demo>", Reader: strings.NewReader(tc.json)}}
		if _, err := lang.EvalProgram(tc.prog, files, nil, &out, false); err != nil {
			t.Errorf("%s: program %q: unexpected error: %v", tc.name, tc.prog, err)
			continue
		}
		if out.String() != tc.expected {
			t.Errorf("%s: program %q\nexpected %q\ngot      %q", tc.name, tc.prog, tc.expected, out.String())
		}
	}
}
