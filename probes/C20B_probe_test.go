package main

import (
	"strings"
	"testing"

	lang "github.com/alligator/jqawk/src"
)

// The auto-fill limit is a limit on the index an array may be extended to. It
// does not depend on how long the array already is.
func TestDemoC20B(t *testing.T) {
	run := func(prog string) (string, error) {
		var sb strings.Builder
		_, err := lang.EvalProgram(prog, []lang.InputFile{}, nil, &sb, false)
		return sb.String(), err
	}

	// an array of a million elements works
	out, err := run(`BEGIN { a = []; a[999999] = 'x'; print a.length(), a[999999], a[0] }`)
	if err != nil {
		t.Fatalf("filling an array to a million elements failed: %v", err)
	}
	if out != "1000000 x null\n" && out != "1000000 x \n" {
		t.Fatalf("unexpected output %q", out)
	}

	refused := func(name string, prog string, keep string) {
		out, err := run(prog)
		if err == nil {
			t.Fatalf("%s: extension past the fill limit was not refused, output %q", name, out)
		}
		rtErr, ok := err.(lang.RuntimeError)
		if !ok {
			t.Fatalf("%s: expected a RuntimeError, got %#v", name, err)
		}
		if !strings.Contains(rtErr.Message, "index too large to auto-fill array") {
			t.Fatalf("%s: unexpected error message %q", name, rtErr.Message)
		}
		if out != keep {
			t.Fatalf("%s: prior output not kept: %q", name, out)
		}
	}

	// straight past the limit on an empty array
	refused("empty array",
		`BEGIN { print 'before'; a = []; a[1048577] = 1; print a.length() }`,
		"before\n")

	// the same index on an array that already has a few elements
	refused("short array",
		`BEGIN { print 'before'; a = [1, 2, 3, 4]; a[1048578] = 1; print a.length() }`,
		"before\n")

	// growing in two steps, the second of which ends past the limit
	refused("two steps",
		`BEGIN { a = []; a[600000] = 1; print a.length(); a[1200000] = 2; print a.length() }`,
		"600001\n")
}
