package main

import (
	"strings"
	"testing"

	lang "github.com/alligator/jqawk/src"
)

func runDemoC19F(t *testing.T, prog string, json string) string {
	t.Helper()
	var sb strings.Builder
	files := []lang.InputFile{{Name: "<demo>", Reader: strings.NewReader(json)}}
	if _, err := lang.EvalProgram(prog, files, nil, &sb, false); err != nil {
		t.Fatalf("program %q failed: %v", prog, err)
	}
	return sb.String()
}

// A literal pattern matches exactly when subject == literal. A variable that was
// never assigned is == to nothing (u == 0, u == '' and u == false are all false),
// so a match on it must skip every literal case and reach the catch-all.
func TestDemoC19F(t *testing.T) {
	cases := []struct {
		prog     string
		json     string
		expected string
	}{
		{
			// sanity: what == says about an unset variable
			prog:     `BEGIN { print u == 0, u == '', u == false, u == null }`,
			json:     `[]`,
			expected: "false false false false\n",
		},
		{
			prog:     `BEGIN { print match (u) { 0 => 'zero', _ => 'other' } }`,
			json:     `[]`,
			expected: "other\n",
		},
		{
			prog:     `BEGIN { print match (u) { 'x', '' => 'empty', false => 'no', null => 'null', v => 'bound' } }`,
			json:     `[]`,
			expected: "bound\n",
		},
		{
			// no case matches an unset subject: the match yields null and the
			// body is not run
			prog:     `BEGIN { print match (never_set) { 0 => { print 'side effect' } } }`,
			json:     `[]`,
			expected: "null\n",
		},
		{
			// the counter is only set once a record with .n was seen; before
			// that, the literal 0 must not match it
			prog: `{ print match (seen) { 0 => 'reset', 1 => 'one', _ => 'n/a' } }
			       $.n is number { seen = $.n }`,
			json:     `[{}, {"n": 1}, {"n": 0}, {}]`,
			expected: "n/a\nn/a\none\nreset\n",
		},
	}
	for _, c := range cases {
		got := runDemoC19F(t, c.prog, c.json)
		if got != c.expected {
			t.Errorf("program %q\n  expected %q\n  got      %q", c.prog, c.expected, got)
		}
	}
}
