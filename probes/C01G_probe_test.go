package main

import (
	"fmt"
	"strings"
	"testing"

	lang "github.com/alligator/jqawk/src"
)

// runC01G runs one program and reports how the run ended. A Go panic inside
// the interpreter is caught here and reported, it must never happen.
func runC01G(prog string, input string) (out string, err error, crash interface{}) {
	defer func() {
		if r := recover(); r != nil {
			crash = r
		}
	}()
	var sb strings.Builder
	files := []lang.InputFile{}
	if input != "" {
		files = append(files, lang.InputFile{Name: "<demo>", Reader: strings.NewReader(input)})
	}
	_, err = lang.EvalProgram(prog, files, nil, &sb, false)
	return sb.String(), err, nil
}

// Storing through a negative index into an array that does not exist yet
// (implicit array creation meets negative indexing). There is no element to
// count back from, so every one of these runs has to stop with a reported
// runtime error. None of them may crash the interpreter.
func TestDemoC01G(t *testing.T) {
	cases := []struct {
		name  string
		prog  string
		input string
	}{
		{"unset variable", "BEGIN { a[-1] = 1 }", ""},
		{"nested implicit arrays", "BEGIN { a[0][-1] = 1 }", ""},
		{"missing member of an input object", "{ $.list[-1] = $.a; print }", `[{"a": 1}]`},
		{"prefix increment", "BEGIN { ++a[-2] }", ""},
		{"compound assignment", "BEGIN { a[-1] += 1 }", ""},
	}

	for _, tc := range cases {
		out, err, crash := runC01G(tc.prog, tc.input)
		if crash != nil {
			t.Errorf("%s: %q crashed the interpreter: %v", tc.name, tc.prog, crash)
			continue
		}
		if err == nil {
			t.Errorf("%s: %q completed (output %q), expected a runtime error", tc.name, tc.prog, out)
			continue
		}
		if _, ok := err.(lang.RuntimeError); !ok {
			t.Errorf("%s: %q ended with %T (%v), expected a lang.RuntimeError", tc.name, tc.prog, err, fmt.Sprint(err))
		}
	}

	// the neighbouring, ordinary cases keep working
	out, err, crash := runC01G("BEGIN { a = [1, 2, 3]; a[-1] = 9; b[2] = 1; print a, b }", "")
	if crash != nil || err != nil || out != "[1, 2, 9] [null, null, 1]\n" {
		t.Errorf("control case: out=%q err=%v crash=%v", out, err, crash)
	}
}
