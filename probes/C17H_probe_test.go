package main

import (
	"math"
	"strconv"
	"strings"
	"testing"

	lang "github.com/alligator/jqawk/src"
)

// print renders a number in plain positional decimal, without an exponent, and
// the text reads back as the identical double. "Identical" includes the sign
// of zero: negative zero is a double of its own (1/-0 is -Inf) and is shown as
// -0, at the top level and inside containers.
func TestDemoC17H(t *testing.T) {
	run := func(prog string, json string) string {
		t.Helper()
		var sb strings.Builder
		files := []lang.InputFile{{Name: "<test>", Reader: strings.NewReader(json)}}
		_, err := lang.EvalProgram(prog, files, nil, &sb, false)
		if err != nil {
			t.Fatalf("%s: unexpected error: %v", prog, err)
		}
		return sb.String()
	}

	// 1. every number that is printed reads back as the identical double
	numbers := []float64{
		0, 1, -1, 42, 0.5, -2.25, 0.1, 1e-7, 5e-324, // small and tiny
		9007199254740992, 9007199254740993, 1152921504606846976, // 2^53, beyond, 2^60
		-9223372036854775808, 9223372036854775808, 12345678901234567890, 1e22, 1.7976931348623157e308,
		math.Copysign(0, -1), // negative zero
	}
	for _, want := range numbers {
		// the JSON text of the number, exact
		src := strconv.FormatFloat(want, 'g', -1, 64)
		out := run(`{ print $ }`, "["+src+"]")
		text := strings.TrimSuffix(out, "\n")
		if strings.ContainsAny(text, "eE") {
			t.Errorf("%s is printed with an exponent: %q", src, text)
		}
		got, err := strconv.ParseFloat(text, 64)
		if err != nil {
			t.Errorf("%s is printed as %q, which is not a number: %v", src, text, err)
			continue
		}
		if math.Float64bits(got) != math.Float64bits(want) {
			t.Errorf("%s is printed as %q, which reads back as a different double (%x, not %x)",
				src, text, math.Float64bits(got), math.Float64bits(want))
		}
	}

	// 2. negative zero, wherever it comes from and wherever it stands
	cases := []struct {
		prog     string
		json     string
		expected string
	}{
		{`{ print $ }`, `[-0, [-0.0], {"z": -0e5}]`, "-0\n[-0]\n{\"z\": -0}\n"},
		{`BEGIN { x = 0; print -x, 0 * -1, [-x, 0], {k: -x} }`, `1`, "-0 -0 [-0, 0] {\"k\": -0}\n"},
		{`BEGIN { y = -0.4; print y.round(), y.ceil() }`, `1`, "-0 -0\n"},
		// and the positive one stays what it is
		{`BEGIN { x = 0; print 0 - 0, -x + 0, [0] }`, `1`, "0 0 [0]\n"},
	}
	for _, tc := range cases {
		got := run(tc.prog, tc.json)
		if got != tc.expected {
			t.Errorf("%s on %s: expected %q, got %q", tc.prog, tc.json, tc.expected, got)
		}
	}
}
