package main

import (
	"strings"
	"testing"

	lang "github.com/alligator/jqawk/src"
)

// Control flow has to behave the same on the 200000th iteration / record as on
// the first one: continue, break, return and next that leave a match body or a
// function call are ordinary control flow, not failures, however often they
// happen during one run.
func TestDemoC07I(t *testing.T) {
	run := func(prog string, json string) (string, error) {
		var sb strings.Builder
		files := []lang.InputFile{{Name: "demo.json", Reader: strings.NewReader(json)}}
		_, err := lang.EvalProgram(prog, files, nil, &sb, false)
		return sb.String(), err
	}

	// 1. continue out of a match body, in a long counting loop. The statement
	// after the match is never reached, the post-expression always runs, the
	// loop ends when its condition says so.
	prog1 := `
		BEGIN {
			skipped = 0
			evens = 0
			odds = 0
			for (i = 0; i < 130000; i++) {
				match (i % 2) {
					0 => { evens++; continue }
					_ => { odds++; continue }
				}
				skipped = skipped + 1
			}
			print i, evens, odds, skipped
		}
	`
	out, err := run(prog1, "[]")
	if err != nil {
		t.Fatalf("continue inside match: unexpected error after many iterations: %v (output %q)", err, out)
	}
	if out != "130000 65000 65000 0\n" {
		t.Fatalf("continue inside match: expected %q, got %q", "130000 65000 65000 0\n", out)
	}

	// 2. an inner loop left with break from a match body, inside an outer
	// while loop: only the inner loop ends, the outer one goes on to its bound.
	prog2 := `
		BEGIN {
			outer = 0
			inner = 0
			while (outer < 110000) {
				outer++
				for (c in "ab") {
					inner++
					match (c) { "a" => { break } }
					inner = inner + 1000000
				}
			}
			print outer, inner
		}
	`
	out, err = run(prog2, "[]")
	if err != nil {
		t.Fatalf("break inside match: unexpected error after many iterations: %v (output %q)", err, out)
	}
	if out != "110000 110000\n" {
		t.Fatalf("break inside match: expected %q, got %q", "110000 110000\n", out)
	}

	// 3. next from inside a function, for a long input: every item is looked
	// at exactly once, the rest of the rule and the second rule are skipped for
	// the items the function rejects, END runs afterwards.
	const items = 240000
	var jsb strings.Builder
	jsb.WriteString("[")
	for i := 0; i < items; i++ {
		if i > 0 {
			jsb.WriteString(",")
		}
		if i%4 == 3 {
			jsb.WriteString("1")
		} else {
			jsb.WriteString("-1")
		}
	}
	jsb.WriteString("]")
	prog3 := `
		function positive(v) {
			if (v < 0) {
				next
			}
			return v
		}
		{ seen++; kept += positive($); after++ }
		{ second++ }
		END { print seen, kept, after, second }
	`
	out, err = run(prog3, jsb.String())
	if err != nil {
		t.Fatalf("next inside a function: unexpected error after many items: %v (output %q)", err, out)
	}
	if out != "240000 60000 60000 60000\n" {
		t.Fatalf("next inside a function: expected %q, got %q", "240000 60000 60000 60000\n", out)
	}
}
