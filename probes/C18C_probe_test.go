package main

import (
	"strings"
	"testing"

	lang "github.com/alligator/jqawk/src"
)

// printf must emit exactly the format with each directive replaced: %% becomes a
// single percent sign, and a percent sign that arrives inside an argument
// rendering is copied through verbatim. Nothing else may be added.
func TestDemoC18C(t *testing.T) {
	cases := []struct {
		prog     string
		expected string
	}{
		// %% in the format -> one literal percent sign in the output
		{`BEGIN { printf("load: %f%%\n", 93.5) }`, "load: 93.5%\n"},
		// a percent sign inside a %s argument is part of the rendering
		{`BEGIN { printf("[%s]", "50% off") }`, "[50% off]"},
		// ... also when followed by something that looks like a directive
		{`BEGIN { printf("%s|%v", "100%d", "%s") }`, "100%d|%s"},
		// padded rendering containing a percent sign
		{`BEGIN { printf("%6s|%-4s|", "7%", "%") }`, "    7%|%   |"},
		// control: no percent sign anywhere in the output
		{`BEGIN { printf("%s-%f", "a", 1) }`, "a-1"},
	}

	for _, tc := range cases {
		var sb strings.Builder
		_, err := lang.EvalProgram(tc.prog, nil, nil, &sb, false)
		if err != nil {
			t.Fatalf("%s: unexpected error: %v", tc.prog, err)
		}
		if sb.String() != tc.expected {
			t.Errorf("%s:\nexpected %q\n     got %q", tc.prog, tc.expected, sb.String())
		}
	}
}
