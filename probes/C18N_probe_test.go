package main

import (
	"strings"
	"testing"

	lang "github.com/alligator/jqawk/src"
)

// %f is replaced by the decimal rendering of its number argument, whatever
// its magnitude or sign, and that rendering is the same one %v produces for
// the same number. Padding is computed from that rendering.
func TestDemoC18N(t *testing.T) {
	cases := []struct {
		prog     string
		json     string
		expected string
	}{
		// ordinary values as control
		{`BEGIN { printf("%f|%f|%f|%5f|", 0, 42, -7, 2.5) }`, "", "0|42|-7|  2.5|"},
		// whole numbers beyond the 64-bit integer range
		{`BEGIN { printf("%f|%v|", 100000000000000000000, 100000000000000000000) }`, "", "100000000000000000000|100000000000000000000|"},
		{`BEGIN { printf("%f|", -18446744073709551616) }`, "", "-18446744073709552000|"},
		// ... coming from the input, and padded relative to their real length
		{`{ printf("%-22f|%022f|\n", $.n, $.n) }`, `{"n": 1e19}`, "10000000000000000000  |0010000000000000000000|\n"},
		// negative zero and infinities keep their rendering
		{`BEGIN { printf("%f|", -0) }`, "", "-0|"},
		{`BEGIN { printf("%f|%f|", num("Inf"), num("-Inf")) }`, "", "+Inf|-Inf|"},
	}
	for _, tc := range cases {
		files := make([]lang.InputFile, 0)
		if tc.json != "" {
			files = append(files, lang.InputFile{Name: "<demo>", Reader: strings.NewReader(tc.json)})
		}
		var sb strings.Builder
		_, err := lang.EvalProgram(tc.prog, files, nil, &sb, false)
		if err != nil {
			t.Fatalf("%s: unexpected error %v", tc.prog, err)
		}
		if sb.String() != tc.expected {
			t.Fatalf("%s:\nexpected %q\ngot      %q", tc.prog, tc.expected, sb.String())
		}
	}
}
