package main

import (
	"strings"
	"testing"

	lang "github.com/alligator/jqawk/src"
)

// Property: the prefix operators bind tighter than the comparisons (`is` is a
// comparison), so `!x is bool` means `(!x) is bool`; and parentheses override
// everything, so `(!x) is bool` can never mean `!(x is bool)`.
func TestDemoC06H(t *testing.T) {
	run := func(prog string) string {
		t.Helper()
		var sb strings.Builder
		_, err := lang.EvalProgram(prog, nil, nil, &sb, false)
		if err != nil {
			t.Fatalf("program %q: unexpected error: %v", prog, err)
		}
		return sb.String()
	}

	const setup = "BEGIN { t = true; n = 5; s = 'abc'; "

	// each pair: an expression without redundant parentheses and its fully
	// parenthesised form under the grammar; both must print the same value
	pairs := []struct {
		plain  string
		parens string
		want   string
	}{
		// !t is false, and false is a bool
		{"!t is bool", "(!t) is bool", "true\n"},
		// !n is false, and false is not a number / a string
		{"!n is number", "(!n) is number", "false\n"},
		{"!s is bool", "(!s) is bool", "true\n"},
		{"!n is string", "(!n) is string", "false\n"},
		{"!!t is bool", "(!(!t)) is bool", "true\n"},
		{"!t is bool == true", "((!t) is bool) == true", "true\n"},
		{"x = !t is bool", "x = ((!t) is bool)", "true\n"},
		{"!t is bool && true", "((!t) is bool) && true", "true\n"},
		// controls that do not involve a negated left operand
		{"-n is number", "(-n) is number", "true\n"},
		{"t is bool", "(t) is bool", "true\n"},
		{"t == !n is bool", "(t == (!n)) is bool", "true\n"},
	}

	for _, pc := range pairs {
		plain := run(setup + "print " + pc.plain + " }")
		parens := run(setup + "print " + pc.parens + " }")
		if parens != pc.want {
			t.Errorf("%s: parenthesised form printed %q, want %q", pc.parens, parens, pc.want)
		}
		if plain != parens {
			t.Errorf("%s printed %q but its fully parenthesised form %s printed %q",
				pc.plain, plain, pc.parens, parens)
		}
	}

	// explicit parentheses in the other direction still have to give the other
	// meaning: the two groupings are distinguishable
	got := run(setup + "print (!t) is bool, !(t is bool) }")
	if got != "true false\n" {
		t.Errorf("print (!t) is bool, !(t is bool) printed %q, want \"true false\\n\"", got)
	}
}
