package main

import (
	"bytes"
	"os"
	"os/exec"
	"path/filepath"
	"strings"
	"testing"

	lang "github.com/alligator/jqawk/src"
)

// runs the binary built by TestMain and returns stdout, stderr and the exit code
func demoC14RRun(t *testing.T, stdin string, args ...string) (string, string, int) {
	t.Helper()
	exe, err := filepath.Abs("./jqawk")
	if err != nil {
		t.Fatal(err)
	}
	cmd := exec.Command(exe, args...)
	cmd.Stdin = strings.NewReader(stdin)
	var stdout, stderr bytes.Buffer
	cmd.Stdout = &stdout
	cmd.Stderr = &stderr
	err = cmd.Run()
	code := 0
	if err != nil {
		exitErr, ok := err.(*exec.ExitError)
		if !ok {
			t.Fatalf("could not run %s: %v", exe, err)
		}
		code = exitErr.ExitCode()
	}
	return stdout.String(), stderr.String(), code
}

// what the library interpreter produces: stdout followed by the root JSON,
// and whether the run failed
func demoC14RLibrary(t *testing.T, prog string, selectors []string, name string, input []byte) (string, bool) {
	t.Helper()
	var sb strings.Builder
	ev, err := lang.EvalProgram(prog, []lang.InputFile{{Name: name, Reader: bytes.NewReader(input)}}, selectors, &sb, false)
	if err != nil {
		return sb.String(), true
	}
	j, err := ev.GetRootJson()
	if err != nil {
		return sb.String(), true
	}
	return sb.String() + j, false
}

// every -r selector reaches the interpreter as it was written: the command
// line produces what the library produces for the same selectors, and -r E is
// BEGINFILE { $ = E }, also when E contains a comma.
func TestDemoC14R(t *testing.T) {
	dir := t.TempDir()
	inPath := filepath.Join(dir, "in.json")
	input := []byte(`{"a": [1, 2], "b": {"c": [3]}, "k,l": [7, 8]}`)
	if err := os.WriteFile(inPath, input, 0644); err != nil {
		t.Fatal(err)
	}

	prog := `{ print "v", $ }`

	cases := [][]string{
		{`$.a`},                       // no comma, for reference
		{`$.a`, `$.b`},                // two selectors, in order
		{`[$.b, $.a]`},                // array literal
		{`$["k,l"]`},                  // comma inside a string
		{`$.b.pluck("c", "d")`},       // call with two arguments
		{`$.a`, `{x: $.b.c, y: $.a}`}, // a plain selector then an object literal
		{`$.a, $.b`},                  // not an expression: the library refuses it
	}

	for _, selectors := range cases {
		want, wantFailed := demoC14RLibrary(t, prog, selectors, inPath, input)

		args := []string{}
		for _, s := range selectors {
			args = append(args, "-r", s)
		}
		args = append(args, "-o", "-", prog, inPath)
		got, stderr, code := demoC14RRun(t, "", args...)

		if wantFailed {
			if code == 0 || stderr == "" {
				t.Errorf("selectors %q: library reports an error, command line exited %d with stderr %q and stdout %q",
					selectors, code, stderr, got)
			}
			continue
		}
		if code != 0 {
			t.Errorf("selectors %q: library succeeds, command line exited %d: %s", selectors, code, stderr)
			continue
		}
		if got != want {
			t.Errorf("selectors %q: command line printed\n%q\nlibrary produced\n%q", selectors, got, want)
		}

		// the README's equivalence, for a single selector
		if len(selectors) == 1 {
			equivProg := "BEGINFILE { $ = " + selectors[0] + " } " + prog
			equiv, equivErr, equivCode := demoC14RRun(t, "", "-o", "-", equivProg, inPath)
			if equivCode != 0 {
				t.Errorf("selector %q: BEGINFILE form failed: %s", selectors[0], equivErr)
			} else if equiv != got {
				t.Errorf("selector %q: -r printed\n%q\nBEGINFILE { $ = ... } printed\n%q", selectors[0], got, equiv)
			}
		}
	}
}
