package main

import (
	"strings"
	"testing"

	lang "github.com/alligator/jqawk/src"
)

// C02: for each JSON value and each root selector in the order given, the
// BEGINFILE rules run with $ bound to the selected root, then the pattern rules
// once per element with $ bound to that element, then the ENDFILE rules. What a
// selector selects is a function of the input value alone: the rules that ran
// for an earlier selector (here they update the elements in place) must not
// change what $ is bound to when the rules run for a later selector.
func demoC02QRun(t *testing.T, prog string, selectors []string, inputs ...string) string {
	t.Helper()
	files := make([]lang.InputFile, 0, len(inputs))
	for i, in := range inputs {
		name := "f" + string(rune('1'+i))
		files = append(files, lang.InputFile{Name: name, Reader: strings.NewReader(in)})
	}
	var sb strings.Builder
	_, err := lang.EvalProgram(prog, files, selectors, &sb, false)
	if err != nil {
		t.Fatalf("unexpected error: %v", err)
	}
	return sb.String()
}

func TestDemoC02Q(t *testing.T) {
	prog := `
		BEGINFILE { print 'BF', $file, $ }
		!$.seen { print 'new', $index, $.n }
		{ $.seen = true; $.n = $.n * 10; print 'el', $index, $.n }
		ENDFILE { print 'EF' }
	`
	input := `{"items": [{"n": 1}, {"n": 2}], "other": [{"n": 7}]} {"items": [{"n": 3}], "other": []}`

	// one pass per (value, selector); every pass starts from the input value
	pass := func(file string, ns ...string) string {
		var sb strings.Builder
		sb.WriteString("BF " + file + " [")
		for i, n := range ns {
			if i > 0 {
				sb.WriteString(", ")
			}
			sb.WriteString(`{"n": ` + n + `}`)
		}
		sb.WriteString("]\n")
		for i, n := range ns {
			idx := string(rune('0' + i))
			sb.WriteString("new " + idx + " " + n + "\n")
			sb.WriteString("el " + idx + " " + n + "0\n")
		}
		sb.WriteString("EF\n")
		return sb.String()
	}

	expected := pass("f1", "1", "2") + pass("f1", "7") + pass("f1", "1", "2") +
		pass("f1", "3") + pass("f1") + pass("f1", "3")

	got := demoC02QRun(t, prog, []string{"$.items", "$.other", "$.items"}, input)
	if got != expected {
		t.Fatalf("rules for a later selector did not see the selected root of the input value\nexpected:\n%s\ngot:\n%s", expected, got)
	}

	// a single selector, two files: nothing is shared, same schedule
	got = demoC02QRun(t, prog, []string{"$.items"}, `{"items": [{"n": 1}, {"n": 2}]}`, `{"items": [{"n": 3}]}`)
	expected = pass("f1", "1", "2") + pass("f2", "3")
	if got != expected {
		t.Fatalf("expected:\n%s\ngot:\n%s", expected, got)
	}
}
