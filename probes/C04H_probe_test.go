package main

import (
	"encoding/json"
	"reflect"
	"strings"
	"testing"

	lang "github.com/alligator/jqawk/src"
)

// A program that never assigns to the document must leave it alone: what -o
// writes (Evaluator.GetRootJson) has to parse back to the input. The program
// here only reads members, some of them missing, and hands them to a helper
// function that reassigns its own parameter.
func TestDemoC04H(t *testing.T) {
	doc := `[
		{"name": "ann", "langs": []},
		{"name": "bob", "nick": "bee", "langs": ["go", "awk"], "first": "go"},
		{"name": "cy", "nick": null, "langs": ["c"]}
	]`
	prog := `
		function dflt(v, d) {
			if (v is null) v = d
			return v
		}
		{
			print dflt($.nick, $.name), dflt($.first, "-")
		}
	`

	var out strings.Builder
	files := []lang.InputFile{{Name: "<demo>", Reader: strings.NewReader(doc)}}
	ev, err := lang.EvalProgram(prog, files, nil, &out, false)
	if err != nil {
		t.Fatalf("unexpected error: %v", err)
	}

	// what the program prints is the same with and without the change
	wantOut := "ann -\nbee go\ncy -\n"
	if out.String() != wantOut {
		t.Fatalf("unexpected program output\nwant %q\ngot  %q", wantOut, out.String())
	}

	written, err := ev.GetRootJson()
	if err != nil {
		t.Fatalf("GetRootJson: %v", err)
	}

	var got, want interface{}
	if err := json.Unmarshal([]byte(doc), &want); err != nil {
		t.Fatal(err)
	}
	if err := json.Unmarshal([]byte(written), &got); err != nil {
		t.Fatalf("-o output is not valid JSON: %v\n%s", err, written)
	}
	if !reflect.DeepEqual(got, want) {
		t.Fatalf("the program does not modify the document, but the -o output differs from the input\n--- input ---\n%s\n--- -o output ---\n%s", doc, written)
	}
}
