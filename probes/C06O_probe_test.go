package main

import (
	"strings"
	"testing"

	lang "github.com/alligator/jqawk/src"
)

// !~ is a comparison operator: it binds tighter than && and ||, and groups
// left to right with the other comparisons.
func TestDemoC06O(t *testing.T) {
	cases := []struct{ plain, paren string }{
		// comparison binds tighter than && when it is the right operand
		{`print 0 && "abc" !~ "x"`, `print 0 && ("abc" !~ "x")`},
		{`print 1 || "abc" !~ "x"`, `print 1 || ("abc" !~ "x")`},
		// equal precedence groups left to right
		{`print "abc" !~ "x" == true`, `print ("abc" !~ "x") == true`},
		{`print "abc" !~ "b" != true`, `print ("abc" !~ "b") != true`},
		// controls that involve only one operator pair on the left
		{`print "abc" !~ "x" && 1`, `print ("abc" !~ "x") && 1`},
		{`print 1 == 1 !~ "x"`, `print (1 == 1) !~ "x"`},
	}
	run := func(body string) string {
		var sb strings.Builder
		_, err := lang.EvalProgram("BEGIN { "+body+" }", nil, nil, &sb, false)
		if err != nil {
			return "error: " + err.Error()
		}
		return sb.String()
	}
	for _, c := range cases {
		got, want := run(c.plain), run(c.paren)
		if strings.HasPrefix(want, "error") {
			t.Fatalf("%q: parenthesised form failed: %s", c.paren, want)
		}
		if got != want {
			t.Errorf("%q gave %q, but %q gave %q", c.plain, got, c.paren, want)
		}
	}
	if got := run(`print 0 && "abc" !~ "x"`); got != "false\n" {
		t.Errorf(`0 && "abc" !~ "x" printed %q, want "false\n"`, got)
	}
}
