package main

import (
	"strings"
	"testing"

	lang "github.com/alligator/jqawk/src"
)

// The ENDFILE rules run once per file / JSON value, with $ bound to the root
// and $file naming the current file, whatever other kinds of rule the program
// has. This program has BEGIN and ENDFILE rules only: no BEGINFILE rule, no
// pattern rule, no END rule.
func TestDemoC02J(t *testing.T) {
	run := func(prog string) string {
		t.Helper()
		files := []lang.InputFile{
			{Name: "a.json", Reader: strings.NewReader(`[1, 2, 3]`)},
			{Name: "b.json", Reader: strings.NewReader("{\"k\": 1}\n[4, 5]")},
		}
		var out strings.Builder
		if _, err := lang.EvalProgram(prog, files, nil, &out, false); err != nil {
			t.Fatalf("%s: unexpected error %v", prog, err)
		}
		return out.String()
	}

	want := "begin\nendfile a.json 3\nendfile b.json 1\nendfile b.json 2\n"

	got := run(`
		BEGIN { print 'begin' }
		ENDFILE { print 'endfile', $file, $.length() }
	`)
	if got != want {
		t.Fatalf("BEGIN+ENDFILE program: expected %q, got %q", want, got)
	}

	// the same program with an END rule that does nothing
	got = run(`
		BEGIN { print 'begin' }
		ENDFILE { print 'endfile', $file, $.length() }
		END { }
	`)
	if got != want {
		t.Fatalf("BEGIN+ENDFILE+END program: expected %q, got %q", want, got)
	}
}
