package main

import (
	"strings"
	"testing"

	lang "github.com/alligator/jqawk/src"
)

// `next` immediately leaves the rule and no further rules are processed for
// the current item, wherever it is executed: here it is reached inside an if
// inside a for-in loop of a function that is called from the pattern of the
// first rule. The rules after it must not run for the rejected items, and the
// next item must start again at the first rule.
func TestDemoC07D(t *testing.T) {
	prog := `
function wanted(item) {
	for (tag in item.tags) {
		if (tag == "skip") {
			next
		}
	}
	return item.n > 10
}

wanted($) { print "big", $.n }
{ print "seen", $.n; count++ }
$.n < 0 { print "negative", $.n }

END { print "count", count }
`
	input := `[
		{ "n": 5,  "tags": ["a"] },
		{ "n": -1, "tags": ["a", "skip", "b"] },
		{ "n": 20, "tags": [] },
		{ "n": 30, "tags": ["skip"] },
		{ "n": -7, "tags": ["b"] }
	]`
	expected := "seen 5\nbig 20\nseen 20\nseen -7\nnegative -7\ncount 3\n"

	var sb strings.Builder
	files := []lang.InputFile{{Name: "<demo>", Reader: strings.NewReader(input)}}
	_, err := lang.EvalProgram(prog, files, nil, &sb, false)
	if err != nil {
		t.Fatalf("unexpected error: %v", err)
	}
	if sb.String() != expected {
		t.Fatalf("wrong execution order\nexpected:\n%s\ngot:\n%s", expected, sb.String())
	}
}
