package main

import (
	"encoding/json"
	"flag"
	"os"
	"path/filepath"
	"reflect"
	"testing"

	cli "github.com/alligator/jqawk/cli"
)

// runC04M runs the jqawk command line in-process, the way main() does.
func runC04M(t *testing.T, args ...string) int {
	t.Helper()
	oldArgs, oldFlags := os.Args, flag.CommandLine
	defer func() { os.Args, flag.CommandLine = oldArgs, oldFlags }()
	flag.CommandLine = flag.NewFlagSet("jqawk", flag.ContinueOnError)
	os.Args = append([]string{"jqawk"}, args...)
	return cli.Run("demo")
}

// -o must write a document that is valid JSON and equal to the input, whatever
// the output file held before (here: the larger result of an earlier run).
func TestDemoC04M(t *testing.T) {
	dir := t.TempDir()
	big := filepath.Join(dir, "big.json")
	small := filepath.Join(dir, "small.json")
	out := filepath.Join(dir, "out.json")

	bigSrc := `{"items": [{"id": 1, "tags": ["a", "b"]}, {"id": 2, "tags": []}], "total": 2}`
	smallSrc := `{"items": [], "total": 0}`
	if err := os.WriteFile(big, []byte(bigSrc), 0o644); err != nil {
		t.Fatal(err)
	}
	if err := os.WriteFile(small, []byte(smallSrc), 0o644); err != nil {
		t.Fatal(err)
	}

	check := func(inputPath, inputSrc string) {
		t.Helper()
		if rc := runC04M(t, "-o", out, "", inputPath); rc != 0 {
			t.Fatalf("jqawk -o %s '' %s: exit code %d", out, inputPath, rc)
		}
		written, err := os.ReadFile(out)
		if err != nil {
			t.Fatal(err)
		}
		var got, want interface{}
		if err := json.Unmarshal([]byte(inputSrc), &want); err != nil {
			t.Fatal(err)
		}
		if err := json.Unmarshal(written, &got); err != nil {
			t.Fatalf("-o wrote invalid JSON for input %s: %v\n%s", inputSrc, err, written)
		}
		if !reflect.DeepEqual(got, want) {
			t.Fatalf("-o wrote %s for input %s", written, inputSrc)
		}
	}

	// first run: a larger document; second run: a smaller one, same output file
	check(big, bigSrc)
	check(small, smallSrc)
}
