package main

import (
	"strings"
	"testing"

	lang "github.com/alligator/jqawk/src"
)

// Call, member and index bind tighter than the prefix operators ! - +, whatever
// the operand is: -x.m() means -(x.m()) for a number literal just as it does for
// a variable, a member or a parenthesised expression.
func TestDemoC06F(t *testing.T) {
	run := func(prog string) (string, error) {
		var sb strings.Builder
		_, err := lang.EvalProgram(prog, nil, nil, &sb, false)
		return sb.String(), err
	}

	cases := []struct {
		plain, parenthesised, expected string
	}{
		// operand is a variable / member / element
		{"-n.floor()", "-(n.floor())", "-2\n"},
		{"-o.n.ceil()", "-((o.n).ceil())", "-3\n"},
		{"-r[0].floor()", "-((r[0]).floor())", "-2\n"},
		{"!s.length()", "!(s.length())", "true\n"},
		// operand is a literal
		{"-2.5.floor()", "-((2.5).floor())", "-2\n"},
		{"-2.5.ceil()", "-((2.5).ceil())", "-3\n"},
		{"- 2.5.floor()", "-((2.5).floor())", "-2\n"},
		{"+2.5.floor()", "+((2.5).floor())", "2\n"},
		{"!''.length()", "!((''). length())", "true\n"},
		{"-'ab'.length()", "-(('ab').length())", "-2\n"},
		// and the same literal as the right operand of a binary operator
		{"10 + -2.5.floor()", "10 + (-((2.5).floor()))", "8\n"},
		{"10 * -2.5.ceil()", "10 * (-((2.5).ceil()))", "-30\n"},
		{"1 - -7.5.floor() % 4", "1 - ((-((7.5).floor())) % 4)", "4\n"},
		// parentheses still override
		{"(-2.5).floor()", "((-2.5)).floor()", "-3\n"},
	}

	for _, tc := range cases {
		wrap := func(expr string) string {
			return "BEGIN { n = 2.5; o = { n: 2.5 }; r = [2.5]; s = ''; print " + expr + " }"
		}
		gotParen, err := run(wrap(tc.parenthesised))
		if err != nil {
			t.Fatalf("%s: unexpected error: %v", tc.parenthesised, err)
		}
		if gotParen != tc.expected {
			t.Fatalf("%s: expected %q, got %q", tc.parenthesised, tc.expected, gotParen)
		}
		gotPlain, err := run(wrap(tc.plain))
		if err != nil {
			t.Fatalf("%s: unexpected error %q, but %s evaluates to %q", tc.plain, err.Error(), tc.parenthesised, gotParen)
		}
		if gotPlain != gotParen {
			t.Fatalf("%s gives %q but %s gives %q", tc.plain, gotPlain, tc.parenthesised, gotParen)
		}
	}
}
