package main

import (
	"encoding/json"
	"io"
	"reflect"
	"strings"
	"testing"

	lang "github.com/alligator/jqawk/src"
)

// A value that references the same array from two places is not circular: it
// does not contain itself, so json() and -o must serialise it (the shared part
// is simply written twice). Only a value that really contains itself is
// rejected.
func TestDemoC04B(t *testing.T) {
	parse := func(what string, text string) interface{} {
		var v interface{}
		if err := json.Unmarshal([]byte(text), &v); err != nil {
			t.Fatalf("%s: not valid JSON: %v\n%s", what, err, text)
		}
		return v
	}

	// json(): one array stored under two keys of an object
	var sb strings.Builder
	_, err := lang.EvalProgram(`BEGIN { a = [1, 2]; b.x = a; b.y = a; print json(b) }`, nil, nil, &sb, false)
	want := parse("want", `{"x": [1, 2], "y": [1, 2]}`)
	if err != nil {
		t.Errorf("json() of an object that holds the same array twice failed: %v", err)
	} else if got := parse("json(b)", sb.String()); !reflect.DeepEqual(want, got) {
		t.Errorf("json(b) = %s, want %v", sb.String(), want)
	}

	// json(): a shared record (holding an array) listed twice in an array
	sb.Reset()
	_, err = lang.EvalProgram(`BEGIN { rec = { "tags": ["t"] }; list = [rec, rec]; print json(list) }`, nil, nil, &sb, false)
	want = parse("want", `[{"tags": ["t"]}, {"tags": ["t"]}]`)
	if err != nil {
		t.Errorf("json() of an array that lists the same record twice failed: %v", err)
	} else if got := parse("json(list)", sb.String()); !reflect.DeepEqual(want, got) {
		t.Errorf("json(list) = %s, want %v", sb.String(), want)
	}

	// -o: the program copies a sub-array of the document to a second key
	doc := `{"items": [[1], [2, 3]], "name": "n"}`
	files := []lang.InputFile{{Name: "<demo>", Reader: strings.NewReader(doc)}}
	ev, err := lang.EvalProgram(`{ $.backup = $.items }`, files, nil, io.Discard, false)
	if err != nil {
		t.Fatalf("unexpected error: %v", err)
	}
	out, err := ev.GetRootJson()
	want = parse("want", `{"items": [[1], [2, 3]], "backup": [[1], [2, 3]], "name": "n"}`)
	if err != nil {
		t.Errorf("GetRootJson failed for a document without a cycle: %v", err)
	} else if got := parse("-o output", out); !reflect.DeepEqual(want, got) {
		t.Errorf("-o output = %s, want %v", out, want)
	}

	// real cycles are still errors
	_, err = lang.EvalProgram(`BEGIN { c = []; c[0] = 1; c[1] = c; print json(c) }`, nil, nil, io.Discard, false)
	if err == nil || !strings.Contains(err.Error(), "circular reference") {
		t.Errorf("json() of a self-containing array: got error %v, want a circular reference error", err)
	}
	_, err = lang.EvalProgram(`BEGIN { o.k.list = []; o.k.list[0] = o.k; print json(o) }`, nil, nil, io.Discard, false)
	if err == nil || !strings.Contains(err.Error(), "circular reference") {
		t.Errorf("json() of an object/array cycle: got error %v, want a circular reference error", err)
	}
}
