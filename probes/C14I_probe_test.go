package main

import (
	"bytes"
	"os"
	"os/exec"
	"path/filepath"
	"strings"
	"testing"

	lang "github.com/alligator/jqawk/src"
)

// A program given with -f behaves as the same text given inline. The empty
// program is a program too (it prints nothing, and with -o it pretty prints
// the input), so an empty program file has to behave like the inline
// program "".
func TestDemoC14I(t *testing.T) {
	dir := t.TempDir()
	bin := filepath.Join(dir, "jqawk-demo")

	build := exec.Command("go", "build", "-o", bin, ".")
	build.Env = append(os.Environ(),
		"GOFLAGS=-mod=mod", "GOPROXY=off", "GOSUMDB=off", "GOTOOLCHAIN=local")
	if out, err := build.CombinedOutput(); err != nil {
		t.Fatalf("could not build jqawk: %v\n%s", err, out)
	}

	const input = `{"a": [1, 2], "b": "x"}`
	dataPath := filepath.Join(dir, "data.json")
	if err := os.WriteFile(dataPath, []byte(input), 0o644); err != nil {
		t.Fatal(err)
	}

	type result struct {
		stdout string
		stderr string
		code   int
	}
	run := func(args ...string) result {
		cmd := exec.Command(bin, args...)
		cmd.Dir = dir
		var stdout, stderr bytes.Buffer
		cmd.Stdout = &stdout
		cmd.Stderr = &stderr
		// stdin is left nil: the child reads from the null device
		err := cmd.Run()
		code := 0
		if err != nil {
			exitErr, ok := err.(*exec.ExitError)
			if !ok {
				t.Fatalf("could not run %v: %v", args, err)
			}
			code = exitErr.ExitCode()
		}
		return result{stdout.String(), stderr.String(), code}
	}

	// what the library interpreter produces for a program text
	library := func(prog string) string {
		var sb strings.Builder
		files := []lang.InputFile{{Name: dataPath, Reader: strings.NewReader(input)}}
		ev, err := lang.EvalProgram(prog, files, nil, &sb, false)
		if err != nil {
			t.Fatalf("library failed on %q: %v", prog, err)
		}
		j, err := ev.GetRootJson()
		if err != nil {
			t.Fatalf("library could not serialise the root: %v", err)
		}
		return sb.String() + j
	}

	programs := []struct {
		name string
		text string
	}{
		{"comment only", "# nothing to do\n"},
		{"blank line", "\n"},
		{"one rule", "{ $.b = 'y' }\n"},
		{"empty", ""},
	}

	for _, p := range programs {
		progPath := filepath.Join(dir, "prog.jqawk")
		if err := os.WriteFile(progPath, []byte(p.text), 0o644); err != nil {
			t.Fatal(err)
		}

		want := library(p.text)
		inline := run("-o", "-", p.text, dataPath)
		fromFile := run("-f", progPath, "-o", "-", dataPath)

		if inline.code != 0 || inline.stdout != want {
			t.Errorf("%s: inline program: exit %d, stdout %q, stderr %q; want exit 0, stdout %q",
				p.name, inline.code, inline.stdout, inline.stderr, want)
		}
		if fromFile.code != inline.code || fromFile.stdout != inline.stdout {
			t.Errorf("%s: -f differs from the inline program:\n-f:     exit %d, stdout %q, stderr %q\ninline: exit %d, stdout %q",
				p.name, fromFile.code, fromFile.stdout, fromFile.stderr, inline.code, inline.stdout)
		}
	}
}
