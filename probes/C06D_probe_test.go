package main

import (
	"strings"
	"testing"

	lang "github.com/alligator/jqawk/src"
)

// runDemoC06D evaluates a jqawk program with no input and returns what it
// printed, or the error text.
func runDemoC06D(t *testing.T, prog string) string {
	t.Helper()
	var sb strings.Builder
	_, err := lang.EvalProgram(prog, []lang.InputFile{}, nil, &sb, false)
	if err != nil {
		return "ERROR: " + err.Error()
	}
	return sb.String()
}

// && and || share ONE precedence level and group left to right, so
//   a || b && c   means   (a || b) && c
// (not a || (b && c) as in C). The two groupings only disagree when a is
// truthy and c is falsy, and in which operands get evaluated.
func TestDemoC06D(t *testing.T) {
	cases := []struct {
		name     string
		bare     string
		parens   string
		expected string
	}{
		{
			name:     "|| then &&, values",
			bare:     "BEGIN { print true || false && false }",
			parens:   "BEGIN { print ((true || false) && false) }",
			expected: "false\n",
		},
		{
			name:     "|| then &&, variables",
			bare:     "BEGIN { a = 1; b = 0; c = 0; print a || b && c }",
			parens:   "BEGIN { a = 1; b = 0; c = 0; print ((a || b) && c) }",
			expected: "false\n",
		},
		{
			name: "|| then &&, which operands are evaluated",
			bare: `function t(s) { print s; return true }
				function f(s) { print s; return false }
				BEGIN { print t('a') || t('b') && f('c') }`,
			parens: `function t(s) { print s; return true }
				function f(s) { print s; return false }
				BEGIN { print ((t('a') || t('b')) && f('c')) }`,
			expected: "a\nc\nfalse\n",
		},
		{
			name:     "comparison operands, || then && then ||",
			bare:     "BEGIN { x = 5; print x > 1 || x > 2 && x > 9 || x > 8 }",
			parens:   "BEGIN { x = 5; print ((((x > 1) || (x > 2)) && (x > 9)) || (x > 8)) }",
			expected: "false\n",
		},
		{
			// this order means the same under either reading
			name:     "&& then ||",
			bare:     "BEGIN { print false && true || true }",
			parens:   "BEGIN { print ((false && true) || true) }",
			expected: "true\n",
		},
	}

	for _, tc := range cases {
		bare := runDemoC06D(t, tc.bare)
		parens := runDemoC06D(t, tc.parens)
		if parens != tc.expected {
			t.Errorf("%s: parenthesised form printed %q, expected %q", tc.name, parens, tc.expected)
		}
		if bare != parens {
			t.Errorf("%s: %q printed %q but its fully parenthesised form %q printed %q",
				tc.name, tc.bare, bare, tc.parens, parens)
		}
	}
}
