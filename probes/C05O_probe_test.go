package main

import (
	"strings"
	"testing"

	lang "github.com/alligator/jqawk/src"
)

// a ~ b and a !~ b test the pattern that the right operand has NOW, and an
// invalid pattern is a runtime error every time it is used: the same ~
// expression is evaluated several times with a different regex value as its
// right operand (a function parameter, a loop variable, a member of a record)
func TestDemoC05O(t *testing.T) {
	run := func(prog string, json string) (string, error) {
		var sb strings.Builder
		files := []lang.InputFile{}
		if json != "" {
			files = append(files, lang.InputFile{Name: "<demo>", Reader: strings.NewReader(json)})
		}
		_, err := lang.EvalProgram(prog, files, nil, &sb, false)
		return sb.String(), err
	}

	cases := []struct {
		name, prog, json, expected string
	}{
		{
			name: "regex parameter",
			prog: `
				function has(s, re) { return s ~ re }
				BEGIN { print has("apple", /^a/), has("banana", /^b/), has("cherry", /^a/), has("cherry", /y$/) }
			`,
			expected: "true true false true\n",
		},
		{
			name: "regex loop variable",
			prog: `
				BEGIN {
					for (re in [/x/, /b/, /^$/]) {
						print "abc" ~ re, "abc" !~ re
					}
				}
			`,
			expected: "false true\ntrue false\nfalse true\n",
		},
		{
			name: "regex chosen per record",
			prog: `
				BEGIN { digits = /^[0-9]+$/; letters = /^[a-z]+$/ }
				{
					want = letters
					if ($.kind == "num") want = digits
					print $.v ~ want
				}
			`,
			json:     `[{"kind": "num", "v": "123"}, {"kind": "word", "v": "abc"}, {"kind": "num", "v": "abc"}, {"kind": "word", "v": "123"}]`,
			expected: "true\ntrue\nfalse\nfalse\n",
		},
		{
			name: "literal regex stays correct",
			prog: `
				{ print $ ~ /an/, $ !~ /an/ }
			`,
			json:     `["banana", "cherry", "mango"]`,
			expected: "true false\nfalse true\ntrue false\n",
		},
	}

	for _, tc := range cases {
		out, err := run(tc.prog, tc.json)
		if err != nil {
			t.Errorf("%s: unexpected error %v", tc.name, err)
			continue
		}
		if out != tc.expected {
			t.Errorf("%s: expected %q, got %q", tc.name, tc.expected, out)
		}
	}

	// an invalid pattern is a runtime error, also when the same expression
	// has matched against a valid one before
	out, err := run(`
		function has(s, re) { return s ~ re }
		BEGIN { print has("a", /a/); print has("a", /(/); print "not reached" }
	`, "")
	if err == nil {
		t.Errorf("invalid regex: expected a runtime error, got none (output %q)", out)
	} else if _, ok := err.(lang.RuntimeError); !ok {
		t.Errorf("invalid regex: expected a runtime error, got %T %v", err, err)
	} else if out != "true\n" {
		t.Errorf("invalid regex: expected the output before the error to be %q, got %q", "true\n", out)
	}
}
