package main

import (
	"bytes"
	"strings"
	"testing"

	lang "github.com/alligator/jqawk/src"
)

// Storing to a huge index of a variable that was never set must be refused
// with an ordinary runtime error ("index too large to auto-fill array"), the
// output printed before the store must be kept, and nothing may panic or try
// to allocate the array.
func TestDemoC20E(t *testing.T) {
	run := func(prog string) (out string, err error, panicked interface{}) {
		var buf bytes.Buffer
		defer func() {
			if r := recover(); r != nil {
				panicked = r
				out = buf.String()
			}
		}()
		_, err = lang.EvalProgram(prog, nil, nil, &buf, false)
		return buf.String(), err, nil
	}

	cases := []struct {
		name string
		prog string
	}{
		// 10^15: far beyond the fill limit, the variable x has never been assigned
		{"unset variable, literal index", `BEGIN { print "before"; x[1000000000000000] = 1; print "after" }`},
		// same through ++, which also stores through the unset variable
		{"unset variable, increment", `BEGIN { print "before"; hits[1000000000000000]++; print "after" }`},
		// a computed huge index
		{"unset variable, computed index", `BEGIN { print "before"; n = 1000000 * 1000000 * 1000; seen[n] = true; print "after" }`},
	}

	for _, tc := range cases {
		out, err, panicked := run(tc.prog)
		if panicked != nil {
			t.Fatalf("%s: interpreter panicked instead of reporting an error: %v", tc.name, panicked)
		}
		if err == nil {
			t.Fatalf("%s: expected a runtime error, got none (output %q)", tc.name, out)
		}
		rtErr, ok := err.(lang.RuntimeError)
		if !ok {
			t.Fatalf("%s: expected a lang.RuntimeError, got %T: %v", tc.name, err, err)
		}
		if !strings.Contains(rtErr.Message, "index too large") {
			t.Fatalf("%s: unexpected error message %q", tc.name, rtErr.Message)
		}
		if out != "before\n" {
			t.Fatalf("%s: prior output not kept, got %q", tc.name, out)
		}
	}

	// below the limit everything still works, set or unset
	out, err, panicked := run(`BEGIN { a[1000] = 1; b = []; b[1000] = 1; print a.length(), b.length() }`)
	if panicked != nil || err != nil || out != "1001 1001\n" {
		t.Fatalf("small fill: out=%q err=%v panic=%v", out, err, panicked)
	}
}
