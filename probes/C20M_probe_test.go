package main

import (
	"fmt"
	"strings"
	"testing"

	lang "github.com/alligator/jqawk/src"
)

// runC20M runs a program without input and reports its output, its error and
// whether the interpreter panicked (a panic would kill the jqawk process)
func runC20M(prog string) (out string, err error, panicked interface{}) {
	var sb strings.Builder
	func() {
		defer func() {
			panicked = recover()
		}()
		_, err = lang.EvalProgram(prog, nil, nil, &sb, false)
	}()
	return sb.String(), err, panicked
}

// The first store to an unset variable at an enormous index is refused with
// the ordinary "index too large" runtime error, whatever the magnitude of the
// index, exactly like the same store to an array that already exists. The
// output printed before the store is kept.
func TestDemoC20M(t *testing.T) {
	// up to the limit everything works, on an unset variable too
	out, err, p := runC20M(`BEGIN { a[1000] = 1; print a.length(); b[0] = 1; print b.length() }`)
	if p != nil || err != nil || out != "1001\n1\n" {
		t.Fatalf("small first store: out=%q err=%v panic=%v", out, err, p)
	}

	// 10^18 fits an int, so it is an index like any other, only much too large
	stores := []string{
		`a[1000000 * 1000000 * 1000000] = 1`,       // unset variable
		`a[1000000 * 1000000 * 1000000]++`,         // unset variable, through ++
		`a.b[1000000 * 1000000 * 1000000] = 1`,     // unset member of an unset variable
		`a = []; a[1000000 * 1000000 * 1000000] = 1`, // existing array
		`a[1000000 * 1000000 * 100000] = 1`,        // 10^17
		`a[70000000 * 1000000] = 1`,                // 7 * 10^13
	}
	for _, store := range stores {
		prog := fmt.Sprintf("BEGIN { print \"before\"; %s; print \"after\" }", store)
		out, err, p := runC20M(prog)
		if p != nil {
			t.Fatalf("%s: interpreter panicked: %v", store, p)
		}
		if out != "before\n" {
			t.Fatalf("%s: expected the output before the store to be kept and nothing after it, got %q", store, out)
		}
		rtErr, ok := err.(lang.RuntimeError)
		if !ok {
			t.Fatalf("%s: expected a runtime error, got %#v", store, err)
		}
		if rtErr.Message != "index too large to auto-fill array" {
			t.Fatalf("%s: unexpected message %q", store, rtErr.Message)
		}
	}
}
