package main

import (
	"io"
	"strings"
	"testing"

	lang "github.com/alligator/jqawk/src"
)

// A runtime fault is reported at the expression whose evaluation failed. When a
// call cannot be made because the call stack is exhausted, the failing
// expression is that call: the reported line is the line the call is written
// on, the quoted text is that line, and the column falls inside the call.
func TestDemoC12H(t *testing.T) {
	type fault struct {
		name string
		prog string
		line int    // 1-based line of the call that overflows the stack
		call string // text of that call on its line
	}

	faults := []fault{
		{
			name: "direct recursion",
			prog: "function f(n) {\n  return f(n + 1)\n}\n\nBEGIN {\n  print f(0)\n}\n",
			line: 2,
			call: "f(n + 1)",
		},
		{
			name: "recursion through a second function, comments and CRLF before it",
			prog: "# dépth test\r\n\r\nfunction ping(n) {\r\n  x = \"é\"\r\n  return pong(n)\r\n}\r\n" +
				"function pong(n) {\r\n  return ping(n + 1) # again\r\n}\r\n" +
				"BEGIN {\r\n  ping(0)\r\n}\r\n",
			// 4096 frames are available below the root frame: ping takes the odd
			// depths and pong the even ones, so the frame that cannot be pushed
			// (depth 4097) is one for ping, and the failing call is pong's
			line: 8,
			call: "ping(n + 1)",
		},
	}

	for _, f := range faults {
		lines := strings.Split(f.prog, "\n")
		wantLine := lines[f.line-1]
		start := strings.Index(wantLine, f.call)
		if start < 0 {
			t.Fatalf("%s: bad test: %q not on line %d", f.name, f.call, f.line)
		}
		end := start + len(f.call)

		_, err := lang.EvalProgram(f.prog, nil, nil, io.Discard, false)
		runErr, ok := err.(lang.RuntimeError)
		if !ok {
			t.Errorf("%s: expected a runtime error, got %#v", f.name, err)
			continue
		}
		if runErr.Message != "call depth limit exceeded" {
			t.Errorf("%s: message %q, want %q", f.name, runErr.Message, "call depth limit exceeded")
		}

		// consistent with the program text
		if runErr.Line < 1 || runErr.Line > len(lines) {
			t.Errorf("%s: reported line %d is not a line of the program", f.name, runErr.Line)
		} else if runErr.SrcLine != lines[runErr.Line-1] {
			t.Errorf("%s: quoted line %q is not line %d of the program (%q)", f.name, runErr.SrcLine, runErr.Line, lines[runErr.Line-1])
		}

		// and pointing at the call that failed
		if runErr.Line != f.line {
			t.Errorf("%s: reported line %d (%q), want %d (%q)", f.name, runErr.Line, runErr.SrcLine, f.line, wantLine)
		}
		if runErr.Col < start || runErr.Col >= end {
			t.Errorf("%s: reported column %d, want it inside %q at [%d,%d) of %q", f.name, runErr.Col, f.call, start, end, wantLine)
		}
	}
}
