package main

import (
	"strings"
	"testing"

	lang "github.com/alligator/jqawk/src"
)

// -a is the number -num(a) for every operand, however the program text is
// laid out: the operand here is a numeric literal that does not touch the
// minus sign (a space, a line break, parentheses or a second sign in between)
func TestDemoC05P(t *testing.T) {
	cases := []struct {
		name, prog, expected string
	}{
		{"adjacent (control)", `BEGIN { print -5 + 2, 1 - -1, 2 * -3, -0.5, 3 -1, -2 % 3 }`, "-3 2 -6 -0.5 2 -2\n"},
		{"space after the sign", `BEGIN { print - 5 }`, "-5\n"},
		{"space, as right operand", `BEGIN { x = 3; print x * - 2, x + - 0.25 }`, "-6 2.75\n"},
		{"binary minus then spaced unary minus", `BEGIN { print 1 - - 1 }`, "2\n"},
		{"parenthesised literal", `BEGIN { print -(2), 4 / -(8) }`, "-2 -0.5\n"},
		{"double negation", `BEGIN { print - -2, -(-2) }`, "2 2\n"},
		{"line break after the sign", "BEGIN { y = -\n7; print y, y is number }", "-7 true\n"},
		{"negative zero", `BEGIN { z = - 0; print z, z == 0, z + "" }`, "-0 true -0\n"},
	}

	for _, tc := range cases {
		var sb strings.Builder
		_, err := lang.EvalProgram(tc.prog, nil, nil, &sb, false)
		if err != nil {
			t.Errorf("%s: %s: unexpected error %v", tc.name, tc.prog, err)
			continue
		}
		if sb.String() != tc.expected {
			t.Errorf("%s: %s: expected %q, got %q", tc.name, tc.prog, tc.expected, sb.String())
		}
	}
}
