package main

import (
	"strings"
	"testing"

	lang "github.com/alligator/jqawk/src"
)

// print writes its arguments separated by exactly one space and ended by a
// newline. That holds whatever the arguments render to, in particular when an
// argument is the empty string: n arguments always give n-1 separators.
func TestDemoC17G(t *testing.T) {
	cases := []struct {
		prog     string
		json     string
		expected string
	}{
		// ordinary line, nothing special
		{`{ print "a", "b", 1 }`, `1`, "a b 1\n"},
		// empty string in the middle and at the end
		{`{ print "a", "", "b" }`, `1`, "a  b\n"},
		{`{ print "a", "" }`, `1`, "a \n"},
		// empty string as the first argument
		{`{ print "", "a" }`, `1`, " a\n"},
		{`{ print "", "", "a" }`, `1`, "  a\n"},
		{`{ print "", "" }`, `1`, " \n"},
		// empty string read from the input, as a leading column
		{`{ print $.first, $.last }`, `{"first": "", "last": "x"}`, " x\n"},
		{`{ print $[0], $[1], $[2] }`, `[["", 1, [""]]]`, " 1 [\"\"]\n"},
	}

	for _, tc := range cases {
		var sb strings.Builder
		files := []lang.InputFile{{Name: "<test>", Reader: strings.NewReader(tc.json)}}
		_, err := lang.EvalProgram(tc.prog, files, nil, &sb, false)
		if err != nil {
			t.Fatalf("%s: unexpected error: %v", tc.prog, err)
		}
		if sb.String() != tc.expected {
			t.Errorf("%s on %s: expected %q, got %q", tc.prog, tc.json, tc.expected, sb.String())
		}
	}
}
