package main

import (
	"strings"
	"testing"

	lang "github.com/alligator/jqawk/src"
)

func demoC03PRun(t *testing.T, prog string, input string, selectors []string) string {
	var sb strings.Builder
	_, err := lang.EvalProgram(prog,
		[]lang.InputFile{{Name: "in.json", Reader: strings.NewReader(input)}}, selectors, &sb, false)
	if err != nil {
		t.Fatalf("input %q selectors %q: unexpected error %v", input, selectors, err)
	}
	return sb.String()
}

// Processing a stream of values is the same as processing the values one
// after another: the output for the stream is the concatenation of the
// outputs for the single values, with and without root selectors.
func TestDemoC03P(t *testing.T) {
	prog := `BEGINFILE { print "begin" } { print $ } ENDFILE { print "end" }`
	values := []string{
		`{"a": [1, 2], "b": [3]}`,
		`{"a": [4], "b": [5, 6]}`,
		`{"a": 7, "b": "x"}`,
	}
	for _, selectors := range [][]string{nil, {"$.a"}, {"$.a", "$.b"}} {
		expected := ""
		for _, v := range values {
			expected += demoC03PRun(t, prog, v, selectors)
		}
		for _, sep := range []string{" ", "\n", ""} {
			got := demoC03PRun(t, prog, strings.Join(values, sep)+sep, selectors)
			if got != expected {
				t.Errorf("selectors %q separator %q:\nstream gives    %q\nvalue by value  %q", selectors, sep, got, expected)
			}
		}
	}
}
