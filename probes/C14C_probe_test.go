package main

import (
	"strings"
	"testing"

	lang "github.com/alligator/jqawk/src"
)

// runC14C runs prog over one in-memory input with the given root selectors and
// returns what the program printed and the error EvalProgram reported.
func runC14C(prog string, input string, selectors []string) (string, error) {
	var sb strings.Builder
	files := []lang.InputFile{{Name: "in.json", Reader: strings.NewReader(input)}}
	_, err := lang.EvalProgram(prog, files, selectors, &sb, false)
	return sb.String(), err
}

// `-r E` must behave as `BEGINFILE { $ = E }`. When E is not one well-formed
// expression (something other than the end of the text follows it), the
// BEGINFILE spelling is a syntax error, so the -r spelling has to be rejected
// with a syntax error as well: nothing printed, error reported (the command line
// turns that into a diagnostic on stderr and exit status 1).
func TestDemoC14C(t *testing.T) {
	const input = `{"a": [1, 2], "b": [3]}`

	// sanity: a well-formed selector and its BEGINFILE spelling agree
	outSel, errSel := runC14C(`{ print }`, input, []string{`$.a`})
	outBf, errBf := runC14C(`BEGINFILE { $ = $.a } { print }`, input, nil)
	if errSel != nil || errBf != nil {
		t.Fatalf("well-formed selector: unexpected errors %v / %v", errSel, errBf)
	}
	if outSel != "1\n2\n" || outSel != outBf {
		t.Fatalf("well-formed selector: -r printed %q, BEGINFILE printed %q", outSel, outBf)
	}

	malformed := []string{
		"$.a }",
		"$.a; )",
		"$.a; ]",
		"$.a\n)",
		"$.a } $.b",
	}
	for _, sel := range malformed {
		// the BEGINFILE spelling of the same text does not parse
		_, errBf := runC14C("BEGINFILE { $ = "+sel+" } { print }", input, nil)
		if _, ok := errBf.(lang.SyntaxError); !ok {
			t.Fatalf("selector %q: expected the BEGINFILE spelling to be a syntax error, got %v", sel, errBf)
		}

		// so -r with that text must not be accepted either
		out, err := runC14C(`{ print }`, input, []string{sel})
		if _, ok := err.(lang.SyntaxError); !ok {
			t.Errorf("selector %q: expected a syntax error, got error %v and output %q", sel, err, out)
			continue
		}
		if out != "" {
			t.Errorf("selector %q: rejected selector still produced output %q", sel, out)
		}
	}
}
