package main

import (
	"encoding/json"
	"flag"
	"os"
	"path/filepath"
	"reflect"
	"testing"

	cli "github.com/alligator/jqawk/cli"
)

// runs the command line front end in-process: jqawk <args...>
func demoC04LRun(args ...string) int {
	oldArgs, oldFlags := os.Args, flag.CommandLine
	defer func() { os.Args, flag.CommandLine = oldArgs, oldFlags }()
	os.Args = append([]string{"jqawk"}, args...)
	flag.CommandLine = flag.NewFlagSet("jqawk", flag.ContinueOnError)
	return cli.Run("demo")
}

// A root that JSON cannot express (it contains itself, or holds a non-finite
// number) must be rejected with an error, never leave malformed output behind:
// whatever -o leaves on disk has to be a valid JSON document.
func TestDemoC04L(t *testing.T) {
	dir := t.TempDir()
	input := `{"name": "gate", "tags": [], "meta": {}, "n": -0.5}`
	inPath := filepath.Join(dir, "in.json")
	if err := os.WriteFile(inPath, []byte(input), 0o644); err != nil {
		t.Fatal(err)
	}

	// sanity: an untouched document is written back equal to the input
	okPath := filepath.Join(dir, "ok.json")
	if code := demoC04LRun("-o", okPath, "", inPath); code != 0 {
		t.Fatalf("plain -o run failed with exit code %d", code)
	}
	written, err := os.ReadFile(okPath)
	if err != nil {
		t.Fatal(err)
	}
	var want, got interface{}
	if err := json.Unmarshal([]byte(input), &want); err != nil {
		t.Fatal(err)
	}
	if err := json.Unmarshal(written, &got); err != nil {
		t.Fatalf("-o wrote invalid JSON %q: %v", written, err)
	}
	if !reflect.DeepEqual(want, got) {
		t.Fatalf("-o wrote %q, which differs from the input %q", written, input)
	}

	cases := []struct {
		name     string
		prog     string
		existing string // content of the output file before the run ("" = no file)
	}{
		{"cycle through an object", `{ $.self = $ }`, ""},
		{"cycle through an array", `{ $.tags[0] = $ }`, ""},
		{"non-finite number", `{ $.n = num("Inf") }`, ""},
		{"cycle, output file exists", `{ $.meta.up = $ }`, `{"keep": true}`},
	}
	for i, tc := range cases {
		outPath := filepath.Join(dir, "out"+string(rune('0'+i))+".json")
		if tc.existing != "" {
			if err := os.WriteFile(outPath, []byte(tc.existing), 0o644); err != nil {
				t.Fatal(err)
			}
		}

		code := demoC04LRun("-o", outPath, tc.prog, inPath)
		if code == 0 {
			t.Fatalf("%s: expected a failing exit code", tc.name)
		}

		left, err := os.ReadFile(outPath)
		if os.IsNotExist(err) {
			continue // nothing was written, fine
		}
		if err != nil {
			t.Fatal(err)
		}
		if !json.Valid(left) {
			t.Fatalf("%s: the run failed (exit code %d) but left malformed output in the -o file: %q", tc.name, code, left)
		}
	}
}
