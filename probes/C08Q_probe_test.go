package main

import (
	"strings"
	"testing"

	lang "github.com/alligator/jqawk/src"
)

func demoC08QRun(t *testing.T, prog string, json string) string {
	t.Helper()
	files := []lang.InputFile{{Name: "<demo>", Reader: strings.NewReader(json)}}
	var sb strings.Builder
	if _, err := lang.EvalProgram(prog, files, nil, &sb, false); err != nil {
		t.Fatalf("unexpected error: %v", err)
	}
	return sb.String()
}

// A call that leaves through a bare `return` (or returns nothing at all)
// yields null, no matter which calls were completed earlier in the run.
func TestDemoC08Q(t *testing.T) {
	prog := `
		function seven() { return 7 }
		function bare() { return }
		function guarded(x) {
			if (x > 1) {
				return
			}
			return 'small'
		}
		function helper_then_bare() {
			tmp = seven()
			return
		}
		BEGIN {
			# no value-returning call has been completed yet
			print 'first', bare()
		}
		{
			a = seven()
			# the earlier, finished call to seven() must leave nothing behind
			r = bare()
			print $, a, r, r is null, guarded($), helper_then_bare()
		}
	`
	got := demoC08QRun(t, prog, `[1, 2, 3]`)
	want := "first null\n" +
		"1 7 null true small null\n" +
		"2 7 null true null null\n" +
		"3 7 null true null null\n"
	if got != want {
		t.Fatalf("a bare return must yield null regardless of earlier completed calls\nwant:\n%s\ngot:\n%s", want, got)
	}
}
