package main

import (
	"strings"
	"testing"

	lang "github.com/alligator/jqawk/src"
)

// Comparing a container with anything but null is a runtime fault, whichever
// operand slot the container is in and whatever construct performs the
// comparison. The run stops there: what was printed before is kept, nothing is
// printed afterwards and the fault is not silently turned into "not equal".
func TestDemoC11N(t *testing.T) {
	cases := []struct {
		name    string
		prog    string
		json    string
		wantOut string
		wantErr string
	}{
		{
			name:    "object as left operand",
			prog:    `BEGIN { print "before"; o = {}; if (o == 1) { print "eq" } print "after" }`,
			json:    `[]`,
			wantOut: "before\n",
			wantErr: "cannot compare object and number",
		},
		{
			name:    "object as right operand",
			prog:    `BEGIN { print "before"; o = {}; if (1 == o) { print "eq" } print "after" }`,
			json:    `[]`,
			wantOut: "before\n",
			wantErr: "cannot compare number and object",
		},
		{
			name:    "object as right operand of <",
			prog:    `BEGIN { print "before"; o = { n: 3 }; x = "a" < o; print "after", x }`,
			json:    `[]`,
			wantOut: "before\n",
			wantErr: "cannot compare string and object",
		},
		{
			name:    "rule pattern, input member is an object",
			prog:    `$.id == $.ref { print "match", $.id } END { print "done" }`,
			json:    `[{"id": 1, "ref": 1}, {"id": 2, "ref": {"to": 2}}, {"id": 3, "ref": 3}]`,
			wantOut: "match 1\n",
			wantErr: "cannot compare number and object",
		},
		{
			name:    "call argument compared by contains",
			prog:    `BEGIN { print "before"; print [1, 2].contains({}); print "after" }`,
			json:    `[]`,
			wantOut: "before\n",
			wantErr: "cannot compare number and object",
		},
	}

	for _, tc := range cases {
		t.Run(tc.name, func(t *testing.T) {
			var out strings.Builder
			files := []lang.InputFile{{Name: "<demo>", Reader: strings.NewReader(tc.json)}}
			_, err := lang.EvalProgram(tc.prog, files, nil, &out, false)

			rtErr, ok := err.(lang.RuntimeError)
			if !ok {
				t.Fatalf("expected a runtime error, got %#v (output %q)", err, out.String())
			}
			if rtErr.Message != tc.wantErr {
				t.Fatalf("expected error %q, got %q", tc.wantErr, rtErr.Message)
			}
			if out.String() != tc.wantOut {
				t.Fatalf("expected output %q, got %q", tc.wantOut, out.String())
			}
		})
	}
}
