package main

import (
	"strings"
	"testing"

	lang "github.com/alligator/jqawk/src"
)

// A method or builtin that is called with missing arguments, or on a receiver
// of another kind, must end in a runtime error (or its neutral value), never
// in a crash of the interpreter - wherever in the program the call is written.
func TestDemoC16J(t *testing.T) {
	// a realistic long one-liner: some set-up first, the faulty call last
	prefix := `BEGIN { total = 0; names = []; sep = ","; line = "alpha,beta,gamma,delta"; n = 12.5; o = {a: 1, b: 2}; `

	cases := []struct {
		call    string
		wantMsg string
	}{
		{`print line.split() }`, "missing argument 0"},
		{`print line.split(n) }`, "expected argument 0 to have type string"},
		{`print num() }`, "expected 1 argument(s)"},
		{`print json() }`, "expected 1 argument(s)"},
		{`print json(o, o) }`, "expected 1 argument(s)"},
		{`print n.upper() }`, "attempted to call a nil"},
		{`print line.floor() }`, "attempted to call a nil"},
		{`print o.pluck(true) }`, "objects can only by indexed with numbers or strings, got bool"},
	}

	eval := func(prog string) (out string, err error, crash interface{}) {
		defer func() {
			if r := recover(); r != nil {
				crash = r
			}
		}()
		var sb strings.Builder
		_, err = lang.EvalProgram(prog, nil, nil, &sb, false)
		return sb.String(), err, nil
	}

	for _, tc := range cases {
		prog := prefix + tc.call
		if strings.Contains(prog, "\n") || len(prog) < 100 {
			t.Fatalf("demo set-up: expected a long one-line program, got %d bytes", len(prog))
		}
		_, err, crash := eval(prog)
		if crash != nil {
			t.Errorf("%s: the interpreter crashed instead of reporting a runtime error: %v", tc.call, crash)
			continue
		}
		rtErr, ok := err.(lang.RuntimeError)
		if !ok {
			t.Errorf("%s: expected a runtime error, got %#v", tc.call, err)
			continue
		}
		if rtErr.Message != tc.wantMsg {
			t.Errorf("%s: expected message %q, got %q", tc.call, tc.wantMsg, rtErr.Message)
		}
	}

	// neutral values on the same long line keep working
	out, err, crash := eval(prefix + `print o.pluck().length(), line.split(sep).length(), n.round() }`)
	if crash != nil || err != nil {
		t.Fatalf("neutral-value program failed: err=%v crash=%v", err, crash)
	}
	if out != "0 4 13\n" {
		t.Errorf("expected %q, got %q", "0 4 13\n", out)
	}
}
