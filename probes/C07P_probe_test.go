package main

import (
	"strings"
	"testing"

	lang "github.com/alligator/jqawk/src"
)

// A function whose body runs to its end without executing a return statement
// yields null, whatever was returned by calls made before (or inside) it.
func TestDemoC07P(t *testing.T) {
	cases := []struct{ prog, want string }{
		{
			// find() leaves its loop without hitting the return: the value of
			// the earlier call of seven() must not come back
			`function seven() { return 7 }
function find(a, n) { for (x in a) { if (x == n) return x } }
BEGIN { print find([1, 2, 3], 2); seven(); r = find([1, 2, 3], 9); if (r) print "found", r; else print "missing" }`,
			"2\nmissing\n",
		},
		{
			// the return executed in the callee is consumed by the callee only:
			// the caller goes on after the call and ends without a value
			`function inner(i) { while (1) { if (i > 0) return i; break } }
function outer(i) { inner(i); n++ }
BEGIN { n = 0; for (i = 0; i < 3; i++) print i, outer(i), n }`,
			"0 null 1\n1 null 2\n2 null 3\n",
		},
	}
	for _, tc := range cases {
		var sb strings.Builder
		_, err := lang.EvalProgram(tc.prog, nil, nil, &sb, false)
		if err != nil {
			t.Fatalf("%s: unexpected error %v", tc.prog, err)
		}
		if sb.String() != tc.want {
			t.Errorf("%s:\n got %q\nwant %q", tc.prog, sb.String(), tc.want)
		}
	}
}
