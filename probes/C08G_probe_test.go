package main

import (
	"strings"
	"testing"

	lang "github.com/alligator/jqawk/src"
)

// A scalar (here: the null read from a missing member, or from an index past
// the end of an array) is passed by value: assigning to the parameter inside
// the callee must not be visible in the caller's object, array or input once
// the call has finished.
func TestDemoC08G(t *testing.T) {
	run := func(prog string, json string) string {
		t.Helper()
		var sb strings.Builder
		files := []lang.InputFile{}
		if json != "" {
			files = append(files, lang.InputFile{Name: "<demo>", Reader: strings.NewReader(json)})
		}
		_, err := lang.EvalProgram(prog, files, nil, &sb, false)
		if err != nil {
			t.Fatalf("unexpected error for %q: %v", prog, err)
		}
		return sb.String()
	}

	// 1. the usual "default value" idiom on a member the record does not have
	prog := `
		function label(v) {
			if (v is null) v = 'none'
			return v
		}
		{ print label($.nick), $ }
	`
	got := run(prog, `[{"name": "ann", "nick": "a"}, {"name": "bob"}]`)
	want := "a {\"name\": \"ann\", \"nick\": \"a\"}\nnone {\"name\": \"bob\"}\n"
	if got != want {
		t.Errorf("missing member passed to a function:\n got %q\nwant %q", got, want)
	}

	// 2. the same through an index past the end of an array, and through a
	// chain of missing members
	prog = `
		function bump(n) { n = n + 1; return n }
		BEGIN {
			a = [1]
			o = {}
			print bump(a[3]), bump(o.x.y)
			print a, o
		}
	`
	got = run(prog, "")
	want = "1 1\n[1] {}\n"
	if got != want {
		t.Errorf("missing element passed to a function:\n got %q\nwant %q", got, want)
	}
}
