package main

import (
	"math"
	"strconv"
	"strings"
	"testing"

	lang "github.com/alligator/jqawk/src"
)

// print renders a number in plain decimal notation that reads back as the
// identical double. Negative zero is a double of its own (sign bit set): it is
// rendered as -0, at the top level and inside containers.
func TestDemoC17P(t *testing.T) {
	run := func(prog, json string) string {
		t.Helper()
		files := []lang.InputFile{{Name: "<demo>", Reader: strings.NewReader(json)}}
		var out strings.Builder
		if _, err := lang.EvalProgram(prog, files, nil, &out, false); err != nil {
			t.Fatalf("program %s: unexpected error: %v", prog, err)
		}
		return out.String()
	}

	cases := []struct {
		name, prog, json, want string
	}{
		{"negative zero from the input", `{ print $ }`, `[-0.0]`, "-0\n"},
		{"negative zero literal", `BEGIN { print -0 }`, `null`, "-0\n"},
		{"negative zero computed", `BEGIN { x = 0 * -1; print x, 0, -1 }`, `null`, "-0 0 -1\n"},
		{"negative zero inside containers", `{ print $ }`, `[{"a": [-0.0, 0, -0], "b": -0e3}]`, "{\"a\": [-0, 0, -0], \"b\": -0}\n"},
		{"rule without a body", `$ == 0`, `[-0.0, 0.0, 1]`, "-0\n0\n"},
	}
	for _, tc := range cases {
		if got := run(tc.prog, tc.json); got != tc.want {
			t.Errorf("%s:\n  program  %s\n  input    %s\n  expected %q\n  got      %q", tc.name, tc.prog, tc.json, tc.want, got)
		}
	}

	// reading the rendering back gives the identical double, bit for bit
	inputs := []string{"-0.0", "0", "-1", "1", "9007199254740991", "9007199254740992", "-9007199254740993",
		"123456789012345678901234567890", "0.1", "-2.5e-7", "5e-324", "1.7976931348623157e308"}
	for _, in := range inputs {
		want, err := strconv.ParseFloat(in, 64)
		if err != nil {
			t.Fatalf("bad demo input %s: %v", in, err)
		}
		text := strings.TrimSuffix(run(`{ print $ }`, "["+in+"]"), "\n")
		if strings.ContainsAny(text, "eE") {
			t.Errorf("input %s: rendering %q uses an exponent", in, text)
		}
		got, err := strconv.ParseFloat(text, 64)
		if err != nil {
			t.Errorf("input %s: rendering %q does not read back: %v", in, text, err)
			continue
		}
		if math.Float64bits(got) != math.Float64bits(want) {
			t.Errorf("input %s: rendering %q reads back as %v (bits %#x), expected %v (bits %#x)",
				in, text, got, math.Float64bits(got), want, math.Float64bits(want))
		}
	}
}
