package main

import (
	"bytes"
	"strings"
	"testing"

	lang "github.com/alligator/jqawk/src"
)

func runDemoC19G(t *testing.T, prog string, json string) string {
	t.Helper()
	var out bytes.Buffer
	files := []lang.InputFile{{Name: "demo.json", Reader: strings.NewReader(json)}}
	if _, err := lang.EvalProgram(prog, files, nil, &out, false); err != nil {
		t.Fatalf("unexpected error: %v\nprogram: %s", err, prog)
	}
	return out.String()
}

// A case binds the names of the alternative that matched, and only those. An
// earlier alternative of the same case that bound a name and then failed on a
// later element must leave nothing behind: in the body that name still refers
// to whatever it referred to outside the match.
func TestDemoC19G(t *testing.T) {
	cases := []struct {
		name, prog, json, want string
	}{
		{
			// [x, 1] binds x to 2, then fails on 5 != 1. [2, y] matches and
			// binds y only, so x in the body is the global.
			name: "failed alternative binds nothing",
			prog: `
				BEGIN { x = 'outer' }
				{
					print match ($) {
						[1, 1] => 'ones',
						[x, 1], [2, y] => x + '/' + y,
						_ => 'none',
					}
				}
			`,
			json: `[[2, 5]]`,
			want: "outer/5\n",
		},
		{
			// same thing one level down: the failed alternative bound through a
			// nested array pattern
			name: "failed nested alternative binds nothing",
			prog: `
				BEGIN { a = 'A'; b = 'B' }
				{
					print match ($) {
						[[a, b], 0], [c, 7] => a + b + c.length(),
					}
				}
			`,
			json: `[[[3, 4], 7]]`,
			want: "AB2\n",
		},
		{
			// the failed alternative is followed by a catch-all identifier
			name: "catch-all after a failed array alternative",
			prog: `
				{
					print match ($) {
						[first, 'stop'], whole => first is unknown,
					}
				}
			`,
			json: `[["go", "on"]]`,
			want: "true\n",
		},
		{
			// sanity: the alternative that does match binds its names
			name: "matching alternative binds",
			prog: `
				BEGIN { x = 'outer' }
				{
					print match ($) {
						[x, 1], [2, y] => x + '/' + y,
					}
				}
			`,
			json: `[[9, 1]]`,
			want: "9/\n",
		},
	}

	for _, tc := range cases {
		got := runDemoC19G(t, tc.prog, tc.json)
		if got != tc.want {
			t.Errorf("%s: got %q, want %q", tc.name, got, tc.want)
		}
	}
}
