package main

import (
	"strings"
	"testing"

	lang "github.com/alligator/jqawk/src"
)

// A compound assignment whose target cannot be assigned to is a syntax error,
// and a syntax error anywhere in the program pre-empts all execution: nothing
// is printed, however much valid program precedes it.
func TestDemoC11G(t *testing.T) {
	progs := []string{
		// the invalid target sits in an END rule, after rules that print
		"BEGIN { print \"begin\" }\n{ print $ }\nEND { 1 += 2\n print \"end\" }",
		"BEGIN { print \"begin\" }\nEND { n = 4; -n *= 2; print n }",
		"function f(a) { return a }\nBEGIN { print \"begin\"; f(1) /= 2; print \"after\" }",
		"BEGIN { print \"begin\"; [1, 2] -= 1; print \"after\" }",
	}

	for _, prog := range progs {
		var out strings.Builder
		files := []lang.InputFile{
			{Name: "<demo>", Reader: strings.NewReader("[1, 2, 3]")},
		}
		_, err := lang.EvalProgram(prog, files, nil, &out, false)

		if err == nil {
			t.Errorf("program %q: expected a syntax error, the run succeeded with output %q", prog, out.String())
			continue
		}
		synErr, ok := err.(lang.SyntaxError)
		if !ok {
			t.Errorf("program %q: expected a syntax error, got %T: %v", prog, err, err)
			continue
		}
		if synErr.Message != "invalid assignment" {
			t.Errorf("program %q: expected syntax error \"invalid assignment\", got %q", prog, synErr.Message)
		}
		if out.String() != "" {
			t.Errorf("program %q: a program with a syntax error must print nothing, printed %q", prog, out.String())
		}
	}
}
