package main

import (
	"strings"
	"testing"

	lang "github.com/alligator/jqawk/src"
)

// Property C06: prefix ! binds tighter than the comparisons, and `is` is one of
// them, so  !x is bool  means  (!x) is bool ; and parentheses override
// everything, so writing those parentheses out must not change the result and
// (!x) is bool  must test the type of !x, whatever the grammar does without them.
func TestDemoC06L(t *testing.T) {
	run := func(prog string) string {
		t.Helper()
		var sb strings.Builder
		in := []lang.InputFile{{Name: "<demo>", Reader: strings.NewReader(`{"flag": true, "n": 5}`)}}
		_, err := lang.EvalProgram(prog, in, nil, &sb, false)
		if err != nil {
			t.Fatalf("%s: unexpected error: %v", prog, err)
		}
		return sb.String()
	}

	cases := []struct {
		plain  string // written without redundant parentheses
		parens string // its fully parenthesised form under the grammar
		staged string // the same computation with the operand of `is` staged in a variable
		want   string
	}{
		{
			"{ print !$.flag is bool }",
			"{ print (!($.flag)) is bool }",
			"{ t = !$.flag; print t is bool }",
			"true\n",
		},
		{
			"{ print !$.n is string }",
			"{ print (!($.n)) is string }",
			"{ t = !$.n; print t is string }",
			"false\n",
		},
		{
			"{ print !$.flag is bool == true }",
			"{ print ((!($.flag)) is bool) == true }",
			"{ t = !$.flag; u = t is bool; print u == true }",
			"true\n",
		},
		{
			"{ if (!$.flag is bool && $.n is number) print 'both' }",
			"{ if (((!($.flag)) is bool) && ($.n is number)) print 'both' }",
			"{ t = !$.flag; if (t is bool && $.n is number) print 'both' }",
			"both\n",
		},
		// parentheses the other way round: unaffected either way
		{
			"{ print !($.flag is bool) }",
			"{ print !(($.flag) is bool) }",
			"{ u = $.flag is bool; print !u }",
			"false\n",
		},
	}

	for _, c := range cases {
		staged := run(c.staged)
		if staged != c.want {
			t.Fatalf("%s printed %q, expected %q", c.staged, staged, c.want)
		}
		parens := run(c.parens)
		if parens != c.want {
			t.Errorf("parentheses do not override: %s printed %q, expected %q", c.parens, parens, c.want)
		}
		plain := run(c.plain)
		if plain != c.want {
			t.Errorf("%s printed %q but means %s, which is %q", c.plain, plain, c.parens, c.want)
		}
	}
}
