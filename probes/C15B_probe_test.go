package main

import (
	"strings"
	"testing"

	lang "github.com/alligator/jqawk/src"
)

// TestDemoC15B checks that a method acts on the array it was invoked on even
// when the *same* method is invoked on a different array while the outer
// call's arguments are being evaluated (directly nested, nested through a user
// function, and on arrays living inside the document).
func TestDemoC15B(t *testing.T) {
	run := func(name, prog, json, expected string) {
		t.Helper()
		files := []lang.InputFile{{Name: "<demo>", Reader: strings.NewReader(json)}}
		var sb strings.Builder
		_, err := lang.EvalProgram(prog, files, nil, &sb, false)
		if err != nil {
			t.Fatalf("%s: unexpected error: %v", name, err)
		}
		if sb.String() != expected {
			t.Fatalf("%s: arrays diverged from the ideal list model\nexpected:\n%s\ngot:\n%s", name, expected, sb.String())
		}
	}

	// push nested directly inside push's argument
	// ideal: b = [10, 5]; b.push(5).length() = 2; a = [1, 2, 2]
	run("push in push", `
		BEGIN {
			a = [1, 2];
			b = [10];
			r = a.push(b.push(5).length());
			print a;
			print b;
			print r;
			print a.length(), b.length();
		}
	`, "[]", "[1, 2, 2]\n[10, 5]\n[1, 2, 2]\n3 2\n")

	// same method reached through a user function called in the argument
	run("push via function", `
		function next_id() {
			log.push('next_id');
			ids.push(ids.length() + 1);
			return ids[-1];
		}
		BEGIN {
			log = [];
			ids = [];
			out = [];
			out.push(next_id());
			out.push(next_id());
			print out;
			print ids;
			print log;
		}
	`, "[]", "[1, 2]\n[1, 2]\n[\"next_id\", \"next_id\"]\n")

	// contains nested inside contains: [true, 7].contains([7].contains(7))
	// inner is true; outer asks whether a contains true -> true.
	// pop nested inside pop's sibling argument position via push
	run("contains in contains", `
		BEGIN {
			a = ['x', true];
			b = [7];
			print a.contains(b.contains(7));
			c = [1, 2, 3];
			d = [4, 5, 6];
			e = [];
			e.push(c.pop() + d.pop());
			print c, d, e;
		}
	`, "[]", "true\n[1, 2] [4, 5] [9]\n")

	// arrays that live inside the document
	run("document arrays", `
		{
			$.xs.push($.ys.push('y').length());
			print $.xs;
			print $.ys;
		}
	`, `[{ "xs": [0], "ys": ["a", "b"] }]`, "[0, 3]\n[\"a\", \"b\", \"y\"]\n")
}
