package main

import (
	"strings"
	"testing"

	lang "github.com/alligator/jqawk/src"
)

// A return statement outside a function is a syntax error wherever it stands:
// the program must not run at all, however much valid program precedes it --
// in particular when a (perfectly valid) function definition precedes the rule
// that holds the stray return.
func TestDemoC11O(t *testing.T) {
	progs := []string{
		// stray return in a BEGIN rule that follows a function definition
		`function double(x) { return x * 2 }
BEGIN { print double(2); return; print "unreachable" }`,
		// same, in a pattern rule and nested in a loop and an if
		`function id(x) { return x }
{ print id($); for (i = 0; i < 1; i++) { if ($ > 1) { return 1 } } }`,
		// same, in an END rule, with two functions before it
		`function a() { return 1 } function b() { return 2 }
BEGIN { print "begin" }
END { print a() + b(); return }`,
		// control: no function before the stray return
		`BEGIN { print "begin"; return }`,
	}

	for _, prog := range progs {
		var sb strings.Builder
		files := []lang.InputFile{{Name: "<demo>", Reader: strings.NewReader(`[1, 2, 3]`)}}
		_, err := lang.EvalProgram(prog, files, nil, &sb, false)

		if sb.Len() != 0 {
			t.Errorf("program with a syntax error produced output %q\nprogram:\n%s", sb.String(), prog)
		}
		synErr, ok := err.(lang.SyntaxError)
		if !ok {
			t.Errorf("expected a syntax error, got %#v\nprogram:\n%s", err, prog)
			continue
		}
		if synErr.Message != "can only return inside a function" {
			t.Errorf("unexpected syntax error %q\nprogram:\n%s", synErr.Message, prog)
		}
	}
}
