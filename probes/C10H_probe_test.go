package main

import (
	"strings"
	"testing"

	lang "github.com/alligator/jqawk/src"
)

func demoC10HRun(t *testing.T, prog string, input string) string {
	var sb strings.Builder
	files := []lang.InputFile{{Name: "<demo>", Reader: strings.NewReader(input)}}
	_, err := lang.EvalProgram(prog, files, nil, &sb, false)
	if err != nil {
		t.Fatalf("unexpected error: %s", err.Error())
	}
	return sb.String()
}

// Repeating a run must give byte-identical standard output. The input is an
// object whose keys are different strings that spell the same number.
func TestDemoC10H(t *testing.T) {
	const prog = `{ for (k in $) print k, $[k] }`
	const input = `{ "1": "a", "1.0": "b", "01": "c", "1e0": "d", "2": "e", "x": "f" }`

	first := demoC10HRun(t, prog, input)
	if strings.Count(first, "\n") != 6 {
		t.Fatalf("expected six lines of output, got %q", first)
	}
	for i := 1; i < 300; i++ {
		again := demoC10HRun(t, prog, input)
		if again != first {
			t.Fatalf("run %d printed something else than run 0 for the same program and input\nrun 0:\n%s\nrun %d:\n%s", i, first, i, again)
		}
	}
}
