package main

import (
	"encoding/json"
	"reflect"
	"strings"
	"testing"

	lang "github.com/alligator/jqawk/src"
)

// json(v) must succeed for every acyclic value and parse back to v; only a
// value that really contains itself may be rejected as a circular reference.
//
// The arrays here are grown with push(), so their backing arrays have spare
// capacity (len 3, cap 4). They are distinct arrays that merely nest.
func TestDemoC04C(t *testing.T) {
	run := func(prog string) (string, error) {
		var sb strings.Builder
		files := []lang.InputFile{{Name: "<demo>", Reader: strings.NewReader("[]")}}
		_, err := lang.EvalProgram(prog, files, nil, &sb, false)
		return sb.String(), err
	}

	cases := []struct {
		name string
		prog string
		want string
	}{
		{
			name: "pushed array nested in pushed array",
			prog: `END {
				inner = []; inner.push(1); inner.push(2); inner.push(3);
				outer = []; outer.push("a"); outer.push("b"); outer.push(inner);
				print json(outer)
			}`,
			want: `["a","b",[1,2,3]]`,
		},
		{
			name: "auto-filled array nested in auto-filled array",
			prog: `END {
				g[0][2] = 7; g[1] = true; g[2] = "x";
				print json(g)
			}`,
			want: `[[null,null,7],true,"x"]`,
		},
		{
			name: "three levels through an object",
			prog: `END {
				leaf = []; leaf.push(1); leaf.push(2); leaf.push(3);
				o = {}; o.rows[0] = "h"; o.rows[1] = leaf; o.rows[2] = leaf;
				print json(o)
			}`,
			want: `{"rows":["h",[1,2,3],[1,2,3]]}`,
		},
	}

	for _, tc := range cases {
		out, err := run(tc.prog)
		if err != nil {
			t.Errorf("%s: json() rejected an acyclic value: %v", tc.name, err)
			continue
		}
		var got, want interface{}
		if err := json.Unmarshal([]byte(out), &got); err != nil {
			t.Errorf("%s: json() output is not valid JSON: %v\n%s", tc.name, err, out)
			continue
		}
		if err := json.Unmarshal([]byte(tc.want), &want); err != nil {
			t.Fatal(err)
		}
		if !reflect.DeepEqual(got, want) {
			t.Errorf("%s: json() output does not parse back to the value\n got: %s\nwant: %s", tc.name, out, tc.want)
		}
	}

	// a value that does contain itself is still an error (holds with or
	// without the change; here to show the check itself is not what moved)
	if _, err := run(`END { c = []; c.push(1); c.push(2); c[2] = c; print json(c) }`); err == nil {
		t.Errorf("json() accepted a cyclic array")
	}
}
