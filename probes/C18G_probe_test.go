package main

import (
	"strings"
	"testing"

	lang "github.com/alligator/jqawk/src"
)

// printf must emit the literal text of the format byte for byte, also when the
// literal text is not ASCII (multi-byte UTF-8 sequences, before, between and
// after directives).
func TestDemoC18G(t *testing.T) {
	cases := []struct {
		prog     string
		expected string
	}{
		// plain ASCII keeps working
		{`BEGIN { printf("name: %-6s|%4f|\n", "Dan", 3.5) }`, "name: Dan   | 3.5|\n"},
		// non-ASCII literal text around the directives
		{`BEGIN { printf("café: %s €\n", "crème") }`, "café: crème €\n"},
		{`BEGIN { printf("%5s→%-3f°", "ab", 7) }`, "   ab→7  °"},
		{`BEGIN { printf("naïve %v 日本", [1, "ü"]) }`, "naïve [1, \"ü\"] 日本"},
	}

	for _, tc := range cases {
		var sb strings.Builder
		_, err := lang.EvalProgram(tc.prog, nil, nil, &sb, false)
		if err != nil {
			t.Fatalf("%s: unexpected error: %v", tc.prog, err)
		}
		if sb.String() != tc.expected {
			t.Errorf("%s:\n  expected %q (%d bytes)\n  got      %q (%d bytes)",
				tc.prog, tc.expected, len(tc.expected), sb.String(), len(sb.String()))
		}
	}
}
