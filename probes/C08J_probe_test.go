package main

import (
	"strings"
	"testing"

	lang "github.com/alligator/jqawk/src"
)

// Only the alternative that matched binds names for the case body. An
// alternative that was tried and did not match leaves nothing behind, so a name
// it mentions still denotes the global inside the body, and an assignment to
// that already existing global persists after the case has finished.
func TestDemoC08J(t *testing.T) {
	run := func(prog, json string) string {
		t.Helper()
		var out strings.Builder
		files := []lang.InputFile{{Name: "in.json", Reader: strings.NewReader(json)}}
		if _, err := lang.EvalProgram(prog, files, nil, &out, false); err != nil {
			t.Fatalf("unexpected error: %v", err)
		}
		return out.String()
	}

	// the first alternative gets as far as its second element before it fails,
	// the second alternative matches. "closed" is a global set in BEGIN
	prog := `
		BEGIN { closed = 0 }
		{
			match ($) {
				[closed, 'noop'], [n, 'close'] => { closed = closed + n }
			}
		}
		END { print closed }
	`
	got := run(prog, `[[3, "close"], [4, "close"]]`)
	if got != "7\n" {
		t.Fatalf("assignment to an existing global inside a case body was lost: expected %q, got %q", "7\n", got)
	}

	// same shape inside a function: the global is read, not a leftover binding
	prog2 := `
		function kind(v) {
			return match (v) {
				[tag, 1], [other, 2] => tag
			}
		}
		BEGIN { tag = 'global' }
		{ print kind($) }
	`
	got = run(prog2, `[[5, 2], [6, 1]]`)
	if got != "global\n6\n" {
		t.Fatalf("expected %q, got %q", "global\n6\n", got)
	}
}
