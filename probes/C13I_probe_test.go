package main

import (
	"strings"
	"testing"

	lang "github.com/alligator/jqawk/src"
)

// A quoted object key is a string literal like any other: it denotes exactly
// its characters, with \n, \t and \\ as the only escapes, whichever quote
// style is used. In particular the four characters  \ \ n b  inside the quotes
// denote the three characters  \ n b  (an escaped backslash followed by "nb"),
// not a line break.
func TestDemoC13I(t *testing.T) {
	run := func(prog string) (string, error) {
		var sb strings.Builder
		_, err := lang.EvalProgram(prog, nil, nil, &sb, false)
		return sb.String(), err
	}

	progs := []string{
		// the key and the index expression are the same literal, so the lookup must succeed
		`BEGIN { o = {"a\\nb": 1}; print o["a\\nb"] }`,
		`BEGIN { o = {'a\\nb': 1}; print o['a\\nb'] }`,
		`BEGIN { o = {"a\\nb": 1}; print o['a\\nb'] }`,
		// the key is exactly  a \ n b : four characters, no line break
		`BEGIN { o = {"a\\nb": 1}; for (k in o) { print k.length() } }`,
		// an escaped backslash followed by an ordinary letter is not an escape sequence
		`BEGIN { o = {"c:\\dir": 1}; print o["c:\\dir"] }`,
	}
	expected := []string{"1\n", "1\n", "1\n", "4\n", "1\n"}

	for i, prog := range progs {
		got, err := run(prog)
		if err != nil {
			t.Errorf("program %d: %s\nunexpected error: %v", i, prog, err)
			continue
		}
		if got != expected[i] {
			t.Errorf("program %d: %s\nexpected %q, got %q", i, prog, expected[i], got)
		}
	}
}
