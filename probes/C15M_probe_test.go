package main

import (
	"bytes"
	"testing"

	lang "github.com/alligator/jqawk/src"
)

// An array that was extended by an index write past its end must keep
// behaving like an ideal list: the slots that were filled in are separate
// places, so a later write to one of them changes that element only, and
// pop/popfirst/length/contains see exactly that.
func TestDemoC15M(t *testing.T) {
	prog := `
BEGIN {
	a = [1]
	a[4] = 5            # [1, null, null, null, 5]
	print a, a.length()
	a[1] = "x"          # only the second element changes
	print a
	print a[2], a[-2], a.contains("x"), a.contains(null)
	a[-2]++             # null counts as 0
	print a
	print a.popfirst(), a.popfirst(), a.popfirst(), a
	print a.pop(), a.pop(), a.pop(), a.length()

	# the same inside another container
	o = { "xs": [] }
	o.xs[3] = 1
	o.xs[0] = 7
	o.xs.push(8)
	print o.xs, o.xs.sort()
}
`
	expected := `[1, null, null, null, 5] 5
[1, "x", null, null, 5]
null null true true
[1, "x", null, 1, 5]
1 x null [1, 5]
5 1 null 0
[7, null, null, 1, 8] [null, null, 1, 7, 8]
`
	var buf bytes.Buffer
	_, err := lang.EvalProgram(prog, nil, nil, &buf, false)
	if err != nil {
		t.Fatalf("unexpected error: %v", err)
	}
	if buf.String() != expected {
		t.Fatalf("array does not behave like a list after an index write past its end\nexpected:\n%s\ngot:\n%s", expected, buf.String())
	}
}
