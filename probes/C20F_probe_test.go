package main

import (
	"bytes"
	"strconv"
	"strings"
	"testing"

	lang "github.com/alligator/jqawk/src"
)

// The call depth limit is about call NESTING. A program that never nests calls
// more than one (or a thousand) deep must run normally however many records it
// has processed before, also when a function skips records with `next`.
func TestDemoC20F(t *testing.T) {
	numbers := func(n int) string {
		var sb strings.Builder
		sb.WriteByte('[')
		for i := 0; i < n; i++ {
			if i > 0 {
				sb.WriteByte(',')
			}
			sb.WriteString(strconv.Itoa(i))
		}
		sb.WriteByte(']')
		return sb.String()
	}

	run := func(prog string, json string) (string, error) {
		var buf bytes.Buffer
		files := []lang.InputFile{{Name: "<demo>", Reader: strings.NewReader(json)}}
		_, err := lang.EvalProgram(prog, files, nil, &buf, false)
		return buf.String(), err
	}

	// 1. a filter function that drops odd records with next; calls are never
	//    nested deeper than one
	prog := `
		function keep_even(v) {
			if (v % 2 == 1) next
			return v
		}
		{ total += keep_even($); kept++ }
		END { print kept, total }
	`
	out, err := run(prog, numbers(10000))
	if err != nil {
		t.Fatalf("filter over 10000 records (call nesting 1) failed: %v (output %q)", err, out)
	}
	if out != "5000 24995000\n" {
		t.Fatalf("filter over 10000 records: unexpected output %q", out)
	}

	// 2. recursion a thousand deep works normally, also after 3500 records
	//    were skipped from inside a function
	prog = `
		function skip() { next }
		function sum(n) { if (n == 0) return 0; return n + sum(n - 1) }
		{ skip() }
		END { print sum(1000) }
	`
	out, err = run(prog, numbers(3500))
	if err != nil {
		t.Fatalf("recursion 1000 deep after 3500 skipped records failed: %v (output %q)", err, out)
	}
	if out != "500500\n" {
		t.Fatalf("recursion 1000 deep: unexpected output %q", out)
	}

	// 3. the limit itself is still where it was: runaway recursion is refused
	//    with a runtime error and the earlier output is kept
	out, err = run(`function f(n) { return f(n + 1) } BEGIN { print "before"; f(0) }`, "[]")
	if _, ok := err.(lang.RuntimeError); !ok || out != "before\n" {
		t.Fatalf("runaway recursion: want RuntimeError and prior output, got err=%v out=%q", err, out)
	}
}
