package main

import (
	"strings"
	"testing"

	lang "github.com/alligator/jqawk/src"
)

// A fault raised while a match case is being tried stops the run there with a
// runtime error, also when the faulting pattern is an element of an array
// pattern: what was printed before is kept, nothing is printed afterwards and
// the fault is not turned into "this case does not match".
func TestDemoC11H(t *testing.T) {
	cases := []struct {
		name string
		prog string
		msg  string
	}{
		{
			// comparing a container ([1]) with a scalar pattern element (1)
			name: "container against literal element",
			prog: "BEGIN {\n print \"before\"\n r = match ([[1], 2]) { [1, 2] => \"first\", [p, q] => \"second\" }\n print r\n print \"after\"\n}",
			msg:  "cannot compare array and number",
		},
		{
			// the same fault two levels down, with a later case that would match
			name: "nested twice",
			prog: "{\n print \"before\"\n match ($) { [[0, 1], x] => { print \"first\" }, y => { print \"any\" } }\n print \"after\"\n}",
			msg:  "cannot compare object and number",
		},
		{
			// an invalid escape in a literal element of the pattern
			name: "bad escape in literal element",
			prog: "BEGIN {\n print \"before\"\n match ([\"a\", 2]) { [\"\\q\", 2] => { print \"first\" }, [p, q] => { print \"second\" } }\n print \"after\"\n}",
			msg:  "unknown escape char 'q'",
		},
		{
			// an element that is not a pattern at all
			name: "unsupported element",
			prog: "BEGIN {\n print \"before\"\n match ([3, 2]) { [1 + 2, 2] => { print \"first\" } }\n print \"after\"\n}",
			msg:  "<binary expression> not supported in match expressions",
		},
	}

	for _, tc := range cases {
		var out strings.Builder
		files := []lang.InputFile{
			{Name: "<demo>", Reader: strings.NewReader(`[[[{"k": 1}, 1], 5]]`)},
		}
		_, err := lang.EvalProgram(tc.prog, files, nil, &out, false)

		if err == nil {
			t.Errorf("%s: expected a runtime error, the run succeeded with output %q", tc.name, out.String())
			continue
		}
		rtErr, ok := err.(lang.RuntimeError)
		if !ok {
			t.Errorf("%s: expected a runtime error, got %T: %v", tc.name, err, err)
			continue
		}
		if rtErr.Message != tc.msg {
			t.Errorf("%s: expected runtime error %q, got %q", tc.name, tc.msg, rtErr.Message)
		}
		if out.String() != "before\n" {
			t.Errorf("%s: expected the output to stop at the fault (\"before\\n\"), got %q", tc.name, out.String())
		}
	}
}
