package main

import (
	"strings"
	"testing"

	lang "github.com/alligator/jqawk/src"
)

// A %s directive (and the format itself) needs a string. Any other kind of
// value, a regex included, is a runtime error, and then nothing of that printf
// is written. %v still renders a regex.
func TestDemoC18H(t *testing.T) {
	run := func(prog string) (string, error) {
		var sb strings.Builder
		_, err := lang.EvalProgram(prog, nil, nil, &sb, false)
		return sb.String(), err
	}

	// control: strings are fine, %v takes anything
	out, err := run(`BEGIN { re = /a+b/; printf("[%5s|%-4s|%v]", "ab", "c", re) }`)
	if err != nil {
		t.Fatalf("control: unexpected error: %v", err)
	}
	if out != "[   ab|c   |<regex>]" {
		t.Errorf("control: got %q", out)
	}

	bad := []string{
		// regex literal as the argument of %s
		`BEGIN { printf("before [%5s] after\n", /a+b/) }`,
		// regex held in a variable, after a valid directive
		`BEGIN { re = /x/; printf("%s=%-3s|", "k", re) }`,
		// regex as the format
		`BEGIN { printf(/100%% %s/, "sure") }`,
	}
	for _, prog := range bad {
		out, err := run(prog)
		if err == nil {
			t.Errorf("%s: expected a runtime error, got none (output %q)", prog, out)
		} else if _, ok := err.(lang.RuntimeError); !ok {
			t.Errorf("%s: expected a RuntimeError, got %T: %v", prog, err, err)
		}
		if out != "" {
			t.Errorf("%s: nothing should be written, got %q", prog, out)
		}
	}
}
