package main

import (
	"strings"
	"testing"

	lang "github.com/alligator/jqawk/src"
)

// sort must return a copy and leave the array it was invoked on untouched,
// also when the sorted copy is written to afterwards.
func TestDemoC15C(t *testing.T) {
	cases := []struct {
		prog     string
		expected string
	}{
		{
			// index write on the sorted copy
			prog: `BEGIN {
				a = [3, 1, 2];
				s = a.sort();
				s[0] = 99;
				print a;
				print s;
				print a.length(), a[0], a[1], a[2], a[-2];
				print a.contains(99), a.contains(1);
			}`,
			expected: "[3, 1, 2]\n[99, 2, 3]\n3 3 1 2 1\nfalse true\n",
		},
		{
			// increment through a negative index on the sorted copy, strings
			prog: `BEGIN {
				a = ['b', 7, 'a'];
				s = a.sort();
				s[-1] = 'zz';
				s[0]++;
				print a;
				print s;
				print a.pop(), a.popfirst(), a;
			}`,
			expected: "[\"b\", 7, \"a\"]\n[8, \"a\", \"zz\"]\na b [7]\n",
		},
		{
			// array living inside the document
			prog:     `{ s = $.xs.sort(); s[1] = 0; print $.xs, s }`,
			expected: "[5, 4, 6] [4, 0, 6]\n",
		},
	}

	for i, tc := range cases {
		var files []lang.InputFile
		if i == 2 {
			files = []lang.InputFile{{Name: "<demo>", Reader: strings.NewReader(`{"xs": [5, 4, 6]}`)}}
		}
		var sb strings.Builder
		_, err := lang.EvalProgram(tc.prog, files, nil, &sb, false)
		if err != nil {
			t.Fatalf("case %d: unexpected error: %v", i, err)
		}
		if sb.String() != tc.expected {
			t.Errorf("case %d: expected %q\ngot %q", i, tc.expected, sb.String())
		}
	}
}
