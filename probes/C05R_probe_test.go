package main

import (
	"strings"
	"testing"

	lang "github.com/alligator/jqawk/src"
)

// runs a program over a JSON document, returns what it printed and its error
func demoC05RRun(prog string, json string) (string, error) {
	files := make([]lang.InputFile, 0)
	if json != "" {
		files = append(files, lang.InputFile{Name: "<demo>", Reader: strings.NewReader(json)})
	}
	var sb strings.Builder
	_, err := lang.EvalProgram(prog, files, nil, &sb, false)
	return sb.String(), err
}

// C05: a comparison of two STRINGS orders them bytewise, whatever they hold;
// only a comparison of mixed kinds goes through the numeric coercion. The
// operands here are pairs of strings that both happen to hold numbers, given
// as literals, as variables and as document fields.
func TestDemoC05R(t *testing.T) {
	type demoC05RCase struct {
		expr string
		want string
	}
	cases := []demoC05RCase{
		// bytewise: "1" sorts before "9"
		{`"10" < "9"`, "true"},
		{`"10" > "9"`, "false"},
		{`"10" <= "9"`, "true"},
		{`"10" >= "9"`, "false"},
		// different spellings of one number are different strings
		{`"1.0" == "1"`, "false"},
		{`"1.0" != "1"`, "true"},
		{`"1e2" == "100"`, "false"},
		{`"-0" == "0"`, "false"},
		{`"-5" < "-3"`, "false"},
		{`"007" < "7"`, "true"},
		// controls: these agree under both orders
		{`"2" < "3"`, "true"},
		{`"abc" < "abd"`, "true"},
		{`"10" < "9a"`, "true"},
		// mixed kinds are compared by value
		{`"10" < 9`, "false"},
		{`10 < "9"`, "false"},
		{`"1.0" == 1`, "true"},
	}
	for _, c := range cases {
		out, err := demoC05RRun("BEGIN { print "+c.expr+" }", "")
		if err != nil {
			t.Errorf("%s: unexpected error %v", c.expr, err)
			continue
		}
		if out != c.want+"\n" {
			t.Errorf("literals: %s: want %s, got %s", c.expr, c.want, strings.TrimSpace(out))
		}
	}

	// the same through variables
	out, err := demoC05RRun(`BEGIN { a = "10"; b = "9"; print a < b, a > b, a == "10.0", a <= b }`, "")
	if err != nil {
		t.Fatalf("variables: unexpected error %v", err)
	}
	if want := "true false false true\n"; out != want {
		t.Errorf("variables: a=\"10\" b=\"9\": `a < b, a > b, a == \"10.0\", a <= b`\nwant %q\ngot  %q", want, out)
	}

	// and through document fields
	doc := `[{ "v": "10", "w": "9" }, { "v": "2.50", "w": "2.5" }, { "v": "x10", "w": "x9" }]`
	out, err = demoC05RRun(`{ print $.v < $.w, $.v == $.w, $.v > $.w }`, doc)
	if err != nil {
		t.Fatalf("fields: unexpected error %v", err)
	}
	if want := "true false false\nfalse false true\ntrue false false\n"; out != want {
		t.Errorf("fields: `$.v < $.w, $.v == $.w, $.v > $.w` per record\nwant %q\ngot  %q", want, out)
	}
}
