package main

import (
	"math"
	"strconv"
	"strings"
	"testing"

	lang "github.com/alligator/jqawk/src"
)

// Every number print writes must read back as the identical double (same bits),
// in plain positional notation. Negative zero is a finite double like any other.
func TestDemoC17D(t *testing.T) {
	run := func(prog string, json string) string {
		var sb strings.Builder
		files := []lang.InputFile{}
		if json != "" {
			files = append(files, lang.InputFile{Name: "<demo>", Reader: strings.NewReader(json)})
		}
		_, err := lang.EvalProgram(prog, files, nil, &sb, false)
		if err != nil {
			t.Fatalf("unexpected error for %s: %v", prog, err)
		}
		return sb.String()
	}

	// 1. numbers from the input, printed one per line by a bare print
	inputs := []float64{
		0, math.Copysign(0, -1), 1, -1, 0.5, -2.5, 1e-7,
		9007199254740991, 9007199254740992, 9007199254740994, -9007199254740992,
		1e21, 123456789012345678901234567890, 5e-324, 1.7976931348623157e308,
	}
	parts := make([]string, 0, len(inputs))
	for _, f := range inputs {
		parts = append(parts, strconv.FormatFloat(f, 'g', -1, 64))
	}
	out := run("{ print }", "["+strings.Join(parts, ", ")+"]")
	lines := strings.Split(strings.TrimSuffix(out, "\n"), "\n")
	if len(lines) != len(inputs) {
		t.Fatalf("expected %d lines, got %d: %q", len(inputs), len(lines), out)
	}
	for i, line := range lines {
		if strings.ContainsAny(line, "eE") {
			t.Errorf("input %v printed with an exponent: %q", inputs[i], line)
		}
		back, err := strconv.ParseFloat(line, 64)
		if err != nil {
			t.Errorf("input %v printed as %q which does not parse: %v", inputs[i], line, err)
			continue
		}
		if math.Float64bits(back) != math.Float64bits(inputs[i]) {
			t.Errorf("input %v (bits %#x) printed as %q which reads back as %v (bits %#x)",
				inputs[i], math.Float64bits(inputs[i]), line, back, math.Float64bits(back))
		}
	}

	// 2. negative zero computed in the program, top level and nested
	got := run(`BEGIN { z = 0 * -1; print z, [z], {k: z}; print -0 }`, "")
	expected := "-0 [-0] {\"k\": -0}\n-0\n"
	if got != expected {
		t.Errorf("expected %q\ngot      %q", expected, got)
	}
}
