package main

import (
	"strings"
	"testing"

	lang "github.com/alligator/jqawk/src"
)

// o.pluck(k1, ...) returns a new object holding exactly the requested keys
// with the original's values, null for every key the original does not have,
// whatever the order of present and absent keys in the list. The members of
// the result are independent of each other and of the original.
func TestDemoC16P(t *testing.T) {
	cases := []struct {
		name     string
		prog     string
		json     string
		expected string
	}{
		{
			name:     "absent key before a present one",
			prog:     `BEGIN { o = {"a": 1, "b": 2}; print o.pluck("zz", "a") }`,
			expected: "{\"a\": 1, \"zz\": null}\n",
		},
		{
			name:     "absent key after a present one",
			prog:     `BEGIN { o = {"a": 1, "b": 2}; print o.pluck("a", "zz"); print o }`,
			expected: "{\"a\": 1, \"zz\": null}\n{\"a\": 1, \"b\": 2}\n",
		},
		{
			name:     "present, absent, present, absent, repeated",
			prog:     `BEGIN { o = {"a": 1, "b": [2]}; print o.pluck("a", "x", "b", "y", "a", "x") }`,
			expected: "{\"a\": 1, \"b\": [2], \"x\": null, \"y\": null}\n",
		},
		{
			name:     "records that lack a trailing field",
			prog:     `{ print $.pluck("id", "name", "email") }`,
			json:     `[{"id": 1, "name": "n", "email": "e"}, {"id": 2, "name": "m"}, {"id": 3}]`,
			expected: "{\"email\": \"e\", \"id\": 1, \"name\": \"n\"}\n{\"email\": null, \"id\": 2, \"name\": \"m\"}\n{\"email\": null, \"id\": 3, \"name\": null}\n",
		},
		{
			name:     "two absent keys are separate members of the result",
			prog:     `BEGIN { o = {"a": 1}; q = o.pluck("x", "y"); q.x = 5; print q; print o }`,
			expected: "{\"x\": 5, \"y\": null}\n{\"a\": 1}\n",
		},
	}

	for _, tc := range cases {
		files := make([]lang.InputFile, 0)
		if tc.json != "" {
			files = append(files, lang.InputFile{Name: "<demo>", Reader: strings.NewReader(tc.json)})
		}
		var sb strings.Builder
		_, err := lang.EvalProgram(tc.prog, files, nil, &sb, false)
		if err != nil {
			t.Errorf("%s: unexpected error: %v", tc.name, err)
			continue
		}
		if sb.String() != tc.expected {
			t.Errorf("%s: expected %q, got %q", tc.name, tc.expected, sb.String())
		}
	}
}
