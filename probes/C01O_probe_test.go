package main

import (
	"fmt"
	"strings"
	"testing"

	lang "github.com/alligator/jqawk/src"
)

// runDemoC01O runs a program through lang.EvalProgram and classifies how the
// run ended: "ok", one of the three reported error kinds, an untyped error, or
// an internal panic.
func runDemoC01O(prog string, input string) (out string, kind string, detail string) {
	var sb strings.Builder
	defer func() {
		if r := recover(); r != nil {
			out = sb.String()
			kind = "panic"
			detail = fmt.Sprint(r)
		}
	}()
	files := []lang.InputFile{{Name: "<demo>", Reader: strings.NewReader(input)}}
	_, err := lang.EvalProgram(prog, files, nil, &sb, false)
	if err == nil {
		return sb.String(), "ok", ""
	}
	switch err.(type) {
	case lang.SyntaxError:
		return sb.String(), "syntax", err.Error()
	case lang.RuntimeError:
		return sb.String(), "runtime", err.Error()
	case lang.JsonError:
		return sb.String(), "json", err.Error()
	}
	return sb.String(), "untyped", fmt.Sprintf("%#v", err)
}

// Property: every run ends in success or in one of the three reported error
// kinds, never in an internal panic.
//
// The programs below put a function value where an array element is expected
// (array literal, push argument, argument of a user function that stores it)
// and then use a second feature, sort(), on that array.
func TestDemoC01O(t *testing.T) {
	progs := []string{
		// array literal holding a native function, then sorted
		`BEGIN { a = [3, printf, 1]; print a.sort() }`,
		// a function pushed onto an array collected from the input, sorted at the end
		`function cb(x) { return x }
		 BEGIN { seen = [] }
		 { seen.push($) }
		 END { seen.push(cb); print seen.sort() }`,
		// a user function that stores its callback argument
		`function keep(list, f) { list.push(f); return list.sort() }
		 BEGIN { print keep(["b", "a"], num) }`,
		// a bound method as an element
		`BEGIN { a = ["x", "y"]; b = [a.length, "k"]; print b.sort() }`,
	}
	for _, prog := range progs {
		out, kind, detail := runDemoC01O(prog, `[2, 1]`)
		switch kind {
		case "ok", "syntax", "runtime", "json":
			t.Logf("%s (%s) out=%q", kind, detail, out)
		default:
			t.Errorf("program %q ended with %s: %s (output so far %q)", prog, kind, detail, out)
		}
	}
}
