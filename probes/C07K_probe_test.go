package main

import (
	"strings"
	"testing"

	lang "github.com/alligator/jqawk/src"
)

// A plain `return` leaves the current function and yields null, no matter
// which other functions were called (and returned values) earlier in the body.
func TestDemoC07K(t *testing.T) {
	run := func(prog string, js string) string {
		t.Helper()
		var sb strings.Builder
		files := []lang.InputFile{{Name: "<demo>", Reader: strings.NewReader(js)}}
		if _, err := lang.EvalProgram(prog, files, nil, &sb, false); err != nil {
			t.Fatalf("unexpected error: %v\nprogram:\n%s", err, prog)
		}
		return sb.String()
	}

	// 1. a helper is called in the condition, then the caller returns nothing
	prog1 := `
		function double(x) { return x * 2 }

		function classify(x) {
			if (double(x) > 4) {
				return
			}
			return 'small'
		}

		BEGIN {
			print classify(1)
			r = classify(5)
			print r is null
			if (r) {
				print 'then-branch'
			} else {
				print 'else-branch'
			}
		}
	`
	want1 := "small\ntrue\nelse-branch\n"
	if got := run(prog1, "[]"); got != want1 {
		t.Errorf("plain return after a nested call:\n got %q\nwant %q", got, want1)
	}

	// 2. the same from inside nested loops and a recursive call: visit() gives
	// up (plain return) as soon as the recursive call reports a hit
	prog2 := `
		function has(xs, wanted) {
			for (x in xs) {
				if (x is array) {
					if (has(x, wanted)) return true
				} else if (x == wanted) {
					return true
				}
			}
			return false
		}

		function firstRowWithout(rows, wanted) {
			for (row, i in rows) {
				while (true) {
					if (has(row, wanted)) {
						break
					}
					return i
				}
			}
			return
		}

		{
			r = firstRowWithout($, 7)
			if (r is null) {
				print 'every row has it'
			} else {
				print 'row', r
			}
		}
	`
	js2 := `[ [[1, [7]], [7, 2]], [[7], [3, 4]] ]`
	want2 := "every row has it\nrow 1\n"
	if got := run(prog2, js2); got != want2 {
		t.Errorf("plain return after loops with nested calls:\n got %q\nwant %q", got, want2)
	}
}
