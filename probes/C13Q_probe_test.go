package main

import (
	"fmt"
	"strings"
	"testing"

	lang "github.com/alligator/jqawk/src"
)

// runs a program without input and renders its stdout plus its outcome
func demoC13QRun(src string) string {
	var sb strings.Builder
	_, err := lang.EvalProgram(src, nil, nil, &sb, false)
	if err != nil {
		return sb.String() + fmt.Sprintf("<error: %v>", err)
	}
	return sb.String()
}

// C13: horizontal whitespace may be inserted between (or removed from between)
// any two tokens without changing behaviour, and a numeric literal never
// absorbs an adjacent operator. Every program of a group below is the same
// token sequence, only the spacing around the binary '-' differs.
func TestDemoC13Q(t *testing.T) {
	groups := []struct {
		want     string
		variants []string
	}{
		{
			// i ++ - 1
			want: "4 6\n",
			variants: []string{
				"BEGIN { i = 5; x = i++ - 1; print x, i }",
				"BEGIN { i = 5; x = i++ -1; print x, i }",
				"BEGIN { i = 5; x = i++-1; print x, i }",
				"BEGIN { i = 5; x = i ++\t-\t1; print x, i }",
			},
		},
		{
			// i -- - 2
			want: "3 4\n",
			variants: []string{
				"BEGIN { i = 5; x = i-- - 2; print x, i }",
				"BEGIN { i = 5; x = i-- -2; print x, i }",
				"BEGIN { i = 5; x = i---2; print x, i }",
			},
		},
		{
			// a [ 0 ] ++ - 1.5
			want: "8.5 11\n",
			variants: []string{
				"BEGIN { a = [10]; print a[0]++ - 1.5, a[0] }",
				"BEGIN { a = [10]; print a[0]++ -1.5, a[0] }",
				"BEGIN{a=[10];print a[0]++-1.5,a[0]}",
			},
		},
	}
	for _, g := range groups {
		for _, src := range g.variants {
			got := demoC13QRun(src)
			if got != g.want {
				t.Errorf("layout %q of the token sequence of %q:\n got  %q\n want %q", src, g.variants[0], got, g.want)
			}
		}
	}
}
