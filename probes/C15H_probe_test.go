package main

import (
	"strings"
	"testing"

	lang "github.com/alligator/jqawk/src"
)

// runs a program over an optional JSON document and returns what it printed,
// with a runtime error (if any) appended as "ERR: <message>"
func demoC15HRun(prog string, doc string) string {
	var sb strings.Builder
	var files []lang.InputFile
	if doc != "" {
		files = append(files, lang.InputFile{Name: "<demo>", Reader: strings.NewReader(doc)})
	}
	_, err := lang.EvalProgram(prog, files, nil, &sb, false)
	out := sb.String()
	if err != nil {
		out += "ERR: " + err.Error()
	}
	return out
}

// sort returns a sorted COPY and leaves the original untouched: whatever is
// done to the copy afterwards must not show through the original (and the
// other way round), for every array length -- also 0 and 1.
func TestDemoC15H(t *testing.T) {
	cases := []struct {
		name, prog, doc, want string
	}{
		{
			name: "one element: write to the sorted copy",
			prog: `BEGIN { a = [5]; s = a.sort(); s[0] = 9; print a, s, a.contains(5) }`,
			want: "[5] [9] true\n",
		},
		{
			name: "one element: write to the original after sorting",
			prog: `BEGIN { a = [5]; s = a.sort(); a[-1] = 1; print a, s }`,
			want: "[1] [5]\n",
		},
		{
			name: "one element left after popfirst",
			prog: `BEGIN { a = [3, 4]; a.popfirst(); s = a.sort(); s[-1] = 0; print a, s, a.contains(4) }`,
			want: "[4] [0] true\n",
		},
		{
			name: "emptied array: push to the copy, then to the original",
			prog: `BEGIN { a = [1]; a.pop(); s = a.sort(); s.push(5); a.push(6); print a, s }`,
			want: "[6] [5]\n",
		},
		{
			name: "arrays inside the document, lengths 2, 1 and 0",
			prog: `{ s = $.tags.sort(); s[0] = 'zzz'; print $.tags, s }`,
			doc:  `[{"tags": ["b", "a"]}, {"tags": ["only"]}, {"tags": []}]`,
			want: "[\"b\", \"a\"] [\"zzz\", \"b\"]\n[\"only\"] [\"zzz\"]\n[] [\"zzz\"]\n",
		},
	}

	for _, tc := range cases {
		got := demoC15HRun(tc.prog, tc.doc)
		if got != tc.want {
			t.Errorf("%s:\n got: %q\nwant: %q", tc.name, got, tc.want)
		}
	}
}
