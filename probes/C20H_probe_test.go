package main

import (
	"bytes"
	"fmt"
	"os"
	"os/exec"
	"runtime/debug"
	"strings"
	"testing"

	lang "github.com/alligator/jqawk/src"
)

// Runaway recursion has to end in an ordinary runtime error whatever its
// shape, also when the recursive call sits at the bottom of a deeply nested
// expression: then every call costs thousands of Go frames, and a few hundred
// calls (far fewer than the call depth limit) are enough to exhaust the stack.
//
// A Go stack overflow is fatal and cannot be recovered, so the programs run in
// a child process (this test binary, re-executed) and the parent looks at how
// the child ended.

func c20hPrograms() []string {
	const nest = 3000
	// direct: f(n) = !!!...!f(n + 1)
	direct := "function f(n) { return " + strings.Repeat("!", nest) + "f(n + 1) }\n" +
		"BEGIN { print \"start\"; f(0); print \"end\" }"
	// mutual, through a match body: f(n) = 1+(1+(...match (n) { x => g(x) }...)), g(n) = f(n + 1)
	mutual := "function g(n) { return f(n + 1) }\n" +
		"function f(n) { return " + strings.Repeat("1+(", nest) + "match (n) { x => g(x) }" + strings.Repeat(")", nest) + " }\n" +
		"BEGIN { print \"start\"; f(0); print \"end\" }"
	return []string{direct, mutual}
}

func c20hChild() {
	// the default limit is 1 GB; a lower one only makes the failure quicker.
	// The unchanged interpreter stops at a nesting that fits in 256 MB
	debug.SetMaxStack(512 << 20)

	// a thousand calls deep, modestly nested: works
	var sb strings.Builder
	_, err := lang.EvalProgram(
		`function sum(n) { if (n > 0) { return n + sum(n - 1) } return 0 } BEGIN { print sum(1000) }`,
		nil, nil, &sb, false)
	fmt.Printf("C20H sanity out=%q err=%v\n", sb.String(), err)

	for i, prog := range c20hPrograms() {
		var sb strings.Builder
		_, err := lang.EvalProgram(prog, nil, nil, &sb, false)
		_, isRuntimeError := err.(lang.RuntimeError)
		fmt.Printf("C20H prog=%d runtimeError=%v out=%q err=%v\n", i, isRuntimeError, sb.String(), err)
	}
	fmt.Printf("C20H done\n")
}

func TestDemoC20H(t *testing.T) {
	if os.Getenv("C20H_CHILD") == "1" {
		c20hChild()
		return
	}

	cmd := exec.Command(os.Args[0], "-test.run=^TestDemoC20H$")
	cmd.Env = append(os.Environ(), "C20H_CHILD=1")
	var stdout, stderr bytes.Buffer
	cmd.Stdout = &stdout
	cmd.Stderr = &stderr
	runErr := cmd.Run()

	var lines []string
	for _, line := range strings.Split(stdout.String(), "\n") {
		if strings.HasPrefix(line, "C20H ") {
			lines = append(lines, line)
		}
	}
	got := strings.Join(lines, "\n")

	if runErr != nil {
		errLines := strings.SplitN(stderr.String(), "\n", 6)
		if len(errLines) > 5 {
			errLines = errLines[:5]
		}
		t.Fatalf("the interpreter took the process down (%v) instead of reporting an error\nchild got as far as:\n%s\nchild stderr starts with:\n%s",
			runErr, got, strings.Join(errLines, "\n"))
	}

	expected := strings.Join([]string{
		`C20H sanity out="500500\n" err=<nil>`,
		`C20H prog=0 runtimeError=true out="start\n" err=evaluation nested too deeply`,
		`C20H prog=1 runtimeError=true out="start\n" err=evaluation nested too deeply`,
		`C20H done`,
	}, "\n")
	if got != expected {
		t.Fatalf("expected\n%s\ngot\n%s", expected, got)
	}
}
