package main

import (
	"os"
	"os/exec"
	"path/filepath"
	"strings"
	"testing"

	lang "github.com/alligator/jqawk/src"
)

// A program given with -f must behave as the same text given inline, and a
// named input file must be read whatever stdin happens to be connected to.
//
// The trigger is the combination: -f PROGFILE, exactly one input file, and a
// stdin that is not a terminal (a pipe, /dev/null, cron, CI).
func TestDemoC14M(t *testing.T) {
	dir := t.TempDir()

	exe := filepath.Join(dir, "jqawk-demo")
	build := exec.Command("go", "build", "-o", exe, ".")
	if out, err := build.CombinedOutput(); err != nil {
		t.Fatalf("building jqawk: %v\n%s", err, out)
	}

	progSrc := "{ print $file, $ }\nEND { print \"done\" }\n"
	progPath := filepath.Join(dir, "prog.jqawk")
	if err := os.WriteFile(progPath, []byte(progSrc), 0o644); err != nil {
		t.Fatal(err)
	}
	dataSrc := "[1, 2]\n"
	dataPath := filepath.Join(dir, "data.json")
	if err := os.WriteFile(dataPath, []byte(dataSrc), 0o644); err != nil {
		t.Fatal(err)
	}
	outPath := filepath.Join(dir, "out.json")

	// what the library interpreter produces for this program and input
	var sb strings.Builder
	ev, err := lang.EvalProgram(progSrc, []lang.InputFile{
		{Name: dataPath, Reader: strings.NewReader(dataSrc)},
	}, nil, &sb, false)
	if err != nil {
		t.Fatalf("library run failed: %v", err)
	}
	expected := sb.String()
	expectedJson, err := ev.GetRootJson()
	if err != nil {
		t.Fatal(err)
	}

	run := func(stdin string, args ...string) (string, string, error) {
		cmd := exec.Command(exe, args...)
		cmd.Stdin = strings.NewReader(stdin) // a pipe, not a terminal
		var stderr strings.Builder
		cmd.Stderr = &stderr
		out, err := cmd.Output()
		return string(out), stderr.String(), err
	}

	// inline program, one file: the reference behaviour of the wrapper
	out, stderr, err := run("[99]\n", progSrc, dataPath)
	if err != nil || out != expected {
		t.Fatalf("inline program: err=%v stderr=%q\nexpected %q\ngot      %q", err, stderr, expected, out)
	}

	// same text with -f, same file, stdin is some unrelated pipe
	out, stderr, err = run("[99]\n", "-f", progPath, dataPath)
	if err != nil {
		t.Fatalf("-f program: unexpected failure %v, stderr=%q", err, stderr)
	}
	if out != expected {
		t.Fatalf("-f program read the wrong input\nexpected %q\ngot      %q", expected, out)
	}

	// and with -o FILE: one input file, so the JSON must be written
	out, stderr, err = run("", "-f", progPath, "-o", outPath, dataPath)
	if err != nil {
		t.Fatalf("-f program with -o: unexpected failure %v, stderr=%q", err, stderr)
	}
	if out != expected {
		t.Fatalf("-f program with -o: expected stdout %q, got %q", expected, out)
	}
	written, err := os.ReadFile(outPath)
	if err != nil {
		t.Fatalf("-o file was not written: %v", err)
	}
	if string(written) != expectedJson {
		t.Fatalf("-o file: expected %q, got %q", expectedJson, string(written))
	}
}
