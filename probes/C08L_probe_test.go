package main

import (
	"bytes"
	"strings"
	"testing"

	lang "github.com/alligator/jqawk/src"
)

// A call yields the value of the return statement it executed. A bare return
// yields null, also when the function completed other calls (which returned
// values of their own) before it reached that bare return.
func TestDemoC08L(t *testing.T) {
	run := func(prog string, json string) (string, error) {
		var out bytes.Buffer
		files := []lang.InputFile{{Name: "in.json", Reader: strings.NewReader(json)}}
		_, err := lang.EvalProgram(prog, files, nil, &out, false)
		return out.String(), err
	}

	// sequential calls: the value returned by one call is not seen by the next
	prog0 := `
		function five() { return 5 }
		function nothing() { return }
		BEGIN { five(); print nothing(), nothing() is null }
	`
	got, err := run(prog0, `[]`)
	if err != nil {
		t.Fatalf("program 0: unexpected error: %v", err)
	}
	if want := "null true\n"; got != want {
		t.Errorf("program 0: got %q, want %q", got, want)
	}

	// a completed nested call followed by a bare return
	prog1 := `
		function is_small(n) { return n < 10 }
		function label(n) {
			if (is_small(n)) {
				return        # small numbers get no label
			}
			return 'big'
		}
		function walk(n) {
			if (n > 0) {
				walk(n - 1)   # finished recursive calls, each returned a string
			}
			if (n % 2 == 0) {
				return
			}
			return 'odd ' + n
		}
		{
			l = label($)
			print $, l, l is null
		}
		END {
			print walk(3), walk(2), walk(2) is null
		}
	`
	got, err = run(prog1, `[3, 30, 4]`)
	if err != nil {
		t.Fatalf("program 1: unexpected error: %v", err)
	}
	want := "3 null true\n30 big false\n4 null true\nodd 3 null true\n"
	if got != want {
		t.Errorf("program 1: got %q, want %q", got, want)
	}
}
