package main

import (
	"strings"
	"testing"

	lang "github.com/alligator/jqawk/src"
)

// runDemoC13C evaluates prog against the JSON text js and returns what it
// printed, or "ERR: <message>" if parsing/evaluation failed.
func runDemoC13C(prog, js string) (out string) {
	defer func() {
		if r := recover(); r != nil {
			out = "PANIC"
		}
	}()
	var sb strings.Builder
	files := []lang.InputFile{{Name: "<demo>", Reader: strings.NewReader(js)}}
	if _, err := lang.EvalProgram(prog, files, nil, &sb, false); err != nil {
		return sb.String() + "ERR: " + err.Error()
	}
	return sb.String()
}

// A numeric literal is "digits, optionally '.' digits" no matter what follows
// it. Appending horizontal whitespace, a comment or a newline after the last
// token of a program must not change the program's behaviour, so a pattern-only
// program whose last token is a one-digit-fraction literal must behave the same
// with and without trailing layout.
func TestDemoC13C(t *testing.T) {
	const js = `[1, 2, 3, 0.25, 0.75]`

	cases := []struct {
		core string // program whose last token is a fractional literal
		want string
	}{
		{"$ > 1.5", "2\n3\n"},
		{"$ < 0.5", "0.25\n"},
		{"$ == 0.75 || $ > 2.5", "3\n0.75\n"},
		{"$ > 1.50", "2\n3\n"},
		{"$ > 0.5 { print $ * 2 } $ < 0.5", "2\n4\n6\n0.25\n1.5\n"},
	}
	trailers := []string{"", " ", "\t", "\n", " # done", "\r\n"}

	for _, c := range cases {
		for _, tr := range trailers {
			prog := c.core + tr
			got := runDemoC13C(prog, js)
			if got != c.want {
				t.Errorf("program %q: got %q, want %q", prog, got, c.want)
			}
		}
	}
}
