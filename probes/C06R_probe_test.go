package main

import (
	"strings"
	"testing"

	lang "github.com/alligator/jqawk/src"
)

// runs the statements in a BEGIN rule and returns what was printed
func demoC06RRun(t *testing.T, body string) string {
	t.Helper()
	var sb strings.Builder
	_, err := lang.EvalProgram("BEGIN { "+body+" }", nil, nil, &sb, false)
	if err != nil {
		t.Fatalf("%s: unexpected error: %v", body, err)
	}
	return strings.TrimSuffix(sb.String(), "\n")
}

// C06: operators of equal precedence group left to right, so `a + b + c`
// means `(a + b) + c`. With numbers on the left and a string further right
// the grouping is visible in the value: (1 + 2) + "a" is "3a", whereas
// 1 + (2 + "a") is "12a".
func TestDemoC06R(t *testing.T) {
	cases := []struct {
		bare string // written without redundant parentheses
		// the intended tree, evaluated one operator at a time through temporaries
		stepwise string
		want     string
	}{
		{`1 + 2 + "a"`, `t1 = 1 + 2; print t1 + "a"`, "3a"},
		{`10 - 4 + 1 + "x"`, `t1 = 10 - 4; t2 = t1 + 1; print t2 + "x"`, "7x"},
		{`1 + 2 * 3 + "a" + 1`, `t1 = 2 * 3; t2 = 1 + t1; t3 = t2 + "a"; print t3 + 1`, "7a1"},
		{`"a" + 1 + 2`, `t1 = "a" + 1; print t1 + 2`, "a12"},
		{`1 + 2 + 3 + 4`, `t1 = 1 + 2; t2 = t1 + 3; print t2 + 4`, "10"},
	}
	for _, c := range cases {
		bare := demoC06RRun(t, "print "+c.bare)
		stepwise := demoC06RRun(t, c.stepwise)
		if stepwise != c.want {
			t.Fatalf("reference evaluation `%s` printed %q, expected %q", c.stepwise, stepwise, c.want)
		}
		if bare != stepwise {
			t.Errorf("`%s` printed %q, but grouped left to right (`%s`) it is %q", c.bare, bare, c.stepwise, stepwise)
		}
	}
}
