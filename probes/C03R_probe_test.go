package main

import (
	"bufio"
	"os"
	"os/exec"
	"path/filepath"
	"strings"
	"syscall"
	"testing"
	"time"
)

// demoC03RLine reads one line from br, giving up after the timeout; the
// channel still delivers the line if the read completes later
func demoC03RLine(br *bufio.Reader, timeout time.Duration) (string, bool, chan string) {
	ch := make(chan string, 1)
	go func() {
		line, _ := br.ReadString('\n')
		ch <- line
	}()
	select {
	case line := <-ch:
		return line, true, ch
	case <-time.After(timeout):
		return "", false, ch
	}
}

func TestDemoC03R(t *testing.T) {
	// C03 for an input file named on the command line that is a named pipe
	// (jqawk prog /path/to/fifo, the file-argument form of `producer | jqawk
	// prog`): a value is processed and its output written as soon as it has
	// arrived, without waiting for any later value or for the end of the input
	fifo := filepath.Join(t.TempDir(), "events.fifo")
	if err := syscall.Mkfifo(fifo, 0o600); err != nil {
		t.Fatalf("mkfifo: %v", err)
	}
	// O_RDWR so that neither this open nor jqawk's open of the pipe can block
	w, err := os.OpenFile(fifo, os.O_RDWR, 0)
	if err != nil {
		t.Fatalf("open fifo: %v", err)
	}
	defer w.Close()

	cmd := exec.Command("./jqawk", "{ print 'got', $ }", fifo)
	stdout, err := cmd.StdoutPipe()
	if err != nil {
		t.Fatal(err)
	}
	var stderr strings.Builder
	cmd.Stderr = &stderr
	if err := cmd.Start(); err != nil {
		t.Fatalf("start: %v", err)
	}
	br := bufio.NewReader(stdout)

	incremental := true
	for _, step := range []struct{ in, want string }{
		{"[1]\n", "got 1\n"},
		{"{\"a\": 2}\n", "got {\"a\": 2}\n"},
	} {
		if _, err := w.WriteString(step.in); err != nil {
			t.Fatalf("write fifo: %v", err)
		}
		line, ok, pending := demoC03RLine(br, 5*time.Second)
		if !ok {
			t.Errorf("value %q (and the byte after it) was delivered, but its output was not written within 5s: jqawk is waiting for later input", step.in)
			incremental = false
			// end the input so that the pending read finishes
			w.Close()
			<-pending
			break
		}
		if line != step.want {
			t.Errorf("after %q: expected output line %q, got %q", step.in, step.want, line)
		}
	}

	// end the stream in the middle of a value: the earlier values have been
	// processed, the truncated one is reported as a JSON error naming the file
	w.WriteString("[3, ")
	w.Close()
	rest := ""
	for {
		line, err := br.ReadString('\n')
		rest += line
		if err != nil {
			break
		}
	}
	err = cmd.Wait()
	if !incremental {
		// the stream was ended early above, nothing more to compare
		return
	}
	if rest != "" {
		t.Errorf("unexpected output for the truncated value: %q", rest)
	}
	if err == nil {
		t.Errorf("truncated input: expected a non-zero exit status")
	}
	if !strings.Contains(stderr.String(), "could not parse "+fifo) {
		t.Errorf("truncated input: expected a JSON error naming %s on stderr, got %q", fifo, stderr.String())
	}
}
