package main

import (
	"bytes"
	"strings"
	"testing"

	lang "github.com/alligator/jqawk/src"
)

// A case is selected when ONE of its comma-separated patterns matches, in
// whatever order the alternatives are written: a literal alternative that does
// not match an array (or object) subject must not stop the array or identifier
// alternatives that follow it in the same case from being tried.
func TestDemoC19J(t *testing.T) {
	run := func(prog, input string) string {
		t.Helper()
		var out bytes.Buffer
		files := []lang.InputFile{}
		if input != "" {
			files = append(files, lang.InputFile{Name: "input", Reader: strings.NewReader(input)})
		}
		if _, err := lang.EvalProgram(prog, files, nil, &out, false); err != nil {
			t.Fatalf("program %q failed: %v", prog, err)
		}
		return out.String()
	}

	cases := []struct {
		name, prog, input, want string
	}{
		{
			// "nothing there": null and the empty array are handled alike
			name: "literal alternative first, array alternative second",
			prog: `{
				print match ($.items) {
					null, [] => 'none',
					[x] => 'one: ' + x,
					_ => 'many',
				}
			}`,
			input: `[{"items": null}, {"items": []}, {"items": ["a"]}, {"items": ["a", "b"]}, {}]`,
			want:  "none\nnone\none: a\nmany\nnone\n",
		},
		{
			name: "the array alternative binds, the case body sees the bindings",
			prog: `BEGIN {
				print match ([3, 4]) {
					null, [a, b] => a * b,
					_ => 'other',
				}
			}`,
			want: "12\n",
		},
		{
			name: "literal alternative before a catch-all identifier, object subject",
			prog: `BEGIN {
				print match ({ n: 5 }) {
					null, o => o.n,
				}
			}`,
			want: "5\n",
		},
		{
			// inside an array pattern too: the element [1] is tried against
			// null, then against [k]
			name: "nested: alternatives of a later case still selected",
			prog: `BEGIN {
				print match ([[1], 2]) {
					[null, v] => 'no key ' + v,
					null, [[k], v] => k + v,
				}
			}`,
			want: "3\n",
		},
		{
			// controls: the same alternatives the other way round, and a
			// scalar subject
			name: "array alternative first",
			prog: `BEGIN {
				print match ([]) { [], null => 'none', _ => 'many' }
				print match (null) { null, [] => 'none', _ => 'many' }
				print match (2) { 1, 2 => 'small', _ => 'big' }
			}`,
			want: "none\nnone\nsmall\n",
		},
	}

	for _, tc := range cases {
		if got := run(tc.prog, tc.input); got != tc.want {
			t.Errorf("%s:\n got  %q\n want %q", tc.name, got, tc.want)
		}
	}
}
