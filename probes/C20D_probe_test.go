package main

import (
	"strings"
	"testing"

	lang "github.com/alligator/jqawk/src"
)

func runDemoC20D(prog string) (string, error) {
	var sb strings.Builder
	_, err := lang.EvalProgram(prog, nil, nil, &sb, false)
	return sb.String(), err
}

func checkRefusedDemoC20D(t *testing.T, what string, out string, err error, wantOut string) {
	t.Helper()
	if err == nil {
		t.Fatalf("%s: the assignment was not refused, output %q", what, out)
	}
	rtErr, ok := err.(lang.RuntimeError)
	if !ok {
		t.Fatalf("%s: expected a lang.RuntimeError, got %T: %v", what, err, err)
	}
	if !strings.Contains(rtErr.Message, "index too large to auto-fill array") {
		t.Fatalf("%s: unexpected error message %q", what, rtErr.Message)
	}
	if out != wantOut {
		t.Fatalf("%s: output before the error was not kept intact: %q", what, out)
	}
}

// Assigning to an array index beyond about a million is refused, no matter how
// long the array already is: the limit is on the index the array is extended
// to, not on how far one assignment extends it.
func TestDemoC20D(t *testing.T) {
	// an array of a million elements works normally
	out, err := runDemoC20D(`
		BEGIN {
			a[1000000] = 'x';
			print a.length(), a[1000000], a[999999];
		}
	`)
	if err != nil {
		t.Fatalf("filling an array up to index 1000000 failed: %v", err)
	}
	if out != "1000001 x null\n" {
		t.Fatalf("filling an array up to index 1000000: unexpected output %q", out)
	}

	// an index just beyond the limit on a short, non-empty array
	out, err = runDemoC20D(`
		BEGIN {
			b = [7, 8, 9];
			print 'start', b.length();
			b[1048578] = 1;
			print 'not reached', b.length();
		}
	`)
	checkRefusedDemoC20D(t, "index 1048578 on an array of 3", out, err, "start 3\n")

	// a second extension of an array that is already at the limit
	out, err = runDemoC20D(`
		BEGIN {
			c[1048576] = 1;
			print 'first', c.length();
			c[2000000] = 2;
			print 'not reached', c.length();
		}
	`)
	checkRefusedDemoC20D(t, "index 2000000 on an array of 1048577", out, err, "first 1048577\n")
}
