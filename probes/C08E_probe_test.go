package main

import (
	"strings"
	"testing"

	lang "github.com/alligator/jqawk/src"
)

// A parameter bound by a call stays bound for the whole call, including inside
// the body of a match case that the function evaluates (the match pushes its
// own frame for the names bound by the pattern, on top of the call's frame).
// The same holds for the names bound by an outer match case while an inner
// match case runs.
func TestDemoC08E(t *testing.T) {
	run := func(prog string, json string) string {
		t.Helper()
		var sb strings.Builder
		files := []lang.InputFile{{Name: "<demo>", Reader: strings.NewReader(json)}}
		_, err := lang.EvalProgram(prog, files, nil, &sb, false)
		if err != nil {
			t.Fatalf("unexpected error: %v", err)
		}
		return sb.String()
	}

	// 1. parameters read inside a match case body (expression body and block
	//    body, with a return from inside the block body)
	prog := `
		function describe(n, unit) {
			return match (n % 2) {
				0 => n + ' ' + unit + ' even',
				_ => n + ' ' + unit + ' odd',
			}
		}

		function scale(pair, k) {
			match (pair) {
				[a, b] => {
					return [a * k, b * k]
				}
			}
			return k
		}

		{
			print describe($, 'px')
			print scale([$, $ + 1], 10)
			print scale($, 10)
		}
	`
	got := run(prog, `[3, 4]`)
	want := "3 px odd\n[30, 40]\n10\n4 px even\n[40, 50]\n10\n"
	if got != want {
		t.Fatalf("parameters inside match bodies:\n got %q\nwant %q", got, want)
	}

	// 2. a global of the same name must not be picked up instead of the parameter
	prog = `
		function pick(k) {
			return match (1) { 1 => k }
		}
		BEGIN { k = 'global' }
		{ print pick($) }
		END { print k }
	`
	got = run(prog, `[7, 8]`)
	want = "7\n8\nglobal\n"
	if got != want {
		t.Fatalf("parameter shadowing a global inside a match body:\n got %q\nwant %q", got, want)
	}

	// 3. names bound by an outer case are visible in an inner case of the same
	//    rule, and gone afterwards
	prog = `
		{
			print match ($) {
				[x, rest] => match (rest) {
					[y, z] => x + y + z,
				},
			}
			print x is unknown, y is unknown
		}
	`
	got = run(prog, `[[1, [2, 3]], [10, [20, 30]]]`)
	want = "6\ntrue true\n60\ntrue true\n"
	if got != want {
		t.Fatalf("nested match bindings:\n got %q\nwant %q", got, want)
	}
}
