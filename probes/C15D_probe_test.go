package main

import (
	"strings"
	"testing"

	lang "github.com/alligator/jqawk/src"
)

// A method acts on the array it was invoked on: the receiver expression is
// resolved before the arguments are evaluated (left to right), also when the
// arguments are themselves method calls that change what the receiver
// expression would resolve to afterwards.
func TestDemoC15D(t *testing.T) {
	cases := []struct {
		prog     string
		json     string
		expected string
	}{
		{
			// receiver chosen by an index that the argument increments
			prog: `BEGIN {
				i = 0;
				xs = [[], []];
				xs[i].push(i++);
				print xs, i;
			}`,
			expected: "[[0], []] 1\n",
		},
		{
			// receiver is the last element, the argument pops it off
			prog: `BEGIN {
				q = [[10], [20], [30]];
				r = q[-1].push(q.pop()[0]);
				print q;
				print r;
				print q.length(), q[-1].length();
			}`,
			expected: "[[10], [20]]\n[30, 30]\n2 1\n",
		},
		{
			// receiver is the first element, the argument popfirsts it
			prog: `BEGIN {
				a = [[1], [2]];
				a[0].push(a.popfirst().length());
				print a;
				print a[0].contains(1);
			}`,
			expected: "[[2]]\nfalse\n",
		},
		{
			// the same on arrays living inside the document
			prog:     `{ $.rows[0].push($.rows.popfirst().length()); print $.rows }`,
			json:     `{"rows": [[7, 8], [9]]}`,
			expected: "[[9]]\n",
		},
	}

	for i, tc := range cases {
		var files []lang.InputFile
		if tc.json != "" {
			files = []lang.InputFile{{Name: "<demo>", Reader: strings.NewReader(tc.json)}}
		}
		var sb strings.Builder
		_, err := lang.EvalProgram(tc.prog, files, nil, &sb, false)
		if err != nil {
			t.Fatalf("case %d: unexpected error: %v", i, err)
		}
		if sb.String() != tc.expected {
			t.Errorf("case %d: expected %q\ngot %q", i, tc.expected, sb.String())
		}
	}
}
