package main

import (
	"strings"
	"testing"

	lang "github.com/alligator/jqawk/src"
)

// Every END rule runs after all input with $ bound to null, no matter what an
// earlier END rule did with its own $.
func TestDemoC02B(t *testing.T) {
	prog := `
		{ total += $.n }
		END { $ = { total: total }; print 'first', $ }
		END { print 'second', $ }
		END { if ($ is null) print 'third null'; else print 'third not null' }
	`
	files := []lang.InputFile{
		{Name: "f1", Reader: strings.NewReader(`[{"n": 1}, {"n": 2}]`)},
		{Name: "f2", Reader: strings.NewReader(`{"n": 4}`)},
	}
	expected := "first {\"total\": 7}\nsecond null\nthird null\n"

	var sb strings.Builder
	_, err := lang.EvalProgram(prog, files, nil, &sb, false)
	if err != nil {
		t.Fatalf("unexpected error %q, output so far:\n%s", err.Error(), sb.String())
	}
	if sb.String() != expected {
		t.Fatalf("expected:\n%s\ngot:\n%s", expected, sb.String())
	}
}
