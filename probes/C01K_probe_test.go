package main

import (
	"flag"
	"fmt"
	"os"
	"path/filepath"
	"strings"
	"testing"

	cli "github.com/alligator/jqawk/cli"
)

// runs the command-line entry point in-process with the given arguments and
// reports its exit status, what it wrote to stderr, and whether it panicked
func runCliC01K(t *testing.T, dir string, args ...string) (code int, stderr string, crash string) {
	t.Helper()

	stderrPath := filepath.Join(dir, "stderr.txt")
	stdoutPath := filepath.Join(dir, "stdout.txt")
	stderrFile, err := os.Create(stderrPath)
	if err != nil {
		t.Fatal(err)
	}
	stdoutFile, err := os.Create(stdoutPath)
	if err != nil {
		t.Fatal(err)
	}

	oldArgs, oldFlags := os.Args, flag.CommandLine
	oldStdout, oldStderr := os.Stdout, os.Stderr
	defer func() {
		os.Args, flag.CommandLine = oldArgs, oldFlags
		os.Stdout, os.Stderr = oldStdout, oldStderr
		stderrFile.Close()
		stdoutFile.Close()
		data, _ := os.ReadFile(stderrPath)
		stderr = string(data)
	}()

	os.Args = append([]string{"jqawk"}, args...)
	flag.CommandLine = flag.NewFlagSet("jqawk", flag.ContinueOnError)
	os.Stdout, os.Stderr = stdoutFile, stderrFile

	code = -1
	func() {
		defer func() {
			if r := recover(); r != nil {
				crash = fmt.Sprint(r)
			}
		}()
		code = cli.Run("test")
	}()
	return
}

func TestDemoC01K(t *testing.T) {
	dir := t.TempDir()
	input := filepath.Join(dir, "in.json")
	if err := os.WriteFile(input, []byte(`[{"x": 1}, {"x": 2}]`), 0o644); err != nil {
		t.Fatal(err)
	}
	out := filepath.Join(dir, "out.json")

	cases := []struct {
		name       string
		args       []string
		wantCode   int
		wantStderr string
	}{
		{"ok with -o", []string{"-o", out, "{ $.x++ }", input}, 0, ""},
		{"runtime error with -o", []string{"-o", out, "{ print 1 / 0 }", input}, 1, "runtime error"},
		{"syntax error without -o", []string{"{ print 1 +", input}, 1, "syntax error"},
		// the combination that matters: JSON output requested and the program
		// (or a root selector) does not parse
		{"syntax error in program with -o", []string{"-o", out, "{ print 1 +", input}, 1, "syntax error"},
		{"syntax error in selector with -o", []string{"-o", out, "-r", "$.(", "{ print }", input}, 1, "syntax error"},
	}

	for _, tc := range cases {
		code, stderr, crash := runCliC01K(t, dir, tc.args...)
		if crash != "" {
			t.Errorf("%s: jqawk %q crashed instead of exiting by itself: %s", tc.name, tc.args, crash)
			continue
		}
		if code != tc.wantCode {
			t.Errorf("%s: jqawk %q: exit status %d, want %d (stderr %q)", tc.name, tc.args, code, tc.wantCode, stderr)
		}
		if tc.wantStderr != "" && !strings.Contains(stderr, tc.wantStderr) {
			t.Errorf("%s: jqawk %q: stderr %q does not contain %q", tc.name, tc.args, stderr, tc.wantStderr)
		}
	}
}
