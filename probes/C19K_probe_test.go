package main

import (
	"strings"
	"testing"

	lang "github.com/alligator/jqawk/src"
)

func runDemoC19K(t *testing.T, prog string, json string) string {
	t.Helper()
	files := []lang.InputFile{{Name: "<demo>", Reader: strings.NewReader(json)}}
	var sb strings.Builder
	if _, err := lang.EvalProgram(prog, files, nil, &sb, false); err != nil {
		t.Fatalf("unexpected error for program %q: %v", prog, err)
	}
	return sb.String()
}

// A case whose body is a block yields null, whatever the block contains -
// also when the block is just one expression statement.
func TestDemoC19K(t *testing.T) {
	cases := []struct {
		name, prog, json, want string
	}{
		{
			name: "block body holding a single expression statement",
			prog: `BEGIN { counts = {} }
			{
				seen = match ($) {
					[k, v] => { counts[k]++ }
					_ => 'skipped'
				}
				print seen, counts.a
			}`,
			json: `[["a", 1], 7, ["a", 2]]`,
			want: "null 1\nskipped 1\nnull 2\n",
		},
		{
			name: "single literal in a block",
			prog: `BEGIN { print match (1) { 1 => { 5 } } }`,
			json: `null`,
			want: "null\n",
		},
		{
			name: "single assignment in a block, catch-all case",
			prog: `BEGIN { r = match ('q') { 1 => 'one', x => { y = x } }
				print r }`,
			json: `null`,
			want: "null\n",
		},
		{
			// controls: these hold on either side of the change
			name: "block with two statements, and expression body",
			prog: `BEGIN {
				print match (1) { 1 => { 5; 6 } }
				print match (1) { 1 => 5 }
				print match (2) { 1 => { 5 } }
			}`,
			json: `null`,
			want: "null\n5\nnull\n",
		},
	}
	for _, c := range cases {
		got := runDemoC19K(t, c.prog, c.json)
		if got != c.want {
			t.Errorf("%s:\nprogram: %s\nwant %q\ngot  %q", c.name, c.prog, c.want, got)
		}
	}
}
