package main

import (
	"bytes"
	"strings"
	"testing"

	lang "github.com/alligator/jqawk/src"
)

// A zero-padded directive followed by plain-width directives: only the
// directive whose width is written with a leading 0 may be padded with zeros.
func TestDemoC18O(t *testing.T) {
	prog := `BEGIN { printf("%04f|%4s|%-4v|%3f|\n", 7, "ab", true, 1) }`
	var out bytes.Buffer
	files := []lang.InputFile{{Name: "<demo>", Reader: strings.NewReader(`[]`)}}
	_, err := lang.EvalProgram(prog, files, nil, &out, false)
	if err != nil {
		t.Fatalf("unexpected error: %v", err)
	}
	expected := "0007|  ab|true|  1|\n"
	if out.String() != expected {
		t.Fatalf("expected %q, got %q", expected, out.String())
	}
}
