package main

import (
	"strings"
	"testing"

	lang "github.com/alligator/jqawk/src"
)

// Property: call, member and index bind tighter than a prefix - (and ! +), so
// "-2.5.floor()" means "-((2.5).floor())": the method is called on 2.5 and the
// result is negated. It must not depend on the operand being a numeric literal
// written right after the minus sign.
func TestDemoC06M(t *testing.T) {
	run := func(expr string) string {
		t.Helper()
		var sb strings.Builder
		prog := "BEGIN { n = 2.5; print " + expr + " }"
		if _, err := lang.EvalProgram(prog, nil, nil, &sb, false); err != nil {
			return "error: " + err.Error()
		}
		return strings.TrimSuffix(sb.String(), "\n")
	}

	cases := []struct {
		expr string // written without redundant parentheses
		full string // its fully parenthesised form
		want string
	}{
		{"-2.5.floor()", "(-((2.5.floor)()))", "-2"},
		{"-7.2.ceil()", "(-((7.2.ceil)()))", "-8"},
		{"3 * -1.5.floor()", "(3 * (-((1.5.floor)())))", "-3"},
		{"10 - -2.5.floor()", "(10 - (-((2.5.floor)())))", "12"},
		{"!-0.5.floor()", "(!(-((0.5.floor)())))", "true"},
		// the same thing through a variable, and with a space after the minus
		{"-n.floor()", "(-((n.floor)()))", "-2"},
		{"- 2.5.floor()", "(-((2.5.floor)()))", "-2"},
	}

	for _, c := range cases {
		got := run(c.expr)
		gotFull := run(c.full)
		if gotFull != c.want {
			t.Errorf("%s (fully parenthesised) = %q, want %q", c.full, gotFull, c.want)
		}
		if got != gotFull {
			t.Errorf("%s = %q, but its fully parenthesised form %s = %q", c.expr, got, c.full, gotFull)
		}
	}
}
