package main

import (
	"strings"
	"testing"

	lang "github.com/alligator/jqawk/src"
)

// A string literal, in either quote style, runs to its closing quote and
// denotes exactly the characters in between (only \n, \t and \\ are escapes).
// That holds for every byte, including a NUL byte in the program text.
func TestDemoC13H(t *testing.T) {
	run := func(prog string) (string, error) {
		var sb strings.Builder
		_, err := lang.EvalProgram(prog, nil, nil, &sb, false)
		return sb.String(), err
	}

	for _, q := range []string{"'", "\""} {
		// baseline without the unusual byte
		out, err := run("BEGIN { print " + q + "a-b\\tc" + q + " }")
		if err != nil {
			t.Fatalf("quote %s baseline: %v", q, err)
		}
		if out != "a-b\tc\n" {
			t.Fatalf("quote %s baseline: got %q", q, out)
		}

		// the same literal with a NUL byte in place of the '-'
		out, err = run("BEGIN { print " + q + "a\x00b\\tc" + q + " }")
		if err != nil {
			t.Fatalf("quote %s: a literal containing a NUL byte did not run: %v", q, err)
		}
		if out != "a\x00b\tc\n" {
			t.Fatalf("quote %s: got %q, want %q", q, out, "a\x00b\tc\n")
		}
	}

	// the literal must not end early and let its tail be read as program text
	out, err := run("BEGIN { print 'a\x00+' # '\n}")
	if err != nil {
		t.Fatalf("literal followed by a comment: %v", err)
	}
	if out != "a\x00+\n" {
		t.Fatalf("literal followed by a comment: got %q, want %q", out, "a\x00+\n")
	}
}
