package main

import (
	"fmt"
	"strings"
	"testing"

	lang "github.com/alligator/jqawk/src"
)

// one complete run of the interpreter: stdout, JSON output and outcome
func demoC10GRun(prog string, input string) string {
	var sb strings.Builder
	files := []lang.InputFile{{Name: "<demo>", Reader: strings.NewReader(input)}}
	ev, err := lang.EvalProgram(prog, files, nil, &sb, false)
	outcome := "ok"
	if err != nil {
		outcome = "error: " + err.Error()
	}
	rootJson := "<none>"
	if ev != nil {
		j, jerr := ev.GetRootJson()
		if jerr != nil {
			rootJson = "json error: " + jerr.Error()
		} else {
			rootJson = j
		}
	}
	return fmt.Sprintf("stdout=%q\njson=%s\noutcome=%s", sb.String(), rootJson, outcome)
}

// The result of a run must not depend on which other runs happened earlier in
// the same process. Here the unrelated earlier run uses "num" (also the name of
// a runtime function) as an ordinary loop variable.
func TestDemoC10G(t *testing.T) {
	const prog = `{ print num($.price) + 1 }`
	const input = `[{ "price": "41" }, { "price": "1.5" }]`

	first := demoC10GRun(prog, input)
	if !strings.Contains(first, `stdout="42\n2.5\n"`) || !strings.HasSuffix(first, "outcome=ok") {
		t.Fatalf("unexpected baseline result:\n%s", first)
	}

	// an unrelated run in between
	other := demoC10GRun(`{ for (num in $) total += num } END { print total }`, `[[1, 2], [3, 4]]`)
	if !strings.Contains(other, `stdout="10\n"`) {
		t.Fatalf("unexpected result of the unrelated run:\n%s", other)
	}

	second := demoC10GRun(prog, input)
	if first != second {
		t.Fatalf("the same program and input gave different results in one process\nfirst run:\n%s\n\nafter an unrelated run:\n%s", first, second)
	}
}
