package main

import (
	"strings"
	"testing"

	lang "github.com/alligator/jqawk/src"
)

// C02: when the root is not an array the pattern rules run exactly once with $
// bound to the root -- for every root shape: object, scalar and null. A null
// root is what a JSON null document gives, and also what a root selector gives
// that finds nothing in a value.
func demoC02RRun(t *testing.T, prog string, selectors []string, inputs ...string) string {
	t.Helper()
	files := make([]lang.InputFile, 0, len(inputs))
	for i, in := range inputs {
		name := "f" + string(rune('1'+i))
		files = append(files, lang.InputFile{Name: name, Reader: strings.NewReader(in)})
	}
	var sb strings.Builder
	_, err := lang.EvalProgram(prog, files, selectors, &sb, false)
	if err != nil {
		t.Fatalf("unexpected error: %v", err)
	}
	return sb.String()
}

func TestDemoC02R(t *testing.T) {
	prog := `
		BEGIN { print 'B', $ }
		BEGINFILE { print 'BF', $file, $ }
		{ print 'P1', $ }
		$ is null { print 'P2 null root'; next }
		{ print 'P3', $ }
		ENDFILE { print 'EF', $ }
		END { print 'E', $ }
	`

	// a stream of values of every non-array shape, null among them
	got := demoC02RRun(t, prog, nil, `{"a": 1} null "s"`, `false null`)
	expected := "B null\n" +
		"BF f1 {\"a\": 1}\nP1 {\"a\": 1}\nP3 {\"a\": 1}\nEF {\"a\": 1}\n" +
		"BF f1 null\nP1 null\nP2 null root\nEF null\n" +
		"BF f1 s\nP1 s\nP3 s\nEF s\n" +
		"BF f2 false\nP1 false\nP3 false\nEF false\n" +
		"BF f2 null\nP1 null\nP2 null root\nEF null\n" +
		"E null\n"
	if got != expected {
		t.Fatalf("pattern rules must run exactly once for a null root\nexpected:\n%s\ngot:\n%s", expected, got)
	}

	// a selector that finds nothing selects null: the rules still run once for it
	got = demoC02RRun(t, "{ n++; print n, $ } END { print 'runs', n }", []string{"$.a", "$.b"}, `{"a": [7, 8]} {"b": 9}`)
	expected = "1 7\n2 8\n3 null\n4 null\n5 9\nruns 5\n"
	if got != expected {
		t.Fatalf("expected:\n%s\ngot:\n%s", expected, got)
	}
}
