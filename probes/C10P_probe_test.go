package main

import (
	"bytes"
	"io"
	"strings"
	"testing"

	lang "github.com/alligator/jqawk/src"
)

// A run's outcome must not depend on which unrelated runs the same process
// did before it: here a moderately deep (1000 frames) recursion is run before
// and after an unrelated run made in fuzzing mode, as an embedder or the
// fuzz harness would do.
func TestDemoC10P(t *testing.T) {
	prog := "function sum(n) { if (n == 0) { return 0 } return n + sum(n - 1) } { print sum($.n) }"
	input := `{"n": 1000}`
	run := func() (string, string) {
		var out bytes.Buffer
		files := []lang.InputFile{{Name: "in.json", Reader: strings.NewReader(input)}}
		_, err := lang.EvalProgram(prog, files, nil, &out, false)
		if err != nil {
			return out.String(), err.Error()
		}
		return out.String(), ""
	}

	out1, err1 := run()
	if out1 != "500500\n" || err1 != "" {
		t.Fatalf("first run: got output %q error %q, want \"500500\\n\" and no error", out1, err1)
	}

	// an unrelated, trivial run in fuzzing mode
	other := []lang.InputFile{{Name: "other.json", Reader: strings.NewReader(`[1, 2]`)}}
	if _, err := lang.EvalProgram("{ print $ }", other, nil, io.Discard, true); err != nil {
		t.Fatalf("unrelated run failed: %v", err)
	}

	out2, err2 := run()
	if out2 != out1 || err2 != err1 {
		t.Fatalf("same program and input after an unrelated run: got output %q error %q, before it was output %q error %q", out2, err2, out1, err1)
	}
}
