package main

import (
	"encoding/json"
	"io"
	"reflect"
	"strings"
	"testing"

	lang "github.com/alligator/jqawk/src"
)

// json(v) must return valid JSON text that parses back to v, whatever the
// strings in v are. The values below are strings (and an object holding
// strings) that themselves contain escaped text: a backslash followed by
// u003c and the like, as found in a string field that carries another
// program's JSON or a regular expression.
func TestDemoC04J(t *testing.T) {
	values := []interface{}{
		"<b>bold & plain</b>",
		"a < b && c > d",
		`\u003cb\u003e`, // raw string: a real backslash, then u003c, b, a real backslash, then u003e
		`{"html":"\u003cp\u003ehi\u003c/p\u003e","q":"a\u0026b"}`, // JSON as written by a Go program, carried in a string
		map[string]interface{}{
			"pattern": `[\u0026\u003c]+`,
			"nested":  []interface{}{`tab\tand \u003e`, "ok"},
		},
	}

	input, err := json.Marshal(values)
	if err != nil {
		t.Fatal(err)
	}

	var stdout strings.Builder
	files := []lang.InputFile{{Name: "<demo>", Reader: strings.NewReader(string(input))}}
	if _, err := lang.EvalProgram("{ print json($) }", files, nil, &stdout, false); err != nil {
		t.Fatalf("unexpected error: %v", err)
	}

	// the output is one JSON text per element of the input array
	dec := json.NewDecoder(strings.NewReader(stdout.String()))
	for i, want := range values {
		var got interface{}
		if err := dec.Decode(&got); err != nil {
			t.Fatalf("json() of element %d (%#v) is not valid JSON: %v\noutput:\n%s", i, want, err, stdout.String())
		}
		if !reflect.DeepEqual(want, got) {
			t.Fatalf("json() of element %d does not parse back to the value\nvalue:  %#v\nparsed: %#v\noutput:\n%s", i, want, got, stdout.String())
		}
	}
	var extra interface{}
	if err := dec.Decode(&extra); err != io.EOF {
		t.Fatalf("unexpected trailing output: %v %#v\noutput:\n%s", err, extra, stdout.String())
	}
}
