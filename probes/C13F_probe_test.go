package main

import (
	"fmt"
	"strings"
	"testing"

	lang "github.com/alligator/jqawk/src"
)

// A newline may stand between any two tokens (other than after print/return,
// after a print-list comma, or before ';') without changing the program, so a
// line break between the '}' that closes a match expression and the statement
// that follows it can be replaced by a space, a tab or a comment-free blank:
// the layouts below are the same token sequence and must behave identically.
func TestDemoC13F(t *testing.T) {
	run := func(prog string) string {
		var sb strings.Builder
		files := []lang.InputFile{{Name: "<demo>", Reader: strings.NewReader("[1, 2, 3]")}}
		_, err := lang.EvalProgram(prog, files, nil, &sb, false)
		if err != nil {
			return fmt.Sprintf("%serror: %v", sb.String(), err)
		}
		return sb.String()
	}

	// %s is the gap between the closing brace of the match and the next token
	templates := []struct {
		prog string
		want string
	}{
		{
			// match used as a statement
			"{ match ($) { 1 => { print 'one' }, 2 => { print 'two' } }%sprint 'after' }",
			"one\nafter\ntwo\nafter\nafter\n",
		},
		{
			// match used as the right-hand side of an assignment
			"{ x = match ($) { 1 => 'a', _ => 'z' }%sprint x }",
			"a\nz\nz\n",
		},
		{
			// match as the body of an if, followed by another statement
			"{ if ($ > 1) y = match ($) { 2 => 20, 3 => 30 }%sn++ } END { print y, n }",
			"30 3\n",
		},
	}
	gaps := []string{"\n", " # note\n", "\r\n\t", " ", "\t", " \r "}

	for _, tpl := range templates {
		for _, gap := range gaps {
			prog := fmt.Sprintf(tpl.prog, gap)
			if got := run(prog); got != tpl.want {
				t.Errorf("program %q:\n got %q\nwant %q", prog, got, tpl.want)
			}
		}
	}
}
