package main

import (
	"strings"
	"testing"

	lang "github.com/alligator/jqawk/src"
)

// next and exit keep their meaning wherever they are executed, including in a
// function that is called while the value of an object literal member is being
// computed: next abandons the remaining rules for the current element only,
// exit ends the whole run successfully without running END.
func TestDemoC02M(t *testing.T) {
	run := func(prog string, input string) (string, error) {
		var sb strings.Builder
		files := []lang.InputFile{{Name: "in.json", Reader: strings.NewReader(input)}}
		_, err := lang.EvalProgram(prog, files, nil, &sb, false)
		return sb.String(), err
	}

	// next, reached through a call inside an object literal
	nextProg := `
		function need(v) {
			if (v is null) next
			return v
		}
		{ rec = { id: need($.id), pos: $index }; print "first", rec.id, rec.pos }
		{ print "second", $index }
		END { print "end" }
	`
	got, err := run(nextProg, `[{"id": 10}, {"other": 1}, {"id": 30}]`)
	if err != nil {
		t.Fatalf("next inside an object literal: unexpected error %q (output so far %q)", err.Error(), got)
	}
	want := "first 10 0\nsecond 0\nfirst 30 2\nsecond 2\nend\n"
	if got != want {
		t.Fatalf("next inside an object literal:\nwant %q\ngot  %q", want, got)
	}

	// exit, reached through a call inside an object literal
	exitProg := `
		function stop(v) {
			if (v == 2) exit
			return v
		}
		{ rec = { v: stop($) }; print "seen", rec.v }
		END { print "end" }
	`
	got, err = run(exitProg, `[1, 2, 3]`)
	if err != nil {
		t.Fatalf("exit inside an object literal: unexpected error %q (output so far %q)", err.Error(), got)
	}
	want = "seen 1\n"
	if got != want {
		t.Fatalf("exit inside an object literal:\nwant %q\ngot  %q", want, got)
	}
}
