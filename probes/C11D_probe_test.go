package main

import (
	"strings"
	"testing"

	lang "github.com/alligator/jqawk/src"
)

// Comparing a container is a runtime fault. Wherever the comparison is
// evaluated, the run must stop there with a runtime error: what was printed
// before is kept, nothing is printed afterwards, and the fault is never
// silently ignored. Here the container is always an object on the right-hand
// side of the comparison, with a plain scalar on the left.
func TestDemoC11D(t *testing.T) {
	progs := []struct {
		name     string
		src      string
		json     string
		expected string // output up to the fault
	}{
		{
			name:     "operand of an assignment in a statement",
			src:      `BEGIN { print 'before'; x = 1 < {a: 1}; print 'after', x }`,
			expected: "before\n",
		},
		{
			name:     "rule pattern, object taken from the input",
			src:      `BEGIN { print 'begin' } $.n == $.meta { print 'matched', $.n } END { print 'end' }`,
			json:     `[{ "n": 0, "meta": {} }, { "n": 1, "meta": {} }]`,
			expected: "begin\n",
		},
		{
			name:     "if condition with a string on the left",
			src:      `{ print 'row'; if ($.name >= $.tags) { print 'ge' } else { print 'lt' } print 'done' }`,
			json:     `[{ "name": "gate", "tags": { "k": 1 } }]`,
			expected: "row\n",
		},
		{
			name:     "for condition clause",
			src:      `BEGIN { lim = { n: 3 }; for (i = 0; i < lim; i++) { print i } print 'out' }`,
			expected: "",
		},
		{
			name:     "call argument compared by a native method",
			src:      `BEGIN { print 'start'; print [{ a: 1 }, 2].contains(2); print 'finish' }`,
			expected: "start\n",
		},
	}

	for _, p := range progs {
		var out strings.Builder
		files := []lang.InputFile{}
		if p.json != "" {
			files = append(files, lang.InputFile{Name: "<demo>", Reader: strings.NewReader(p.json)})
		}
		_, err := lang.EvalProgram(p.src, files, nil, &out, false)

		if err == nil {
			t.Errorf("%s: the comparison fault was silently ignored (output %q)", p.name, out.String())
		} else if rtErr, ok := err.(lang.RuntimeError); !ok {
			t.Errorf("%s: expected a lang.RuntimeError, got %T %q", p.name, err, err.Error())
		} else if !strings.HasPrefix(rtErr.Message, "cannot compare") {
			t.Errorf("%s: expected a 'cannot compare' error, got %q", p.name, rtErr.Message)
		}
		if out.String() != p.expected {
			t.Errorf("%s: expected output %q up to the fault, got %q", p.name, p.expected, out.String())
		}
	}
}
