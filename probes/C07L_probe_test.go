package main

import (
	"strings"
	"testing"

	lang "github.com/alligator/jqawk/src"
)

// `next` leaves the rule and no further rules run for the current item, from
// wherever it is executed: here from a function (inside a loop and an if) that
// is called while the pattern of a rule is evaluated, and from a match block
// used as a pattern.
func TestDemoC07L(t *testing.T) {
	run := func(prog string, js string) string {
		t.Helper()
		var sb strings.Builder
		files := []lang.InputFile{{Name: "<demo>", Reader: strings.NewReader(js)}}
		if _, err := lang.EvalProgram(prog, files, nil, &sb, false); err != nil {
			t.Fatalf("unexpected error: %v\nprogram:\n%s", err, prog)
		}
		return sb.String()
	}

	js := `[
		{ "n": 1, "tags": ["x"] },
		{ "n": 2, "tags": ["x", "skip", "y"] },
		{ "n": 3, "tags": [] },
		{ "n": 4, "tags": ["skip"] }
	]`

	// 1. next executed by a function called from the pattern
	prog1 := `
		function wanted(rec) {
			for (tag in rec.tags) {
				if (tag == 'skip') {
					print 'skipping', rec.n
					next
				}
			}
			return rec.n > 1
		}

		wanted($) { print 'A', $.n }
		{ print 'B', $.n }
		$.n > 0 { print 'C', $.n }
		END { print 'done' }
	`
	want1 := "B 1\nC 1\nskipping 2\nA 3\nB 3\nC 3\nskipping 4\ndone\n"
	if got := run(prog1, js); got != want1 {
		t.Errorf("next inside a function called from a pattern:\n got %q\nwant %q", got, want1)
	}

	// 2. next executed by a match block that is the pattern itself
	prog2 := `
		match ($.n) { 2 => { next }, _ => true } { print 'first', $.n }
		{ print 'second', $.n }
	`
	want2 := "first 1\nsecond 1\nfirst 3\nsecond 3\nfirst 4\nsecond 4\n"
	if got := run(prog2, js); got != want2 {
		t.Errorf("next inside a match block used as a pattern:\n got %q\nwant %q", got, want2)
	}
}
