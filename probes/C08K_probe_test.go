package main

import (
	"bytes"
	"strings"
	"testing"

	lang "github.com/alligator/jqawk/src"
)

// A match expression in which no case applies is a finished match like any
// other: it must leave nothing behind, however many of them have been executed,
// and it must not disturb the frame of the call it was executed in.
func TestDemoC08K(t *testing.T) {
	run := func(prog string, json string) (string, error) {
		var out bytes.Buffer
		files := []lang.InputFile{{Name: "in.json", Reader: strings.NewReader(json)}}
		_, err := lang.EvalProgram(prog, files, nil, &out, false)
		return out.String(), err
	}

	// 1. a match without an applicable case inside a function: when the call is
	// over, its parameter and the variable it created are gone again
	prog1 := `
		function classify(secret) {
			scratch = 'made in call'
			match (secret) {
				1 => { return 'one' }
				[a, b] => { return 'pair' }
			}
			return 'other'
		}
		BEGIN {
			print classify(42)
			print secret is unknown, scratch is unknown
		}
	`
	got, err := run(prog1, `[]`)
	if err != nil {
		t.Fatalf("program 1: unexpected error: %v", err)
	}
	if want := "other\ntrue true\n"; got != want {
		t.Errorf("program 1: got %q, want %q", got, want)
	}

	// 2. thousands of finished matches over a long input: none of them is a
	// nested call, so the recursion limit is never reached
	const n = 6000
	var sb strings.Builder
	sb.WriteString("[")
	for i := 0; i < n; i++ {
		if i > 0 {
			sb.WriteString(",")
		}
		sb.WriteString("7")
	}
	sb.WriteString("]")
	prog2 := `
		{
			match ($) {
				1 => { ones++ }
				2 => { twos++ }
			}
			seen++
		}
		END { print seen, $index }
	`
	got, err = run(prog2, sb.String())
	if err != nil {
		t.Fatalf("program 2: unexpected error after a long input: %v (output so far %q)", err, got)
	}
	if want := "6000 5999\n"; got != want {
		t.Errorf("program 2: got %q, want %q", got, want)
	}
}
