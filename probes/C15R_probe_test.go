package main

import (
	"strings"
	"testing"

	lang "github.com/alligator/jqawk/src"
)

// demoC15RRun evaluates prog over the given JSON document and returns what it printed.
func demoC15RRun(t *testing.T, prog string, json string) string {
	t.Helper()
	files := []lang.InputFile{{Name: "<demoC15R>", Reader: strings.NewReader(json)}}
	var sb strings.Builder
	if _, err := lang.EvalProgram(prog, files, nil, &sb, false); err != nil {
		t.Fatalf("unexpected error: %v", err)
	}
	return sb.String()
}

// An index write past the end pads the array with nulls; afterwards every
// position is an element of its own, exactly as in an ideal list: writing one
// of the padded positions changes that position only, and pop/popfirst/
// contains/sort see the list the model predicts.
func TestDemoC15R(t *testing.T) {
	cases := []struct {
		name, prog, json, want string
	}{
		{
			name: "write into the padding of an auto-filled array",
			prog: `BEGIN {
				e = []
				e.push("x")
				e[4] = 1
				print e, e.length()
				e[1] = 5
				print e, e.length()
				print e[2], e[-2], e.contains(null)
				e[-2] = 7
				print e
				print e.popfirst(), e.popfirst(), e
				print e.sort(), e
			}`,
			json: `[]`,
			want: "[\"x\", null, null, null, 1] 5\n" +
				"[\"x\", 5, null, null, 1] 5\n" +
				"null null true\n" +
				"[\"x\", 5, null, 7, 1]\n" +
				"x 5 [null, 7, 1]\n" +
				"[null, 1, 7] [null, 7, 1]\n",
		},
		{
			name: "counting into the padding of an array inside the document",
			prog: `{
				$.hist[5] = 0
				for (d in $.rolls) {
					$.hist[d]++
				}
				print $.hist
			}`,
			json: `[{"hist": [], "rolls": [1, 3, 3, 4]}]`,
			want: "[null, 1, null, 2, 1, 0]\n",
		},
	}
	for _, c := range cases {
		got := demoC15RRun(t, c.prog, c.json)
		if got != c.want {
			t.Errorf("%s: array differs from the ideal list after index writes\n got:\n%s want:\n%s", c.name, got, c.want)
		}
	}
}
