package main

import (
	"fmt"
	"io"
	"strings"
	"testing"

	lang "github.com/alligator/jqawk/src"
)

// runs a program and reports how the run ended: "" for success, otherwise a
// description of anything that is not one of the three reported error kinds
func demoC01IRun(prog string, json string) (outcome string) {
	defer func() {
		if r := recover(); r != nil {
			outcome = fmt.Sprintf("panic: %v", r)
		}
	}()

	files := []lang.InputFile{{Name: "<demo>", Reader: strings.NewReader(json)}}
	_, err := lang.EvalProgram(prog, files, nil, io.Discard, false)
	switch err.(type) {
	case nil, lang.SyntaxError, lang.RuntimeError, lang.JsonError:
		return ""
	default:
		return fmt.Sprintf("error of kind %T surfaced: %q", err, err.Error())
	}
}

// break and continue written in a match body that sits in the header of a for
// statement (not in its body) have no loop around them that could consume the
// signal. Every such run has to end in success or in a syntax, runtime or JSON
// error, never with the bare control-flow signal as the returned error.
func TestDemoC01I(t *testing.T) {
	progs := []string{
		// in the iterable of for-in
		`BEGIN { for (x in match (1) { 1 => { break } }) { print x } }`,
		`BEGIN { for (x in match (1) { 1 => { continue } }) { print x } }`,
		`{ for (k, v in match ($) { _ => { break } }) { print k } }`,
		// in the three header expressions of a C-style for
		`BEGIN { for (i = match (1) { 1 => { break } }; i < 3; i++) { print i } }`,
		`BEGIN { for (i = 0; match (i) { _ => { break } }; i++) { print i } }`,
		`BEGIN { for (i = 0; i < 3; match (i) { _ => { continue } }) { print i } }`,
		// inside a function and at the end of the run
		`function f(a) { for (x in match (a) { _ => { break } }) { } return 1 } { f($) }`,
		`END { for (i = 0; i < 3; match (i) { _ => { break } }) { } }`,
	}

	for _, prog := range progs {
		if outcome := demoC01IRun(prog, `[1, 2]`); outcome != "" {
			t.Errorf("program %q\n  %s", prog, outcome)
		}
	}
}
