package main

import (
	"fmt"
	"io"
	"strings"
	"testing"

	lang "github.com/alligator/jqawk/src"
)

// An illegal character must be reported exactly where it stands: the reported
// line is the line holding it, the quoted text is that line of the program, and
// the 0-based byte column is the offset of the character in that line.
//
// '&' and '|' are only legal doubled ('&&', '||'); a lone one is an illegal
// character like any other.
func TestDemoC12G(t *testing.T) {
	type fault struct {
		name string
		prog string
		line int  // 1-based line of the illegal character
		char byte // the illegal character
	}

	faults := []fault{
		{
			name: "lone ampersand between operands",
			prog: "# header comment\n\nBEGIN {\n  x = 1\n  y = x & 2\n  print y\n}\n",
			line: 5,
			char: '&',
		},
		{
			name: "lone pipe between operands",
			prog: "BEGIN {\n\n  s = \"héllo\" # café\n  t = s | 1\n}\n",
			line: 4,
			char: '|',
		},
		{
			name: "lone ampersand, CRLF line endings",
			prog: "BEGIN {\r\n  a = 1\r\n  b = a &a\r\n}\r\n",
			line: 3,
			char: '&',
		},
		{
			name: "lone pipe last on its line",
			prog: "BEGIN {\n  a = 1\n  b = a |\n  2\n}\n",
			line: 3,
			char: '|',
		},
		{
			// control: an illegal character that is not an operator prefix
			name: "at sign",
			prog: "BEGIN {\n  a = 1\n  b = a @ 2\n}\n",
			line: 3,
			char: '@',
		},
	}

	for _, f := range faults {
		lines := strings.Split(f.prog, "\n")
		wantLine := lines[f.line-1]
		wantCol := strings.IndexByte(wantLine, f.char)
		if wantCol < 0 {
			t.Fatalf("%s: bad test: %q not on line %d", f.name, f.char, f.line)
		}

		_, err := lang.EvalProgram(f.prog, nil, nil, io.Discard, false)
		synErr, ok := err.(lang.SyntaxError)
		if !ok {
			t.Errorf("%s: expected a syntax error, got %#v", f.name, err)
			continue
		}

		wantMsg := fmt.Sprintf("unexpected character %q", f.char)
		if synErr.Message != wantMsg {
			t.Errorf("%s: message %q, want %q", f.name, synErr.Message, wantMsg)
		}
		if synErr.Line != f.line {
			t.Errorf("%s: reported line %d, want %d", f.name, synErr.Line, f.line)
		}
		if synErr.SrcLine != wantLine {
			t.Errorf("%s: quoted line %q, want %q", f.name, synErr.SrcLine, wantLine)
		}
		if synErr.Col != wantCol {
			t.Errorf("%s: reported column %d, want %d (the %q in %q)", f.name, synErr.Col, wantCol, f.char, wantLine)
		}
	}
}
