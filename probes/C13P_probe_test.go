package main

import (
	"strings"
	"testing"

	lang "github.com/alligator/jqawk/src"
)

// A newline may stand between any two tokens, except directly after print or
// return, after a comma of a print list, or before a ';'. In particular a line
// break INSIDE one argument of a print list (within its brackets, or after a
// binary operator) says nothing about where the list ends: the arguments after
// the next comma still belong to the same print statement.
func TestDemoC13P(t *testing.T) {
	run := func(prog string) string {
		t.Helper()
		var sb strings.Builder
		_, err := lang.EvalProgram(prog, nil, nil, &sb, false)
		if err != nil {
			return sb.String() + "ERROR: " + err.Error()
		}
		return sb.String()
	}

	cases := []struct {
		name     string
		oneLine  string
		broken   string // the same tokens, with line breaks in permitted places
		expected string
	}{
		{
			name:     "line break inside an array argument",
			oneLine:  "BEGIN { print [1, 2], 'x' }",
			broken:   "BEGIN { print [1,\n 2], 'x' }",
			expected: "[1, 2] x\n",
		},
		{
			name:     "line break and comment inside an array argument",
			oneLine:  "BEGIN { print [1, 2], 'x' }",
			broken:   "BEGIN { print [1, # first\n 2], 'x' }",
			expected: "[1, 2] x\n",
		},
		{
			name:     "line break inside the parentheses of a call",
			oneLine:  "function f(a, b) { return a + b }\nBEGIN { print f(1, 2), f(3, 4), 'end' }",
			broken:   "function f(a, b) { return a + b }\nBEGIN { print f(\n1, 2), f(3, 4), 'end' }",
			expected: "3 7 end\n",
		},
		{
			name:     "line break after a binary operator",
			oneLine:  "BEGIN { a = 'left'; b = 'right'; print a + b, 'tail' }",
			broken:   "BEGIN { a = 'left'; b = 'right'; print a +\n b, 'tail' }",
			expected: "leftright tail\n",
		},
		{
			name:     "line break before a comma of the list",
			oneLine:  "BEGIN { print 1, 2, 3 }",
			broken:   "BEGIN { print 1\n, 2, 3 }",
			expected: "1 2 3\n",
		},
		{
			name:     "line break inside an object argument, later statement follows",
			oneLine:  "BEGIN { print {a: 1}.a, 'k'; print 'next' }",
			broken:   "BEGIN { print {a:\n 1}.a, 'k'; print 'next' }",
			expected: "1 k\nnext\n",
		},
	}

	for _, c := range cases {
		one := run(c.oneLine)
		if one != c.expected {
			t.Errorf("%s: one-line layout printed %q, want %q", c.name, one, c.expected)
		}
		broken := run(c.broken)
		if broken != c.expected {
			t.Errorf("%s: layout with line breaks printed %q, want %q (same tokens as %q)", c.name, broken, c.expected, c.oneLine)
		}
	}
}
