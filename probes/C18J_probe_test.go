package main

import (
	"bytes"
	"strconv"
	"strings"
	"testing"

	lang "github.com/alligator/jqawk/src"
)

// A width pads the rendering of the argument on the left (with zeros when the
// width is written with a leading 0): what is written for "%0Nf" is exactly
// some zeros followed by the unchanged rendering of the number, for every
// number -- negative ones included -- and every width.
func TestDemoC18J(t *testing.T) {
	run := func(prog string) string {
		t.Helper()
		var out bytes.Buffer
		if _, err := lang.EvalProgram(prog, nil, nil, &out, false); err != nil {
			t.Fatalf("%s: unexpected error: %v", prog, err)
		}
		return out.String()
	}

	nums := []struct {
		src string
		num float64
	}{
		{"42", 42},
		{"0.5", 0.5},
		{"(-7)", -7},
		{"(-3.5)", -3.5},
		{"(0 - 1250)", -1250},
	}
	widths := []int{1, 4, 5, 6, 9}

	for _, n := range nums {
		rendering := strconv.FormatFloat(n.num, 'f', -1, 64)
		for _, w := range widths {
			want := rendering
			if len(want) < w {
				want = strings.Repeat("0", w-len(want)) + want
			}
			want = "<" + want + ">"
			format := "<%0" + strconv.Itoa(w) + "f>"
			got := run(`BEGIN { printf("` + format + `", ` + n.src + `) }`)
			if got != want {
				t.Errorf("printf(%q, %s) wrote %q, want %q", format, n.src, got, want)
			}
		}
	}

	// the three directives pad the same rendering the same way
	got := run(`BEGIN { n = -3.5; printf("%07f|%07v|%07s|%7f|%-07f|", n, n, "-3.5", n, n) }`)
	want := "000-3.5|000-3.5|000-3.5|   -3.5|-3.5   |"
	if got != want {
		t.Errorf("wrote %q, want %q", got, want)
	}
}
