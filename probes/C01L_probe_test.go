package main

import (
	"io"
	"strings"
	"testing"

	lang "github.com/alligator/jqawk/src"
)

// every input byte stream either is processed or stops the run with one of the
// three reported error kinds; a stream that is not well-formed JSON stops it
// with a JsonError naming the file
func TestDemoC01L(t *testing.T) {
	cases := []struct {
		name    string
		input   string
		wantErr bool
	}{
		// well-formed streams
		{"empty", "", false},
		{"one value", `[1, 2, 3]`, false},
		{"jsonl", "{\"a\": 1}\n{\"a\": 2}\n", false},
		// malformed in the middle of the text
		{"bad token", `{bad}`, true},
		{"garbage after a value", `[1] x`, true},
		{"number out of range", "1" + strings.Repeat("0", 400), true},
		// the stream ends in the middle of a value
		{"truncated array", `[1, 2`, true},
		{"truncated object", `{"a": 1, "b"`, true},
		{"truncated string", `"abc`, true},
		{"truncated literal", `tru`, true},
		{"second value truncated", "[1]\n[2, ", true},
	}

	for _, tc := range cases {
		files := []lang.InputFile{{Name: "<demo>", Reader: strings.NewReader(tc.input)}}
		_, err := lang.EvalProgram("{ n++ } END { print n }", files, nil, io.Discard, false)

		if !tc.wantErr {
			if err != nil {
				t.Errorf("%s: input %q: unexpected error %#v", tc.name, tc.input, err)
			}
			continue
		}

		if err == nil {
			t.Errorf("%s: input %q: expected a JSON input error, the run succeeded", tc.name, tc.input)
			continue
		}
		jsonErr, ok := err.(lang.JsonError)
		if !ok {
			t.Errorf("%s: input %q: the run stopped with %#v (%T), which is none of SyntaxError, RuntimeError, JsonError",
				tc.name, tc.input, err, err)
			continue
		}
		if jsonErr.FileName != "<demo>" {
			t.Errorf("%s: input %q: JsonError names file %q, want %q", tc.name, tc.input, jsonErr.FileName, "<demo>")
		}
	}
}
