package main

import (
	"strings"
	"testing"

	lang "github.com/alligator/jqawk/src"
)

// runDemoC10A runs one program over one JSON document, in-process, and returns
// everything the property talks about: stdout plus the success/error outcome.
func runDemoC10A(prog string, input string) string {
	var sb strings.Builder
	files := []lang.InputFile{
		{Name: "<demo>", Reader: strings.NewReader(input)},
	}
	_, err := lang.EvalProgram(prog, files, nil, &sb, false)
	if err != nil {
		return sb.String() + "\nERROR: " + err.Error()
	}
	return sb.String() + "\nOK"
}

// Property C10: output is a deterministic function of program, selectors and
// input bytes. Iterating an object with for-in must visit the keys in the same
// order on every repetition, whatever the keys look like.
func TestDemoC10A(t *testing.T) {
	prog := `{ for (k, v in $) { print k, v } }`

	cases := []struct {
		name  string
		input string
	}{
		{
			// keys that are different strings but denote the same number
			name: "numerically equal keys",
			input: `{
				"1": "a", "1.0": "b", "01": "c", "1e0": "d",
				"2": "e", "2.0": "f", "02": "g", "2e0": "h",
				"3": "i", "3.0": "j", "03": "k", "3e0": "l",
				"4": "m", "4.0": "n", "04": "o", "4e0": "p",
				"5": "q", "5.0": "r", "05": "s", "5e0": "t"
			}`,
		},
		{
			// numeric and non-numeric keys side by side
			name:  "mixed numeric and non-numeric keys",
			input: `{ "10": 1, "9": 2, "1a": 3, "100": 4, "2b": 5, "20": 6, "3": 7, "0x": 8, "7": 9, "70z": 10 }`,
		},
	}

	const repetitions = 300

	for _, tc := range cases {
		first := runDemoC10A(prog, tc.input)
		if !strings.HasSuffix(first, "\nOK") {
			t.Fatalf("%s: unexpected failure: %s", tc.name, first)
		}
		for i := 1; i < repetitions; i++ {
			got := runDemoC10A(prog, tc.input)
			if got != first {
				t.Fatalf("%s: repetition %d produced different output for the same program and input\nfirst run:\n%s\nthis run:\n%s",
					tc.name, i, first, got)
			}
		}
	}
}
