package main

import (
	"strings"
	"testing"

	lang "github.com/alligator/jqawk/src"
)

// A bare `return` yields null, whatever calls completed earlier in the same
// body. Here `record` calls the value-returning helper `width` and then leaves
// through a bare return when the record is too short; the caller uses the
// result of `record` to decide whether the record was kept.
func TestDemoC08C(t *testing.T) {
	prog := `
		function width(s) {
			return s.length()
		}

		function record(s) {
			if (width(s) < 3) {
				return
			}
			return s
		}

		{
			r = record($)
			if (r is null) {
				dropped++
			} else {
				print "kept", r
			}
		}

		END {
			print "dropped", dropped
		}
	`
	input := `["ab", "abcd", "x", "hello"]`
	want := "kept abcd\nkept hello\ndropped 2\n"

	var out strings.Builder
	files := []lang.InputFile{{Name: "input", Reader: strings.NewReader(input)}}
	if _, err := lang.EvalProgram(prog, files, nil, &out, false); err != nil {
		t.Fatalf("unexpected error: %v", err)
	}
	if out.String() != want {
		t.Fatalf("bare return leaked the value of an earlier completed call\nwant:\n%s\ngot:\n%s", want, out.String())
	}

	// the same thing at the smallest scale: the nested call has finished, the
	// bare return must not pick its value up
	out.Reset()
	small := `
		function five() { return 5 }
		function f() { five(); return }
		BEGIN { x = f(); print x is null, x }
	`
	if _, err := lang.EvalProgram(small, nil, nil, &out, false); err != nil {
		t.Fatalf("unexpected error: %v", err)
	}
	if out.String() != "true null\n" {
		t.Fatalf("f() must yield null, got %q", out.String())
	}
}
