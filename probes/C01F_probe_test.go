package main

import (
	"strings"
	"testing"

	lang "github.com/alligator/jqawk/src"
)

// A run either succeeds or stops with a syntax error, a runtime error or a
// JSON input error. The internal control-flow signals (next, exit, break,
// continue, return) must never come back to the caller as an error.
func TestDemoC01F(t *testing.T) {
	cases := []struct {
		name string
		prog string
		json string
	}{
		{
			// "return" used in a rule (where "next" was meant), in a program
			// that also defines a function further up
			name: "return in a pattern rule after a function definition",
			prog: `
				function double(x) { return x * 2 }
				$ > 1 { print double($); return }
			`,
			json: "[1, 2, 3]",
		},
		{
			name: "return in BEGIN after a function definition",
			prog: "function one() { return 1 } BEGIN { print one(); return }",
			json: "[]",
		},
		{
			name: "return in END after a function definition",
			prog: "function one() { return 1 } END { return one() }",
			json: "[1]",
		},
		{
			name: "return in ENDFILE, inside a match body, after a function definition",
			prog: "function one() { return 1 } ENDFILE { match (one()) { 1 => { return } } }",
			json: "[1]",
		},
		{
			// the same mistake without a function in front of it, for reference
			name: "return in a rule, no function defined",
			prog: "{ return }",
			json: "[1]",
		},
	}

	for _, tc := range cases {
		var sb strings.Builder
		files := []lang.InputFile{{Name: "<demo>", Reader: strings.NewReader(tc.json)}}
		_, err := lang.EvalProgram(tc.prog, files, nil, &sb, false)
		switch tErr := err.(type) {
		case nil:
			// a run that succeeds is fine as far as this property goes
		case lang.SyntaxError:
			if tErr.Message != "can only return inside a function" {
				t.Errorf("%s: unexpected syntax error %q", tc.name, tErr.Message)
			}
		case lang.RuntimeError, lang.JsonError:
			// one of the reported error kinds
		default:
			t.Errorf("%s: the run ended with %#v (%q), which is not a syntax, runtime or JSON error",
				tc.name, err, err.Error())
		}
	}
}
