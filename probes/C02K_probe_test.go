package main

import (
	"strings"
	"testing"

	lang "github.com/alligator/jqawk/src"
)

// `next` abandons the remaining rules for the current element ONLY: whatever
// comes after it (the following elements, the ENDFILE and END rules) has to
// run exactly as if the element had simply been skipped. This holds in
// particular when the `next` statement sits in a function that a rule calls.
func TestDemoC02K(t *testing.T) {
	run := func(prog string, input string) (string, error) {
		files := []lang.InputFile{{Name: "in.json", Reader: strings.NewReader(input)}}
		var sb strings.Builder
		_, err := lang.EvalProgram(prog, files, nil, &sb, false)
		return sb.String(), err
	}

	// 1. a short input: the function that issues `next` has a parameter that is
	// named like a global the later rules use
	prog := `
		function skipOdd(n) { if (n % 2 == 1) next }
		{ skipOdd($) }
		{ n = n + 1; print 'even', $index, $, n }
		ENDFILE { print 'endfile', n }
		END { print 'end', n }
	`
	got, err := run(prog, `[1, 2, 3, 4, 5, 6]`)
	if err != nil {
		t.Fatalf("short input: unexpected error: %v", err)
	}
	want := "even 1 2 1\neven 3 4 2\neven 5 6 3\nendfile 3\nend 3\n"
	if got != want {
		t.Fatalf("short input:\n got %q\nwant %q", got, want)
	}

	// 2. a long input: `next` is issued from inside a function for every one of
	// 6000 elements; the 6000th element is handled like the first
	var in strings.Builder
	in.WriteString("[")
	for i := 0; i < 6000; i++ {
		if i > 0 {
			in.WriteString(",")
		}
		in.WriteString("1")
	}
	in.WriteString("]")
	prog = `
		function skip() { seen++; next }
		BEGIN { seen = 0 }
		{ skip() }
		{ print 'not reached' }
		END { print seen }
	`
	got, err = run(prog, in.String())
	if err != nil {
		t.Fatalf("long input: unexpected error: %v (output so far %q)", err, got)
	}
	if got != "6000\n" {
		t.Fatalf("long input: got %q, want %q", got, "6000\n")
	}
}
