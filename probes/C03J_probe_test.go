package main

import (
	"errors"
	"os"
	"strings"
	"testing"

	lang "github.com/alligator/jqawk/src"
)

// demoC03JReader delivers its data in the given chunks (one per Read) and then
// fails with an I/O error, like a file on a broken disk or a dropped mount.
type demoC03JReader struct {
	chunks []string
	err    error
}

func (r *demoC03JReader) Read(p []byte) (int, error) {
	if len(r.chunks) == 0 {
		return 0, r.err
	}
	n := copy(p, r.chunks[0])
	if n < len(r.chunks[0]) {
		r.chunks[0] = r.chunks[0][n:]
	} else {
		r.chunks = r.chunks[1:]
	}
	return n, nil
}

func TestDemoC03J(t *testing.T) {
	errIO := errors.New("input/output error")

	check := func(name string, files []lang.InputFile, wantOut string, wantFile string) {
		t.Helper()
		var out strings.Builder
		_, err := lang.EvalProgram(`{ print $file, $ }`, files, nil, &out, false)
		if out.String() != wantOut {
			t.Errorf("%s: output: got %q, want %q", name, out.String(), wantOut)
		}
		if err == nil {
			t.Errorf("%s: the read error was not reported, the unreadable input was taken for the end of the input", name)
			return
		}
		jerr, ok := err.(lang.JsonError)
		if !ok {
			t.Errorf("%s: expected a lang.JsonError, got %T (%v)", name, err, err)
			return
		}
		if jerr.FileName != wantFile {
			t.Errorf("%s: error names file %q, want %q", name, jerr.FileName, wantFile)
		}
	}

	// the reader fails at every position of a short stream, under every way of
	// splitting the delivered bytes into reads
	check("fails at byte 0",
		[]lang.InputFile{{Name: "a.json", Reader: &demoC03JReader{err: errIO}}},
		"", "a.json")
	check("fails at byte 1",
		[]lang.InputFile{{Name: "a.json", Reader: &demoC03JReader{chunks: []string{"7"}, err: errIO}}},
		"", "a.json")
	check("fails at byte 2, one read",
		[]lang.InputFile{{Name: "a.json", Reader: &demoC03JReader{chunks: []string{"7 "}, err: errIO}}},
		"a.json 7\n", "a.json")
	check("fails at byte 2, two reads",
		[]lang.InputFile{{Name: "a.json", Reader: &demoC03JReader{chunks: []string{"7", "\n"}, err: errIO}}},
		"a.json 7\n", "a.json")
	check("fails at byte 4",
		[]lang.InputFile{{Name: "a.json", Reader: &demoC03JReader{chunks: []string{"7 8 "}, err: errIO}}},
		"a.json 7\na.json 8\n", "a.json")

	// the second of two inputs is unreadable from the start
	check("second file unreadable",
		[]lang.InputFile{
			{Name: "a.json", Reader: strings.NewReader("[1,2]\n")},
			{Name: "b.json", Reader: &demoC03JReader{err: errIO}},
		},
		"a.json 1\na.json 2\n", "b.json")

	// the everyday instance: a directory given where a file is expected opens
	// fine, and every read from it fails
	dir, err := os.Open(t.TempDir())
	if err != nil {
		t.Skipf("cannot open a directory: %v", err)
	}
	defer dir.Close()
	check("directory as input",
		[]lang.InputFile{{Name: "some/dir", Reader: dir}},
		"", "some/dir")
}
