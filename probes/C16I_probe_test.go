package main

import (
	"strings"
	"testing"

	lang "github.com/alligator/jqawk/src"
)

// pluck must return a NEW object holding the original's values and leave the
// receiver unchanged: whatever is done to the plucked copy afterwards, the
// original keeps its members.
func TestDemoC16I(t *testing.T) {
	run := func(prog string, json string) string {
		t.Helper()
		var files []lang.InputFile
		if json != "" {
			files = append(files, lang.InputFile{Name: "<demo>", Reader: strings.NewReader(json)})
		}
		var sb strings.Builder
		_, err := lang.EvalProgram(prog, files, nil, &sb, false)
		if err != nil {
			t.Fatalf("program %q failed: %v", prog, err)
		}
		return sb.String()
	}

	cases := []struct {
		name, prog, json, want string
	}{
		{
			name: "assign a number to a plucked numeric member",
			prog: `BEGIN {
				o = {n: 1, s: "x", k: 3}
				p = o.pluck("n", "s")
				p.n = 42
				p.s = "changed"
				print o
				print p
				print o.length(), p.length()
			}`,
			want: "{\"k\": 3, \"n\": 1, \"s\": \"x\"}\n{\"n\": 42, \"s\": \"changed\"}\n3 2\n",
		},
		{
			name: "increment a plucked counter",
			prog: `BEGIN {
				o = {hits: 10, misses: 2}
				p = o.pluck("hits")
				p.hits++
				p.hits += 5
				print o.hits, p.hits
			}`,
			want: "10 16\n",
		},
		{
			name: "pluck from an input record, then edit the copy",
			prog: `{
				slim = $.pluck("id", "size")
				slim.size = slim.size * 2
				print $.size, slim.size
			}`,
			json: `[{"id": 1, "size": 100, "name": "a"}, {"id": 2, "size": 7, "name": "b"}]`,
			want: "100 200\n7 14\n",
		},
	}

	for _, tc := range cases {
		got := run(tc.prog, tc.json)
		if got != tc.want {
			t.Errorf("%s:\nexpected %q\ngot      %q", tc.name, tc.want, got)
		}
	}
}
