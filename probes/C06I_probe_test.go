package main

import (
	"strings"
	"testing"

	lang "github.com/alligator/jqawk/src"
)

// Member access and calls bind tighter than a prefix sign, so
// -2.5.floor() means -((2.5).floor()), also when the operand is a number
// literal. Each expression is compared with its fully parenthesised form.
func TestDemoC06I(t *testing.T) {
	run := func(prog string) string {
		var sb strings.Builder
		_, err := lang.EvalProgram(prog, nil, nil, &sb, false)
		if err != nil {
			t.Fatalf("%s: unexpected error %v", prog, err)
		}
		return sb.String()
	}

	cases := []struct{ plain, parens, want string }{
		{"-2.5.floor()", "(-((2.5).floor()))", "-2\n"},
		{"+2.5.ceil()", "(+((2.5).ceil()))", "3\n"},
		{"1 - -2.5.floor() * 2", "(1 - ((-((2.5).floor())) * 2))", "5\n"},
		// the receiver can be a variable as well, that has always worked
		{"-x.floor()", "(-((x).floor()))", "-2\n"},
	}
	for _, c := range cases {
		plain := run("BEGIN { x = 2.5; print " + c.plain + " }")
		parens := run("BEGIN { x = 2.5; print " + c.parens + " }")
		if plain != parens {
			t.Errorf("%s evaluates to %q but its fully parenthesised form %s to %q", c.plain, plain, c.parens, parens)
		}
		if parens != c.want {
			t.Errorf("%s evaluates to %q, expected %q", c.parens, parens, c.want)
		}
	}
}
