package main

import (
	"strings"
	"testing"

	lang "github.com/alligator/jqawk/src"
)

// ++/-- on a name store to that name only. A for-in loop variable, the value
// variable of an object loop and a member of a plucked object hold copies of
// scalars, so stepping them must leave the array, the object and the input
// document they were taken from unchanged; and the index of a[i] = i++ is
// the value i had when the target was evaluated.
func TestDemoC09O(t *testing.T) {
	run := func(prog string, json string) (string, *lang.Evaluator) {
		t.Helper()
		files := []lang.InputFile{}
		if json != "" {
			files = append(files, lang.InputFile{Name: "<demo>", Reader: strings.NewReader(json)})
		}
		var sb strings.Builder
		ev, err := lang.EvalProgram(prog, files, nil, &sb, false)
		if err != nil {
			t.Fatalf("program %q failed: %v", prog, err)
		}
		return sb.String(), ev
	}

	cases := []struct {
		name, prog, json, expected string
	}{
		{
			name:     "loop variable of an array loop",
			prog:     `BEGIN { a = [1, 2, 3]; for (x in a) { x++ } print a, x }`,
			expected: "[1, 2, 3] 4\n",
		},
		{
			name:     "value variable of an object loop",
			prog:     `BEGIN { o = {a: 1, b: 2}; for (k, v in o) { --v } print o, v }`,
			expected: "{\"a\": 1, \"b\": 2} 1\n",
		},
		{
			name:     "member of a plucked object",
			prog:     `BEGIN { o = {n: 1, m: 5}; p = o.pluck('n'); p.n++; p.n++; print o, p }`,
			expected: "{\"m\": 5, \"n\": 1} {\"n\": 3}\n",
		},
		{
			name:     "index taken before the right-hand side steps it",
			prog:     `BEGIN { i = 0; u[i] = i++; print u, i }`,
			expected: "[0] 1\n",
		},
		{
			name:     "input document read through a loop variable",
			prog:     `{ for (x in $.nums) { x--; total += x } } END { print total }`,
			json:     `[{"nums": [1, 2]}, {"nums": [10]}]`,
			expected: "10\n",
		},
	}

	for _, tc := range cases {
		out, _ := run(tc.prog, tc.json)
		if out != tc.expected {
			t.Errorf("%s: program %q\nexpected %q\n     got %q", tc.name, tc.prog, tc.expected, out)
		}
	}

	// the same through the JSON that -o writes: the document is unchanged
	_, ev := run(`{ for (x in $.nums) { x++ } }`, `[{"nums": [1, 2]}]`)
	got, err := ev.GetRootJson()
	if err != nil {
		t.Fatal(err)
	}
	compact := strings.Join(strings.Fields(got), "")
	if compact != `[{"nums":[1,2]}]` {
		t.Errorf("input document changed by stepping a loop variable: %s", compact)
	}
}
