package main

import (
	"bytes"
	"strings"
	"testing"

	lang "github.com/alligator/jqawk/src"
)

// print renders a top-level string raw, and a string nested in a container
// (or used as a key) between double quotes, byte for byte: whatever characters
// the string holds. A percent sign is an ordinary character.
func TestDemoC17K(t *testing.T) {
	run := func(prog string, input string) string {
		t.Helper()
		var out bytes.Buffer
		files := []lang.InputFile{{Name: "in.json", Reader: strings.NewReader(input)}}
		_, err := lang.EvalProgram(prog, files, nil, &out, false)
		if err != nil {
			t.Fatalf("program %q failed: %v", prog, err)
		}
		return out.String()
	}

	cases := []struct {
		name     string
		prog     string
		input    string
		expected string
	}{
		{
			name:     "top-level string with a percent sign, from the program",
			prog:     `BEGIN { print "100%" }`,
			input:    `[]`,
			expected: "100%\n",
		},
		{
			name:     "percent followed by a verb letter",
			prog:     `BEGIN { print "load: 50%d of 10%s", 7 }`,
			input:    `[]`,
			expected: "load: 50%d of 10%s 7\n",
		},
		{
			name:     "string from the input, printed by a bare print",
			prog:     `{ print }`,
			input:    `["5% off", "a%20b"]`,
			expected: "5% off\na%20b\n",
		},
		{
			name:     "nested string and key",
			prog:     `{ print $, $.rate }`,
			input:    `[{"rate": "7%", "x%": [1, "%v"]}]`,
			expected: "{\"rate\": \"7%\", \"x%\": [1, \"%v\"]} 7%\n",
		},
		{
			name:     "doubled percent stays doubled",
			prog:     `BEGIN { print "a%%b", ["%%"] }`,
			input:    `[]`,
			expected: "a%%b [\"%%\"]\n",
		},
	}

	for _, tc := range cases {
		got := run(tc.prog, tc.input)
		if got != tc.expected {
			t.Errorf("%s:\nprogram  %s\nexpected %q\ngot      %q", tc.name, tc.prog, tc.expected, got)
		}
	}
}
