package main

import (
	"strings"
	"testing"

	lang "github.com/alligator/jqawk/src"
)

// A fault raised while testing a match case must stop the run right there,
// also when the faulting comparison sits on an ELEMENT of an array pattern
// (comparing a container with a scalar is a runtime error). Output printed
// before the match is kept, nothing after it is printed, and the fault is not
// turned into "this case did not match".
func TestDemoC11B(t *testing.T) {
	type demo struct {
		prog   string
		json   string
		output string
		errMsg string
	}

	demos := []demo{
		{
			// element 0 of the subject is an array, the pattern element is a number
			prog: `BEGIN {
				print "before"
				x = match ([[1], 2]) {
					[1, 2] => "hit",
					other => "fallback"
				}
				print x
				print "after"
			}`,
			json:   "[]",
			output: "before\n",
			errMsg: "cannot compare array and number",
		},
		{
			// same fault one level deeper, reached on the second record only
			prog: `{
				print "record", $index
				match ($) {
					[["a", 1], "z"] => { print "first shape" }
					[[k, v], rest] => { print "pair", k, v }
				}
			}
			END { print "done" }`,
			json:   `[[["a", 1], "z"], [[{"o": 1}, 1], "z"], [["b", 2], "y"]]`,
			output: "record 0\nfirst shape\nrecord 1\n",
			errMsg: "cannot compare object and string",
		},
		{
			// an unsupported pattern expression inside an array pattern
			prog: `BEGIN {
				print "before"
				match ([2, 3]) {
					[1 + 1, 3] => { print "computed" }
					[a, b] => { print "bound", a, b }
				}
				print "after"
			}`,
			json:   "[]",
			output: "before\n",
			errMsg: "",
		},
	}

	for i, d := range demos {
		var sb strings.Builder
		files := []lang.InputFile{{Name: "<demo>", Reader: strings.NewReader(d.json)}}
		_, err := lang.EvalProgram(d.prog, files, nil, &sb, false)

		if err == nil {
			t.Fatalf("demo %d: expected a runtime error, got none (output %q)", i, sb.String())
		}
		rtErr, ok := err.(lang.RuntimeError)
		if !ok {
			t.Fatalf("demo %d: expected a lang.RuntimeError, got %T %q", i, err, err.Error())
		}
		if d.errMsg != "" && rtErr.Message != d.errMsg {
			t.Fatalf("demo %d: expected error %q, got %q", i, d.errMsg, rtErr.Message)
		}
		if d.errMsg == "" && !strings.Contains(rtErr.Message, "not supported in match expressions") {
			t.Fatalf("demo %d: unexpected error %q", i, rtErr.Message)
		}
		if sb.String() != d.output {
			t.Fatalf("demo %d: expected output %q, got %q", i, d.output, sb.String())
		}
	}
}
