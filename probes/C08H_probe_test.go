package main

import (
	"strings"
	"testing"

	lang "github.com/alligator/jqawk/src"
)

// Inside a call, a name that already exists as a global refers to that global:
// what the call assigns to it persists after the call has finished. The
// variables of a for-in loop are assigned like any other (the loop stores each
// element, and each index, into them), so a loop that runs inside a function
// over existing globals must leave its last element/index in those globals.
func TestDemoC08H(t *testing.T) {
	run := func(prog string, json string) string {
		t.Helper()
		var sb strings.Builder
		files := []lang.InputFile{}
		if json != "" {
			files = append(files, lang.InputFile{Name: "<demo>", Reader: strings.NewReader(json)})
		}
		_, err := lang.EvalProgram(prog, files, nil, &sb, false)
		if err != nil {
			t.Fatalf("unexpected error for %q: %v", prog, err)
		}
		return sb.String()
	}

	// 1. "remember where the scan stopped" in globals that exist before the call
	prog := `
		function firstNegative(list) {
			for (seen, at in list) {
				if (seen < 0) return true
			}
			return false
		}
		BEGIN { seen = 'nothing'; at = -1 }
		{ print firstNegative($), seen, at }
	`
	got := run(prog, `[[3, -5, 8], [1, 2]]`)
	want := "true -5 1\nfalse 2 1\n"
	if got != want {
		t.Errorf("for-in over existing globals inside a function:\n got %q\nwant %q", got, want)
	}

	// 2. the same for the plain assignment next to it: both name the same global
	prog = `
		function last(list) {
			for (cur in list) { n = n + 1 }
		}
		BEGIN {
			cur = null; n = 0
			last(['a', 'b', 'c'])
			print cur, n
		}
	`
	got = run(prog, "")
	want = "c 3\n"
	if got != want {
		t.Errorf("loop variable and counter are both existing globals:\n got %q\nwant %q", got, want)
	}
}
