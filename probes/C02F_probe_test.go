package main

import (
	"strings"
	"testing"

	lang "github.com/alligator/jqawk/src"
)

// BEGIN rules run before any input and END rules after all of it, and every
// one of them starts with $ null, whatever an earlier rule did with its own $.
func TestDemoC02F(t *testing.T) {
	run := func(prog string, inputs ...string) string {
		t.Helper()
		names := []string{"a.json", "b.json"}
		files := make([]lang.InputFile, 0, len(inputs))
		for i, in := range inputs {
			files = append(files, lang.InputFile{Name: names[i], Reader: strings.NewReader(in)})
		}
		var out strings.Builder
		if _, err := lang.EvalProgram(prog, files, nil, &out, false); err != nil {
			t.Fatalf("run failed: %v (output so far %q)", err, out.String())
		}
		return out.String()
	}

	// a BEGIN rule uses $ as a scratch variable; the input is processed in
	// between; the END rules must still see $ null, and a rule without a body
	// (END alone) prints that null
	prog := `
		BEGIN { $ = { total: 0 }; print "begin", $ }
		BEGINFILE { print "beginfile", $file, $ }
		{ sum += $ }
		ENDFILE { print "endfile", $file, $ }
		END { print "end", $ is null, sum }
		END
	`
	got := run(prog, `[1, 2]`, `[3]`)
	want := "begin {\"total\": 0}\n" +
		"beginfile a.json [1, 2]\n" +
		"endfile a.json [1, 2]\n" +
		"beginfile b.json [3]\n" +
		"endfile b.json [3]\n" +
		"end true 6\n" +
		"null\n"
	if got != want {
		t.Fatalf("$ assigned in BEGIN leaked\nwant %q\ngot  %q", want, got)
	}

	// several rules of each kind: each one gets its own null $
	prog2 := `
		BEGIN { print "b1", $; $ = "x" }
		BEGIN { print "b2", $ }
		END { print "e1", $; $ = [1] }
		END { print "e2", $ }
	`
	got2 := run(prog2, `7`)
	want2 := "b1 null\nb2 null\ne1 null\ne2 null\n"
	if got2 != want2 {
		t.Fatalf("$ is not null in every BEGIN/END rule\nwant %q\ngot  %q", want2, got2)
	}
}
