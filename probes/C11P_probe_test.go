package main

import (
	"strings"
	"testing"

	lang "github.com/alligator/jqawk/src"
)

// A fault met while a match case is evaluated stops the run with a runtime
// error, also when it happens for an element nested inside an array pattern:
// what was printed before is kept, nothing is printed afterwards, and the
// fault is not swallowed by falling through to the next case.
func TestDemoC11P(t *testing.T) {
	cases := []struct {
		prog string
		msg  string
	}{
		// element [1] (a container) compared with the literal 1
		{`BEGIN {
	print "before"
	x = match ([[1], 2]) { [1, b] => "first", y => "fallback" }
	print "after", x
}`, "cannot compare array and number"},
		// an element pattern that is not a pattern at all
		{`BEGIN {
	print "before"
	x = match ([2]) { [1 + 1] => "two", y => "fallback" }
	print "after", x
}`, "<binary expression> not supported in match expressions"},
		// a literal element with an invalid escape, two levels down
		{`BEGIN {
	print "before"
	x = match ([0, ["s"]]) { [0, ["\q"]] => "q", y => "fallback" }
	print "after", x
}`, "unknown escape char 'q'"},
		// control: the same kind of fault at the top level of a case
		{`BEGIN {
	print "before"
	x = match ([[1]]) { 1 => "first", y => "fallback" }
	print "after", x
}`, "cannot compare array and number"},
	}

	for _, tc := range cases {
		var sb strings.Builder
		_, err := lang.EvalProgram(tc.prog, nil, nil, &sb, false)

		rtErr, ok := err.(lang.RuntimeError)
		if !ok {
			t.Errorf("expected a runtime error %q, got %#v\nprogram:\n%s\noutput: %q", tc.msg, err, tc.prog, sb.String())
		} else if rtErr.Message != tc.msg {
			t.Errorf("expected runtime error %q, got %q\nprogram:\n%s", tc.msg, rtErr.Message, tc.prog)
		}
		if sb.String() != "before\n" {
			t.Errorf("expected only the output printed before the fault (\"before\\n\"), got %q\nprogram:\n%s", sb.String(), tc.prog)
		}
	}
}
