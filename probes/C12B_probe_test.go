package main

import (
	"io"
	"strings"
	"testing"

	lang "github.com/alligator/jqawk/src"
)

// A runtime fault confined to one line has to be reported on that line, with
// the quoted text equal to that line and the byte column inside the faulting
// expression, wherever in the program the line sits.
func TestDemoC12B(t *testing.T) {
	cases := []struct {
		name      string
		prog      string
		wantLine  int
		construct string // the faulting expression, the column must fall inside it
	}{
		{
			name:      "plain division by zero",
			prog:      "BEGIN {\n\ttotal = 10\n\tcount = 0\n\ttotal = total / count\n\tprint total\n}\n",
			wantLine:  4,
			construct: "total / count",
		},
		{
			name:      "compound division by zero",
			prog:      "BEGIN {\n\ttotal = 10\n\tcount = 0\n\ttotal /= count\n\tprint total\n}\n",
			wantLine:  4,
			construct: "total /= count",
		},
		{
			name: "compound division by zero, deep in a crlf program with comments and blank lines",
			prog: "# average of the rates\r\n" +
				"function avg(sum, n) {\r\n" +
				"\r\n" +
				"\t# 'n' may be zero\r\n" +
				"\tsum /= n\r\n" +
				"\treturn sum\r\n" +
				"}\r\n" +
				"\r\n" +
				"BEGIN { print avg(12, 0) }\r\n",
			wantLine:  5,
			construct: "sum /= n",
		},
	}

	for _, tc := range cases {
		t.Run(tc.name, func(t *testing.T) {
			_, err := lang.EvalProgram(tc.prog, nil, nil, io.Discard, false)
			rtErr, ok := err.(lang.RuntimeError)
			if !ok {
				t.Fatalf("expected a runtime error, got %v", err)
			}
			if rtErr.Message != "divide by zero" {
				t.Fatalf("unexpected message %q", rtErr.Message)
			}

			lines := strings.Split(tc.prog, "\n")
			if rtErr.Line < 1 || rtErr.Line > len(lines) {
				t.Fatalf("reported line %d is outside the program", rtErr.Line)
			}
			if rtErr.SrcLine != lines[rtErr.Line-1] {
				t.Fatalf("quoted line %q is not line %d of the program (%q)", rtErr.SrcLine, rtErr.Line, lines[rtErr.Line-1])
			}
			if rtErr.Line != tc.wantLine {
				t.Fatalf("reported line %d (%q), want line %d (%q)", rtErr.Line, rtErr.SrcLine, tc.wantLine, lines[tc.wantLine-1])
			}

			start := strings.Index(rtErr.SrcLine, tc.construct)
			if start < 0 {
				t.Fatalf("test bug: %q not on line %q", tc.construct, rtErr.SrcLine)
			}
			if rtErr.Col < start || rtErr.Col >= start+len(tc.construct) {
				t.Fatalf("column %d is outside %q at [%d,%d) on line %q", rtErr.Col, tc.construct, start, start+len(tc.construct), rtErr.SrcLine)
			}
		})
	}
}
