package main

import (
	"strings"
	"testing"

	lang "github.com/alligator/jqawk/src"
)

// Iterating an object must visit the keys in the same order on every run. The
// keys here are all distinct strings, but several of them spell the same number
// ("1", "01", "1.0", ...), as happens with zero-padded ids or version strings.
func TestDemoC10F(t *testing.T) {
	run := func(prog string, input string) (string, string) {
		var sb strings.Builder
		files := []lang.InputFile{{Name: "<demo>", Reader: strings.NewReader(input)}}
		_, err := lang.EvalProgram(prog, files, nil, &sb, false)
		errStr := ""
		if err != nil {
			errStr = err.Error()
		}
		return sb.String(), errStr
	}

	const prog = `{ for (k, v in $) { line = line + v } } END { print line }`
	const input = `{
		"1": "a", "01": "b", "001": "c", "0001": "d", "1.0": "e", "1.00": "f",
		"1.000": "g", "1e0": "h", "10e-1": "i", "+1": "j", "1.": "k", "0.1e1": "l",
		"2": "m", "x": "n"
	}`

	first, firstErr := run(prog, input)
	if firstErr != "" {
		t.Fatalf("unexpected error %q", firstErr)
	}
	if len(first) != len("abcdefghijklmn\n") {
		t.Fatalf("expected every member to be visited once, got %q", first)
	}

	for i := 0; i < 60; i++ {
		out, errStr := run(prog, input)
		if out != first || errStr != firstErr {
			t.Fatalf("run %d of the same program on the same input differs:\nfirst: %q (error %q)\nnow:   %q (error %q)", i+2, first, firstErr, out, errStr)
		}
	}
}
