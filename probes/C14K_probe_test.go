package main

import (
	"bytes"
	"os"
	"os/exec"
	"path/filepath"
	"testing"
)

// -o FILE must write exactly the bytes that -o - prints (after the program's
// own output), also when FILE is the input file itself (editing a document in
// place), and a run that fails must not have produced a JSON output.
func TestDemoC14K(t *testing.T) {
	dir := t.TempDir()
	exe := filepath.Join(dir, "jqawk-demo")
	build := exec.Command("go", "build", "-o", exe, ".")
	if out, err := build.CombinedOutput(); err != nil {
		t.Fatalf("building the command failed: %v\n%s", err, out)
	}

	run := func(args ...string) (string, string, int) {
		cmd := exec.Command(exe, args...)
		cmd.Dir = dir
		cmd.Stdin = bytes.NewReader(nil)
		var stdout, stderr bytes.Buffer
		cmd.Stdout = &stdout
		cmd.Stderr = &stderr
		err := cmd.Run()
		code := 0
		if err != nil {
			ee, ok := err.(*exec.ExitError)
			if !ok {
				t.Fatalf("running %v: %v", args, err)
			}
			code = ee.ExitCode()
		}
		return stdout.String(), stderr.String(), code
	}

	const doc = `[{ "x": 1 }, { "x": 2 }, { "x": 41 }]`
	const prog = `{ $.x++ } END { print "done" }`

	ref := filepath.Join(dir, "ref.json")
	data := filepath.Join(dir, "data.json")
	for _, p := range []string{ref, data} {
		if err := os.WriteFile(p, []byte(doc), 0o644); err != nil {
			t.Fatal(err)
		}
	}

	// reference: -o - prints the program's output followed by the JSON
	refOut, refErr, refCode := run("-o", "-", prog, ref)
	if refCode != 0 || refErr != "" {
		t.Fatalf("-o -: exit status %d, stderr %q", refCode, refErr)
	}
	const progOut = "done\n"
	if len(refOut) <= len(progOut) || refOut[:len(progOut)] != progOut {
		t.Fatalf("-o -: unexpected standard output %q", refOut)
	}
	wantJson := refOut[len(progOut):]

	// the same run, writing the JSON over the input file
	out, errOut, code := run("-o", data, prog, data)
	if code != 0 || errOut != "" {
		t.Fatalf("-o FILE: exit status %d, stderr %q", code, errOut)
	}
	if out != progOut {
		t.Fatalf("-o FILE: standard output %q, want %q", out, progOut)
	}
	got, err := os.ReadFile(data)
	if err != nil {
		t.Fatal(err)
	}
	if string(got) != wantJson {
		t.Fatalf("-o FILE wrote %q\n-o - printed %q", got, wantJson)
	}

	// a failing program: non-zero status, a diagnostic, and no JSON written
	failed := filepath.Join(dir, "failed.json")
	_, errOut, code = run("-o", failed, `{ $.x() }`, ref)
	if code == 0 || errOut == "" {
		t.Fatalf("failing program: exit status %d, stderr %q", code, errOut)
	}
	if _, err := os.Stat(failed); !os.IsNotExist(err) {
		t.Fatalf("failing program: the JSON output file exists (stat error: %v)", err)
	}
}
