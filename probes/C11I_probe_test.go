package main

import (
	"strings"
	"testing"

	lang "github.com/alligator/jqawk/src"
)

// A program with a lexical error anywhere must be rejected as a whole: a
// syntax error is reported and nothing is printed, however much valid program
// precedes the error. Here the stray character sits directly after a ';'.
func TestDemoC11I(t *testing.T) {
	progs := []string{
		"BEGIN { print 1; @ print 2 }",
		"BEGIN { x = 1; ^ print x }",
		"BEGIN { print \"a\" } { print $; ? print \"never\" } END { print \"end\" }",
		"function f(a) { return; ` print a } BEGIN { print \"start\"; f(1) }",
		"BEGIN {\n  print \"one\"\n  y = 2; & \n  print \"two\", y\n}",
	}

	for _, prog := range progs {
		var sb strings.Builder
		files := []lang.InputFile{
			{Name: "<demo>", Reader: strings.NewReader("[1, 2, 3]")},
		}
		_, err := lang.EvalProgram(prog, files, nil, &sb, false)
		if err == nil {
			t.Errorf("program %q: expected a syntax error, got none (output %q)", prog, sb.String())
			continue
		}
		if _, ok := err.(lang.SyntaxError); !ok {
			t.Errorf("program %q: expected a syntax error, got %T: %v", prog, err, err)
		}
		if sb.String() != "" {
			t.Errorf("program %q: a program with a syntax error must print nothing, got %q", prog, sb.String())
		}
	}
}
