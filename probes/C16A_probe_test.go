package main

import (
	"strings"
	"testing"

	lang "github.com/alligator/jqawk/src"
)

// round() must return the nearest integer, with halves rounded away from zero,
// for every finite double: negatives, values just below a half, and integers
// too large to have a fractional part.
func TestDemoC16A(t *testing.T) {
	input := `[2.5, 3.5, -2.4, -2.6, -2.5, -0.5, -1234.5, 0.49999999999999994, 4503599627370497, -4503599627370497]`
	prog := `{ print $.round() }`
	expected := strings.Join([]string{
		"3",
		"4",
		"-2",
		"-3",
		"-3",                // half, negative: away from zero
		"-1",                // half, negative: away from zero
		"-1235",             // half, negative: away from zero
		"0",                 // largest double below 0.5
		"4503599627370497",  // 2^52+1 is already an integer
		"-4503599627370497", // -(2^52+1) is already an integer
		"",
	}, "\n")

	var sb strings.Builder
	files := []lang.InputFile{{Name: "<demo>", Reader: strings.NewReader(input)}}
	if _, err := lang.EvalProgram(prog, files, nil, &sb, false); err != nil {
		t.Fatalf("unexpected error: %v", err)
	}
	if sb.String() != expected {
		t.Fatalf("round() contract violated\nexpected:\n%s\ngot:\n%s", expected, sb.String())
	}
}
