package main

import (
	"strings"
	"testing"

	lang "github.com/alligator/jqawk/src"
)

// C05, clause "~ and !~ test an RE2 match of the left operand's string form
// against a regex or string": the regex on the right of ~ is a value like any
// other (variable, parameter, array element), and one ~ expression can meet
// a different regex every time it is evaluated.
func TestDemoC05M(t *testing.T) {
	run := func(prog string, doc string) string {
		t.Helper()
		var sb strings.Builder
		files := []lang.InputFile{}
		if doc != "" {
			files = append(files, lang.InputFile{Name: "<demo>", Reader: strings.NewReader(doc)})
		}
		if _, err := lang.EvalProgram(prog, files, nil, &sb, false); err != nil {
			t.Fatalf("unexpected error for %q: %v", prog, err)
		}
		return sb.String()
	}

	// regex handed to one match site through a parameter
	got := run(`
		function m(s, re) { return s ~ re }
		BEGIN { print m("abc", /^a/), m("abc", /^b/), m("abc", /c$/), m("abc", /^$/) }
	`, "")
	if want := "true false true false\n"; got != want {
		t.Errorf("regex parameter: got %q, want %q", got, want)
	}

	// regex held in a variable that is reassigned between records, !~
	got = run(`
		BEGIN { re = /^[0-9]+$/ }
		{ print $ !~ re; re = /^[a-z]+$/ }
	`, `["12", "34", "ab"]`)
	if want := "false\ntrue\nfalse\n"; got != want {
		t.Errorf("regex variable: got %q, want %q", got, want)
	}

	// regexes iterated out of an array
	got = run(`
		BEGIN { for (re in [/x/, /b/, /^c/]) print "abc" ~ re }
	`, "")
	if want := "false\ntrue\nfalse\n"; got != want {
		t.Errorf("regex elements: got %q, want %q", got, want)
	}
}
