package main

import (
	"strings"
	"testing"

	lang "github.com/alligator/jqawk/src"
)

// print writes its arguments verbatim: a top-level string is written raw,
// whatever bytes it contains, and strings and keys nested in a container are
// only wrapped in double quotes. A '%' in the text is an ordinary character.
func TestDemoC17O(t *testing.T) {
	cases := []struct {
		name, prog, json, want string
	}{
		{
			name: "top-level string with a percent sign",
			prog: `BEGIN { print "100%" }`,
			json: `null`,
			want: "100%\n",
		},
		{
			name: "several arguments, percent followed by a verb letter",
			prog: `BEGIN { print "cpu", "37%", "done", 5 }`,
			json: `null`,
			want: "cpu 37% done 5\n",
		},
		{
			name: "string from the input",
			prog: `{ print $.label, $.rate }`,
			json: `[{"label": "discount %d", "rate": 12.5}]`,
			want: "discount %d 12.5\n",
		},
		{
			name: "percent inside a container (value and key)",
			prog: `{ print $ }`,
			json: `[{"50%": ["a%sb", 1]}]`,
			want: "{\"50%\": [\"a%sb\", 1]}\n",
		},
		{
			name: "a doubled percent sign stays doubled",
			prog: `BEGIN { print "%%" }`,
			json: `null`,
			want: "%%\n",
		},
	}

	for _, tc := range cases {
		files := []lang.InputFile{{Name: "<demo>", Reader: strings.NewReader(tc.json)}}
		var out strings.Builder
		if _, err := lang.EvalProgram(tc.prog, files, nil, &out, false); err != nil {
			t.Fatalf("%s: unexpected error: %v", tc.name, err)
		}
		if out.String() != tc.want {
			t.Errorf("%s:\n  program  %s\n  input    %s\n  expected %q\n  got      %q", tc.name, tc.prog, tc.json, tc.want, out.String())
		}
	}
}
