package main

import (
	"fmt"
	"strings"
	"testing"

	lang "github.com/alligator/jqawk/src"
)

// one run of a program over one input, everything observable rendered as a string
func demoC10QRun(prog string, input string) string {
	files := []lang.InputFile{{Name: "<demo>", Reader: strings.NewReader(input)}}
	var sb strings.Builder
	_, err := lang.EvalProgram(prog, files, nil, &sb, false)
	if err != nil {
		return fmt.Sprintf("stdout=%q error=%T %q", sb.String(), err, err.Error())
	}
	return fmt.Sprintf("stdout=%q ok", sb.String())
}

// C10: the output of a run is a function of program and input bytes only, so
// repeating the run must give byte-identical output. The object iterated here
// has several keys, some of which spell the same number in different ways.
func TestDemoC10Q(t *testing.T) {
	prog := `{ for (k, v in $) { print k, v } }`
	inputs := []string{
		`{"1": "a", "1.0": "b", "01": "c", "1e0": "d"}`,
		`{"b": 1, "a": 2, "c": 3, "10": 4, "9": 5}`,
		`{"0": "x", "-0": "y", "0.0": "z"}`,
	}
	for _, input := range inputs {
		first := demoC10QRun(prog, input)
		for i := 1; i < 200; i++ {
			again := demoC10QRun(prog, input)
			if again != first {
				t.Fatalf("run %d of the same program on the same input differs from run 0\ninput: %s\nrun 0: %s\nrun %d: %s", i, input, first, i, again)
			}
		}
	}
}
