package main

import (
	"strings"
	"testing"

	lang "github.com/alligator/jqawk/src"
)

// A null that was read from a missing place (an index past the end of another
// array, a member a record does not have) and then pushed into an array is an
// ordinary element: writing to its slot by index must replace that slot, and
// must not touch the array or record the null was read from.
func TestDemoC15P(t *testing.T) {
	run := func(prog string, json string) string {
		files := []lang.InputFile{}
		if json != "" {
			files = append(files, lang.InputFile{Name: "<demo>", Reader: strings.NewReader(json)})
		}
		var sb strings.Builder
		_, err := lang.EvalProgram(prog, files, nil, &sb, false)
		if err != nil {
			t.Fatalf("program %q failed: %v", prog, err)
		}
		return sb.String()
	}

	cases := []struct {
		name, prog, json, expected string
	}{
		{
			name: "push a past-the-end read of another array, then write the slot",
			prog: `BEGIN {
				a = [1]; b = [7]
				a.push(b[3])
				print a, a.length(), b, b.length()
				a[1] = 5
				print a, a.length(), b, b.length()
			}`,
			expected: "[1, null] 2 [7] 1\n[1, 5] 2 [7] 1\n",
		},
		{
			name: "push a past-the-end read of the same array, then write the slot",
			prog: `BEGIN {
				a = [1]
				a.push(a[4])
				a[-1] = 5
				print a, a.length()
				print a.pop(), a.pop(), a.pop(), a.length()
			}`,
			expected: "[1, 5] 2\n5 1 null 0\n",
		},
		{
			name: "collect the third entry of arrays in the document, then patch the gaps",
			prog: `
				BEGIN { thirds = [] }
				{ thirds.push($.xs[2]) }
				END {
					thirds[1] = 0
					thirds[-1]++
					print thirds, thirds.length(), thirds.contains(null)
				}
				ENDFILE { print $ }`,
			json:     `[{"xs": [1, 2, 3]}, {"xs": [4]}, {"xs": [5, 6, 7]}, {"xs": []}]`,
			expected: "[{\"xs\": [1, 2, 3]}, {\"xs\": [4]}, {\"xs\": [5, 6, 7]}, {\"xs\": []}]\n[3, 0, 7, 1] 4 false\n",
		},
	}

	for _, tc := range cases {
		got := run(tc.prog, tc.json)
		if got != tc.expected {
			t.Errorf("%s:\nexpected %q\ngot      %q", tc.name, tc.expected, got)
		}
	}
}
