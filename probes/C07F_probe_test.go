package main

import (
	"strings"
	"testing"

	lang "github.com/alligator/jqawk/src"
)

// break and continue belong to the innermost enclosing loop at any nesting.
// in particular a break/continue that is written in an outer loop's body
// *after* a nested loop has ended still belongs to the outer loop and must
// run there.
func TestDemoC07F(t *testing.T) {
	run := func(prog string, json string) string {
		t.Helper()
		var sb strings.Builder
		files := []lang.InputFile{{Name: "<demo>", Reader: strings.NewReader(json)}}
		_, err := lang.EvalProgram(prog, files, nil, &sb, false)
		if err != nil {
			t.Errorf("unexpected error for program %q: %v", prog, err)
		}
		return sb.String()
	}

	// 1. search a matrix row by row, stop the outer loop once a row contained
	// the needle. the break sits after the inner for-in loop
	prog1 := `
		{
			found = false;
			for (row, r in $) {
				print 'row', r;
				for (cell in row) {
					if (cell == 5) {
						found = true;
						break;
					}
					print ' cell', cell;
				}
				if (found) {
					break;
				}
			}
			print 'found', found;
		}
	`
	want1 := "row 0\n cell 1\n cell 2\nrow 1\n cell 4\nfound true\n"
	if got := run(prog1, `[[[1, 2], [4, 5, 6], [7, 8]]]`); got != want1 {
		t.Errorf("break after a nested loop\nwant %q\ngot  %q", want1, got)
	}

	// 2. a continue after a nested while loop: the rest of the outer body is
	// skipped for odd i, the post-expression still runs
	prog2 := `
		BEGIN {
			for (i = 0; i < 4; i++) {
				n = 0;
				while (n < i) {
					n++;
				}
				if (i % 2 == 1) {
					continue;
				}
				print i, n;
			}
			print 'end', i;
		}
	`
	want2 := "0 0\n2 2\nend 4\n"
	if got := run(prog2, "[]"); got != want2 {
		t.Errorf("continue after a nested loop\nwant %q\ngot  %q", want2, got)
	}
}
