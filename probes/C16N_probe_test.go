package main

import (
	"strings"
	"testing"

	lang "github.com/alligator/jqawk/src"
)

// num(s) returns the double nearest to the decimal number written in s, and
// null when s is not a number. Zero-padded fields are plain decimal numbers.
func TestDemoC16N(t *testing.T) {
	run := func(prog string, input string) string {
		t.Helper()
		var sb strings.Builder
		files := []lang.InputFile{{Name: "<demo>", Reader: strings.NewReader(input)}}
		if _, err := lang.EvalProgram(prog, files, nil, &sb, false); err != nil {
			t.Fatalf("unexpected error running %q: %v", prog, err)
		}
		return sb.String()
	}

	// the usual cases
	got := run(`BEGIN { print num("12"), num("1.0"), num("-3.25"), num("7"), num("08"), num("abc"), num("") }`, `null`)
	if want := "12 1 -3.25 7 8 null null\n"; got != want {
		t.Fatalf("ordinary strings: got %q, want %q", got, want)
	}

	// zero-padded numbers, as in ids, dates and fixed-width records
	got = run(`{
		total = 0
		for (f in $.split("-")) total += num(f)
		print num($.split("-")[2]), total
	}`, `["2024-10-010", "0123-017-00"]`)
	if want := "10 2044\n0 140\n"; got != want {
		t.Fatalf("zero-padded decimal strings: got %q, want %q", got, want)
	}

	got = run(`BEGIN { print num("010"), num("0123"), num("-017"), num("+0010"), num("00") }`, `null`)
	if want := "10 123 -17 10 0\n"; got != want {
		t.Fatalf("leading zeros: got %q, want %q", got, want)
	}
}
