package main

import (
	"strings"
	"testing"

	lang "github.com/alligator/jqawk/src"
)

// assignment operators (= += -= *= /=) group right to left, whichever of them
// comes first in the chain.
func TestDemoC06P(t *testing.T) {
	cases := []struct{ plain, paren string }{
		{`a = 24; b = 6; c = 0; a /= b = 3; print a, b, c`, `a = 24; b = 6; c = 0; a /= (b = 3); print a, b, c`},
		{`a = 24; b = 6; a /= b /= 2; print a, b`, `a = 24; b = 6; a /= (b /= 2); print a, b`},
		{`a = 24; b = 6; a /= b += 2; print a, b`, `a = 24; b = 6; a /= (b += 2); print a, b`},
		{`a = 24; b = 6; c = 1; a /= b -= c = 3; print a, b, c`, `a = 24; b = 6; c = 1; a /= (b -= (c = 3)); print a, b, c`},
		// controls: /= last in the chain, and the other compound operators first
		{`a = 24; b = 6; a = b /= 2; print a, b`, `a = 24; b = 6; a = (b /= 2); print a, b`},
		{`a = 24; b = 6; a += b /= 2; print a, b`, `a = 24; b = 6; a += (b /= 2); print a, b`},
		{`a = 24; b = 6; a *= b = 2; print a, b`, `a = 24; b = 6; a *= (b = 2); print a, b`},
		{`a = 24; a /= 2 + 1 || 0; print a`, `a = 24; a /= ((2 + 1) || 0); print a`},
	}
	run := func(body string) string {
		var sb strings.Builder
		_, err := lang.EvalProgram("BEGIN { "+body+" }", nil, nil, &sb, false)
		if err != nil {
			return "error: " + err.Error()
		}
		return sb.String()
	}
	for _, c := range cases {
		got, want := run(c.plain), run(c.paren)
		if strings.HasPrefix(want, "error") {
			t.Fatalf("%q: parenthesised form failed: %s", c.paren, want)
		}
		if got != want {
			t.Errorf("%q gave %q, but %q gave %q", c.plain, got, c.paren, want)
		}
	}
	if got := run(`a = 24; b = 6; a /= b /= 2; print a, b`); got != "8 3\n" {
		t.Errorf(`a /= b /= 2 printed %q, want "8 3\n"`, got)
	}
}
