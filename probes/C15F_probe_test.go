package main

import (
	"strings"
	"testing"

	lang "github.com/alligator/jqawk/src"
)

// contains(v) must agree with == applied to each element in order. == coerces
// operands of different kinds (1 == "1", false == 0, "x" == 0 are all true), so
// contains has to find those elements too, and comparing an array element with
// a scalar is an error for contains exactly as it is for ==.
func TestDemoC15F(t *testing.T) {
	prog := `
		function anyEqual(arr, v) {
			for (item in arr) {
				if (item == v) {
					return true
				}
			}
			return false
		}

		BEGIN {
			a = [1, "2", true, null, "x"]
			probes = ["1", 2, 1, "2", null, 7, 0, "true", false]
			for (p in probes) {
				print a.contains(p), anyEqual(a, p)
			}

			# the array keeps working as a list in between
			a.push("10")
			print a.contains(10), a[-1] == 10
			print a.pop(), a.popfirst(), a.length()
			print a.contains(1), a.contains("1"), anyEqual(a, "1")
		}
	`
	expected := "" +
		"true true\n" + // "1": 1 == "1"
		"true true\n" + // 2: "2" == 2
		"true true\n" + // 1
		"true true\n" + // "2"
		"true true\n" + // null
		"false false\n" + // 7
		"true true\n" + // 0: "x" == 0
		"false false\n" + // "true": coerces to 0, no element equals it
		"true true\n" + // false: "x" == false (both coerce to 0)
		"true true\n" + // "10" == 10
		"10 1 4\n" +
		"true true true\n" // true == 1, true == "1"

	var sb strings.Builder
	_, err := lang.EvalProgram(prog, []lang.InputFile{}, nil, &sb, false)
	if err != nil {
		t.Fatalf("unexpected error: %v", err)
	}
	if sb.String() != expected {
		t.Fatalf("contains disagrees with ==\nexpected:\n%s\ngot:\n%s", expected, sb.String())
	}

	// an element that == cannot compare with the argument is an error, in order
	prog2 := `BEGIN { b = [[1], 2]; print b.contains(2) }`
	var sb2 strings.Builder
	_, err = lang.EvalProgram(prog2, []lang.InputFile{}, nil, &sb2, false)
	if err == nil {
		t.Fatalf("expected the comparison of [1] with 2 to fail as it does for ==, got output %q", sb2.String())
	}
	if !strings.Contains(err.Error(), "cannot compare array and number") {
		t.Fatalf("unexpected error: %v", err)
	}
}
