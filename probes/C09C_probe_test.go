package main

import (
	"strings"
	"testing"

	lang "github.com/alligator/jqawk/src"
)

// runDemoC09C runs prog over one JSON document and returns what was printed
// followed by the (whitespace-free) JSON of the input document afterwards.
func runDemoC09C(t *testing.T, prog string, doc string) (string, string) {
	t.Helper()
	var sb strings.Builder
	files := []lang.InputFile{{Name: "<demo>", Reader: strings.NewReader(doc)}}
	ev, err := lang.EvalProgram(prog, files, nil, &sb, false)
	if err != nil {
		t.Fatalf("unexpected error: %v", err)
	}
	root, err := ev.GetRootJson()
	if err != nil {
		t.Fatalf("unexpected error from GetRootJson: %v", err)
	}
	return sb.String(), strings.Join(strings.Fields(root), "")
}

// Assigning to a plain variable must change that variable only. Here the
// variable was previously given the (null) result of reading a member that
// does not exist; assigning a default to it afterwards must not create that
// member in the input document, nor alias the variable with it.
func TestDemoC09C(t *testing.T) {
	// 1. variable <- missing member, then variable <- default
	out, root := runDemoC09C(t, `
		{
			nick = $.nickname
			if (nick is null) {
				nick = 'anon'
			}
			print nick
		}
	`, `{"name": "Ann"}`)
	if out != "anon\n" {
		t.Errorf("case 1: unexpected output %q", out)
	}
	if root != `{"name":"Ann"}` {
		t.Errorf("case 1: assigning to the variable nick changed the input document: %s", root)
	}

	// 2. the same through a parameter (argument passing copies scalars)
	out, root = runDemoC09C(t, `
		function dflt(v) {
			if (v is null) {
				v = 0
			}
			return v
		}
		{
			total = dflt($.count) + 1
			print total
		}
	`, `{"name": "Ann"}`)
	if out != "1\n" {
		t.Errorf("case 2: unexpected output %q", out)
	}
	if root != `{"name":"Ann"}` {
		t.Errorf("case 2: assigning to the parameter v changed the input document: %s", root)
	}

	// 3. a variable read from past the end of an array, then reassigned twice;
	// a local object, not the input
	out, _ = runDemoC09C(t, `
		{
			o = { xs: [1, 2] }
			last = o.xs[5]
			last = 7
			last = 8
			print last, o
		}
	`, `{}`)
	if out != "8 {\"xs\": [1, 2]}\n" {
		t.Errorf("case 3: unexpected output %q", out)
	}
}
