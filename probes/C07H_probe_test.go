package main

import (
	"strings"
	"testing"

	lang "github.com/alligator/jqawk/src"
)

// for-in evaluates its iterable once and then visits every element of that
// array exactly once, in order, whatever the body does to the variable the
// array was read from (rebinding it, shrinking it, or using it as the loop
// variable itself).
func TestDemoC07H(t *testing.T) {
	cases := []struct {
		name     string
		prog     string
		expected string
	}{
		{
			name: "body rebinds the iterated variable",
			prog: `BEGIN {
				queue = ['a', 'b', 'c', 'd']
				for (job, n in queue) {
					if (n == 1) {
						queue = []
					}
					print n, job
				}
				print 'left', queue.length()
			}`,
			expected: "0 a\n1 b\n2 c\n3 d\nleft 0\n",
		},
		{
			name: "body drains the iterated array, nested in an outer loop",
			prog: `{
				for (row in $) {
					for (cell in row) {
						if (cell % 2 == 0) continue
						print cell, row.pop()
					}
					print 'row done', row.length()
				}
			}`,
			expected: "1 4\n3 3\nrow done 2\n5 7\n7 6\nrow done 1\n",
		},
		{
			name: "loop variable is the iterated variable",
			prog: `BEGIN {
				x = [10, 20, 30]
				for (x in x) {
					print x
				}
				print 'last', x
			}`,
			expected: "10\n20\n30\nlast 30\n",
		},
	}

	for _, tc := range cases {
		var sb strings.Builder
		var files []lang.InputFile
		if strings.HasPrefix(strings.TrimSpace(tc.prog), "{") {
			files = []lang.InputFile{{Name: "<demo>", Reader: strings.NewReader(`[[[1, 2, 3, 4], [5, 6, 7]]]`)}}
		}
		_, err := lang.EvalProgram(tc.prog, files, nil, &sb, false)
		if err != nil {
			t.Fatalf("%s: unexpected error: %v", tc.name, err)
		}
		if sb.String() != tc.expected {
			t.Errorf("%s: for-in did not visit every element once\nexpected:\n%s\ngot:\n%s", tc.name, tc.expected, sb.String())
		}
	}
}
