package main

import (
	"bytes"
	"strings"
	"testing"

	lang "github.com/alligator/jqawk/src"
)

// A function that executes `next`, called from the expression body of a match
// case, must leave nothing behind: neither the name bound by the pattern nor a
// frame that counts towards the recursion limit, however many records do it.
func TestDemoC08O(t *testing.T) {
	run := func(prog, input string) (string, error) {
		var out bytes.Buffer
		files := []lang.InputFile{{Name: "in.json", Reader: strings.NewReader(input)}}
		_, err := lang.EvalProgram(prog, files, nil, &out, false)
		return out.String(), err
	}

	// 1. the bound name is gone once the case has finished
	out, err := run(`function skip() { next }
{ match ($) { bound => skip() } }
END { print bound }`, `[1, 2, 3]`)
	if err != nil {
		t.Fatalf("short run: unexpected error: %v", err)
	}
	if out != "<unknown>\n" {
		t.Fatalf("short run: match binding leaked out of its case: got %q, want %q", out, "<unknown>\n")
	}

	// 2. a long history of such records does not change later behaviour
	var sb strings.Builder
	sb.WriteString("[")
	for i := 0; i < 5000; i++ {
		if i > 0 {
			sb.WriteString(",")
		}
		sb.WriteString("1")
	}
	sb.WriteString("]")
	out, err = run(`BEGIN { n = 0 }
function skip() { n++; next }
function depth(k) { if (k == 0) { return 0 } return 1 + depth(k - 1) }
{ match ($) { v => skip() } }
END { print n, depth(100) }`, sb.String())
	if err != nil {
		t.Fatalf("long run: unexpected error: %v", err)
	}
	if out != "5000 100\n" {
		t.Fatalf("long run: got %q, want %q", out, "5000 100\n")
	}
}
