package main

import (
	"strings"
	"testing"

	lang "github.com/alligator/jqawk/src"
)

// An invalid regex (or a right operand of ~ that is neither a regex nor a
// string) is a runtime fault wherever and whenever the ~ / !~ is evaluated:
// the run stops there, output printed before it is kept, nothing is printed
// after it. That must not depend on what the subject on the left happens to be
// (a null / missing member, a boolean, a container, an unset variable).
func TestDemoC11L(t *testing.T) {
	cases := []struct {
		name    string
		prog    string
		json    string
		wantOut string
		wantErr string
	}{
		{
			name: "invalid regex in a rule pattern, first record has a null subject",
			prog: `BEGIN { print 'start' }
			       $.name ~ /(unclosed/ { print 'hit', $index }
			       { print 'row', $index }
			       END { print 'end' }`,
			json:    `[{"name": null}, {"id": 2}, {"name": "bob"}]`,
			wantOut: "start\n",
			wantErr: "error parsing regexp",
		},
		{
			name: "invalid regex string with !~ in a condition, unset subject",
			prog: `BEGIN {
			         print 'one'
			         bad = '[a-'
			         if (nothing !~ bad) { print 'two' }
			         print 'three'
			       }`,
			wantOut: "one\n",
			wantErr: "error parsing regexp",
		},
		{
			name: "right operand is not a pattern, subject is a container",
			prog: `BEGIN { print 'one' }
			       { print 'item', $index; x = $ ~ 5; print 'after', x }`,
			json:    `[[1, 2], 'unused']`,
			wantOut: "one\nitem 0\n",
			wantErr: "a regex or a string must appear on the right hand side of ~",
		},
		{
			name: "invalid regex as a call argument, boolean subject",
			prog: `function show(v) { print 'show', v }
			       BEGIN { print 'one'; show(true ~ /+/); print 'two' }`,
			wantOut: "one\n",
			wantErr: "error parsing regexp",
		},
	}

	for _, tc := range cases {
		files := []lang.InputFile{}
		if tc.json != "" {
			js := strings.ReplaceAll(tc.json, "'", "\"")
			files = append(files, lang.InputFile{Name: "<demo>", Reader: strings.NewReader(js)})
		}
		var sb strings.Builder
		_, err := lang.EvalProgram(tc.prog, files, nil, &sb, false)

		if err == nil {
			t.Errorf("%s: the fault was silently ignored, run completed with output %q", tc.name, sb.String())
			continue
		}
		rtErr, ok := err.(lang.RuntimeError)
		if !ok {
			t.Errorf("%s: expected a lang.RuntimeError, got %T (%v)", tc.name, err, err)
			continue
		}
		if !strings.Contains(rtErr.Message, tc.wantErr) {
			t.Errorf("%s: expected error containing %q, got %q", tc.name, tc.wantErr, rtErr.Message)
		}
		if sb.String() != tc.wantOut {
			t.Errorf("%s: the run did not stop at the fault: expected output %q, got %q", tc.name, tc.wantOut, sb.String())
		}
	}
}
