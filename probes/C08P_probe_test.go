package main

import (
	"bytes"
	"strings"
	"testing"

	lang "github.com/alligator/jqawk/src"
)

// Scalars (null included) are passed by value: assigning to a parameter inside
// the callee never writes to the place the argument was read from, also when
// that place is a missing member, an index past the end of an array or a
// character of a string.
func TestDemoC08P(t *testing.T) {
	run := func(prog string) (string, error) {
		var out bytes.Buffer
		files := []lang.InputFile{{Name: "in.json", Reader: strings.NewReader(`null`)}}
		_, err := lang.EvalProgram(prog, files, nil, &out, false)
		return out.String(), err
	}

	cases := []struct{ name, prog, want string }{
		{
			"missing member",
			`function def(v) { if (v == null) { v = 5 } return v }
BEGIN { o = {k: 1}; print def(o.k), def(o.missing); print o.k, o.missing; for (key in o) { print key } }`,
			"1 5\n1 null\nk\n",
		},
		{
			"index past the end",
			`function def(v) { v = 9; return v }
BEGIN { arr = [1]; print def(arr[3]); n = 0; for (item in arr) { n++ } print n }`,
			"9\n1\n",
		},
		{
			"character of a string",
			`function up(c) { c = "Z"; return c }
BEGIN { s = "abc"; print up(s[0]); print s }`,
			"Z\nabc\n",
		},
	}
	for _, c := range cases {
		out, err := run(c.prog)
		if err != nil {
			t.Errorf("%s: unexpected error: %v", c.name, err)
			continue
		}
		if out != c.want {
			t.Errorf("%s: got %q, want %q", c.name, out, c.want)
		}
	}
}
