package main

import (
	"bytes"
	"strings"
	"testing"

	lang "github.com/alligator/jqawk/src"
)

// for-in over a string binds the loop variable to each character in turn (and
// the optional second variable to its offset), visits every character exactly
// once, and runs the body for each of them. The loop variable is an ordinary
// variable: the body may assign to it, which neither disturbs the iteration
// nor the string that is iterated.
func TestDemoC07N(t *testing.T) {
	run := func(prog string, input string) string {
		t.Helper()
		var out bytes.Buffer
		files := []lang.InputFile{}
		if input != "" {
			files = append(files, lang.InputFile{Name: "in", Reader: strings.NewReader(input)})
		}
		_, err := lang.EvalProgram(prog, files, nil, &out, false)
		if err != nil {
			t.Fatalf("unexpected error: %v\nprogram:%s\noutput so far:\n%s", err, prog, out.String())
		}
		return out.String()
	}

	// 1. the body replaces some characters by assigning to the loop variable,
	// nested inside an if/else inside the loop, the loop inside a function
	prog1 := `
function slug(s) {
	out = ''
	for (c, i in s) {
		if (c == ' ' || c == '/') {
			c = '-'
		} else if (i == 0) {
			c = c.upper()
		}
		out = out + c
	}
	return out
}
BEGIN {
	name = 'a b/c'
	print slug(name)
	print name
}
`
	if got, want := run(prog1, ""), "A-b-c\na b/c\n"; got != want {
		t.Fatalf("assigning to the loop variable: expected %q, got %q", want, got)
	}

	// 2. every character is visited once, whatever it is
	prog2 := `
{
	n = 0
	for (c, i in $) {
		n++
		print i, c, c == 'é'
	}
	print n
}
`
	want2 := "0 n false\n1 é true\n3 e false\n3\n"
	if got := run(prog2, `"née"`); got != want2 {
		t.Fatalf("characters of a string: expected %q, got %q", want2, got)
	}
}
