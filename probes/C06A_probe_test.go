package main

import (
	"strings"
	"testing"

	lang "github.com/alligator/jqawk/src"
)

// && and || share one precedence level and group left to right, so a mixed
// chain must evaluate exactly like its fully parenthesised (left-nested) form.
func TestDemoC06A(t *testing.T) {
	run := func(prog string) string {
		var sb strings.Builder
		_, err := lang.EvalProgram(prog, []lang.InputFile{}, nil, &sb, false)
		if err != nil {
			t.Fatalf("program %q: unexpected error: %v", prog, err)
		}
		return sb.String()
	}

	cases := []struct {
		plain  string
		parens string
		want   string
	}{
		{"true || false && false", "((true || false) && false)", "false\n"},
		{"false && true || true", "((false && true) || true)", "true\n"},
		{"1 == 1 || 1 == 2 && 2 == 3", "(((1 == 1) || (1 == 2)) && (2 == 3))", "false\n"},
		{"false && false || true && true", "(((false && false) || true) && true)", "true\n"},
		// pure chains, for reference (unaffected by grouping)
		{"true && true && false", "((true && true) && false)", "false\n"},
		{"false || false || true", "((false || false) || true)", "true\n"},
	}

	for _, c := range cases {
		got := run("BEGIN { print " + c.plain + " }")
		ref := run("BEGIN { print " + c.parens + " }")
		if ref != c.want {
			t.Fatalf("parenthesised form %q gave %q, expected %q", c.parens, ref, c.want)
		}
		if got != ref {
			t.Errorf("%q evaluated to %q but its fully parenthesised form %q evaluates to %q",
				c.plain, got, c.parens, ref)
		}
	}
}
