package main

import (
	"strings"
	"testing"

	lang "github.com/alligator/jqawk/src"
)

// A zero-padded directive must not change how the directives that follow it
// in the same format string are padded: only a width written with a leading 0
// pads with zeros, every other width pads with spaces.
func TestDemoC18M(t *testing.T) {
	cases := []struct {
		prog     string
		expected string
	}{
		// zero-padded first, space-padded afterwards (left and right)
		{`BEGIN { printf("%04f|%4f|%-4f|%6s|%-6v|", 7, 8, 9, "ab", [1]) }`, "0007|   8|9   |    ab|[1]   |"},
		// the order used by the existing suite (space first, zero last) as control
		{`BEGIN { printf("%4f|%04f|", 7, 8) }`, "   7|0008|"},
		// a zero width with nothing to pad in between must not leak either
		{`BEGIN { printf("%01s%3s|", "x", "y") }`, "x  y|"},
	}
	for _, tc := range cases {
		var sb strings.Builder
		_, err := lang.EvalProgram(tc.prog, nil, nil, &sb, false)
		if err != nil {
			t.Fatalf("%s: unexpected error %v", tc.prog, err)
		}
		if sb.String() != tc.expected {
			t.Fatalf("%s:\nexpected %q\ngot      %q", tc.prog, tc.expected, sb.String())
		}
	}
}
