package main

import (
	"strings"
	"testing"

	lang "github.com/alligator/jqawk/src"
)

// runDemoC10B runs one program over one JSON document, in-process, and returns
// everything the property talks about: stdout plus the success/error outcome.
func runDemoC10B(prog string, input string, fuzzing bool) string {
	var sb strings.Builder
	files := []lang.InputFile{
		{Name: "<demo>", Reader: strings.NewReader(input)},
	}
	_, err := lang.EvalProgram(prog, files, nil, &sb, fuzzing)
	if err != nil {
		return sb.String() + "\nERROR: " + err.Error()
	}
	return sb.String() + "\nOK"
}

// Property C10: the output and the success/error outcome of a run are a
// function of program, selectors and input bytes only; repeating the run after
// any other, unrelated runs in the same process yields identical results.
func TestDemoC10B(t *testing.T) {
	// a moderately deep (1000 frames) but perfectly legal recursion
	prog := `
		function sum(n) {
			if (n == 0) {
				return 0
			}
			return n + sum(n - 1)
		}
		{ print sum($) }
	`
	input := `[10, 1000]`

	first := runDemoC10B(prog, input, false)
	if first != "55\n500500\n\nOK" {
		t.Fatalf("unexpected result of the first run: %q", first)
	}

	// unrelated earlier runs in the same process, driven the way the project's
	// own fuzz targets (FuzzJqawk) drive the library: fuzzing mode on, and the
	// program under test is allowed to fail or to stop early
	unrelated := []string{
		`{ print $.a }`,       // finishes normally
		`{ print 1 / $.a }`,   // runtime error on the second element (null -> divide by zero)
		`{ print $.a; exit }`, // leaves through exit
		`{ print $.a `,        // syntax error
	}
	for _, src := range unrelated {
		runDemoC10B(src, `[{ "a": 1 }, { "a": null }]`, true)
	}

	again := runDemoC10B(prog, input, false)
	if again != first {
		t.Fatalf("same program, same input, different result after unrelated runs in the same process\nfirst run:\n%s\nlater run:\n%s", first, again)
	}
}
