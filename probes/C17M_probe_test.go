package main

import (
	"strings"
	"testing"

	lang "github.com/alligator/jqawk/src"
)

// print renders every value in one well-defined format: top-level strings are
// written raw, whatever bytes they contain, arguments are separated by one
// space and the line is ended by a newline. A '%' in the rendered text (a
// string, a nested string or an object key) is data, not a directive.
func TestDemoC17M(t *testing.T) {
	cases := []struct {
		name     string
		prog     string
		json     string
		expected string
	}{
		{
			name:     "top-level strings with a percent sign are raw",
			prog:     `BEGIN { print "100%", "50% off", "%s", "%d%%" }`,
			expected: "100% 50% off %s %d%%\n",
		},
		{
			name:     "strings from the input",
			prog:     `{ print $.name, $.share }`,
			json:     `[{"name": "a%sb", "share": "12.5%"}, {"name": "%v", "share": "%"}]`,
			expected: "a%sb 12.5%\n%v %\n",
		},
		{
			name:     "nested strings and keys",
			prog:     `{ print $index, $ }`,
			json:     `[["%d", 1], {"%s": "%v", "rate %": 0.5}]`,
			expected: "0 [\"%d\", 1]\n1 {\"%s\": \"%v\", \"rate %\": 0.5}\n",
		},
		{
			name:     "the same values through a bare print",
			prog:     `{ print }`,
			json:     `["100%", ["%d"]]`,
			expected: "100%\n[\"%d\"]\n",
		},
	}

	for _, tc := range cases {
		var sb strings.Builder
		files := []lang.InputFile{}
		if tc.json != "" {
			files = append(files, lang.InputFile{Name: "in.json", Reader: strings.NewReader(tc.json)})
		}
		if _, err := lang.EvalProgram(tc.prog, files, nil, &sb, false); err != nil {
			t.Fatalf("%s: unexpected error: %v", tc.name, err)
		}
		if got := sb.String(); got != tc.expected {
			t.Errorf("%s:\nprogram  %s\nexpected %q\ngot      %q", tc.name, tc.prog, tc.expected, got)
		}
	}
}
