package main

import (
	"strings"
	"testing"

	lang "github.com/alligator/jqawk/src"
)

// Prefix ++ / -- yield the value that was stored (DESIGN 3.2: "result: the
// stored value"), wherever the operand lives: a plain variable, an existing
// array element, an element past the end of an array, an element of an array
// that the store itself creates, or a field of the input document.
func TestDemoC05G(t *testing.T) {
	run := func(prog, json string) string {
		t.Helper()
		var files []lang.InputFile
		if json != "" {
			files = append(files, lang.InputFile{Name: "<demo>", Reader: strings.NewReader(json)})
		}
		var sb strings.Builder
		if _, err := lang.EvalProgram(prog, files, nil, &sb, false); err != nil {
			t.Fatalf("program %q: unexpected error %v", prog, err)
		}
		return sb.String()
	}

	cases := []struct {
		name, prog, json, want string
	}{
		{
			name: "plain variable and existing element",
			prog: `BEGIN { n = 4; a = [10, 20]; x = ++n; y = --a[1]; print x, y, n, a }`,
			want: "5 19 5 [10, 19]\n",
		},
		{
			name: "element past the end of an array",
			prog: `BEGIN { a = [10, 20]; x = ++a[3]; print x, x is number, x + 1, a }`,
			want: "1 true 2 [10, 20, null, 1]\n",
		},
		{
			name: "element just at the end, decrement",
			prog: `BEGIN { a = [7]; x = --a[1]; print x, x is number, a }`,
			want: "-1 true [7, -1]\n",
		},
		{
			name: "array created by the store",
			prog: `BEGIN { x = ++seen[0]; print x, x is number, seen; if (++cnt[2] == 1) { print "first" } else { print "not first" } }`,
			want: "1 true [1]\nfirst\n",
		},
		{
			name: "document field past the end",
			prog: `{ x = ++$.hits[2]; print x, x is null, $.hits }`,
			json: `{"hits": [5]}`,
			want: "1 false [5, null, 1]\n",
		},
	}

	for _, tc := range cases {
		if got := run(tc.prog, tc.json); got != tc.want {
			t.Errorf("%s:\nprogram  %s\nexpected %q\ngot      %q", tc.name, tc.prog, tc.want, got)
		}
	}
}
