package main

import (
	"fmt"
	"strings"
	"testing"

	lang "github.com/alligator/jqawk/src"
)

// `next` abandons the remaining rules for the current element ONLY: however
// many elements have been skipped before, the following elements still get
// every rule, and END still runs.
//
// The program skips one-element arrays with a `next` placed inside a
// block-bodied match arm and counts everything else. The input holds 5000
// skipped elements followed by three ordinary ones.
func TestDemoC02E(t *testing.T) {
	const skipped = 5000

	var in strings.Builder
	in.WriteString("[")
	for i := 0; i < skipped; i++ {
		fmt.Fprintf(&in, "[%d],", i)
	}
	in.WriteString(`"a","b","c"]`)

	prog := `
		BEGIN { seen = 0; kept = 0 }
		{
			seen++
			match ($) {
				[n] => { next }
			}
		}
		{ kept++; print $index, $ }
		END { print "seen", seen, "kept", kept }
	`

	var want strings.Builder
	fmt.Fprintf(&want, "%d a\n%d b\n%d c\n", skipped, skipped+1, skipped+2)
	fmt.Fprintf(&want, "seen %d kept 3\n", skipped+3)

	files := []lang.InputFile{{Name: "big.json", Reader: strings.NewReader(in.String())}}
	var out strings.Builder
	_, err := lang.EvalProgram(prog, files, nil, &out, false)
	if err != nil {
		t.Fatalf("run failed after %d bytes of output: %v", out.Len(), err)
	}
	if out.String() != want.String() {
		t.Fatalf("unexpected output\nwant %q\ngot  %q", want.String(), out.String())
	}

	// the same placement of next, a short input: a name bound by the abandoned
	// match arm must not stay visible to the rules run for later elements
	prog2 := `
		BEGIN { n = 100 }
		{ match ($) { [n] => { next } } }
		{ print $index, $, n }
	`
	files2 := []lang.InputFile{{Name: "small.json", Reader: strings.NewReader(`[[1], 2, [3], 4]`)}}
	var out2 strings.Builder
	if _, err := lang.EvalProgram(prog2, files2, nil, &out2, false); err != nil {
		t.Fatalf("run failed: %v", err)
	}
	want2 := "1 2 100\n3 4 100\n"
	if out2.String() != want2 {
		t.Fatalf("unexpected output\nwant %q\ngot  %q", want2, out2.String())
	}
}
