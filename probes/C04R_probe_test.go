package main

import (
	"encoding/json"
	"os"
	"os/exec"
	"path/filepath"
	"reflect"
	"strings"
	"testing"
)

// demoC04RRun runs the binary built by TestMain with the document on stdin and
// returns what it wrote to stdout.
func demoC04RRun(t *testing.T, doc string, args ...string) string {
	t.Helper()
	cmd := exec.Command("./jqawk", args...)
	cmd.Stdin = strings.NewReader(doc)
	var stderr strings.Builder
	cmd.Stderr = &stderr
	out, err := cmd.Output()
	if err != nil {
		t.Fatalf("jqawk %v on %s: %v\nstderr: %s", args, doc, err, stderr.String())
	}
	return string(out)
}

// demoC04RCheck fails unless text is valid JSON that parses to the same value
// as doc.
func demoC04RCheck(t *testing.T, what string, doc string, text string) {
	t.Helper()
	var want, got interface{}
	if err := json.Unmarshal([]byte(doc), &want); err != nil {
		t.Fatalf("bad test document %s: %v", doc, err)
	}
	if err := json.Unmarshal([]byte(text), &got); err != nil {
		t.Errorf("%s of %s is not valid JSON: %v\n%s", what, doc, err, text)
		return
	}
	if !reflect.DeepEqual(want, got) {
		t.Errorf("%s of %s parses to a different value\nwant %#v\ngot  %#v\ntext %s", what, doc, want, got, text)
	}
}

func TestDemoC04R(t *testing.T) {
	docs := []string{
		`[{"x": 1}, {"x": [], "y": {}}]`,
		`{"name": "plain text", "n": 12.5}`,
		// percent signs in string values and in keys
		`{"rate": "50%", "growth": "up 7% on last year"}`,
		`{"format": "%d items in %s", "k%v": [1, "%"]}`,
		`["100%% sure"]`,
	}
	dir := t.TempDir()
	for i, doc := range docs {
		// -o - writes the document to stdout (the program prints nothing)
		demoC04RCheck(t, "-o - output", doc, demoC04RRun(t, doc, "-o", "-", "{ }"))

		// -o FILE writes it to the file
		path := filepath.Join(dir, "out"+string(rune('a'+i))+".json")
		if stdout := demoC04RRun(t, doc, "-o", path, "{ }"); stdout != "" {
			t.Errorf("-o FILE wrote to stdout: %q", stdout)
		}
		written, err := os.ReadFile(path)
		if err != nil {
			t.Fatalf("-o %s: %v", path, err)
		}
		demoC04RCheck(t, "-o FILE output", doc, string(written))
	}
}
