package main

import (
	"io"
	"strings"
	"testing"

	lang "github.com/alligator/jqawk/src"
)

// A runtime fault confined to one line must be reported on that line, with a
// column inside the offending expression, also when the expression is a
// compound assignment (which the parser rewrites to a plain one).
func TestDemoC12N(t *testing.T) {
	cases := []struct {
		name    string
		prog    string
		json    string
		line    int    // expected 1-based line
		within  string // the offending construct; the column must fall inside it
		message string
	}{
		{
			name:    "control: plain division by a zero field",
			prog:    "BEGIN {\n  total = 10\n}\n{\n  total = total / $.count\n}\n",
			json:    `[{"count": 2}, {"count": 0}]`,
			line:    5,
			within:  "total = total / $.count",
			message: "divide by zero",
		},
		{
			name:    "compound division by a zero field",
			prog:    "BEGIN {\n  total = 10\n}\n{\n  total /= $.count\n}\n",
			json:    `[{"count": 2}, {"count": 0}]`,
			line:    5,
			within:  "total /= $.count",
			message: "divide by zero",
		},
		{
			name:    "compound division inside a function, after a comment with non-ASCII bytes",
			prog:    "# moyenne pondérée\nfunction scale(v, by) {\n  v.n /= by\n  return v\n}\n\nEND {\n  print scale({ n: 4 }, 2).n\n  print scale({ n: 4 }, 0).n\n}\n",
			json:    "",
			line:    3,
			within:  "v.n /= by",
			message: "divide by zero",
		},
	}

	for _, tc := range cases {
		var files []lang.InputFile
		if tc.json != "" {
			files = append(files, lang.InputFile{Name: "<demo>", Reader: strings.NewReader(tc.json)})
		}
		_, err := lang.EvalProgram(tc.prog, files, nil, io.Discard, false)
		re, ok := err.(lang.RuntimeError)
		if !ok {
			t.Errorf("%s: expected a lang.RuntimeError, got %T (%v)", tc.name, err, err)
			continue
		}
		if re.Message != tc.message {
			t.Errorf("%s: message %q, expected %q", tc.name, re.Message, tc.message)
		}
		lines := strings.Split(tc.prog, "\n")
		if re.Line < 1 || re.Line > len(lines) || lines[re.Line-1] != re.SrcLine {
			t.Errorf("%s: line %d does not agree with the quoted text %q", tc.name, re.Line, re.SrcLine)
			continue
		}
		if re.Line != tc.line {
			t.Errorf("%s: fault is on line %d (%q) but line %d (%q) was reported",
				tc.name, tc.line, lines[tc.line-1], re.Line, re.SrcLine)
			continue
		}
		start := strings.Index(re.SrcLine, tc.within)
		if start < 0 {
			t.Errorf("%s: quoted line %q does not contain %q", tc.name, re.SrcLine, tc.within)
			continue
		}
		if re.Col < start || re.Col >= start+len(tc.within) {
			t.Errorf("%s: column %d is outside the offending expression %q (columns %d..%d)",
				tc.name, re.Col, tc.within, start, start+len(tc.within)-1)
		}
	}
}
