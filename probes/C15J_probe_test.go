package main

import (
	"fmt"
	"strings"
	"testing"

	lang "github.com/alligator/jqawk/src"
)

// a.contains(v) gives what comparing every element with == in order gives: true
// at the first element that is equal, false if there is none, and the error of
// the first comparison that == refuses (an array or object against a scalar).
func TestDemoC15J(t *testing.T) {
	run := func(prog string) string {
		var sb strings.Builder
		files := []lang.InputFile{{Name: "<demo>", Reader: strings.NewReader("[]")}}
		_, err := lang.EvalProgram(prog, files, nil, &sb, false)
		if err != nil {
			return sb.String() + "error: " + err.Error()
		}
		return sb.String()
	}

	arrays := []string{
		`[]`,
		`[1, 2, 3]`,
		`[1, [1]]`,
		`[[1], 1]`,
		`[2, {"k": 1}, 3]`,
		`["a", [], "b"]`,
		`[null, [2]]`,
		`[3, "3", [3]]`,
	}
	needles := []string{`1`, `3`, `"b"`, `null`, `true`}

	for _, arr := range arrays {
		for _, needle := range needles {
			viaContains := run(fmt.Sprintf(`BEGIN { a = %s; print a.contains(%s) }`, arr, needle))
			viaEquals := run(fmt.Sprintf(`BEGIN {
				a = %s
				found = false
				for (i = 0; i < a.length(); i++) {
					if (a[i] == %s) {
						found = true
						break
					}
				}
				print found
			}`, arr, needle))
			if viaContains != viaEquals {
				t.Errorf("%s.contains(%s) = %q, but == over the elements in order gives %q", arr, needle, viaContains, viaEquals)
			}
		}
	}

	// and two fixed expectations, so that the test does not only compare the
	// interpreter with itself
	if got := run(`BEGIN { print [[1], 1].contains(1) }`); got != "error: cannot compare array and number" {
		t.Errorf(`[[1], 1].contains(1): got %q`, got)
	}
	if got := run(`BEGIN { print [1, [1]].contains(1) }`); got != "true\n" {
		t.Errorf(`[1, [1]].contains(1): got %q`, got)
	}
}
