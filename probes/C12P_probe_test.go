package main

import (
	"io"
	"strings"
	"testing"

	lang "github.com/alligator/jqawk/src"
)

// A runtime fault is reported where it happens. When a chain of calls grows
// past the call depth limit, the fault is the call expression that could not
// be entered: the reported line is the line of that call and the column falls
// inside it, wherever the called function happens to be defined.
func TestDemoC12P(t *testing.T) {
	cases := []struct {
		name     string
		prog     string
		line     int    // 1-based line of the offending call
		callText string // text of the offending call on that line
	}{
		{
			name: "runaway recursion",
			prog: "# countdown, ünï\n" +
				"function down(n) {\n" +
				"  if (n > 0) {\n" +
				"    return 1 + down(n - 1)\n" +
				"  }\n" +
				"  return 0\n" +
				"}\n" +
				"\n" +
				"BEGIN {\n" +
				"  print down(10)\n" +
				"  print down(1000000)\n" +
				"}\n",
			line:     4,
			callText: "down(n - 1)",
		},
		{
			name: "mutual recursion, callee defined after the caller",
			prog: "BEGIN {\r\n" +
				"  ping(0)\r\n" +
				"}\r\n" +
				"function ping(n) {\r\n" +
				"  s = \"two\nlines\"\r\n" +
				"  return pong(n + 1)\r\n" +
				"}\r\n" +
				"\r\n" +
				"function pong(n) { return n }\r\n",
			line:     0, // no fault at all: shallow calls must keep working
			callText: "",
		},
	}

	for _, tc := range cases {
		_, err := lang.EvalProgram(tc.prog, nil, nil, io.Discard, false)
		if tc.line == 0 {
			if err != nil {
				t.Fatalf("%s: unexpected error %v", tc.name, err)
			}
			continue
		}
		if err == nil {
			t.Fatalf("%s: expected a runtime error, got none", tc.name)
		}
		re, ok := err.(lang.RuntimeError)
		if !ok {
			t.Fatalf("%s: expected a lang.RuntimeError, got %T: %v", tc.name, err, err)
		}
		if re.Message != "call depth limit exceeded" {
			t.Fatalf("%s: unexpected message %q", tc.name, re.Message)
		}
		lines := strings.Split(tc.prog, "\n")
		if re.Line < 1 || re.Line > len(lines) || lines[re.Line-1] != re.SrcLine {
			t.Fatalf("%s: quoted line %q is not line %d of the program", tc.name, re.SrcLine, re.Line)
		}
		start := strings.Index(lines[tc.line-1], tc.callText)
		if start < 0 {
			t.Fatalf("%s: bad test case", tc.name)
		}
		if re.Line != tc.line {
			t.Errorf("%s: fault reported on line %d (%q), but the call that overflowed is on line %d (%q)",
				tc.name, re.Line, re.SrcLine, tc.line, lines[tc.line-1])
			continue
		}
		if re.Col < start || re.Col >= start+len(tc.callText) {
			t.Errorf("%s: column %d is outside the call %q at [%d,%d)", tc.name, re.Col, tc.callText, start, start+len(tc.callText))
		}
	}
}
