package main

import (
	"strings"
	"testing"

	lang "github.com/alligator/jqawk/src"
)

// TestDemoC12C: a runtime fault that only shows up after a long call history
// (the call depth limit) must be reported on the line of the call expression
// that could not be entered, with the column inside that call expression, and
// the quoted line must be exactly that line of the program.
func TestDemoC12C(t *testing.T) {
	cases := []struct {
		name     string
		prog     string
		wantLine int    // 1-based line holding the offending call
		wantCall string // text of the offending call expression on that line
	}{
		{
			name: "self recursion, declaration first",
			prog: "# récursion sans fin\n" +
				"function down(n) {\n" +
				"  s = \"été\"\n" +
				"  return down(n + 1)\n" +
				"}\n" +
				"\n" +
				"BEGIN {\n" +
				"  down(0)\n" +
				"}\n",
			wantLine: 4,
			wantCall: "down(n + 1)",
		},
		{
			name: "CRLF line endings, declaration after the rule",
			prog: "BEGIN {\r\n" +
				"  x = 1\r\n" +
				"  spin(x)\r\n" +
				"}\r\n" +
				"\r\n" +
				"function spin(k) {\r\n" +
				"  k = k + 1\r\n" +
				"\r\n" +
				"  y =   spin(k)\r\n" +
				"}\r\n",
			wantLine: 9,
			wantCall: "spin(k)",
		},
		{
			name:     "everything on one line",
			prog:     "function f(n) { return 1 + f(n + 1) } BEGIN { f(0) }",
			wantLine: 1,
			wantCall: "f(n + 1)",
		},
	}

	for _, tc := range cases {
		t.Run(tc.name, func(t *testing.T) {
			var out strings.Builder
			_, err := lang.EvalProgram(tc.prog, nil, nil, &out, false)
			if err == nil {
				t.Fatalf("expected a runtime error, got none")
			}
			rtErr, ok := err.(lang.RuntimeError)
			if !ok {
				t.Fatalf("expected a lang.RuntimeError, got %T: %v", err, err)
			}
			if !strings.Contains(rtErr.Message, "call depth limit") {
				t.Fatalf("unexpected message %q", rtErr.Message)
			}

			lines := strings.Split(tc.prog, "\n")

			// the quoted line is line N of the program
			if rtErr.Line < 1 || rtErr.Line > len(lines) {
				t.Fatalf("reported line %d is outside the program (%d lines)", rtErr.Line, len(lines))
			}
			if rtErr.SrcLine != lines[rtErr.Line-1] {
				t.Errorf("quoted line %q is not line %d of the program (%q)", rtErr.SrcLine, rtErr.Line, lines[rtErr.Line-1])
			}

			// the fault is the call expression on wantLine
			if rtErr.Line != tc.wantLine {
				t.Errorf("reported line %d (%q), want line %d (%q)", rtErr.Line, rtErr.SrcLine, tc.wantLine, lines[tc.wantLine-1])
			}
			start := strings.LastIndex(lines[tc.wantLine-1], tc.wantCall)
			if start < 0 {
				t.Fatalf("bad test case: %q not on line %d", tc.wantCall, tc.wantLine)
			}
			end := start + len(tc.wantCall)
			if rtErr.Col < start || rtErr.Col >= end {
				t.Errorf("reported column %d is outside the offending call %q (columns %d..%d) of line %q",
					rtErr.Col, tc.wantCall, start, end-1, lines[tc.wantLine-1])
			}
		})
	}
}
