package main

import (
	"bufio"
	"flag"
	"io"
	"os"
	"path/filepath"
	"strings"
	"syscall"
	"testing"
	"time"

	cli "github.com/alligator/jqawk/cli"
)

// demoC03FRun runs the command line front end in-process (cli.Run is what
// main() calls) with the given arguments, with os.Stdout / os.Stderr replaced by
// pipes. It returns at once; the exit code arrives on done.
type demoC03FRun struct {
	stdout  *bufio.Reader
	stderr  chan string
	done    chan int
	restore func() // puts os.Args, os.Stdout, ... back
}

func demoC03FStart(t *testing.T, args ...string) *demoC03FRun {
	t.Helper()
	outR, outW, err := os.Pipe()
	if err != nil {
		t.Fatal(err)
	}
	errR, errW, err := os.Pipe()
	if err != nil {
		t.Fatal(err)
	}

	r := &demoC03FRun{
		stdout: bufio.NewReader(outR),
		stderr: make(chan string, 1),
		done:   make(chan int, 1),
	}
	go func() {
		b, _ := io.ReadAll(errR)
		r.stderr <- string(b)
	}()

	oldArgs, oldFlags, oldOut, oldErr := os.Args, flag.CommandLine, os.Stdout, os.Stderr
	os.Args = append([]string{"jqawk"}, args...)
	flag.CommandLine = flag.NewFlagSet("jqawk", flag.ContinueOnError)
	os.Stdout, os.Stderr = outW, errW
	started := make(chan struct{})
	go func() {
		close(started)
		code := cli.Run("demo")
		outW.Close()
		errW.Close()
		r.done <- code
	}()
	<-started
	r.restore = func() {
		os.Args, flag.CommandLine, os.Stdout, os.Stderr = oldArgs, oldFlags, oldOut, oldErr
	}
	return r
}

// readLine waits (bounded) for one line of the command's standard output
func (r *demoC03FRun) readLine(d time.Duration) (string, bool) {
	ch := make(chan string, 1)
	go func() {
		s, _ := r.stdout.ReadString('\n')
		ch <- s
	}()
	select {
	case s := <-ch:
		return s, true
	case <-time.After(d):
		return "", false
	}
}

func TestDemoC03F(t *testing.T) {
	dir := t.TempDir()

	// 1. an input that cannot be read (here: a directory given as an input
	// file) is a JSON input error naming that input, reported after the earlier
	// inputs have been processed normally
	good := filepath.Join(dir, "good.json")
	if err := os.WriteFile(good, []byte("{\"a\": 1}\n{\"a\": 2}\n"), 0o644); err != nil {
		t.Fatal(err)
	}
	sub := filepath.Join(dir, "sub")
	if err := os.Mkdir(sub, 0o755); err != nil {
		t.Fatal(err)
	}

	run := demoC03FStart(t, "{ print $.a }", good, sub)
	out, _ := io.ReadAll(run.stdout)
	code := <-run.done
	stderr := <-run.stderr
	run.restore()
	if code != 1 {
		t.Errorf("unreadable input: expected exit code 1, got %d", code)
	}
	if string(out) != "1\n2\n" {
		t.Errorf("unreadable input: the values of the earlier file must be processed first: expected output %q, got %q", "1\n2\n", string(out))
	}
	if !strings.HasPrefix(stderr, "could not parse "+sub+": ") {
		t.Errorf("unreadable input: expected a JSON input error naming %s, got %q", sub, stderr)
	}
	if t.Failed() {
		return
	}

	// 2. an input file is consumed as a stream: a named pipe given as the input
	// file delivers its first value, the writer then pauses; the output for that
	// value must appear without waiting for the rest
	fifo := filepath.Join(dir, "in.fifo")
	if err := syscall.Mkfifo(fifo, 0o644); err != nil {
		t.Skipf("cannot create a named pipe here: %v", err)
	}
	// O_RDWR so that the open never blocks; the reader sees end of input when
	// this descriptor is closed
	w, err := os.OpenFile(fifo, os.O_RDWR, 0)
	if err != nil {
		t.Fatal(err)
	}
	run = demoC03FStart(t, "{ print $.a }", fifo)
	io.WriteString(w, "{\"a\": 1}\n")
	line, ok := run.readLine(3 * time.Second)
	if !ok || line != "1\n" {
		t.Errorf("named pipe: the output of the first value did not arrive while the writer was paused (got %q, arrived=%v)", line, ok)
	}
	io.WriteString(w, "{\"a\": 2}\n")
	w.Close()
	defer run.restore()
	select {
	case code = <-run.done:
		if code != 0 {
			t.Errorf("named pipe: expected exit code 0, got %d (%s)", code, <-run.stderr)
		}
	case <-time.After(5 * time.Second):
		t.Fatalf("named pipe: the run did not finish after the writer closed")
	}
}
