package main

import (
	"strings"
	"testing"

	lang "github.com/alligator/jqawk/src"
)

// Output must be a function of program, selectors and input bytes only: the
// same run repeated in the same process, and an unrelated run made after it,
// must not see anything an earlier run did to a name that happens to be a
// built-in (here `num` used as a plain counter variable).
func TestDemoC10I(t *testing.T) {
	run := func(prog string, input string) (string, error) {
		var sb strings.Builder
		files := []lang.InputFile{{Name: "<demo>", Reader: strings.NewReader(input)}}
		_, err := lang.EvalProgram(prog, files, nil, &sb, false)
		return sb.String(), err
	}

	// an ordinary record counter that happens to be called `num`
	counter := `{ num++ } END { print num }`
	input := `[10, 20, 30]`

	first, err := run(counter, input)
	if err != nil {
		t.Fatalf("first run failed: %v", err)
	}
	if first != "3\n" {
		t.Fatalf("first run: expected %q, got %q", "3\n", first)
	}

	for i := 2; i <= 4; i++ {
		again, err := run(counter, input)
		if err != nil {
			t.Fatalf("run %d failed: %v", i, err)
		}
		if again != first {
			t.Fatalf("run %d of the same program on the same input printed %q, the first run printed %q", i, again, first)
		}
	}

	// an unrelated later run in the same process still has the built-in
	out, err := run(`{ print num($) + 1 }`, `["41"]`)
	if err != nil {
		t.Fatalf("unrelated later run failed: %v", err)
	}
	if out != "42\n" {
		t.Fatalf("unrelated later run: expected %q, got %q", "42\n", out)
	}
}
