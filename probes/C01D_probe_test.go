package main

import (
	"errors"
	"os/exec"
	"path/filepath"
	"strings"
	"testing"
)

// The command-line tool must always exit by itself: status 0, or a non-zero
// status plus a diagnostic on stderr, never with a Go stack trace.
//
// The interesting input is a string literal whose opening quote is the last
// character of its line and that is never closed. The lexer reports
// "unexpected EOF while reading string" at the byte after the quote, which is
// the newline itself, and Lexer.GetLineAndCol computes column -1 for a
// position that sits on a newline. The CLI's error printer has to cope with
// that column.
func TestDemoC01D(t *testing.T) {
	bin := filepath.Join(t.TempDir(), "jqawk_demo_c01d")
	build := exec.Command("go", "build", "-o", bin, ".")
	if out, err := build.CombinedOutput(); err != nil {
		t.Fatalf("could not build the jqawk binary: %v\n%s", err, out)
	}

	run := func(stdin string, args ...string) (status int, stderr string) {
		cmd := exec.Command(bin, args...)
		cmd.Stdin = strings.NewReader(stdin)
		var errBuf strings.Builder
		cmd.Stderr = &errBuf
		_, err := cmd.Output()
		if err != nil {
			var exitErr *exec.ExitError
			if !errors.As(err, &exitErr) {
				t.Fatalf("could not run the jqawk binary: %v", err)
			}
			return exitErr.ExitCode(), errBuf.String()
		}
		return 0, errBuf.String()
	}

	cases := []struct {
		name       string
		stdin      string
		args       []string
		diagnostic string
	}{
		{
			name:       "unclosed string opened at the end of a line (program)",
			stdin:      "[1]",
			args:       []string{"{ print '\n}"},
			diagnostic: "syntax error on line 2: unexpected EOF while reading string",
		},
		{
			name:       "unclosed double-quoted string opened at the end of a line, later rule",
			stdin:      "[1]",
			args:       []string{"BEGIN { x = 1 }\n{ print x + \"\n}\nEND { print x }"},
			diagnostic: "syntax error on line 3: unexpected EOF while reading string",
		},
		{
			name:       "unclosed string opened at the end of a line (-r selector)",
			stdin:      "[1]",
			args:       []string{"-r", "$.a + '\n", "{ print }"},
			diagnostic: "syntax error on line 2: unexpected EOF while reading string",
		},
		{
			// sanity: an ordinary unclosed string, the quote is not the last
			// character of its line
			name:       "unclosed string in the middle of a line",
			stdin:      "[1]",
			args:       []string{"{ print 'abc }"},
			diagnostic: "syntax error on line 1: unexpected EOF while reading string",
		},
		{
			// sanity: an ordinary runtime error
			name:       "runtime error",
			stdin:      "[1]",
			args:       []string{"{ print 1 / 0 }"},
			diagnostic: "runtime error on line 1: divide by zero",
		},
	}

	for _, tc := range cases {
		status, stderr := run(tc.stdin, tc.args...)
		if strings.Contains(stderr, "panic:") || strings.Contains(stderr, "goroutine ") {
			t.Errorf("%s: jqawk crashed with a Go stack trace (exit status %d):\n%s", tc.name, status, stderr)
			continue
		}
		if status != 1 {
			t.Errorf("%s: expected exit status 1, got %d; stderr:\n%s", tc.name, status, stderr)
		}
		if !strings.Contains(stderr, tc.diagnostic) {
			t.Errorf("%s: expected the diagnostic %q on stderr, got:\n%s", tc.name, tc.diagnostic, stderr)
		}
	}
}
