package main

import (
	"fmt"
	"strings"
	"testing"

	lang "github.com/alligator/jqawk/src"
)

// runDemoC16C evaluates prog against an empty JSON array and converts a Go
// panic inside the interpreter into an error, so the test can report it.
func runDemoC16C(prog string) (out string, err error, crashed bool) {
	defer func() {
		if r := recover(); r != nil {
			err = fmt.Errorf("interpreter crashed: %v", r)
			crashed = true
		}
	}()
	var sb strings.Builder
	files := []lang.InputFile{{Name: "<demo>", Reader: strings.NewReader("[]")}}
	_, err = lang.EvalProgram(prog, files, nil, &sb, false)
	return sb.String(), err, false
}

// A method or builtin called with a missing argument must produce a runtime
// error (or a neutral value), never a crash.
func TestDemoC16C(t *testing.T) {
	cases := []struct {
		prog    string
		wantErr string
	}{
		// split's separator is missing altogether
		{`BEGIN { print "a,b".split() }`, "missing argument 0"},
		// the receiver is fine, the call is nested in a larger expression
		{`BEGIN { s = "a,b"; n = s.split().length(); print n }`, "missing argument 0"},
		// printf: one %s too many for the arguments supplied
		{`BEGIN { printf("%s-%s\n", "x") }`, "missing argument 2"},
		// printf: %f with no argument at all
		{`BEGIN { printf("%f") }`, "missing argument 1"},
	}

	for _, tc := range cases {
		out, err, crashed := runDemoC16C(tc.prog)
		if crashed {
			t.Errorf("%s\n  crashed instead of reporting a runtime error: %v", tc.prog, err)
			continue
		}
		if err == nil {
			t.Errorf("%s\n  expected runtime error %q, got output %q", tc.prog, tc.wantErr, out)
			continue
		}
		if _, ok := err.(lang.RuntimeError); !ok {
			t.Errorf("%s\n  expected a lang.RuntimeError, got %T: %v", tc.prog, err, err)
			continue
		}
		if !strings.Contains(err.Error(), tc.wantErr) {
			t.Errorf("%s\n  expected error containing %q, got %q", tc.prog, tc.wantErr, err.Error())
		}
	}

	// with all arguments present the contract is the ordinary one
	out, err, crashed := runDemoC16C(`BEGIN { print "a,b".split(","); printf("%s-%s\n", "x", "y") }`)
	if crashed || err != nil {
		t.Fatalf("well-formed calls failed: %v", err)
	}
	if want := "[\"a\", \"b\"]\nx-y\n"; out != want {
		t.Fatalf("well-formed calls: got %q want %q", out, want)
	}
}
