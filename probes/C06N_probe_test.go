package main

import (
	"strings"
	"testing"

	lang "github.com/alligator/jqawk/src"
)

// Property: assignment (= += -= *= /=) binds loosest of all and groups right
// to left, so "n += x > 1" means "n += (x > 1)" (count the rows where x > 1),
// "1 == n += 1" means "(1 == n) += 1" (not assignable: a syntax error) and
// "a += b = 7" means "a += (b = 7)". This holds for every assignment operator
// alike.
func TestDemoC06N(t *testing.T) {
	run := func(stmts string) string {
		t.Helper()
		var sb strings.Builder
		prog := "BEGIN { n = 1; a = 2; b = 3; " + stmts + "; print n, a, b }"
		if _, err := lang.EvalProgram(prog, nil, nil, &sb, false); err != nil {
			return "error: " + err.Error()
		}
		return strings.TrimSuffix(sb.String(), "\n")
	}

	cases := []struct {
		expr string // written without redundant parentheses
		full string // its fully parenthesised form
		want string // what both must print: the value, then n, a, b
	}{
		// a comparison / logical operator / is to the right of the assignment
		{"print n += 5 > 1", "print (n += (5 > 1))", "2\n2 2 3"},
		{"print n += 5 == 5", "print (n += (5 == 5))", "2\n2 2 3"},
		{"print n += a < b && b < a", "print (n += ((a < b) && (b < a)))", "1\n1 2 3"},
		{"print n += a is number", "print (n += (a is number))", "2\n2 2 3"},
		{"print n -= 5 > 1", "print (n -= (5 > 1))", "0\n0 2 3"},
		// the assignment operators among themselves: right to left
		{"print a += b = 7", "print (a += (b = 7))", "9\n1 9 7"},
		{"print a += b -= 1", "print (a += (b -= 1))", "4\n1 4 2"},
		{"print a -= b += 1", "print (a -= (b += 1))", "-2\n1 -2 4"},
		// an operator to the left of the assignment takes the target away
		{"print 1 == n += 1", "print ((1 == n) += 1)", "error: invalid assignment"},
		{"print a < n += 1", "print ((a < n) += 1)", "error: invalid assignment"},
	}

	for _, c := range cases {
		got := run(c.expr)
		gotFull := run(c.full)
		if gotFull != c.want {
			t.Errorf("%s (fully parenthesised) gives %q, want %q", c.full, gotFull, c.want)
		}
		if got != gotFull {
			t.Errorf("%s gives %q, but its fully parenthesised form %s gives %q", c.expr, got, c.full, gotFull)
		}
	}
}
