package main

import (
	"io"
	"strings"
	"testing"

	lang "github.com/alligator/jqawk/src"
)

// errPosC12A runs prog and returns the position carried by the syntax or
// runtime error it produces.
func errPosC12A(t *testing.T, prog string) (line int, col int, srcLine string) {
	t.Helper()
	_, err := lang.EvalProgram(prog, nil, nil, io.Discard, false)
	switch e := err.(type) {
	case lang.SyntaxError:
		return e.Line, e.Col, e.SrcLine
	case lang.RuntimeError:
		return e.Line, e.Col, e.SrcLine
	}
	t.Fatalf("expected a syntax or runtime error for %q, got %v", prog, err)
	return 0, 0, ""
}

// The reported column is a 0-based byte offset into the quoted line, so
// SrcLine[Col] must be the offending byte whatever bytes precede it.
func TestDemoC12A(t *testing.T) {
	cases := []struct {
		name     string
		prog     string
		wantLine int
		wantByte byte // the byte the column has to land on
	}{
		{
			name:     "illegal character, ascii only line",
			prog:     "BEGIN {\n\ts = 'hello world'; x = 1 @ 2\n}\n",
			wantLine: 2,
			wantByte: '@',
		},
		{
			name:     "illegal character after a non-ascii string",
			prog:     "BEGIN {\n\ts = 'héllo wörld'; x = 1 @ 2\n}\n",
			wantLine: 2,
			wantByte: '@',
		},
		{
			name:     "illegal character after a non-ascii comment line and string",
			prog:     "# prüfung ✓\r\nBEGIN {\r\n\r\n\tprint '日本語' ` 1\r\n}\r\n",
			wantLine: 4,
			wantByte: '`',
		},
		{
			name:     "divide by zero after a non-ascii string",
			prog:     "BEGIN {\n\n\tn = 0\n\tprint 'naïve — café', 1 / n\n}\n",
			wantLine: 4,
			wantByte: '/',
		},
	}

	for _, tc := range cases {
		t.Run(tc.name, func(t *testing.T) {
			line, col, srcLine := errPosC12A(t, tc.prog)
			lines := strings.Split(tc.prog, "\n")

			if line != tc.wantLine {
				t.Fatalf("reported line %d, want %d", line, tc.wantLine)
			}
			if srcLine != lines[line-1] {
				t.Fatalf("quoted line %q is not line %d of the program (%q)", srcLine, line, lines[line-1])
			}
			wantCol := strings.IndexByte(srcLine, tc.wantByte)
			if wantCol < 0 {
				t.Fatalf("test bug: %q not on line %q", tc.wantByte, srcLine)
			}
			if col != wantCol {
				t.Fatalf("reported byte column %d, want %d (line %q)", col, wantCol, srcLine)
			}
			if srcLine[col] != tc.wantByte {
				t.Fatalf("column %d lands on %q, want %q", col, srcLine[col], tc.wantByte)
			}
		})
	}
}
