package main

import (
	"flag"
	"os"
	"path/filepath"
	"strings"
	"testing"

	cli "github.com/alligator/jqawk/cli"
	lang "github.com/alligator/jqawk/src"
)

// runCLIC14H runs the command line entry point in-process with the given
// arguments and standard input, and returns the exit status and what was
// written to standard output and standard error.
func runCLIC14H(t *testing.T, stdin string, args ...string) (int, string, string) {
	t.Helper()
	dir := t.TempDir()

	outPath := filepath.Join(dir, "stdout")
	errPath := filepath.Join(dir, "stderr")
	inPath := filepath.Join(dir, "stdin")
	if err := os.WriteFile(inPath, []byte(stdin), 0o644); err != nil {
		t.Fatal(err)
	}
	outFile, err := os.Create(outPath)
	if err != nil {
		t.Fatal(err)
	}
	errFile, err := os.Create(errPath)
	if err != nil {
		t.Fatal(err)
	}
	inFile, err := os.Open(inPath)
	if err != nil {
		t.Fatal(err)
	}

	oldArgs, oldFlags := os.Args, flag.CommandLine
	oldIn, oldOut, oldErr := os.Stdin, os.Stdout, os.Stderr

	os.Args = append([]string{"jqawk"}, args...)
	flag.CommandLine = flag.NewFlagSet("jqawk", flag.ContinueOnError)
	os.Stdin, os.Stdout, os.Stderr = inFile, outFile, errFile

	code := cli.Run("demo")

	os.Args, flag.CommandLine = oldArgs, oldFlags
	os.Stdin, os.Stdout, os.Stderr = oldIn, oldOut, oldErr
	inFile.Close()
	outFile.Close()
	errFile.Close()

	o, err := os.ReadFile(outPath)
	if err != nil {
		t.Fatal(err)
	}
	e, err := os.ReadFile(errPath)
	if err != nil {
		t.Fatal(err)
	}
	return code, string(o), string(e)
}

func TestDemoC14H(t *testing.T) {
	const prog = `{ print } END { print "done" }`

	// inputs that stop in the middle of a JSON value. None of them is valid
	// input, so every run has to end in an error
	truncated := []struct {
		name   string
		input  string
		stdout string // what is printed before the error is met
	}{
		{"array", `[1, 2`, ""},
		{"object", `{"items": [1, 2, 3], "next":`, ""},
		{"string", `"abc`, ""},
		{"second value of a stream", "[1, 2]\n[3, 4", "1\n2\n"},
	}

	for _, tc := range truncated {
		// the library interpreter
		var sb strings.Builder
		files := []lang.InputFile{{Name: "<test>", Reader: strings.NewReader(tc.input)}}
		_, err := lang.EvalProgram(prog, files, nil, &sb, false)
		if err == nil {
			t.Errorf("%s: EvalProgram succeeded on truncated input %q (printed %q)", tc.name, tc.input, sb.String())
		} else if _, ok := err.(lang.JsonError); !ok {
			t.Errorf("%s: EvalProgram returned %#v, want a JsonError", tc.name, err)
		}
		if sb.String() != tc.stdout {
			t.Errorf("%s: EvalProgram printed %q, want %q", tc.name, sb.String(), tc.stdout)
		}

		// the command line, input in a named file
		path := filepath.Join(t.TempDir(), "input.json")
		if err := os.WriteFile(path, []byte(tc.input), 0o644); err != nil {
			t.Fatal(err)
		}
		code, stdout, stderr := runCLIC14H(t, "", prog, path)
		if code == 0 {
			t.Errorf("%s: file: exit status 0 on truncated input %q", tc.name, tc.input)
		}
		if stderr == "" {
			t.Errorf("%s: file: no diagnostic on standard error", tc.name)
		}
		if stdout != tc.stdout {
			t.Errorf("%s: file: printed %q, want %q", tc.name, stdout, tc.stdout)
		}

		// the command line, the same bytes on standard input
		code, stdout, stderr = runCLIC14H(t, tc.input, prog)
		if code == 0 {
			t.Errorf("%s: stdin: exit status 0 on truncated input %q", tc.name, tc.input)
		}
		if stderr == "" {
			t.Errorf("%s: stdin: no diagnostic on standard error", tc.name)
		}
		if stdout != tc.stdout {
			t.Errorf("%s: stdin: printed %q, want %q", tc.name, stdout, tc.stdout)
		}

		// -o must not report success and write JSON for input that is broken
		code, stdout, _ = runCLIC14H(t, "", "-o", "-", `{ }`, path)
		if code == 0 {
			t.Errorf("%s: -o -: exit status 0 on truncated input, printed %q", tc.name, stdout)
		}
	}
}
