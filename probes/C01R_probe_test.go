package main

import (
	"fmt"
	"strings"
	"testing"

	lang "github.com/alligator/jqawk/src"
)

// demoC01RRun runs a program through the library the way the CLI does and
// reports how the run ended: "ok", one of the three reported error kinds,
// "other error" or "panic".
func demoC01RRun(prog string, jsonSrc string) (outcome string, detail string) {
	defer func() {
		if r := recover(); r != nil {
			outcome = "panic"
			detail = fmt.Sprint(r)
		}
	}()
	files := []lang.InputFile{{Name: "<demo>", Reader: strings.NewReader(jsonSrc)}}
	var sb strings.Builder
	_, err := lang.EvalProgram(prog, files, nil, &sb, false)
	switch err.(type) {
	case nil:
		return "ok", sb.String()
	case lang.SyntaxError:
		return "syntax error", err.Error()
	case lang.RuntimeError:
		return "runtime error", err.Error()
	case lang.JsonError:
		return "json error", err.Error()
	default:
		return "other error", err.Error()
	}
}

// C01: whatever the input data and the format string, a run completes or stops
// with a syntax, runtime or JSON error -- it never panics.
func TestDemoC01R(t *testing.T) {
	names := []string{
		"", "a", "bob", "a longer plain name",
		"é", "zoë", "äöü", "José Ángel", "Łódź", "日本", "日本語テキスト", "naïve café", "🙂", "🙂🙂🙂",
	}
	quoted := make([]string, 0, len(names))
	for _, n := range names {
		quoted = append(quoted, fmt.Sprintf("{\"name\": %q}", n))
	}
	jsonSrc := "[" + strings.Join(quoted, ", ") + "]"

	for _, width := range []int{1, 2, 3, 4, 5, 6, 8, 10, 12, 16, 20, 40} {
		for _, code := range []string{"s", "v"} {
			for _, flag := range []string{"", "-", "0"} {
				format := fmt.Sprintf("[%%%s%d%s]\\n", flag, width, code)
				progs := []string{
					// from the input records
					fmt.Sprintf("{ printf(\"%s\", $.name) }", format),
					// the same strings as literals in a BEGIN rule
					"BEGIN { for (n in [\"zoë\", \"äöü\", \"日本語\", \"plain\"]) printf(\"" + format + "\", n) }",
				}
				for _, prog := range progs {
					outcome, detail := demoC01RRun(prog, jsonSrc)
					switch outcome {
					case "ok", "syntax error", "runtime error", "json error":
						// the legal outcomes
					default:
						t.Fatalf("program %s\nended in %s: %s", prog, outcome, detail)
					}
				}
			}
		}
	}
}
