package main

import (
	"strings"
	"testing"

	lang "github.com/alligator/jqawk/src"
)

// An assignment through a path whose base is missing creates the intermediate
// containers and stores the value at exactly the addressed place, padding an
// array with null up to a new index. That also has to hold when the missing
// base is created by the right-hand side of the very same statement (a chained
// assignment): the left-hand store must then go into the array the right-hand
// side has just made, growing it if the index lies past its end.
func TestDemoC09N(t *testing.T) {
	prog := `
		BEGIN {
			# control: the container made by the right-hand side is an object
			a.b.x = a.b.y = 1
			print a

			# control: it is an array and the left index is inside it
			c.l[0] = c.l[1] = 2
			print c

			# it is an array and the left index is past its end
			m.b[2] = m.b[0] = 1
			print m

			# the same with an object to be created in the new slot
			d.l[1].k = d.l[0] = 4
			print d
		}

		{
			$.tags[3] = $.tags[0] = 't'
			$.m.n[1] = $.m.n[0] = $.k
			print $
		}
	`
	input := `{"k": 1}`
	expected := strings.Join([]string{
		`{"b": {"x": 1, "y": 1}}`,
		`{"l": [2, 2]}`,
		`{"b": [1, null, 1]}`,
		`{"l": [4, {"k": 4}]}`,
		`{"k": 1, "m": {"n": [1, 1]}, "tags": ["t", null, null, "t"]}`,
		"",
	}, "\n")

	var sb strings.Builder
	files := []lang.InputFile{{Name: "demo.json", Reader: strings.NewReader(input)}}
	ev, err := lang.EvalProgram(prog, files, nil, &sb, false)
	if err != nil {
		t.Fatalf("unexpected error: %v (output so far %q)", err, sb.String())
	}
	if sb.String() != expected {
		t.Fatalf("a chained assignment lost the store past the end of the array made by its right-hand side\nexpected:\n%s\ngot:\n%s", expected, sb.String())
	}

	// the document handed back for -o must show the same stores
	j, err := ev.GetRootJson()
	if err != nil {
		t.Fatalf("unexpected error: %v", err)
	}
	compact := strings.Join(strings.Fields(j), "")
	wantJson := `{"k":1,"m":{"n":[1,1]},"tags":["t",null,null,"t"]}`
	if compact != wantJson {
		t.Fatalf("root document\nexpected: %s\ngot:      %s", wantJson, compact)
	}
}
