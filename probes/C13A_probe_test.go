package main

import (
	"strings"
	"testing"

	lang "github.com/alligator/jqawk/src"
)

func runDemoC13A(t *testing.T, prog string, json string) (string, error) {
	t.Helper()
	files := []lang.InputFile{{Name: "<demo>", Reader: strings.NewReader(json)}}
	var sb strings.Builder
	_, err := lang.EvalProgram(prog, files, nil, &sb, false)
	return sb.String(), err
}

// A newline that separates two statements may be replaced by ';' (the first
// statement here is a bare `return`, which does not end in '}').
func TestDemoC13A(t *testing.T) {
	const json = `[1, 5, 2]`
	const want = "small 1\nsmall 2\n"

	// the two statements of the function body separated by a newline
	newlineForm := "function f(x) {\n" +
		"  if (x > 3) return\n" +
		"  print \"small\", x\n" +
		"}\n" +
		"{ f($) }\n"

	// the same token sequence, the separating newline replaced by ';'
	semiForm := "function f(x) {\n" +
		"  if (x > 3) return; print \"small\", x\n" +
		"}\n" +
		"{ f($) }\n"

	// same again, all on one line
	oneLine := `function f(x) { if (x > 3) return; print "small", x } { f($) }`

	got, err := runDemoC13A(t, newlineForm, json)
	if err != nil {
		t.Fatalf("newline form: unexpected error: %v", err)
	}
	if got != want {
		t.Fatalf("newline form: got %q, want %q", got, want)
	}

	for name, prog := range map[string]string{"semicolon form": semiForm, "one-line form": oneLine} {
		got, err := runDemoC13A(t, prog, json)
		if err != nil {
			t.Fatalf("%s: unexpected error (newline form ran fine): %v", name, err)
		}
		if got != want {
			t.Fatalf("%s: got %q, want %q", name, got, want)
		}
	}
}
