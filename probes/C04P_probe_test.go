package main

import (
	"encoding/json"
	"reflect"
	"strings"
	"testing"

	lang "github.com/alligator/jqawk/src"
)

// Every finite double has to survive -o and json(): here whole numbers whose
// magnitude lies between 2^63 and 1e21, next to ordinary ones.
func TestDemoC04P(t *testing.T) {
	const doc = `{"ids": [1, -7, 4503599627370497, 9007199254740993, 9223372036854775807,
		10000000000000000000, 18446744073709551615, -100000000000000000000, 1e21, 2.5]}`

	var want interface{}
	if err := json.Unmarshal([]byte(doc), &want); err != nil {
		t.Fatal(err)
	}

	var sb strings.Builder
	files := []lang.InputFile{{Name: "doc.json", Reader: strings.NewReader(doc)}}
	ev, err := lang.EvalProgram(`{ print json($) }`, files, nil, &sb, false)
	if err != nil {
		t.Fatalf("unexpected error: %v", err)
	}

	// what -o writes
	rootJson, err := ev.GetRootJson()
	if err != nil {
		t.Fatalf("GetRootJson: %v", err)
	}
	var gotRoot interface{}
	if err := json.Unmarshal([]byte(rootJson), &gotRoot); err != nil {
		t.Fatalf("-o wrote invalid JSON: %v\n%s", err, rootJson)
	}
	if !reflect.DeepEqual(want, gotRoot) {
		t.Errorf("-o wrote a different document\nwant %v\ngot  %v\nraw:\n%s", want, gotRoot, rootJson)
	}

	// what json($) returned
	var gotJson interface{}
	if err := json.Unmarshal([]byte(sb.String()), &gotJson); err != nil {
		t.Fatalf("json() returned invalid JSON: %v\n%s", err, sb.String())
	}
	if !reflect.DeepEqual(want, gotJson) {
		t.Errorf("json() returned a different value\nwant %v\ngot  %v\nraw:\n%s", want, gotJson, sb.String())
	}
}
