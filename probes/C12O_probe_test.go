package main

import (
	"io"
	"strings"
	"testing"

	lang "github.com/alligator/jqawk/src"
)

// A lexical fault (an illegal character, an unterminated string) that comes
// after a string or regex literal containing raw newlines must still be
// reported with the number of the line it is on: the quoted source line has to
// be line N of the program text.
func TestDemoC12O(t *testing.T) {
	cases := []struct {
		name string
		prog string
		line int
		col  int
	}{
		{
			name: "illegal character, plain program",
			prog: "BEGIN {\n  s = \"one line\"\n  t = 1 @ 2\n}\n",
			line: 3,
			col:  8,
		},
		{
			name: "illegal character after a two-line string literal",
			prog: "BEGIN {\n  s = \"first\nsecond\"\n  t = 1 @ 2\n}\n",
			line: 4,
			col:  8,
		},
		{
			name: "illegal character after a three-line regex literal",
			prog: "# héllo\r\n$ ~ /a\nb\nc/ {\r\n\tprint `\r\n}\r\n",
			line: 5,
			col:  7,
		},
		{
			name: "unterminated string after multi-line literals",
			prog: "BEGIN {\n  a = 'x\n\ny'; b = \"p\nq\"\n\n  c = \"oops\n}\n",
			line: 7,
			col:  7,
		},
	}

	for _, tc := range cases {
		_, err := lang.EvalProgram(tc.prog, nil, nil, io.Discard, false)
		if err == nil {
			t.Fatalf("%s: expected a syntax error, got none", tc.name)
		}
		se, ok := err.(lang.SyntaxError)
		if !ok {
			t.Fatalf("%s: expected a lang.SyntaxError, got %T: %v", tc.name, err, err)
		}
		lines := strings.Split(tc.prog, "\n")
		if se.Line < 1 || se.Line > len(lines) {
			t.Fatalf("%s: reported line %d is outside the program (%d lines)", tc.name, se.Line, len(lines))
		}
		if lines[se.Line-1] != se.SrcLine {
			t.Errorf("%s: quoted line %q is not line %d of the program (%q)", tc.name, se.SrcLine, se.Line, lines[se.Line-1])
		}
		if se.Line != tc.line || se.Col != tc.col {
			t.Errorf("%s: reported %d:%d (%s), want %d:%d", tc.name, se.Line, se.Col, se.Message, tc.line, tc.col)
		}
	}
}
