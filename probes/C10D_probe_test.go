package main

import (
	"strings"
	"testing"

	lang "github.com/alligator/jqawk/src"
)

// runC10D runs one program over one input in-process and returns everything the
// property talks about: stdout, the JSON output and the error outcome.
func runC10D(prog string, input string) string {
	var sb strings.Builder
	files := []lang.InputFile{{Name: "<demo>", Reader: strings.NewReader(input)}}
	ev, err := lang.EvalProgram(prog, files, nil, &sb, false)
	out := "stdout=" + sb.String()
	if err != nil {
		return out + "|err=" + err.Error()
	}
	js, jerr := ev.GetRootJson()
	if jerr != nil {
		return out + "|jsonerr=" + jerr.Error()
	}
	return out + "|json=" + js
}

// Repeating a run must give a byte-identical outcome, also when the outcome is
// an error: an object holding two members that cannot be written as JSON, for
// two different reasons (a regex, and a reference back to the object itself).
func TestDemoC10D(t *testing.T) {
	cases := []struct {
		name  string
		prog  string
		input string
	}{
		{
			// json() builtin: the error outcome of the run
			name:  "json builtin",
			prog:  `BEGIN { o.id = 7; o.pattern = /ab+c/; o.self = o; print json(o) }`,
			input: `[]`,
		},
		{
			// JSON output of the (modified) root value
			name:  "root json",
			prog:  `{ $.matcher = /^x/; $.owner = $; print $.name }`,
			input: `{"name": "n1", "size": 3}`,
		},
	}

	for _, tc := range cases {
		first := runC10D(tc.prog, tc.input)
		if !strings.Contains(first, "err=") {
			t.Fatalf("%s: expected the conversion to JSON to fail, got %q", tc.name, first)
		}
		for i := 1; i < 64; i++ {
			again := runC10D(tc.prog, tc.input)
			if again != first {
				t.Fatalf("%s: repetition %d of the same run gave a different outcome\nfirst: %q\nnow:   %q", tc.name, i, first, again)
			}
		}
	}
}
