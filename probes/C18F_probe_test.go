package main

import (
	"strings"
	"testing"

	lang "github.com/alligator/jqawk/src"
)

// A width written with a leading 0 is still a decimal width: it pads with
// zeros to at least that many bytes, and the fixed maximum applies to its
// decimal value.
func TestDemoC18F(t *testing.T) {
	run := func(prog string) (string, error) {
		var sb strings.Builder
		_, err := lang.EvalProgram(prog, []lang.InputFile{}, nil, &sb, false)
		return sb.String(), err
	}

	cases := []struct {
		prog     string
		expected string
	}{
		// small zero-padded widths (the ones people usually write)
		{`BEGIN { printf("%05f|%03s", 42, "a") }`, "00042|00a"},
		// zero-padded widths of two or more digits
		{`BEGIN { printf("[%010f]", 42) }`, "[0000000042]"},
		{`BEGIN { printf("[%012s]", "abc") }`, "[000000000abc]"},
		{`BEGIN { printf("[%020v]", true) }`, "[0000000000000000true]"},
		// digits 8 and 9 after the leading zero
		{`BEGIN { printf("[%08f]", 1.5) }`, "[000001.5]"},
		{`BEGIN { printf("[%09s]", "x") }`, "[00000000x]"},
		// a rendering longer than the width is not truncated or padded
		{`BEGIN { printf("[%010s]", "123456789") }`, "[0123456789]"},
	}
	for _, tc := range cases {
		got, err := run(tc.prog)
		if err != nil {
			t.Fatalf("program %q: unexpected error: %v", tc.prog, err)
		}
		if got != tc.expected {
			t.Fatalf("program %q:\nexpected %q\n     got %q", tc.prog, tc.expected, got)
		}
	}

	// 200000 is beyond the fixed maximum width, with or without a leading zero
	for _, prog := range []string{
		`BEGIN { printf("a%200000sb", "x") }`,
		`BEGIN { printf("a%0200000sb", "x") }`,
	} {
		got, err := run(prog)
		if err == nil {
			t.Fatalf("program %q: expected a runtime error, got none (%d bytes written)", prog, len(got))
		}
		if got != "" {
			t.Fatalf("program %q: failed printf wrote %d bytes", prog, len(got))
		}
	}
}
