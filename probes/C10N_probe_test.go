package main

import (
	"fmt"
	"strings"
	"testing"

	lang "github.com/alligator/jqawk/src"
)

// Property: the standard output and the success/error outcome of a run are a
// function only of the program text, the root selectors and the input bytes;
// repeating the run after any other runs in the same process yields
// byte-identical results.
//
// Run B calls the built-in functions num() and json(). Between two runs of B
// an unrelated program A is run that happens to use "num" and "json" as names
// of ordinary variables of its own.
func TestDemoC10N(t *testing.T) {
	run := func(prog string, input string) string {
		var sb strings.Builder
		var files []lang.InputFile
		if input != "" {
			files = append(files, lang.InputFile{Name: "<demo>", Reader: strings.NewReader(input)})
		}
		_, err := lang.EvalProgram(prog, files, nil, &sb, false)
		res := "stdout: " + sb.String()
		if err != nil {
			res += fmt.Sprintf("error: %s", err.Error())
		}
		return res
	}

	const progB = `BEGIN { print num("41") + 1; print json([1]) }`
	const progA = `{ num = $.n; json = $; total += num } END { print total, json.n }`
	const inputA = `[{"n": 1}, {"n": 2}]`

	beforeB := run(progB, "")
	if beforeB != "stdout: 42\n[\n  1\n]\n" {
		t.Fatalf("unexpected result of B: %q", beforeB)
	}

	firstA := run(progA, inputA)
	if firstA != "stdout: 3 2\n" {
		t.Fatalf("unexpected result of A: %q", firstA)
	}

	afterB := run(progB, "")
	if afterB != beforeB {
		t.Fatalf("B gave %q before the unrelated run A and %q after it", beforeB, afterB)
	}
	if secondA := run(progA, inputA); secondA != firstA {
		t.Fatalf("A gave %q the first time and %q the second time", firstA, secondA)
	}
}
