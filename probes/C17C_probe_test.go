package main

import (
	"strings"
	"testing"

	lang "github.com/alligator/jqawk/src"
)

// Two DISTINCT arrays, each grown one element at a time to three elements
// (so each has spare capacity), one nested inside the other. There is no cycle
// and not even sharing, so print must render the value in full.
func TestDemoC17C(t *testing.T) {
	cases := []struct {
		prog     string
		expected string
	}{
		{
			// inner and outer both built with push (len 3, cap 4)
			prog: `BEGIN {
				inner = []; inner.push(1); inner.push(2); inner.push(3)
				outer = []; outer.push(inner); outer.push("x"); outer.push(true)
				print outer
			}`,
			expected: "[[1, 2, 3], \"x\", true]\n",
		},
		{
			// same container reachable twice without a cycle, built by index assignment
			prog: `BEGIN {
				s = []; s[0] = 1; s[1] = 2; s[2] = 3
				t = []; t[0] = s; t[1] = s; t[2] = null
				print t
			}`,
			expected: "[[1, 2, 3], [1, 2, 3], null]\n",
		},
		{
			// a real cycle must still be reported, at the point of recurrence
			prog: `BEGIN {
				c = []; c.push(1); c.push(2); c[2] = c
				print c
			}`,
			expected: "[1, 2, <circular reference>]\n",
		},
	}

	for _, tc := range cases {
		var sb strings.Builder
		_, err := lang.EvalProgram(tc.prog, []lang.InputFile{}, nil, &sb, false)
		if err != nil {
			t.Fatalf("unexpected error for %s: %v", tc.prog, err)
		}
		if sb.String() != tc.expected {
			t.Errorf("program %s\nexpected %q\ngot      %q", tc.prog, tc.expected, sb.String())
		}
	}
}
