package main

import (
	"flag"
	"os"
	"path/filepath"
	"testing"

	cli "github.com/alligator/jqawk/cli"
)

// runCliC14B runs the command line front end in-process with the given
// arguments and returns its exit code and everything it wrote to stdout.
func runCliC14B(t *testing.T, dir string, args ...string) (int, string) {
	t.Helper()

	stdoutPath := filepath.Join(dir, "stdout.txt")
	stdoutFile, err := os.Create(stdoutPath)
	if err != nil {
		t.Fatal(err)
	}

	oldArgs, oldStdout, oldFlags := os.Args, os.Stdout, flag.CommandLine
	os.Args = append([]string{"jqawk"}, args...)
	os.Stdout = stdoutFile
	flag.CommandLine = flag.NewFlagSet("jqawk", flag.ContinueOnError)
	defer func() {
		os.Args, os.Stdout, flag.CommandLine = oldArgs, oldStdout, oldFlags
	}()

	code := cli.Run("test")

	stdoutFile.Close()
	out, err := os.ReadFile(stdoutPath)
	if err != nil {
		t.Fatal(err)
	}
	return code, string(out)
}

// TestDemoC14B checks that `-o FILE` leaves exactly the bytes in FILE that
// `-o -` prints (after the program's own output), also when FILE already
// exists and holds something longer than the new document.
func TestDemoC14B(t *testing.T) {
	dir := t.TempDir()

	inPath := filepath.Join(dir, "in.json")
	input := `{"big": [{"x": 1}, {"x": 2}, {"x": 3}, {"x": 4}], "small": [{"x": 9}]}`
	if err := os.WriteFile(inPath, []byte(input), 0644); err != nil {
		t.Fatal(err)
	}
	outPath := filepath.Join(dir, "out.json")

	const prog = `{ print $.x; $.x++ }`

	check := func(name string, selector string) {
		t.Helper()

		code, want := runCliC14B(t, dir, "-r", selector, "-o", "-", prog, inPath)
		if code != 0 {
			t.Fatalf("%s: -o - exited with %d", name, code)
		}

		code, progOut := runCliC14B(t, dir, "-r", selector, "-o", outPath, prog, inPath)
		if code != 0 {
			t.Fatalf("%s: -o FILE exited with %d", name, code)
		}

		written, err := os.ReadFile(outPath)
		if err != nil {
			t.Fatalf("%s: %s", name, err)
		}

		// -o - prints the program's own output followed by the JSON document,
		// -o FILE prints the program's output and puts the document in FILE
		if progOut+string(written) != want {
			t.Errorf("%s: -o FILE and -o - disagree\nstdout + FILE: %q\n-o -:          %q", name, progOut+string(written), want)
		}
	}

	// first run creates the file
	check("fresh file", "$.big")
	// writing the same document again over the existing file
	check("same size", "$.big")
	// now a shorter document is written to the file that already exists
	check("shorter document over existing file", "$.small")
	// and a longer one again
	check("longer document over existing file", "$.big")

	// rewriting a file in place: the input file is also the output file, and the
	// selected document is shorter than the input
	t.Run("in place", func(t *testing.T) {
		code, want := runCliC14B(t, dir, "-r", "$.small", "-o", "-", "{ $.x++ }", inPath)
		if code != 0 {
			t.Fatalf("-o - exited with %d", code)
		}
		code, _ = runCliC14B(t, dir, "-r", "$.small", "-o", inPath, "{ $.x++ }", inPath)
		if code != 0 {
			t.Fatalf("-o FILE exited with %d", code)
		}
		written, err := os.ReadFile(inPath)
		if err != nil {
			t.Fatal(err)
		}
		if string(written) != want {
			t.Errorf("in-place rewrite left %q\nexpected %q", string(written), want)
		}
	})
}
