package main

import (
	"strings"
	"testing"

	lang "github.com/alligator/jqawk/src"
)

// print writes its arguments separated by one space and ended by a newline:
// top-level strings raw, nested strings double-quoted, whatever characters the
// strings are made of. A '%' in a string is an ordinary character.
func TestDemoC17F(t *testing.T) {
	run := func(prog string, json string) string {
		t.Helper()
		var sb strings.Builder
		files := []lang.InputFile{{Name: "<demo>", Reader: strings.NewReader(json)}}
		if _, err := lang.EvalProgram(prog, files, nil, &sb, false); err != nil {
			t.Fatalf("program %q failed: %v", prog, err)
		}
		return sb.String()
	}

	cases := []struct {
		name, prog, json, want string
	}{
		{
			name: "no percent sign (sanity)",
			prog: "{ print $.name, $.share, $ }",
			json: `[{"name": "a", "share": 50}]`,
			want: "a 50 {\"name\": \"a\", \"share\": 50}\n",
		},
		{
			name: "top-level string with a percent sign",
			prog: "{ print $.share }",
			json: `[{"share": "50%"}]`,
			want: "50%\n",
		},
		{
			name: "percent sign followed by a verb letter",
			prog: "{ print $.q, 7 }",
			json: `[{"q": "a%20b %d %s"}]`,
			want: "a%20b %d %s 7\n",
		},
		{
			name: "doubled percent sign",
			prog: "BEGIN { print '100%% sure' }",
			json: `[]`,
			want: "100%% sure\n",
		},
		{
			name: "nested string and key with a percent sign",
			prog: "{ print $ }",
			json: `[{"k%": ["5%", 1]}]`,
			want: "{\"k%\": [\"5%\", 1]}\n",
		},
		{
			name: "bare print of the same record",
			prog: "{ print }",
			json: `["50%"]`,
			want: "50%\n",
		},
	}

	for _, c := range cases {
		if got := run(c.prog, c.json); got != c.want {
			t.Errorf("%s:\n  prog: %s\n  json: %s\n  want: %q\n  got:  %q", c.name, c.prog, c.json, c.want, got)
		}
	}
}
