package main

import (
	"strings"
	"testing"

	lang "github.com/alligator/jqawk/src"
)

// Extending an array to an index beyond the fill limit must be refused with an
// ordinary runtime error for every index magnitude, including the huge ones
// that do not fit an int (2^63 and above, infinity) -- and also when
// the store is the FIRST store through a name that holds no array yet (an
// unset variable, a missing member), which is the one route on which the store
// is not preceded by a read of the same index on an existing array.
func runDemoC20L(prog string) (out string, err error, panicked interface{}) {
	var sb strings.Builder
	defer func() {
		if r := recover(); r != nil {
			panicked = r
			out = sb.String()
		}
	}()
	_, err = lang.EvalProgram(prog, nil, nil, &sb, false)
	return sb.String(), err, nil
}

func TestDemoC20L(t *testing.T) {
	refused := []struct{ name, prog string }{
		{"2^63 through an unset variable",
			`BEGIN { print "start"; x[9223372036854775808] = 1; print "not reached" }`},
		{"10^19 through an unset variable, ++",
			`BEGIN { print "start"; x[10000000000000000000]++; print "not reached" }`},
		{"10^30 computed, through a missing member",
			`BEGIN { print "start"; o = {}; big = 1000000 * 1000000 * 1000000 * 1000000 * 1000000; o.list[big] = 1; print "not reached" }`},
		{"infinity through a missing element",
			`BEGIN { print "start"; a = []; a[0][num("Inf")] = 1; print "not reached" }`},
		{"just beyond the fill limit through an unset variable",
			`BEGIN { print "start"; x[1048577] = 1; print "not reached" }`},
	}

	for _, tc := range refused {
		out, err, panicked := runDemoC20L(tc.prog)
		if panicked != nil {
			t.Errorf("%s: the interpreter panicked instead of reporting an error: %v", tc.name, panicked)
			continue
		}
		if err == nil {
			t.Errorf("%s: the store was not refused (output %q)", tc.name, out)
			continue
		}
		rtErr, ok := err.(lang.RuntimeError)
		if !ok {
			t.Errorf("%s: expected a lang.RuntimeError, got %T: %v", tc.name, err, err)
			continue
		}
		// which of the two messages is given for a number that does not fit an
		// int depends on the platform's float to int conversion
		if rtErr.Message != "index out of range" && rtErr.Message != "index too large to auto-fill array" {
			t.Errorf("%s: unexpected runtime error %q", tc.name, rtErr.Message)
		}
		if out != "start\n" {
			t.Errorf("%s: output written before the error was not kept: %q", tc.name, out)
		}
	}

	// ordinary first stores and negative indices keep working
	out, err, panicked := runDemoC20L(`BEGIN {
		x[1000] = 1; print x.length()
		x[-1] = 7; print x[1000]
		y[0] = 1; y[-1] = 2; print y
	}`)
	if panicked != nil || err != nil || out != "1001\n7\n[2]\n" {
		t.Errorf("ordinary stores: out=%q err=%v panic=%v", out, err, panicked)
	}
}
