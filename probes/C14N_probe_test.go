package main

import (
	"strings"
	"testing"

	lang "github.com/alligator/jqawk/src"
)

// `-r E` behaves as `BEGINFILE { $ = E }`, including what -o then writes and
// including the outcome (a selector that fails makes the run fail).
//
// The trigger is a program that has no BEGINFILE, pattern or ENDFILE rule (an
// empty program used to extract a sub-document with -r and -o, or a program
// made of BEGIN/END rules only) combined with a root selector.
func TestDemoC14N(t *testing.T) {
	const input = `{ "status": "ok", "result": [ { "name": "a" }, { "name": "b" } ] }`

	run := func(prog string, selectors []string) (stdout string, rootJson string, err error) {
		var sb strings.Builder
		ev, err := lang.EvalProgram(prog, []lang.InputFile{
			{Name: "in.json", Reader: strings.NewReader(input)},
		}, selectors, &sb, false)
		if err != nil {
			return sb.String(), "", err
		}
		j, err := ev.GetRootJson()
		return sb.String(), j, err
	}

	expectedJson := "[\n  {\n    \"name\": \"a\"\n  },\n  {\n    \"name\": \"b\"\n  }\n]"

	// 1. jqawk -r '$.result' -o - '' in.json  ==  jqawk -o - 'BEGINFILE { $ = $.result }' in.json
	_, viaBeginFile, err := run("BEGINFILE { $ = $.result }", nil)
	if err != nil {
		t.Fatalf("BEGINFILE form failed: %v", err)
	}
	if viaBeginFile != expectedJson {
		t.Fatalf("BEGINFILE form: expected %q, got %q", expectedJson, viaBeginFile)
	}
	for _, prog := range []string{"", "END { print \"done\" }", "BEGIN { n = 0 } END { print n }"} {
		_, viaSelector, err := run(prog, []string{"$.result"})
		if err != nil {
			t.Fatalf("program %q with -r $.result failed: %v", prog, err)
		}
		if viaSelector != viaBeginFile {
			t.Fatalf("program %q: -r $.result selected\n%s\nbut BEGINFILE { $ = $.result } selects\n%s", prog, viaSelector, viaBeginFile)
		}
	}

	// 2. a selector that fails at run time fails the run, whatever the program is
	_, _, errBeginFile := run("BEGINFILE { $ = $.result.nope() } END { print \"done\" }", nil)
	if errBeginFile == nil {
		t.Fatalf("BEGINFILE { $ = $.result.nope() } should fail")
	}
	out, _, errSelector := run("END { print \"done\" }", []string{"$.result.nope()"})
	if errSelector == nil {
		t.Fatalf("-r '$.result.nope()' should fail like the BEGINFILE form (%v), but the run succeeded and printed %q", errBeginFile, out)
	}

	// 3. what a selector prints is part of the standard output
	outBeginFile, _, err := run("BEGINFILE { $ = printf(\"%s\\n\", $.status) } END { print \"done\" }", nil)
	if err != nil {
		t.Fatal(err)
	}
	outSelector, _, err := run("END { print \"done\" }", []string{"printf(\"%s\\n\", $.status)"})
	if err != nil {
		t.Fatal(err)
	}
	if outSelector != outBeginFile {
		t.Fatalf("selector output: expected %q, got %q", outBeginFile, outSelector)
	}
}
