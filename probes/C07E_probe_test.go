package main

import (
	"strings"
	"testing"

	lang "github.com/alligator/jqawk/src"
)

// for-in over an object visits every key exactly once, in sorted key order,
// even when the loop body reassigns the variable that was iterated: the
// object is looked at once, when the loop starts.
func TestDemoC07E(t *testing.T) {
	run := func(prog string, json string) string {
		t.Helper()
		var sb strings.Builder
		files := []lang.InputFile{{Name: "<demo>", Reader: strings.NewReader(json)}}
		_, err := lang.EvalProgram(prog, files, nil, &sb, false)
		if err != nil {
			t.Fatalf("unexpected error for program %q: %v", prog, err)
		}
		return sb.String()
	}

	// 1. the body replaces the iterated variable by another object after the
	// first element. all three keys must still be visited, in order, with the
	// values of the object the loop started on
	prog1 := `
		BEGIN {
			todo = { a: 1, b: 2, c: 3 };
			for (k, v in todo) {
				print k, v;
				if (k == 'a') {
					todo = { z: 26 };
				}
			}
			print 'done', todo.z;
		}
	`
	want1 := "a 1\nb 2\nc 3\ndone 26\n"
	if got := run(prog1, "[]"); got != want1 {
		t.Errorf("reassigning the iterated variable in the body\nwant %q\ngot  %q", want1, got)
	}

	// 2. walking down a nested object: the inner loop reuses the name of the
	// outer iterable for its value variable, so the outer iterable is
	// reassigned while the outer loop is running. the outer loop must still
	// reach its second and third keys
	prog2 := `
		BEGIN {
			tree = { left: { x: {} }, mid: { y: {} }, right: { z: {} } };
			for (side, tree2 in tree) {
				print side;
				for (leaf, tree in tree2) {
					print ' ', leaf;
				}
			}
		}
	`
	want2 := "left\n  x\nmid\n  y\nright\n  z\n"
	if got := run(prog2, "[]"); got != want2 {
		t.Errorf("inner loop variable shadows the outer iterable\nwant %q\ngot  %q", want2, got)
	}
}
