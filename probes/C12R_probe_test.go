package main

import (
	"io"
	"strings"
	"testing"

	lang "github.com/alligator/jqawk/src"
)

// demoC12RCheck runs prog, which divides by zero exactly once, in the
// construct `construct` that occurs exactly once in the program text and lies
// on a single line. The RuntimeError must name that line, quote it exactly,
// and its byte column must fall inside the construct.
func demoC12RCheck(t *testing.T, name string, prog string, construct string) {
	t.Helper()
	if strings.Count(prog, construct) != 1 || strings.Contains(construct, "\n") {
		t.Fatalf("%s: bad demo program", name)
	}
	off := strings.Index(prog, construct)
	lineStart := strings.LastIndexByte(prog[:off], '\n') + 1
	wantLine := 1 + strings.Count(prog[:off], "\n")
	colLo := off - lineStart
	colHi := colLo + len(construct) // exclusive
	lines := strings.Split(prog, "\n")

	_, err := lang.EvalProgram(prog, nil, nil, io.Discard, false)
	re, ok := err.(lang.RuntimeError)
	if !ok {
		t.Fatalf("%s: expected a RuntimeError, got %#v", name, err)
	}
	if re.Message != "divide by zero" {
		t.Fatalf("%s: unexpected message %q", name, re.Message)
	}
	if re.Line < 1 || re.Line > len(lines) {
		t.Fatalf("%s: reported line %d is outside the program (%d lines)", name, re.Line, len(lines))
	}
	if re.SrcLine != lines[re.Line-1] {
		t.Errorf("%s: error says line %d and quotes %q, but line %d of the program is %q",
			name, re.Line, re.SrcLine, re.Line, lines[re.Line-1])
	}
	if re.Line != wantLine {
		t.Errorf("%s: the division by zero %q is on line %d, but the error is reported on line %d (%q)",
			name, construct, wantLine, re.Line, re.SrcLine)
	} else if re.Col < colLo || re.Col >= colHi {
		t.Errorf("%s: the division by zero %q occupies byte columns [%d,%d) of line %d, reported column %d",
			name, construct, colLo, colHi, wantLine, re.Col)
	}
}

func TestDemoC12R(t *testing.T) {
	// plain division, for comparison
	demoC12RCheck(t, "plain division",
		"# totals\n\nBEGIN {\n  x = 4\n  y = 0\n  z = x / y\n}\n", "x / y")

	// compound division on a later line of the program
	demoC12RCheck(t, "compound division",
		"# totals\n\nBEGIN {\n  x = 4\n  y = 0\n  x /= y\n  print x\n}\n", "x /= y")

	// compound division inside a function that is called from another line
	demoC12RCheck(t, "compound division in function",
		"function scale(o, d) {\n  o.total /= d\n  return o\n}\nBEGIN {\n  a = { total: 3 }\n  scale(a, 0)\n}\n", "o.total /= d")

	// on the first line but not in the first column
	demoC12RCheck(t, "compound division on line 1",
		"BEGIN { n = 1; n /= 0 }\n", "n /= 0")
}
