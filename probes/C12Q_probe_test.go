package main

import (
	"io"
	"strings"
	"testing"

	lang "github.com/alligator/jqawk/src"
)

// demoC12QCheck runs prog, expects a SyntaxError for the single illegal
// character '?' in it, and checks the reported position against the program
// text: Line is the 1-based line holding the '?', SrcLine is exactly that line
// of the program, Col is the 0-based byte column of the '?'.
func demoC12QCheck(t *testing.T, name string, prog string) {
	t.Helper()
	off := strings.IndexByte(prog, '?')
	if off < 0 || strings.Count(prog, "?") != 1 {
		t.Fatalf("%s: bad demo program", name)
	}
	wantLine := 1 + strings.Count(prog[:off], "\n")
	wantCol := off - (strings.LastIndexByte(prog[:off], '\n') + 1)
	lines := strings.Split(prog, "\n")

	_, err := lang.EvalProgram(prog, nil, nil, io.Discard, false)
	se, ok := err.(lang.SyntaxError)
	if !ok {
		t.Fatalf("%s: expected a SyntaxError, got %#v", name, err)
	}
	if se.Message != "unexpected character '?'" {
		t.Fatalf("%s: unexpected message %q", name, se.Message)
	}
	if se.Line < 1 || se.Line > len(lines) {
		t.Fatalf("%s: reported line %d is outside the program (%d lines)", name, se.Line, len(lines))
	}
	if se.SrcLine != lines[se.Line-1] {
		t.Errorf("%s: error says line %d and quotes %q, but line %d of the program is %q",
			name, se.Line, se.SrcLine, se.Line, lines[se.Line-1])
	}
	if se.Line != wantLine {
		t.Errorf("%s: illegal character is on line %d, reported on line %d", name, wantLine, se.Line)
	}
	if se.Col != wantCol {
		t.Errorf("%s: illegal character is at byte column %d, reported column %d", name, wantCol, se.Col)
	}
}

func TestDemoC12Q(t *testing.T) {
	// plain multi-line program, fault on line 4
	demoC12QCheck(t, "plain", "# header\n\nBEGIN {\n  x = 1 ? 2\n}\n")

	// a string literal that spans two lines precedes the fault
	demoC12QCheck(t, "after multi-line string",
		"BEGIN {\n  s = \"first\nsecond\"\n  print s\n  x = 1 ? 2\n}\n")

	// the fault sits on the line on which a multi-line string literal ends
	demoC12QCheck(t, "same line as end of multi-line string",
		"BEGIN {\n  s = \"first\nsecond\" ? 2\n}\n")

	// a regex literal that spans two lines precedes the fault
	demoC12QCheck(t, "after multi-line regex",
		"BEGIN {\n  r = /a\nb/\n  y = 3\n  x = 1 ? 2\n}\n")
}
