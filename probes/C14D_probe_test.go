package main

import (
	"bytes"
	"os"
	"os/exec"
	"path/filepath"
	"strings"
	"testing"
)

// `-o FILE` must leave in FILE exactly the bytes that `-o -` prints after the
// program's own output, whatever FILE held before the run. The demo builds the
// command from the package in the current directory into a temporary directory
// and runs it against a fresh output path, an output file holding shorter
// content and an output file holding longer content.
func TestDemoC14D(t *testing.T) {
	dir := t.TempDir()
	exe := filepath.Join(dir, "jqawk-c14d")
	build := exec.Command("go", "build", "-o", exe, ".")
	if out, err := build.CombinedOutput(); err != nil {
		t.Fatalf("building the command failed: %v\n%s", err, out)
	}

	input := filepath.Join(dir, "in.json")
	if err := os.WriteFile(input, []byte(`[{"x": 1}, {"x": 2}]`), 0o644); err != nil {
		t.Fatal(err)
	}
	const prog = `{ $.x++; print $.x }`
	const progOut = "2\n3\n"

	run := func(args ...string) (string, string) {
		t.Helper()
		cmd := exec.Command(exe, args...)
		cmd.Stdin = strings.NewReader("")
		var stdout, stderr bytes.Buffer
		cmd.Stdout = &stdout
		cmd.Stderr = &stderr
		if err := cmd.Run(); err != nil {
			t.Fatalf("jqawk %q failed: %v\nstderr: %s", args, err, stderr.String())
		}
		return stdout.String(), stderr.String()
	}

	// reference: what -o - prints after the program's own output
	dashOut, _ := run("-o", "-", prog, input)
	if !strings.HasPrefix(dashOut, progOut) {
		t.Fatalf("-o -: expected the program's output %q first, got %q", progOut, dashOut)
	}
	want := strings.TrimPrefix(dashOut, progOut)
	if want == "" {
		t.Fatalf("-o - printed no JSON")
	}

	cases := []struct {
		name     string
		previous *string // content of the output file before the run, nil: file does not exist
	}{
		{name: "fresh.json", previous: nil},
		{name: "shorter.json", previous: strPtrC14D("{}")},
		{name: "longer.json", previous: strPtrC14D(strings.Repeat("[0, 1, 2, 3, 4, 5, 6, 7, 8, 9]\n", 20))},
	}
	for _, tc := range cases {
		outPath := filepath.Join(dir, tc.name)
		if tc.previous != nil {
			if err := os.WriteFile(outPath, []byte(*tc.previous), 0o644); err != nil {
				t.Fatal(err)
			}
		}

		stdout, _ := run("-o", outPath, prog, input)
		if stdout != progOut {
			t.Errorf("%s: expected stdout %q, got %q", tc.name, progOut, stdout)
		}
		got, err := os.ReadFile(outPath)
		if err != nil {
			t.Errorf("%s: reading the output file: %v", tc.name, err)
			continue
		}
		if string(got) != want {
			t.Errorf("%s: -o FILE wrote %d bytes that differ from the %d bytes -o - prints\nfile: %q\n-o -: %q",
				tc.name, len(got), len(want), string(got), want)
		}
	}
}

func strPtrC14D(s string) *string { return &s }
