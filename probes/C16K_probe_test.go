package main

import (
	"strings"
	"testing"

	lang "github.com/alligator/jqawk/src"
)

// num(s) returns the nearest double for a numeric string: a decimal numeral
// with leading zeros ("010", "0017", "-0755") is still that decimal number,
// and a string that is not a decimal/float numeral ("0b11") is null.
func TestDemoC16K(t *testing.T) {
	prog := `
		{
			print num($.month), num($.day), num($.zip), num($.neg), num($.frac), num($.nine)
		}
		END {
			print num("0"), num("00"), num("12"), num("007"), num("0100") + 1
		}
	`
	input := `{"month": "010", "day": "08", "zip": "01234", "neg": "-0755", "frac": "010.5", "nine": "09"}`
	expected := "10 8 1234 -755 10.5 9\n0 0 12 7 101\n"

	var sb strings.Builder
	files := []lang.InputFile{{Name: "<demo>", Reader: strings.NewReader(input)}}
	_, err := lang.EvalProgram(prog, files, nil, &sb, false)
	if err != nil {
		t.Fatalf("unexpected error: %v", err)
	}
	if sb.String() != expected {
		t.Fatalf("num() of a decimal string with leading zeros\nexpected %q\ngot      %q", expected, sb.String())
	}
}
