package main

import (
	"strings"
	"testing"

	lang "github.com/alligator/jqawk/src"
)

// Root selectors are processed in the order given and each one behaves as
// `BEGINFILE { $ = E }` applied to the value that was decoded from the input.
// So running with the selectors [A, B] has to print what a run with A followed
// by a run with B prints (the program below keeps no state between roots), and
// the JSON written by -o is the one of the last selector.
func TestDemoC14J(t *testing.T) {
	const input = `{"items": [{"v": 1}, {"v": 2}], "other": [{"v": 7}]}`

	// prints what it sees, then changes it
	const rules = `{ print $.v; $.v = $.v * 10 }`

	type outcome struct {
		stdout string
		json   string
	}
	run := func(prog string, selectors []string) outcome {
		var sb strings.Builder
		files := []lang.InputFile{{Name: "<demo>", Reader: strings.NewReader(input)}}
		ev, err := lang.EvalProgram(prog, files, selectors, &sb, false)
		if err != nil {
			t.Fatalf("program %q with selectors %q failed: %v", prog, selectors, err)
		}
		j, err := ev.GetRootJson()
		if err != nil {
			t.Fatalf("program %q with selectors %q: root not serialisable: %v", prog, selectors, err)
		}
		return outcome{sb.String(), j}
	}

	cases := [][]string{
		{"$.items", "$.other"},
		{"$.other", "$.items"},
		{"$.items", "$.items"},
		{"$.items", "$.other", "$.items"},
	}

	for _, selectors := range cases {
		got := run(rules, selectors)

		wantStdout := ""
		wantJson := ""
		for _, sel := range selectors {
			// one selector alone, and the BEGINFILE rule the README says it equals
			single := run(rules, []string{sel})
			viaRule := run("BEGINFILE { $ = "+sel+" } "+rules, nil)
			if single != viaRule {
				t.Errorf("-r %s gives %+v but BEGINFILE { $ = %s } gives %+v", sel, single, sel, viaRule)
			}
			wantStdout += single.stdout
			wantJson = single.json
		}

		if got.stdout != wantStdout {
			t.Errorf("selectors %q: stdout %q, want %q", selectors, got.stdout, wantStdout)
		}
		if got.json != wantJson {
			t.Errorf("selectors %q: JSON output %q, want %q", selectors, got.json, wantJson)
		}
	}
}
