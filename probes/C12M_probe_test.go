package main

import (
	"io"
	"strings"
	"testing"

	lang "github.com/alligator/jqawk/src"
)

// A lexical fault (illegal character, unterminated string) that sits after a
// string or regex literal spanning several lines must still be reported with
// the number of the line it is on, and that number must agree with the quoted
// line text.
func TestDemoC12M(t *testing.T) {
	cases := []struct {
		name string
		prog string
		line int    // expected 1-based line
		col  int    // expected 0-based byte column
		msg  string // expected message
	}{
		{
			name: "control: no multi-line literal before the fault",
			prog: "BEGIN {\n  msg = \"one line\"\n  total = 3 @ 4\n}\n",
			line: 3, col: 12, msg: "unexpected character '@'",
		},
		{
			name: "illegal character after a two-line string literal",
			prog: "BEGIN {\n  msg = \"line one\nline two\"\n  total = 3 @ 4\n}\n",
			line: 4, col: 12, msg: "unexpected character '@'",
		},
		{
			name: "illegal character after a three-line regex literal",
			prog: "$.name ~ /a\nb\nc/ {\n  print $.name\n}\nEND {\n  x = 1 ? 2\n}\n",
			line: 7, col: 8, msg: "unexpected character '?'",
		},
		{
			name: "unterminated string after a two-line string literal",
			prog: "BEGIN {\n  usage = 'first\nsecond'\n}\nEND {\n  print 'oops\n}",
			line: 6, col: 9, msg: "unexpected EOF while reading string",
		},
	}

	for _, tc := range cases {
		_, err := lang.EvalProgram(tc.prog, nil, nil, io.Discard, false)
		se, ok := err.(lang.SyntaxError)
		if !ok {
			t.Errorf("%s: expected a lang.SyntaxError, got %T (%v)", tc.name, err, err)
			continue
		}
		if se.Message != tc.msg {
			t.Errorf("%s: message %q, expected %q", tc.name, se.Message, tc.msg)
		}
		lines := strings.Split(tc.prog, "\n")
		if se.Line < 1 || se.Line > len(lines) {
			t.Errorf("%s: reported line %d is outside the program (%d lines)", tc.name, se.Line, len(lines))
			continue
		}
		if lines[se.Line-1] != se.SrcLine {
			t.Errorf("%s: reported line %d is %q in the program, but the error quotes %q",
				tc.name, se.Line, lines[se.Line-1], se.SrcLine)
		}
		if se.Line != tc.line || se.Col != tc.col {
			t.Errorf("%s: reported line %d col %d, expected line %d col %d",
				tc.name, se.Line, se.Col, tc.line, tc.col)
		}
	}
}
