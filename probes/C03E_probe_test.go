package main

import (
	"bytes"
	"io"
	"testing"

	lang "github.com/alligator/jqawk/src"
)

// demoC03EReader hands out its chunks one per Read call, the way a pipe whose
// writer emits fixed-size blocks does: the chunk boundaries do not coincide with
// the boundaries of the JSON values. Each time the interpreter comes back for
// more input (i.e. each time it would block on a real pipe) the reader records
// what has reached the output writer so far.
type demoC03EReader struct {
	chunks  []string
	out     *bytes.Buffer
	written []string // output visible at the start of Read call #i
}

func (r *demoC03EReader) Read(p []byte) (int, error) {
	r.written = append(r.written, r.out.String())
	if len(r.chunks) == 0 {
		return 0, io.EOF
	}
	c := r.chunks[0]
	if len(c) > len(p) {
		c = c[:len(p)]
	}
	n := copy(p, c)
	if n == len(r.chunks[0]) {
		r.chunks = r.chunks[1:]
	} else {
		r.chunks[0] = r.chunks[0][n:]
	}
	return n, nil
}

func TestDemoC03E(t *testing.T) {
	var out bytes.Buffer
	rdr := &demoC03EReader{
		// the first block ends in the middle of the second value
		chunks: []string{"{\"a\": 1}\n{\"a\":", " 2}\n"},
		out:    &out,
	}

	_, err := lang.EvalProgram("{ print $.a }", []lang.InputFile{{Name: "<pipe>", Reader: rdr}}, nil, &out, false)
	if err != nil {
		t.Fatalf("unexpected error: %v", err)
	}
	if out.String() != "1\n2\n" {
		t.Fatalf("final output: expected %q, got %q", "1\n2\n", out.String())
	}

	// Read #0 fetches the first block. Read #1 is where the interpreter waits
	// for the rest of the second value: by then the first value (complete, and
	// followed by a newline) must have been processed and its output written.
	if len(rdr.written) < 2 {
		t.Fatalf("expected at least two reads, got %d", len(rdr.written))
	}
	if rdr.written[1] != "1\n" {
		t.Fatalf("output written before waiting for the rest of the second value: expected %q, got %q",
			"1\n", rdr.written[1])
	}
}
