package main

import (
	"bytes"
	"os"
	"os/exec"
	"path/filepath"
	"strings"
	"testing"
)

// C20: runaway recursion of any shape ends in an ordinary runtime error, not
// in a Go stack overflow (which no recover() can catch and which kills the
// process). The shape used here: the recursive call sits deep inside a nested
// expression, so every frame costs a lot of Go stack and the stack is used up
// long before the call depth limit of a few thousand frames is reached.
//
// Runs the binary (built by TestMain) in a subprocess, a stack overflow cannot
// be observed in-process.
func demoC20RRun(t *testing.T, prog string) (stdout string, stderr string, exitCode int) {
	t.Helper()
	file := filepath.Join(t.TempDir(), "prog.jqawk")
	if err := os.WriteFile(file, []byte(prog), 0o644); err != nil {
		t.Fatal(err)
	}
	cmd := exec.Command("./jqawk", "-f", file)
	cmd.Stdin = strings.NewReader("")
	var outBuf, errBuf bytes.Buffer
	cmd.Stdout = &outBuf
	cmd.Stderr = &errBuf
	err := cmd.Run()
	exitCode = 0
	if err != nil {
		exitErr, ok := err.(*exec.ExitError)
		if !ok {
			t.Fatalf("could not run ./jqawk: %v", err)
		}
		exitCode = exitErr.ExitCode()
	}
	return outBuf.String(), errBuf.String(), exitCode
}

func demoC20RNested(depth int, inner string) string {
	return strings.Repeat("1+(", depth) + inner + strings.Repeat(")", depth)
}

func demoC20RHead(s string) string {
	if len(s) > 300 {
		return s[:300] + "..."
	}
	return s
}

func TestDemoC20R(t *testing.T) {
	// sanity: bounded recursion through a (mildly) nested expression works
	prog := "function f(n) { if (n == 0) return 0; return " + demoC20RNested(10, "f(n-1)") + " }\n" +
		"BEGIN { print f(1000) }\n"
	stdout, stderr, code := demoC20RRun(t, prog)
	if code != 0 || stdout != "10000\n" {
		t.Fatalf("recursion 1000 deep: exit code %d, stdout %q, stderr %q", code, stdout, demoC20RHead(stderr))
	}

	// runaway recursion, the call sits 400 levels deep in an expression
	prog = "function f(n) { return " + demoC20RNested(400, "f(n+1)") + " }\n" +
		"BEGIN { print \"before\"; print f(0); print \"after\" }\n"
	stdout, stderr, code = demoC20RRun(t, prog)

	if strings.Contains(stderr, "stack overflow") || strings.Contains(stderr, "goroutine stack exceeds") {
		t.Fatalf("runaway recursion exhausted the Go stack and killed the process (exit code %d) instead of ending in a runtime error; stderr starts: %q", code, demoC20RHead(stderr))
	}
	if code != 1 {
		t.Fatalf("runaway recursion: exit code %d, want 1 (ordinary error); stderr starts: %q", code, demoC20RHead(stderr))
	}
	if !strings.Contains(stderr, "runtime error on line 1:") {
		t.Fatalf("runaway recursion: expected an ordinary runtime error on stderr, got %q", demoC20RHead(stderr))
	}
	if stdout != "before\n" {
		t.Fatalf("runaway recursion: stdout %q, want the prior output \"before\\n\" and nothing else", stdout)
	}
}
