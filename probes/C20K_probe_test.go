package main

import (
	"fmt"
	"strings"
	"testing"

	lang "github.com/alligator/jqawk/src"
)

// Runaway recursion "through match bodies" must end in an ordinary runtime
// error, whatever frame the call depth limit happens to be reached on, and the
// output written before must be kept.
//
// A function frame and a "<match>" frame both count against the call depth
// limit. In the plain shape  f -> match -> f -> match ...  the limit is always
// reached while pushing a *function* frame. The shapes below have period 3
// (f -> match -> g -> f ...  and  f -> match -> match -> f ...), so the limit is
// reached while pushing a *match* frame.
func runDemoC20K(prog string) (out string, err error, panicked interface{}) {
	var sb strings.Builder
	defer func() {
		if r := recover(); r != nil {
			panicked = r
			out = sb.String()
		}
	}()
	_, err = lang.EvalProgram(prog, nil, nil, &sb, false)
	return sb.String(), err, nil
}

func TestDemoC20K(t *testing.T) {
	progs := []struct{ name, prog string }{
		{"through a helper function", `
			function f(n) { match (n) { x => { return g(x) } } }
			function g(n) { return f(n + 1) }
			BEGIN { print "start"; f(0); print "not reached" }`},
		{"nested match", `
			function f(n) { match (n) { x => match (x) { y => f(y + 1) } } }
			BEGIN { print "start"; f(0); print "not reached" }`},
		{"expression body, started inside a match", `
			function f(n) { return match (n) { x => f(x + 1) } }
			BEGIN { print "start"; match (0) { z => f(z) } print "not reached" }`},
	}

	for _, p := range progs {
		name := p.name
		out, err, panicked := runDemoC20K(p.prog)
		if panicked != nil {
			t.Errorf("%s: the interpreter panicked instead of reporting an error: %v", name, panicked)
			continue
		}
		if err == nil {
			t.Fatalf("%s: runaway recursion ended without an error (output %q)", name, out)
		}
		rtErr, ok := err.(lang.RuntimeError)
		if !ok {
			t.Fatalf("%s: expected a lang.RuntimeError, got %T: %v", name, err, err)
		}
		if rtErr.Message != "call depth limit exceeded" {
			t.Fatalf("%s: unexpected runtime error %q", name, rtErr.Message)
		}
		if out != "start\n" {
			t.Fatalf("%s: output written before the error was not kept: %q", name, out)
		}
	}

	// recursion through match bodies well below the limit works normally
	out, err, panicked := runDemoC20K(`
		function f(n) { match (n) { 0 => { return 0 } x => { return g(x) } } }
		function g(n) { return 1 + f(n - 1) }
		BEGIN { print f(1000) }`)
	if panicked != nil || err != nil || out != "1000\n" {
		t.Fatalf("recursion 1000 deep through match bodies: out=%q err=%v panic=%v", out, err, fmt.Sprint(panicked))
	}
}
