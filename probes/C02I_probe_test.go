package main

import (
	"strconv"
	"strings"
	"testing"

	lang "github.com/alligator/jqawk/src"
)

// `next` abandons the remaining rules for the current element only: however
// many elements were skipped before, the following elements still get all the
// rules, and END still runs. Here `next` sits in a helper function (so it leaves
// through a call expression) and the input array is long.
func TestDemoC02I(t *testing.T) {
	const n = 250000

	var in strings.Builder
	in.WriteByte('[')
	for i := 0; i < n; i++ {
		if i > 0 {
			in.WriteByte(',')
		}
		in.WriteString(strconv.Itoa(i))
	}
	in.WriteByte(']')

	prog := `
		function skip_odd(v) { if (v % 2 == 1) next }
		{ skip_odd($) }
		{ even++; last = $index }
		END { print even, last }
	`

	files := []lang.InputFile{{Name: "<big>", Reader: strings.NewReader(in.String())}}
	var out strings.Builder
	_, err := lang.EvalProgram(prog, files, nil, &out, false)
	if err != nil {
		t.Fatalf("run failed after %q: %v", out.String(), err)
	}
	want := "125000 249998\n"
	if out.String() != want {
		t.Fatalf("expected %q, got %q", want, out.String())
	}
}
