package main

import (
	"flag"
	"os"
	"path/filepath"
	"strings"
	"testing"

	cli "github.com/alligator/jqawk/cli"
)

// runs the command line front end in-process on prog and returns what it wrote
// to stderr
func demoC12JRun(t *testing.T, prog string) string {
	t.Helper()
	dir := t.TempDir()
	errFile, err := os.Create(filepath.Join(dir, "stderr"))
	if err != nil {
		t.Fatal(err)
	}
	outFile, err := os.Create(filepath.Join(dir, "stdout"))
	if err != nil {
		t.Fatal(err)
	}
	inFile, err := os.Open(os.DevNull)
	if err != nil {
		t.Fatal(err)
	}

	oldArgs, oldFlags := os.Args, flag.CommandLine
	oldIn, oldOut, oldErr := os.Stdin, os.Stdout, os.Stderr
	defer func() {
		os.Args, flag.CommandLine = oldArgs, oldFlags
		os.Stdin, os.Stdout, os.Stderr = oldIn, oldOut, oldErr
		inFile.Close()
		outFile.Close()
		errFile.Close()
	}()

	os.Args = []string{"jqawk", prog}
	flag.CommandLine = flag.NewFlagSet("jqawk", flag.ContinueOnError)
	os.Stdin, os.Stdout, os.Stderr = inFile, outFile, errFile

	if code := cli.Run("demo"); code != 1 {
		t.Fatalf("expected exit code 1 for %q, got %d", prog, code)
	}

	errFile.Sync()
	out, err := os.ReadFile(filepath.Join(dir, "stderr"))
	if err != nil {
		t.Fatal(err)
	}
	return string(out)
}

// The CLI renders an error as the offending source line, a caret line and the
// message. The caret has to sit under the offending construct in the line as
// it was rendered: for an illegal character exactly under it, for a division
// by zero under the operator - whatever else is on that line.
func TestDemoC12J(t *testing.T) {
	type tc struct {
		name   string
		prog   string
		line   int    // 1-based line of the fault
		marker string // text the caret must point at the first byte of
		kind   string
	}
	cases := []tc{
		// controls: no tabs, and tabs only in front of the fault
		{"spaces only", "BEGIN {\n  x = 1 @\n}\n", 2, "@", "syntax"},
		{"tab indented", "BEGIN {\n\tx = 1 @\n}\n", 2, "@", "syntax"},
		{"two tabs indented, runtime", "BEGIN {\n\t\tx = 1 / 0\n}\n", 2, "/", "runtime"},
		// a tab after the fault: tab-aligned trailing comments
		{"tab before trailing comment", "BEGIN {\n\tx = 1 @\t# reset x\n}\n", 2, "@", "syntax"},
		{"space indented, tab-aligned comment", "BEGIN {\n  x = 1 @\t\t# reset x\n}\n", 2, "@", "syntax"},
		{"runtime, tab-aligned comment", "BEGIN {\n\tx = 1\n\ty = x / 0\t\t# ratio\n\tprint y\n}\n", 3, "/", "runtime"},
	}

	for _, c := range cases {
		stderr := demoC12JRun(t, c.prog)
		lines := strings.Split(stderr, "\n")
		if len(lines) < 3 {
			t.Errorf("%s: expected line, caret and message, got %q", c.name, stderr)
			continue
		}
		rendered, caretLine, message := lines[0], lines[1], lines[2]

		wantPrefix := c.kind + " error on line "
		if !strings.HasPrefix(message, wantPrefix) {
			t.Errorf("%s: unexpected message line %q", c.name, message)
			continue
		}
		var gotLine int
		for _, ch := range message[len(wantPrefix):] {
			if ch < '0' || ch > '9' {
				break
			}
			gotLine = gotLine*10 + int(ch-'0')
		}
		if gotLine != c.line {
			t.Errorf("%s: reported line %d, want %d", c.name, gotLine, c.line)
		}

		caret := strings.Index(caretLine, "^")
		if caret < 0 || strings.TrimLeft(caretLine, " ") != "^" {
			t.Errorf("%s: malformed caret line %q", c.name, caretLine)
			continue
		}
		want := strings.Index(rendered, c.marker)
		if want < 0 || strings.Count(rendered, c.marker) != 1 {
			t.Errorf("%s: rendered line %q does not contain %q exactly once", c.name, rendered, c.marker)
			continue
		}
		if caret != want {
			under := "past the end of the line"
			if caret < len(rendered) {
				under = "under " + string([]rune{rune(rendered[caret])})
			}
			t.Errorf("%s: caret at column %d (%s) but %q is at column %d of the rendered line\n%s\n%s",
				c.name, caret, under, c.marker, want, rendered, caretLine)
		}
	}
}
