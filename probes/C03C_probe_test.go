package main

import (
	"bufio"
	"flag"
	"os"
	"path/filepath"
	"syscall"
	"testing"
	"time"

	cli "github.com/alligator/jqawk/cli"
)

// A named input that is not a regular file (a FIFO here; the same goes for
// /dev/stdin or a shell process substitution) has to be consumed as a stream:
// once the first value has been written to it, its output must appear while the
// writer still holds the FIFO open and before any later value arrives.
func TestDemoC03C(t *testing.T) {
	dir := t.TempDir()
	fifo := filepath.Join(dir, "in.json")
	if err := syscall.Mkfifo(fifo, 0o600); err != nil {
		t.Skipf("cannot create a fifo here: %v", err)
	}

	outR, outW, err := os.Pipe()
	if err != nil {
		t.Fatal(err)
	}
	devnull, err := os.OpenFile(os.DevNull, os.O_WRONLY, 0)
	if err != nil {
		t.Fatal(err)
	}

	// drive the real command line entry point in-process
	oldArgs, oldStdout, oldStderr, oldFlags := os.Args, os.Stdout, os.Stderr, flag.CommandLine
	os.Args = []string{"jqawk", "BEGINFILE { sum = 0 } { sum += $ } ENDFILE { print sum }", fifo}
	os.Stdout = outW
	os.Stderr = devnull
	flag.CommandLine = flag.NewFlagSet("jqawk", flag.ContinueOnError)
	restore := func() {
		os.Args, os.Stdout, os.Stderr, flag.CommandLine = oldArgs, oldStdout, oldStderr, oldFlags
	}

	exit := make(chan int, 1)
	go func() {
		code := cli.Run("demo")
		outW.Close()
		exit <- code
	}()

	// opening the write side blocks until jqawk has opened the fifo for reading
	w, err := os.OpenFile(fifo, os.O_WRONLY, 0)
	if err != nil {
		restore()
		t.Fatal(err)
	}

	lines := make(chan string, 8)
	go func() {
		br := bufio.NewReader(outR)
		for {
			s, err := br.ReadString('\n')
			if s != "" {
				lines <- s
			}
			if err != nil {
				close(lines)
				return
			}
		}
	}()

	expect := func(input, want string) bool {
		if _, err := w.WriteString(input); err != nil {
			t.Errorf("writing to the fifo: %v", err)
			return false
		}
		select {
		case got, ok := <-lines:
			if !ok || got != want {
				t.Errorf("after writing %q: expected output %q, got %q (stream open: %v)", input, want, got, ok)
				return false
			}
			return true
		case <-time.After(3 * time.Second):
			t.Errorf("after writing %q: no output within 3s although the value is complete; jqawk is waiting for more input", input)
			return false
		}
	}

	ok := expect("[1, 2, 3]\n", "6\n")
	if ok {
		ok = expect("[2, 3, 4]\n", "9\n")
	}

	// end of input: let jqawk finish whatever happened above
	w.Close()
	var code int
	select {
	case code = <-exit:
	case <-time.After(5 * time.Second):
		restore()
		t.Fatal("jqawk did not terminate after its input was closed")
	}
	restore()
	outR.Close()
	devnull.Close()

	if ok && code != 0 {
		t.Fatalf("expected exit code 0, got %d", code)
	}
}
