package main

import (
	"fmt"
	"strings"
	"testing"

	lang "github.com/alligator/jqawk/src"
)

// runDemoC01P runs a program through lang.EvalProgram and classifies how the
// run ended: "ok", one of the three reported error kinds, an untyped error, or
// an internal panic.
func runDemoC01P(prog string, input string) (out string, kind string, detail string) {
	var sb strings.Builder
	defer func() {
		if r := recover(); r != nil {
			out = sb.String()
			kind = "panic"
			detail = fmt.Sprint(r)
		}
	}()
	files := []lang.InputFile{{Name: "<demo>", Reader: strings.NewReader(input)}}
	_, err := lang.EvalProgram(prog, files, nil, &sb, false)
	if err == nil {
		return sb.String(), "ok", ""
	}
	switch err.(type) {
	case lang.SyntaxError:
		return sb.String(), "syntax", err.Error()
	case lang.RuntimeError:
		return sb.String(), "runtime", err.Error()
	case lang.JsonError:
		return sb.String(), "json", err.Error()
	}
	return sb.String(), "untyped", fmt.Sprintf("%#v", err)
}

// Property: an internal control-flow signal (next, exit, break, continue,
// return) never surfaces to the caller as an error; a run ends in success or
// in a syntax, runtime or JSON error.
//
// The programs below place break/continue in a match body that sits in the
// HEADER of a for loop (iterable, init, condition or post expression), where
// no loop is running yet or the loop does not look at the signal.
func TestDemoC01P(t *testing.T) {
	cases := []struct{ prog, input string }{
		// break in the iterable of a for-in loop in BEGIN
		{`BEGIN { for (x in match (1) { 1 => { break } }) { print x } print "after" }`, `[1]`},
		// continue in the post expression of a for loop in a pattern rule
		{`{ for (i = 0; i < 3; match (i) { 1 => { continue }, n => i++ }) { print i } }`, `[1]`},
		// break in the init expression, inside a function, reached only for
		// the input value 0 (the second element)
		{`function scan(v) { for (k = match (v) { 0 => { break } }; k < 1; k++) { } return 1 }
		  { print scan($) }`, `[1, 0, 1]`},
		// break in the condition, in an END rule
		{`END { for (i = 0; match (i) { 2 => { break }, n => true }; i++) { print i } }`, `[1]`},
	}
	for _, c := range cases {
		out, kind, detail := runDemoC01P(c.prog, c.input)
		switch kind {
		case "ok", "syntax", "runtime", "json":
			t.Logf("%s (%s) out=%q", kind, detail, out)
		default:
			t.Errorf("program %q on input %s ended with %s: %s (output so far %q)", c.prog, c.input, kind, detail, out)
		}
	}
}
