package main

import (
	"strings"
	"testing"

	lang "github.com/alligator/jqawk/src"
)

// Recursion whose recursive call sits inside a match body must hit the call
// depth limit like any other recursion shape.
func TestDemoC20A(t *testing.T) {
	run := func(prog string) (string, error) {
		var sb strings.Builder
		_, err := lang.EvalProgram(prog, []lang.InputFile{}, nil, &sb, false)
		return sb.String(), err
	}

	// sanity: a thousand deep through match bodies works
	out, err := run(`
		function down(n) {
			if (n == 0) {
				return 0
			}
			return match (n) {
				x => down(x - 1) + 1,
			}
		}
		BEGIN { print down(1000) }
	`)
	if err != nil {
		t.Fatalf("recursion 1000 deep through match failed: %v", err)
	}
	if out != "1000\n" {
		t.Fatalf("unexpected output %q", out)
	}

	// 6000 deep is past the limit of 4096 frames: it must be refused with a
	// runtime error and output printed before must be kept
	for _, prog := range []string{
		// expression-bodied case
		`
		function down(n) {
			if (n == 0) {
				return 0
			}
			return match (n) {
				x => down(x - 1) + 1,
			}
		}
		BEGIN { print 'before'; print down(6000) }
		`,
		// block-bodied case
		`
		function down(n) {
			if (n == 0) {
				return 0
			}
			match (n) {
				x => {
					return down(x - 1) + 1
				}
			}
		}
		BEGIN { print 'before'; print down(6000) }
		`,
	} {
		out, err = run(prog)
		if err == nil {
			t.Fatalf("recursion 6000 deep through a match body was not refused, output %q", out)
		}
		rtErr, ok := err.(lang.RuntimeError)
		if !ok {
			t.Fatalf("expected a RuntimeError, got %#v", err)
		}
		if !strings.Contains(rtErr.Message, "call depth limit exceeded") {
			t.Fatalf("unexpected error message %q", rtErr.Message)
		}
		if out != "before\n" {
			t.Fatalf("prior output not kept: %q", out)
		}
	}
}
