package main

import (
	"errors"
	"io"
	"strings"
	"testing"

	lang "github.com/alligator/jqawk/src"
)

// a reader that hands out its data and then fails with an I/O error
type demoC03KFailingReader struct {
	data string
	pos  int
}

func (r *demoC03KFailingReader) Read(p []byte) (int, error) {
	if r.pos >= len(r.data) {
		return 0, errors.New("demo: device error")
	}
	n := copy(p, r.data[r.pos:])
	r.pos += n
	return n, nil
}

// A truncated or unreadable value must be reported as a JSON input error
// naming the file, whatever the program's END rules do: it is never silently
// treated as the end of the input.
func TestDemoC03K(t *testing.T) {
	// the program leaves through `exit` in its END rule, a common way to stop
	// a script once the totals are out
	prog := `{ print $ } END { exit }`

	cases := []struct {
		name   string
		reader io.Reader
	}{
		{"truncated second value", strings.NewReader("[1, 2]\n[3, 4")},
		{"stray text after the first value", strings.NewReader("[1, 2]\n] [3]")},
		{"reader fails after the first value", &demoC03KFailingReader{data: "[1, 2]\n"}},
	}

	for _, tc := range cases {
		var out strings.Builder
		files := []lang.InputFile{{Name: "data.json", Reader: tc.reader}}
		_, err := lang.EvalProgram(prog, files, nil, &out, false)

		if out.String() != "1\n2\n" {
			t.Errorf("%s: the complete first value must be processed, got output %q", tc.name, out.String())
		}
		jsonErr, ok := err.(lang.JsonError)
		if !ok {
			t.Errorf("%s: expected a JsonError, got %#v", tc.name, err)
			continue
		}
		if jsonErr.FileName != "data.json" {
			t.Errorf("%s: the error names %q, expected data.json", tc.name, jsonErr.FileName)
		}
	}
}
