package main

import (
	"strings"
	"testing"

	lang "github.com/alligator/jqawk/src"
)

// contains(v) must give the same answer as comparing v with == against each
// element in order. The arrays here mix numbers with strings that do not hold
// a number ("abc", ""), which == reads as 0.
func TestDemoC15O(t *testing.T) {
	prog := `
		function has(arr, v) {
			for (x in arr) {
				if (x == v) return true
			}
			return false
		}

		BEGIN {
			arrays = [
				["abc", "", "7", 3, true, null],
				["abc"],
				[0],
				[1, ""],
				[5, "five", 0.5]
			]
			probes = [0, "abc", 7, "3", 1, "", false, null, "x", 2, "five", "0.5"]
			for (a in arrays) {
				for (p in probes) {
					print a.contains(p), has(a, p)
				}
			}
		}
	`

	var sb strings.Builder
	if _, err := lang.EvalProgram(prog, nil, nil, &sb, false); err != nil {
		t.Fatalf("program failed: %v", err)
	}

	lines := strings.Split(strings.TrimSpace(sb.String()), "\n")
	if len(lines) != 5*12 {
		t.Fatalf("expected %d lines of output, got %d:\n%s", 5*12, len(lines), sb.String())
	}
	for i, line := range lines {
		fields := strings.Fields(line)
		if len(fields) != 2 {
			t.Fatalf("line %d: unexpected output %q", i, line)
		}
		if fields[0] != fields[1] {
			t.Errorf("array #%d, probe #%d: contains says %s, == over the elements says %s",
				i/12, i%12, fields[0], fields[1])
		}
	}

	// two of the cases spelled out
	sb.Reset()
	prog2 := `BEGIN { print ["abc"].contains(0), "abc" == 0, [0, 1].contains(""), 0 == "" }`
	if _, err := lang.EvalProgram(prog2, nil, nil, &sb, false); err != nil {
		t.Fatalf("program failed: %v", err)
	}
	if got, expected := sb.String(), "true true true true\n"; got != expected {
		t.Errorf("expected %q, got %q", expected, got)
	}
}
