package main

import (
	"strings"
	"testing"

	lang "github.com/alligator/jqawk/src"
)

// runDemoC06C evaluates a jqawk program with no input and returns what it
// printed, or the error text.
func runDemoC06C(t *testing.T, prog string) string {
	t.Helper()
	var sb strings.Builder
	_, err := lang.EvalProgram(prog, []lang.InputFile{}, nil, &sb, false)
	if err != nil {
		return "ERROR: " + err.Error()
	}
	return sb.String()
}

// Assignment operators (= += -= *= /=) group right to left, so a chain of
// them means the same as its fully parenthesised form  x op= (y op= (z ...)).
func TestDemoC06C(t *testing.T) {
	cases := []struct {
		name     string
		bare     string
		parens   string
		expected string
	}{
		{
			name:     "/= then /=",
			bare:     "BEGIN { a = 8; b = 4; a /= b /= 2; print a, b }",
			parens:   "BEGIN { a = 8; b = 4; a /= (b /= 2); print a, b }",
			expected: "4 2\n",
		},
		{
			name:     "/= then =",
			bare:     "BEGIN { a = 8; b = 1; a /= b = 4; print a, b }",
			parens:   "BEGIN { a = 8; b = 1; a /= (b = 4); print a, b }",
			expected: "2 4\n",
		},
		{
			name:     "/= then +=",
			bare:     "BEGIN { a = 12; b = 1; a /= b += 2; print a, b }",
			parens:   "BEGIN { a = 12; b = 1; a /= (b += 2); print a, b }",
			expected: "4 3\n",
		},
		{
			name:     "= then /= then *=",
			bare:     "BEGIN { a = 0; b = 24; c = 2; a = b /= c *= 3; print a, b, c }",
			parens:   "BEGIN { a = 0; b = 24; c = 2; a = (b /= (c *= 3)); print a, b, c }",
			expected: "4 4 6\n",
		},
		{
			// the other compound operators, for comparison
			name:     "*= then -=",
			bare:     "BEGIN { a = 3; b = 5; a *= b -= 1; print a, b }",
			parens:   "BEGIN { a = 3; b = 5; a *= (b -= 1); print a, b }",
			expected: "12 4\n",
		},
	}

	for _, tc := range cases {
		bare := runDemoC06C(t, tc.bare)
		parens := runDemoC06C(t, tc.parens)
		if parens != tc.expected {
			t.Errorf("%s: parenthesised form printed %q, expected %q", tc.name, parens, tc.expected)
		}
		if bare != parens {
			t.Errorf("%s: %q printed %q but its fully parenthesised form %q printed %q",
				tc.name, tc.bare, bare, tc.parens, parens)
		}
	}
}
