package main

import (
	"strings"
	"testing"

	lang "github.com/alligator/jqawk/src"
)

// The pad character is chosen per directive: only a width written with a
// leading 0 pads with zeros. A zero-padded directive must not influence the
// padding of the directives that follow it in the same format string.
func TestDemoC18K(t *testing.T) {
	cases := []struct {
		prog     string
		expected string
	}{
		// zero-padded number first, then a space-padded string (left and right)
		{`BEGIN { printf("%04f|%6s|%-6s|\n", 7, "ab", "cd") }`, "0007|    ab|cd    |\n"},
		// the other order is what the existing tests use
		{`BEGIN { printf("%6s|%04f|\n", "ab", 7) }`, "    ab|0007|\n"},
		// a zero-padded %v followed by a space-padded %f
		{`BEGIN { printf("%03v %5f\n", null, 1.5) }`, "null   1.5\n"},
		{`BEGIN { printf("%06v %5f\n", null, 1.5) }`, "00null   1.5\n"},
		// a zero width (leading 0, pads nothing) followed by a padded string
		{`BEGIN { printf("%0s%3s\n", "x", "y") }`, "x  y\n"},
		// separate printf calls never shared anything
		{`BEGIN { printf("%03f\n", 1); printf("%3f\n", 1) }`, "001\n  1\n"},
	}

	for _, tc := range cases {
		var sb strings.Builder
		_, err := lang.EvalProgram(tc.prog, []lang.InputFile{}, nil, &sb, false)
		if err != nil {
			t.Fatalf("%s: unexpected error %v", tc.prog, err)
		}
		if sb.String() != tc.expected {
			t.Errorf("%s:\nexpected %q\ngot      %q", tc.prog, tc.expected, sb.String())
		}
	}
}
