package main

import (
	"strings"
	"testing"

	lang "github.com/alligator/jqawk/src"
)

// Ideal-list behaviour: push(v) appends ONE value (here null, the result of an
// index read past the end), and a later index write to that slot replaces
// exactly that element; no other array changes and no length changes.
func TestDemoC15E(t *testing.T) {
	prog := `
		BEGIN {
			# one array: push the (null) result of a read past its own end,
			# then overwrite the pushed slot by index
			a = [1]
			a.push(a[5])
			print a, a.length()
			a[1] = 7
			print a, a.length()
			print a.pop(), a.length()

			# two arrays: the value pushed onto c was read past the end of b
			b = [10]
			c = []
			c.push(b[2])
			c[-1] = 5
			print b, b.length()
			print c, c.length()
			print c.contains(5)
		}
	`
	expected := "" +
		"[1, null] 2\n" +
		"[1, 7] 2\n" +
		"7 1\n" +
		"[10] 1\n" +
		"[5] 1\n" +
		"true\n"

	var sb strings.Builder
	_, err := lang.EvalProgram(prog, []lang.InputFile{}, nil, &sb, false)
	if err != nil {
		t.Fatalf("unexpected error: %v", err)
	}
	if sb.String() != expected {
		t.Fatalf("arrays do not behave like ideal lists\nexpected:\n%s\ngot:\n%s", expected, sb.String())
	}
}
