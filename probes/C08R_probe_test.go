package main

import (
	"strings"
	"testing"

	lang "github.com/alligator/jqawk/src"
)

func demoC08RRun(t *testing.T, prog string, json string) string {
	t.Helper()
	files := []lang.InputFile{{Name: "<demo>", Reader: strings.NewReader(json)}}
	var sb strings.Builder
	if _, err := lang.EvalProgram(prog, files, nil, &sb, false); err != nil {
		t.Fatalf("unexpected error: %v", err)
	}
	return sb.String()
}

// Arguments bind to parameters by position; every parameter that gets no
// argument is null and is a variable of its own. This is the awk idiom of
// declaring a function's locals as extra parameters.
func TestDemoC08R(t *testing.T) {
	prog := `
		function minmax(list, lo, hi, i) {
			lo = list[0]
			# hi got no argument: it is still null here, whatever happened to lo
			print 'hi before:', hi, hi is null
			for (i = 0; i < list.length(); i++) {
				if (list[i] < lo) lo = list[i]
				if (hi is null || list[i] > hi) hi = list[i]
			}
			return lo + '..' + hi
		}
		function count(n, seen, total) {
			seen++
			# total got no argument, incrementing seen must not touch it
			return total
		}
		{
			print minmax($)
			# with lo passed explicitly only hi and i are missing
			print minmax($, 100)
			print count(1), count(1, 5), count(1, 5, 6)
		}
	`
	got := demoC08RRun(t, prog, `[[3, 1, 2], [9, 7, 8]]`)
	want := "hi before: null true\n" +
		"1..3\n" +
		"hi before: null true\n" +
		"1..3\n" +
		"null null 6\n" +
		"hi before: null true\n" +
		"7..9\n" +
		"hi before: null true\n" +
		"7..9\n" +
		"null null 6\n"
	if got != want {
		t.Fatalf("parameters without an argument must each be an independent null\nwant:\n%s\ngot:\n%s", want, got)
	}
}
