package main

import (
	"strings"
	"testing"

	lang "github.com/alligator/jqawk/src"
)

// n.floor() is the mathematical floor of n for every finite double, however
// large: a double of magnitude 2^53 or more is an integer already, so its
// floor is the number itself.
func TestDemoC16H(t *testing.T) {
	run := func(prog string, input string) string {
		t.Helper()
		var sb strings.Builder
		files := []lang.InputFile{}
		if input != "" {
			files = append(files, lang.InputFile{Name: "<demo>", Reader: strings.NewReader(input)})
		}
		if _, err := lang.EvalProgram(prog, files, nil, &sb, false); err != nil {
			t.Fatalf("program %q failed: %v", prog, err)
		}
		return sb.String()
	}

	// ordinary magnitudes, fractions and negatives included
	got := run(`{ print $.floor() }`, `[2.5, -2.5, 7, -7, 0.25, -0.25, 4503599627370496.5, 9007199254740992, -9007199254740992]`)
	expected := "2\n-3\n7\n-7\n0\n-1\n4503599627370496\n9007199254740992\n-9007199254740992\n"
	if got != expected {
		t.Errorf("floor of ordinary numbers\n got:      %q\n expected: %q", got, expected)
	}

	// huge numbers read from the input: floor(n) == n, and so do ceil and round
	got = run(`{ f = $.floor(); print f == $, f == $.ceil(), f == $.round(), f > 1000 || f < -1000 }`,
		`[1e19, -1e19, 1e300, -1e300, 1.7976931348623157e308]`)
	expected = strings.Repeat("true true true true\n", 5)
	if got != expected {
		t.Errorf("floor of huge numbers from the input\n got:      %q\n expected: %q", got, expected)
	}

	// the same for a huge number made by the program, printed in full
	got = run(`BEGIN { n = num("1e30"); print n.floor(); m = 1; for (i = 0; i < 25; i++) m = m * 10; print m.floor() - m }`, "")
	expected = "1000000000000000000000000000000\n0\n"
	if got != expected {
		t.Errorf("floor of huge numbers made by the program\n got:      %q\n expected: %q", got, expected)
	}
}
