package main

import (
	"io"
	"strings"
	"testing"
	"testing/iotest"

	lang "github.com/alligator/jqawk/src"
)

// A value the JSON decoder rejects must end the run with a JsonError naming the
// file, after the earlier values were processed and without any rule seeing the
// rejected value. The rejected value here is the rare kind: syntactically fine,
// but holding a number outside the float64 range (a one byte corruption of
// 1e308 into 9e308).
func TestDemoC03D(t *testing.T) {
	valid := "[1, 2]\n{\"a\": 1e308, \"b\": 5}\n[3]\n"
	corrupt := strings.Replace(valid, "1e308", "9e308", 1)
	prog := "BEGINFILE { print 'begin' } { print } ENDFILE { print 'end' }"

	run := func(name string, r io.Reader) (string, error) {
		var sb strings.Builder
		files := []lang.InputFile{{Name: name, Reader: r}}
		_, err := lang.EvalProgram(prog, files, nil, &sb, false)
		return sb.String(), err
	}

	// sanity: the uncorrupted stream is processed completely
	out, err := run("<valid>", strings.NewReader(valid))
	if err != nil {
		t.Fatalf("valid stream: unexpected error %v", err)
	}
	wantValid := "begin\n1\n2\nend\nbegin\n{\"a\": 1" + strings.Repeat("0", 308) + ", \"b\": 5}\nend\nbegin\n3\nend\n"
	if out != wantValid {
		t.Fatalf("valid stream: expected output %q\ngot %q", wantValid, out)
	}

	readers := map[string]func() io.Reader{
		"whole":    func() io.Reader { return strings.NewReader(corrupt) },
		"one-byte": func() io.Reader { return iotest.OneByteReader(strings.NewReader(corrupt)) },
	}
	for name, mk := range readers {
		out, err := run("<demo>", mk())

		// only the first value is complete and acceptable
		want := "begin\n1\n2\nend\n"
		if out != want {
			t.Errorf("%s: expected output %q (the values before the bad one, and no rule run on the bad one)\ngot %q", name, want, out)
		}

		jsonErr, ok := err.(lang.JsonError)
		if !ok {
			t.Errorf("%s: expected a lang.JsonError for the out-of-range number, got %#v", name, err)
			continue
		}
		if jsonErr.FileName != "<demo>" {
			t.Errorf("%s: expected the error to name <demo>, got %q", name, jsonErr.FileName)
		}
	}
}
