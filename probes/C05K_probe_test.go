package main

import (
	"bytes"
	"strings"
	"testing"

	lang "github.com/alligator/jqawk/src"
)

// a ~ b / a !~ b must test the pattern b has *now*. A regex is a first-class
// value: it can be kept in a variable, an array or a parameter, so one and the
// same ~ expression can see different regexes on successive evaluations.
func TestDemoC05K(t *testing.T) {
	run := func(prog, json string) string {
		t.Helper()
		var out bytes.Buffer
		files := []lang.InputFile{{Name: "in.json", Reader: strings.NewReader(json)}}
		_, err := lang.EvalProgram(prog, files, nil, &out, false)
		if err != nil {
			t.Fatalf("program %q: unexpected error: %v", prog, err)
		}
		return out.String()
	}

	// 1. regex passed as a function argument, same call site in the body
	got := run(`
		function has(s, r) { return s ~ r }
		BEGIN {
			print has("banana", /^b/), has("banana", /^x/), has("xylophone", /^x/)
		}`, `[]`)
	if want := "true false true\n"; got != want {
		t.Errorf("regex parameter: got %q, want %q", got, want)
	}

	// 2. regexes iterated out of an array, matched against a document field
	got = run(`
		BEGIN { pats = [/^A/, /a$/, /^$/] }
		{
			line = $.name
			for (p in pats) {
				if ($.name ~ p) { line = line + " y" } else { line = line + " n" }
				if ($.name !~ p) { line = line + "Y" } else { line = line + "N" }
			}
			print line
		}`, `[{"name": "Asia"}, {"name": "Africa"}, {"name": "Europe"}, {"name": ""}]`)
	want := "Asia yN yN nY\nAfrica yN yN nY\nEurope nY nY nY\n nY nY yN\n"
	if got != want {
		t.Errorf("regexes from an array: got %q, want %q", got, want)
	}

	// 3. a variable reassigned between two runs of the same rule; the second
	// pattern is invalid and must be reported, not silently replaced by the first
	var out bytes.Buffer
	files := []lang.InputFile{{Name: "in.json", Reader: strings.NewReader(`["ab", "cd"]`)}}
	_, err := lang.EvalProgram(`
		BEGIN { r = /a/ }
		{ print $ ~ r; r = /(/ }`, files, nil, &out, false)
	if err == nil {
		t.Errorf("invalid pattern on the second item: expected a runtime error, got output %q", out.String())
	} else if out.String() != "true\n" {
		t.Errorf("invalid pattern on the second item: output before the error %q, want %q", out.String(), "true\n")
	}
}
