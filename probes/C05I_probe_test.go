package main

import (
	"strings"
	"testing"

	lang "github.com/alligator/jqawk/src"
)

// C05: operators compute the documented result for every operand kind and
// value, whether the operand is a literal, a variable or a document field.
// A negative zero read from a document is the IEEE double -0 like the literal
// -0: its string form is "-0" (so + with a string yields "-0..."), negating it
// yields +0, and it still is a zero divisor.
func TestDemoC05I(t *testing.T) {
	run := func(prog string, doc string) (string, error) {
		var sb strings.Builder
		files := []lang.InputFile{{Name: "<demo>", Reader: strings.NewReader(doc)}}
		_, err := lang.EvalProgram(prog, files, nil, &sb, false)
		return sb.String(), err
	}

	prog := `{
		x = -0
		print "lit:" + x, "neg:" + (-x), "mul:" + (x * 1), "sub:" + (0 - x), "add:" + (x + 0) + "."
		print "lit:" + $.z, "neg:" + (-$.z), "mul:" + ($.z * 1), "sub:" + (0 - $.z), "add:" + ($.z + 0) + "."
		print "lit:" + $.a[0], "neg:" + (-$.a[0]), "mul:" + ($.a[0] * 1), "sub:" + (0 - $.a[0]), "add:" + ($.a[0] + 0) + "."
		print $.z == 0, $.z < 0, $.z ~ "^-", !$.z, $.z is number, $.f + "", $.big + "", $.n + 1
	}`
	doc := `{"z": -0, "a": [-0], "f": -0.0, "big": 9007199254740993, "n": -7}`

	got, err := run(prog, doc)
	if err != nil {
		t.Fatalf("unexpected error: %v", err)
	}
	lit := "lit:-0 neg:0 mul:-0 sub:0 add:0.\n"
	want := lit + lit + lit + "true false true true true -0 9007199254740992 -6\n"
	if got != want {
		t.Fatalf("operators on a negative zero taken from the document:\n got: %q\nwant: %q", got, want)
	}

	// the (negative) zero divisor is still an error
	for _, p := range []string{`{ print 1 / $.z }`, `{ print 1 % $.z }`} {
		if _, err := run(p, doc); err == nil {
			t.Fatalf("%s: expected a divide by zero error", p)
		} else if _, ok := err.(lang.RuntimeError); !ok {
			t.Fatalf("%s: expected a runtime error, got %#v", p, err)
		}
	}
}
