package main

import (
	"strings"
	"testing"

	lang "github.com/alligator/jqawk/src"
)

// Property: the standard output of a run is a function only of the program
// text, the root selectors and the input bytes; repeating the run yields
// byte-identical results -- in particular for programs that iterate objects
// with two or more keys.
//
// The input object has keys that are different strings but spell the same
// number ("1", "1.0", "01", "1.00"), next to ordinary ones.
func TestDemoC10M(t *testing.T) {
	const prog = `{ for (k, v in $) { out = out + k + "=" + v + ";" } print out }`
	const input = `{"1": "a", "1.0": "b", "01": "c", "1.00": "d", "x": "e", "2": "f"}`

	run := func() string {
		var sb strings.Builder
		files := []lang.InputFile{{Name: "<demo>", Reader: strings.NewReader(input)}}
		_, err := lang.EvalProgram(prog, files, nil, &sb, false)
		if err != nil {
			t.Fatalf("unexpected error: %v", err)
		}
		return sb.String()
	}

	first := run()
	if !strings.HasSuffix(first, "\n") || strings.Count(first, "=") != 6 {
		t.Fatalf("unexpected output %q", first)
	}
	for i := 1; i < 200; i++ {
		if got := run(); got != first {
			t.Fatalf("run %d printed %q, the first run printed %q: the output of the same program on the same input changed", i, got, first)
		}
	}
}
