package main

import (
	"bytes"
	"os"
	"os/exec"
	"path/filepath"
	"testing"
)

// `-r E` behaves as `BEGINFILE { $ = E }` (for programs that do not look at $
// in BEGINFILE/ENDFILE rules), whatever expression E is, and the selectors are
// handed to the interpreter as given, in the order given: standard output,
// the JSON written by -o and the exit status are the same.
func TestDemoC14P(t *testing.T) {
	dir := t.TempDir()
	exe := filepath.Join(dir, "jqawk-demo")
	build := exec.Command("go", "build", "-o", exe, ".")
	if out, err := build.CombinedOutput(); err != nil {
		t.Fatalf("building the command failed: %v\n%s", err, out)
	}

	input := `{ "a": [1, 2], "b": [3], "s": "x,y,z", "people": [{ "name": "ann", "age": 30, "id": 7 }] }`
	if err := os.WriteFile(filepath.Join(dir, "data.json"), []byte(input), 0o644); err != nil {
		t.Fatal(err)
	}

	run := func(args ...string) (string, int) {
		cmd := exec.Command(exe, args...)
		cmd.Dir = dir
		cmd.Stdin = bytes.NewReader(nil)
		var stdout, stderr bytes.Buffer
		cmd.Stdout = &stdout
		cmd.Stderr = &stderr
		err := cmd.Run()
		code := 0
		if err != nil {
			if ee, ok := err.(*exec.ExitError); ok {
				code = ee.ExitCode()
			} else {
				t.Fatalf("running %v: %v", args, err)
			}
		}
		if code != 0 && stderr.Len() == 0 {
			t.Errorf("%v: exit status %d without a diagnostic", args, code)
		}
		return stdout.String(), code
	}

	rules := ` { print "item", $ } END { print "done" }`

	cases := []struct {
		selector string
		ok       bool
	}{
		{`$.a`, true},
		{`$.people[0].name`, true},
		// selectors that happen to contain a comma
		{`[$.a, $.b]`, true},
		{`$.s.split(",")`, true},
		{`$.people[0].pluck("name", "age")`, true},
		{`{ "first": $.a[0], "rest": $.b }`, true},
		// not an expression: an error either way
		{`$.a, $.b`, false},
	}

	for _, tc := range cases {
		gotOut, gotCode := run("-o", "-", "-r", tc.selector, rules, "data.json")
		wantOut, wantCode := run("-o", "-", "BEGINFILE { $ = "+tc.selector+" }"+rules, "data.json")

		if (wantCode == 0) != tc.ok {
			t.Fatalf("BEGINFILE { $ = %s }: exit status %d, output %q", tc.selector, wantCode, wantOut)
		}
		if (gotCode == 0) != (wantCode == 0) {
			t.Errorf("-r %q: exit status %d, but BEGINFILE { $ = %s } gives %d", tc.selector, gotCode, tc.selector, wantCode)
			continue
		}
		if gotOut != wantOut {
			t.Errorf("-r %q printed %q, but BEGINFILE { $ = %s } prints %q", tc.selector, gotOut, tc.selector, wantOut)
		}
	}

	// several selectors are still processed one after the other, in order
	out, code := run("-r", "$.b", "-r", "[$.a, $.s]", "-r", "$.a", "{ print }", "data.json")
	want := "3\n[1, 2]\nx,y,z\n1\n2\n"
	if code != 0 || out != want {
		t.Errorf("-r $.b -r [$.a, $.s] -r $.a: exit status %d, output %q, want %q", code, out, want)
	}
}
