package main

import (
	"strings"
	"testing"

	lang "github.com/alligator/jqawk/src"
)

// A case with a block body that matches must end the match: no later case
// (here the trailing catch-all) may be tried, and the match yields null.
func TestDemoC19A(t *testing.T) {
	prog := `
		{
			r = match ($) {
				[a, b] => { print 'pair', a, b }
				other => 'fallback'
			}
			print 'result', r
		}
	`
	input := `[[7, 8], 3]`
	expected := "pair 7 8\nresult null\nresult fallback\n"

	inputFiles := []lang.InputFile{
		{Name: "<test>", Reader: strings.NewReader(input)},
	}
	var sb strings.Builder
	_, err := lang.EvalProgram(prog, inputFiles, nil, &sb, false)
	if err != nil {
		t.Fatalf("unexpected error: %v", err)
	}
	if sb.String() != expected {
		t.Fatalf("unexpected output\nexpected %q\ngot      %q", expected, sb.String())
	}
}
