package main

import (
	"encoding/json"
	"flag"
	"io"
	"os"
	"path/filepath"
	"reflect"
	"testing"

	cli "github.com/alligator/jqawk/cli"
)

// -o - must write JSON that parses back to the input document, whatever
// characters the strings of the document contain (here: percent signs, in a
// key and in values).
func TestDemoC04O(t *testing.T) {
	const doc = `{"rate %": "100%", "fmt": ["%d items", "50%s off", "a%%b"], "n": 1}`

	dir := t.TempDir()
	inPath := filepath.Join(dir, "in.json")
	if err := os.WriteFile(inPath, []byte(doc), 0o644); err != nil {
		t.Fatal(err)
	}

	// drive the real command line entry point with stdout redirected to a pipe
	oldArgs, oldFlags, oldStdout := os.Args, flag.CommandLine, os.Stdout
	defer func() {
		os.Args, flag.CommandLine, os.Stdout = oldArgs, oldFlags, oldStdout
	}()
	r, w, err := os.Pipe()
	if err != nil {
		t.Fatal(err)
	}
	os.Args = []string{"jqawk", "-o", "-", "BEGIN { }", inPath}
	flag.CommandLine = flag.NewFlagSet("jqawk", flag.ContinueOnError)
	os.Stdout = w

	outCh := make(chan []byte)
	go func() {
		b, _ := io.ReadAll(r)
		outCh <- b
	}()

	rc := cli.Run("test")
	w.Close()
	os.Stdout = oldStdout
	out := <-outCh

	if rc != 0 {
		t.Fatalf("exit code %d", rc)
	}

	var want, got interface{}
	if err := json.Unmarshal([]byte(doc), &want); err != nil {
		t.Fatal(err)
	}
	if err := json.Unmarshal(out, &got); err != nil {
		t.Fatalf("-o - wrote invalid JSON: %v\n%s", err, out)
	}
	if !reflect.DeepEqual(want, got) {
		t.Fatalf("-o - wrote a different document\nwant %#v\ngot  %#v\nraw:\n%s", want, got, out)
	}
}
