package main

import (
	"strings"
	"testing"

	lang "github.com/alligator/jqawk/src"
)

// All comparison operators (== != < <= > >= ~ !~ is) share one precedence
// level and group left to right, so a == b > c means (a == b) > c. Each
// expression is compared with its fully parenthesised form.
func TestDemoC06J(t *testing.T) {
	run := func(prog string) string {
		var sb strings.Builder
		_, err := lang.EvalProgram(prog, nil, nil, &sb, false)
		if err != nil {
			t.Fatalf("%s: unexpected error %v", prog, err)
		}
		return sb.String()
	}

	cases := []struct{ plain, parens, want string }{
		// equality first, a relational operator second
		{"two == two > zero", "((two == two) > zero)", "true\n"},
		{"one != five <= nine", "((one != five) <= nine)", "true\n"},
		{"one == s ~ '^$'", "((one == s) ~ '^$')", "true\n"},
		{"one == two is number", "((one == two) is number)", "false\n"},
		// the other order has always meant the same in both readings
		{"two > zero == true", "((two > zero) == true)", "true\n"},
	}
	for _, c := range cases {
		setup := "BEGIN { zero = 0; one = 1; two = 2; five = 5; nine = 9; s = 'x'; print "
		plain := run(setup + c.plain + " }")
		parens := run(setup + c.parens + " }")
		if plain != parens {
			t.Errorf("%s evaluates to %q but its fully parenthesised form %s to %q", c.plain, plain, c.parens, parens)
		}
		if parens != c.want {
			t.Errorf("%s evaluates to %q, expected %q", c.parens, parens, c.want)
		}
	}
}
