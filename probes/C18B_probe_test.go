package main

import (
	"strings"
	"testing"

	lang "github.com/alligator/jqawk/src"
)

// printf must emit exactly the expanded format and nothing else, also when the
// expansion itself contains percent signs -- produced by %% or coming from the
// rendering of an argument (i.e. from the data).
func TestDemoC18B(t *testing.T) {
	cases := []struct {
		prog     string
		json     string
		expected string
	}{
		// no percent sign in the output: the ordinary case
		{`BEGIN { printf("%5s|%-4f|%v\n", "ab", 1.5, [1, 2]) }`, "", "   ab|1.5 |[1, 2]\n"},
		// %% becomes a single percent sign
		{`BEGIN { printf("%f%%\n", 50) }`, "", "50%\n"},
		{`BEGIN { printf("%% done: %s", "all") }`, "", "% done: all"},
		// percent signs that come from the argument renderings
		{`{ printf("%s|%8s|", $.label, $.pct) }`, `[{ "label": "100%d", "pct": "7.5%" }]`, "100%d|    7.5%|"},
		{`{ printf("%v", $) }`, `["5%s off"]`, "5%s off"},
	}

	for _, tc := range cases {
		var files []lang.InputFile
		if tc.json != "" {
			files = []lang.InputFile{{Name: "<test>", Reader: strings.NewReader(tc.json)}}
		}
		var sb strings.Builder
		_, err := lang.EvalProgram(tc.prog, files, nil, &sb, false)
		if err != nil {
			t.Fatalf("%s: unexpected error: %v", tc.prog, err)
		}
		if sb.String() != tc.expected {
			t.Errorf("%s:\nexpected %q\n     got %q", tc.prog, tc.expected, sb.String())
		}
	}
}
