package main

import (
	"strings"
	"testing"

	lang "github.com/alligator/jqawk/src"
)

// Comparing a container with a scalar is a runtime fault wherever it is
// evaluated, including when a literal inside an array pattern of a match case
// is tested against an element that is itself an array or an object. The run
// has to stop there: output printed before the match is kept, nothing after it
// is printed, and the fault is reported as a RuntimeError (not treated as "this
// case does not match").
func TestDemoC11F(t *testing.T) {
	progs := []struct {
		name     string
		src      string
		json     string
		expected string
		msg      string
	}{
		{
			name: "array element against a number literal, later alternative would match",
			src: "BEGIN {\n" +
				"  print \"before\"\n" +
				"  r = match ([[1], 2]) { [3, x] => \"first\", [y, 2] => \"second\" }\n" +
				"  print r\n" +
				"  print \"after\"\n" +
				"}",
			json:     "[]",
			expected: "before\n",
			msg:      "cannot compare array and number",
		},
		{
			name: "object element of the input against a string literal, in a rule body",
			src: "{\n" +
				"  print \"item\", $index\n" +
				"  match ($) { [\"k\", v] => { print \"pair\", v } }\n" +
				"  print \"done\", $index\n" +
				"}\n" +
				"END { print \"end\" }",
			json:     `[["k", 1], [{"k": 1}, 2], ["k", 3]]`,
			expected: "item 0\npair 1\ndone 0\nitem 1\n",
			msg:      "cannot compare object and string",
		},
		{
			name: "doubly nested pattern, fault in the innermost array",
			src: "BEGIN {\n" +
				"  print \"start\"\n" +
				"  match ([[[7]]]) { [[8]] => { print \"eight\" }, whatever => { print \"fallback\" } }\n" +
				"  print \"finish\"\n" +
				"}",
			json:     "[]",
			expected: "start\n",
			msg:      "cannot compare array and number",
		},
	}

	for _, p := range progs {
		var out strings.Builder
		files := []lang.InputFile{{Name: "<demo>", Reader: strings.NewReader(p.json)}}
		_, err := lang.EvalProgram(p.src, files, nil, &out, false)
		if err == nil {
			t.Fatalf("%s: expected a runtime error, got none (output %q)", p.name, out.String())
		}
		rtErr, ok := err.(lang.RuntimeError)
		if !ok {
			t.Fatalf("%s: expected a lang.RuntimeError, got %T %q", p.name, err, err.Error())
		}
		if rtErr.Message != p.msg {
			t.Fatalf("%s: expected runtime error %q, got %q", p.name, p.msg, rtErr.Message)
		}
		if out.String() != p.expected {
			t.Fatalf("%s: expected output %q, got %q", p.name, p.expected, out.String())
		}
	}
}
