package main

import (
	"strings"
	"testing"

	lang "github.com/alligator/jqawk/src"
)

// TestDemoC12D: an illegal character is reported exactly on it (line and
// 0-based byte column), wherever it sits in a multi-line program and whatever
// bytes precede it, and the quoted line is that line of the program. A lone
// '&' or '|' is an illegal character ("&&" and "||" are the operators).
func TestDemoC12D(t *testing.T) {
	cases := []struct {
		name string
		prog string
		bad  byte // the illegal character, occurs exactly once as a lone char
	}{
		{
			name: "lone & in the middle of a line",
			prog: "BEGIN {\n" +
				"  x = 6\n" +
				"  y = x & 3\n" +
				"}\n",
			bad: '&',
		},
		{
			name: "lone | directly followed by an operand",
			prog: "BEGIN {\n" +
				"\n" +
				"  # flags\n" +
				"  y = 4|1\n" +
				"}\n",
			bad: '|',
		},
		{
			name: "lone & as the last character of its line",
			prog: "$.a > 1 &\n" +
				"$.b > 2 {\n" +
				"  print\n" +
				"}\n",
			bad: '&',
		},
		{
			name: "lone | after non-ASCII bytes, CRLF line endings",
			prog: "# où est le ‘pipe’ ?\r\n" +
				"BEGIN {\r\n" +
				"  s = \"señor\"; t = s | \"x\"\r\n" +
				"}\r\n",
			bad: '|',
		},
		{
			name: "lone & is the first character of a later line",
			prog: "BEGIN {\n" +
				"  ok = 1 && 2\n" +
				"& 3\n" +
				"}\n",
			bad: '&',
		},
	}

	for _, tc := range cases {
		t.Run(tc.name, func(t *testing.T) {
			// locate the lone illegal character
			pos := -1
			for i := 0; i < len(tc.prog); i++ {
				if tc.prog[i] != tc.bad {
					continue
				}
				if i > 0 && tc.prog[i-1] == tc.bad {
					continue
				}
				if i+1 < len(tc.prog) && tc.prog[i+1] == tc.bad {
					continue
				}
				pos = i
				break
			}
			if pos < 0 {
				t.Fatalf("bad test case: no lone %q", tc.bad)
			}
			wantLine := 1 + strings.Count(tc.prog[:pos], "\n")
			wantCol := pos - (strings.LastIndex(tc.prog[:pos], "\n") + 1)
			lines := strings.Split(tc.prog, "\n")

			var out strings.Builder
			_, err := lang.EvalProgram(tc.prog, nil, nil, &out, false)
			if err == nil {
				t.Fatalf("expected a syntax error, got none")
			}
			synErr, ok := err.(lang.SyntaxError)
			if !ok {
				t.Fatalf("expected a lang.SyntaxError, got %T: %v", err, err)
			}
			if !strings.Contains(synErr.Message, "unexpected character") {
				t.Fatalf("unexpected message %q", synErr.Message)
			}

			if synErr.Line < 1 || synErr.Line > len(lines) {
				t.Fatalf("reported line %d is outside the program (%d lines)", synErr.Line, len(lines))
			}
			if synErr.SrcLine != lines[synErr.Line-1] {
				t.Errorf("quoted line %q is not line %d of the program (%q)", synErr.SrcLine, synErr.Line, lines[synErr.Line-1])
			}
			if synErr.Line != wantLine {
				t.Errorf("reported line %d (%q), want line %d (%q)", synErr.Line, synErr.SrcLine, wantLine, lines[wantLine-1])
			}
			if synErr.Col != wantCol {
				t.Errorf("reported column %d, want %d (the %q in %q)", synErr.Col, wantCol, tc.bad, lines[wantLine-1])
			} else if synErr.Col < 0 || synErr.Col >= len(synErr.SrcLine) || synErr.SrcLine[synErr.Col] != tc.bad {
				t.Errorf("column %d of the quoted line %q is not the illegal character %q", synErr.Col, synErr.SrcLine, tc.bad)
			}
		})
	}
}
