package main

import (
	"strings"
	"testing"

	lang "github.com/alligator/jqawk/src"
)

// A break/continue that is not inside any loop is a syntax error, and a syntax
// error pre-empts all execution: no output at all, however much valid program
// (including complete, properly closed loops) precedes the stray statement.
func TestDemoC11C(t *testing.T) {
	progs := []struct {
		name string
		src  string
	}{
		{
			name: "break in END after a finished loop in BEGIN",
			src: `
				BEGIN {
					print 'start'
					for (i = 0; i < 2; i++) {
						print i
					}
				}
				END {
					print 'end'
					break
					print 'unreachable'
				}
			`,
		},
		{
			name: "continue directly after a while loop in the same block",
			src: `
				BEGIN {
					print 'a'
					while (n < 2) { n++ }
					continue
					print 'b'
				}
			`,
		},
		{
			name: "break in a rule after a function that contains a loop",
			src: `
				function sum(xs) {
					for (x in xs) { s += x }
					return s
				}
				{
					print sum($)
					break
				}
			`,
		},
	}

	for _, p := range progs {
		var out strings.Builder
		files := []lang.InputFile{
			{Name: "<demo>", Reader: strings.NewReader("[[1, 2], [3, 4]]")},
		}
		_, err := lang.EvalProgram(p.src, files, nil, &out, false)

		if err == nil {
			t.Errorf("%s: expected a syntax error, got no error (output %q)", p.name, out.String())
			continue
		}
		if _, ok := err.(lang.SyntaxError); !ok {
			t.Errorf("%s: expected a lang.SyntaxError, got %T %q", p.name, err, err.Error())
		}
		if out.String() != "" {
			t.Errorf("%s: a program with a syntax error must not print anything, got %q", p.name, out.String())
		}
	}
}
