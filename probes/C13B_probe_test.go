package main

import (
	"strings"
	"testing"

	lang "github.com/alligator/jqawk/src"
)

func runDemoC13B(t *testing.T, prog string, json string) (string, error) {
	t.Helper()
	files := []lang.InputFile{{Name: "<demo>", Reader: strings.NewReader(json)}}
	var sb strings.Builder
	_, err := lang.EvalProgram(prog, files, nil, &sb, false)
	return sb.String(), err
}

// A numeric literal is a digit sequence with an optional fraction, wherever it
// stands in the program text; trailing whitespace after the last token does not
// change a program's meaning.
func TestDemoC13B(t *testing.T) {
	const json = `[1, 2, 1.5, 3]`
	const want = "2\n3\n"

	// pattern-only rule (implicit { print }); the last token of the program is
	// a numeric literal with a one-digit fraction
	layouts := []struct{ name, prog string }{
		{"trailing newline", "$ > 1.5\n"},
		{"trailing space", "$ > 1.5 "},
		{"trailing comment", "$ > 1.5# big ones"},
		{"two fraction digits", "$ > 1.50"},
		{"nothing after the literal", "$ > 1.5"},
	}

	for _, l := range layouts {
		got, err := runDemoC13B(t, l.prog, json)
		if err != nil {
			t.Fatalf("%s (%q): unexpected error: %v", l.name, l.prog, err)
		}
		if got != want {
			t.Fatalf("%s (%q): got %q, want %q", l.name, l.prog, got, want)
		}
	}
}
