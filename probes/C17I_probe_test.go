package main

import (
	"strings"
	"testing"

	lang "github.com/alligator/jqawk/src"
)

// print writes top-level strings raw and nested strings between double quotes,
// whatever characters they contain. A percent sign is an ordinary character.
func TestDemoC17I(t *testing.T) {
	cases := []struct {
		name     string
		prog     string
		json     string
		expected string
	}{
		{
			name:     "top-level string with a percent sign",
			prog:     `BEGIN { print "cpu 100%", "done" }`,
			expected: "cpu 100% done\n",
		},
		{
			name:     "string that looks like a format verb",
			prog:     `BEGIN { print "%d items", 3 }`,
			expected: "%d items 3\n",
		},
		{
			name:     "nested strings and keys from the input",
			prog:     `{ print $ }`,
			json:     `[{"rate%": "5%"}, ["50%s", 1]]`,
			expected: "{\"rate%\": \"5%\"}\n[\"50%s\", 1]\n",
		},
		{
			name:     "control: nothing special",
			prog:     `BEGIN { print "a", 1, [true, null] }`,
			expected: "a 1 [true, null]\n",
		},
	}

	for _, tc := range cases {
		var out strings.Builder
		files := []lang.InputFile{}
		if tc.json != "" {
			files = append(files, lang.InputFile{Name: "<demo>", Reader: strings.NewReader(tc.json)})
		}
		if _, err := lang.EvalProgram(tc.prog, files, nil, &out, false); err != nil {
			t.Fatalf("%s: unexpected error: %v", tc.name, err)
		}
		if out.String() != tc.expected {
			t.Errorf("%s: program %q\nexpected %q\ngot      %q", tc.name, tc.prog, tc.expected, out.String())
		}
	}
}
