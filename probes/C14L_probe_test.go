package main

import (
	"bytes"
	"errors"
	"os"
	"os/exec"
	"path/filepath"
	"strings"
	"testing"

	lang "github.com/alligator/jqawk/src"
)

type demoC14LFailingReader struct{}

func (demoC14LFailingReader) Read(p []byte) (int, error) {
	return 0, errors.New("demo read failure")
}

// Any error ends the run with a non-zero status and a diagnostic: an input
// that cannot be read, and an input that stops being JSON after some values
// that were fine.
func TestDemoC14L(t *testing.T) {
	// library: a document followed by a stray closing brace
	var sb strings.Builder
	files := []lang.InputFile{
		{Name: "first.json", Reader: strings.NewReader(`{ "a": 1 }}` + "\n" + `{ "a": 2 }`)},
		{Name: "second.json", Reader: strings.NewReader(`{ "a": 3 }`)},
	}
	_, err := lang.EvalProgram(`{ print $.a } END { print "end" }`, files, nil, &sb, false)
	if err == nil {
		t.Fatalf("stray '}' in first.json: no error, output %q", sb.String())
	}
	jsonErr, ok := err.(lang.JsonError)
	if !ok || jsonErr.FileName != "first.json" {
		t.Fatalf("stray '}' in first.json: unexpected error %#v", err)
	}
	if sb.String() != "1\n" {
		t.Fatalf("stray '}' in first.json: output %q, want %q", sb.String(), "1\n")
	}

	// library: an input that cannot be read
	sb.Reset()
	files = []lang.InputFile{
		{Name: "broken", Reader: demoC14LFailingReader{}},
	}
	_, err = lang.EvalProgram(`{ print } END { print "end" }`, files, nil, &sb, false)
	if err == nil {
		t.Fatalf("unreadable input: no error, output %q", sb.String())
	}
	if _, ok := err.(lang.JsonError); !ok {
		t.Fatalf("unreadable input: unexpected error %#v", err)
	}

	// command line: a directory can be opened but not read
	dir := t.TempDir()
	exe := filepath.Join(dir, "jqawk-demo")
	build := exec.Command("go", "build", "-o", exe, ".")
	if out, err := build.CombinedOutput(); err != nil {
		t.Fatalf("building the command failed: %v\n%s", err, out)
	}
	good := filepath.Join(dir, "good.json")
	if err := os.WriteFile(good, []byte(`[1, 2]`), 0o644); err != nil {
		t.Fatal(err)
	}
	sub := filepath.Join(dir, "subdir")
	if err := os.Mkdir(sub, 0o755); err != nil {
		t.Fatal(err)
	}

	cmd := exec.Command(exe, `{ print } END { print "end" }`, good, sub)
	cmd.Stdin = bytes.NewReader(nil)
	var stdout, stderr bytes.Buffer
	cmd.Stdout = &stdout
	cmd.Stderr = &stderr
	runErr := cmd.Run()
	if runErr == nil {
		t.Fatalf("directory as input: exit status 0, stdout %q, stderr %q", stdout.String(), stderr.String())
	}
	if _, ok := runErr.(*exec.ExitError); !ok {
		t.Fatalf("directory as input: %v", runErr)
	}
	if stderr.Len() == 0 {
		t.Fatalf("directory as input: no diagnostic on stderr")
	}
	if stdout.String() != "1\n2\n" {
		t.Fatalf("directory as input: stdout %q, want %q", stdout.String(), "1\n2\n")
	}
}
