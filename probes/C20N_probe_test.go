package main

import (
	"strings"
	"testing"

	lang "github.com/alligator/jqawk/src"
)

func runC20N(prog string) (string, error) {
	var sb strings.Builder
	_, err := lang.EvalProgram(prog, nil, nil, &sb, false)
	return sb.String(), err
}

// Call nesting is limited to a few thousand frames whatever the shape of the
// recursion: a function that calls itself from inside a match case body is
// stopped by the same limit as one that calls itself directly.
func TestDemoC20N(t *testing.T) {
	// a thousand deep works in every shape
	out, err := runC20N(`
		function direct(n) { if (n == 0) return 0; return 1 + direct(n - 1) }
		function viaMatch(n) { return match (n) { 0 => 0, x => 1 + viaMatch(x - 1) } }
		function viaBlock(n) {
			match (n) {
				0 => { return 0 }
				x => { return 1 + viaBlock(x - 1) }
			}
		}
		BEGIN { print direct(1000), viaMatch(1000), viaBlock(1000) }
	`)
	if err != nil || out != "1000 1000 1000\n" {
		t.Fatalf("recursion a thousand deep: out=%q err=%v", out, err)
	}

	// well beyond the limit is refused in every shape, and what was printed
	// before is kept
	progs := [][2]string{
		{"direct", `
			function f(n) { if (n == 0) return 0; return 1 + f(n - 1) }
			BEGIN { print "before"; print f(6000); print "after" }`},
		{"match expression body", `
			function f(n) { return match (n) { 0 => 0, x => 1 + f(x - 1) } }
			BEGIN { print "before"; print f(6000); print "after" }`},
		{"match block body", `
			function f(n) {
				match (n) {
					0 => { return 0 }
					x => { return 1 + f(x - 1) }
				}
			}
			BEGIN { print "before"; print f(6000); print "after" }`},
		{"mutual through match", `
			function f(n) { return match (n) { 0 => 0, x => 1 + g(x) } }
			function g(n) { return f(n - 1) }
			BEGIN { print "before"; print f(6000); print "after" }`},
		{"runaway through match", `
			function f(n) { return match (n) { x => f(x + 1) } }
			BEGIN { print "before"; print f(1); print "after" }`},
	}
	for _, p := range progs {
		name, prog := p[0], p[1]
		out, err := runC20N(prog)
		if out != "before\n" {
			t.Fatalf("%s: expected only the output before the recursion, got %q (err=%v)", name, out, err)
		}
		rtErr, ok := err.(lang.RuntimeError)
		if !ok {
			t.Fatalf("%s: expected a runtime error, got %#v", name, err)
		}
		if rtErr.Message != "call depth limit exceeded" {
			t.Fatalf("%s: unexpected message %q", name, rtErr.Message)
		}
	}
}
