package main

import (
	"strings"
	"testing"

	lang "github.com/alligator/jqawk/src"
)

// `next` abandons the remaining pattern rules for the current element only.
// When the root is not an array the root itself is the single element, so
// after `next` the run must carry on with ENDFILE, the following JSON values
// and files, and finally END.
func TestDemoC02A(t *testing.T) {
	prog := `
		BEGIN { print 'begin' }
		BEGINFILE { print 'bf', $file }
		$.skip { print 'skip', $.id; next }
		{ print 'keep', $.id }
		ENDFILE { print 'ef', $file }
		END { print 'end', $ }
	`
	files := []lang.InputFile{
		{Name: "f1", Reader: strings.NewReader(`{"id": 1, "skip": true} [{"id": 2, "skip": true}, {"id": 3}]`)},
		{Name: "f2", Reader: strings.NewReader(`{"id": 4}`)},
	}
	expected := "begin\n" +
		"bf f1\nskip 1\nef f1\n" +
		"bf f1\nskip 2\nkeep 3\nef f1\n" +
		"bf f2\nkeep 4\nef f2\n" +
		"end null\n"

	var sb strings.Builder
	_, err := lang.EvalProgram(prog, files, nil, &sb, false)
	if err != nil {
		t.Fatalf("unexpected error %q, output so far:\n%s", err.Error(), sb.String())
	}
	if sb.String() != expected {
		t.Fatalf("expected:\n%s\ngot:\n%s", expected, sb.String())
	}
}
