package main

import (
	"strings"
	"testing"

	lang "github.com/alligator/jqawk/src"
)

func runDemoC19E(t *testing.T, prog string, json string) string {
	t.Helper()
	var sb strings.Builder
	files := []lang.InputFile{{Name: "<demo>", Reader: strings.NewReader(json)}}
	if _, err := lang.EvalProgram(prog, files, nil, &sb, false); err != nil {
		t.Fatalf("program %q failed: %v", prog, err)
	}
	return sb.String()
}

// A case with several array-pattern alternatives: only the names of the
// alternative that actually matched are bound in the body. A name that occurs
// only in an alternative that failed half-way must not be bound, so in the body
// it still refers to the variable of the enclosing scope.
func TestDemoC19E(t *testing.T) {
	cases := []struct {
		prog     string
		json     string
		expected string
	}{
		{
			// [5, 2]: the first alternative binds x=5 and then fails on 2 != 1,
			// the second alternative matches and binds only y
			prog:     `BEGIN { x = 'outer'; print match ([5, 2]) { [x, 1], [y, 2] => x + '/' + y } }`,
			json:     `[]`,
			expected: "outer/5\n",
		},
		{
			// same through records, with a catch-all as the last alternative
			prog: `BEGIN { k = 'none' }
			       { print match ($) { [k, 'a'], [k2, 'b'], other => k } }`,
			json:     `[["p", "a"], ["q", "b"], ["r", "c"], 7]`,
			expected: "p\nnone\nnone\nnone\n",
		},
		{
			// nested: the failed alternative bound a name two levels down
			prog:     `BEGIN { n = 0; print match ([[9, 8], 3]) { [[n, m], 4], [pair, 3] => n } }`,
			json:     `[]`,
			expected: "0\n",
		},
	}
	for _, c := range cases {
		got := runDemoC19E(t, c.prog, c.json)
		if got != c.expected {
			t.Errorf("program %q\n  expected %q\n  got      %q", c.prog, c.expected, got)
		}
	}
}
