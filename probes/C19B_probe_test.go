package main

import (
	"strings"
	"testing"

	lang "github.com/alligator/jqawk/src"
)

// A case matches when ANY of its comma-separated patterns matches. An array
// alternative that has the right length but fails on an element must not stop
// the remaining alternatives of that case from being tried.
func TestDemoC19B(t *testing.T) {
	prog := `
		{
			print match ($) {
				['add', x], ['plus', x] => x + 100,
				[op, x] => 'unknown ' + op,
			}
		}
	`
	input := `[["add", 1], ["plus", 2], ["mul", 3]]`
	expected := "101\n102\nunknown mul\n"

	inputFiles := []lang.InputFile{
		{Name: "<test>", Reader: strings.NewReader(input)},
	}
	var sb strings.Builder
	_, err := lang.EvalProgram(prog, inputFiles, nil, &sb, false)
	if err != nil {
		t.Fatalf("unexpected error: %v", err)
	}
	if sb.String() != expected {
		t.Fatalf("unexpected output\nexpected %q\ngot      %q", expected, sb.String())
	}
}
