package main

import (
	"encoding/json"
	"io"
	"reflect"
	"strings"
	"testing"

	lang "github.com/alligator/jqawk/src"
)

// TestDemoC04E: the JSON that -o writes (Evaluator.GetRootJson, which is what
// cli.Run prints for -o) must parse to a value equal to the input document for
// every program that does not modify the document - including programs that
// have no pattern rule at all (empty program, BEGIN/END only, BEGINFILE/ENDFILE
// only), with and without a root selector.
func TestDemoC04E(t *testing.T) {
	doc := `{"items": [], "meta": {}, "n": [1.5, -0.25, 1e21], "s": "tab\there é \"q\"", "deep": [[[{"k": [null, true, false]}]]]}`

	var want interface{}
	if err := json.Unmarshal([]byte(doc), &want); err != nil {
		t.Fatal(err)
	}
	wantDeep := want.(map[string]interface{})["deep"]

	cases := []struct {
		name      string
		prog      string
		selectors []string
		want      interface{}
	}{
		// control: a pattern rule that only reads
		{"pattern rule that only reads", "{ x = $.n }", nil, want},
		{"empty program", "", nil, want},
		{"END only", "END { done = 1 }", nil, want},
		{"BEGIN and END only", "BEGIN { c = 0 } END { c = c + 1 }", nil, want},
		{"BEGINFILE/ENDFILE only, reading $", "BEGINFILE { n = $.n.length() } ENDFILE { m = $.s }", nil, want},
		{"function definition only", "function f(a) { return a }", nil, want},
		{"END only with a root selector", "END { done = 1 }", []string{"$.deep"}, wantDeep},
	}

	for _, tc := range cases {
		t.Run(tc.name, func(t *testing.T) {
			files := []lang.InputFile{{Name: "<demo>", Reader: strings.NewReader(doc)}}
			ev, err := lang.EvalProgram(tc.prog, files, tc.selectors, io.Discard, false)
			if err != nil {
				t.Fatalf("unexpected error running %q: %v", tc.prog, err)
			}
			out, err := ev.GetRootJson()
			if err != nil {
				t.Fatalf("unexpected error from GetRootJson: %v", err)
			}
			var got interface{}
			if err := json.Unmarshal([]byte(out), &got); err != nil {
				t.Fatalf("-o output is not valid JSON: %v\n%s", err, out)
			}
			if !reflect.DeepEqual(got, tc.want) {
				t.Fatalf("-o output of the non-modifying program %q is not equal to the input\n got: %s", tc.prog, out)
			}
		})
	}
}
