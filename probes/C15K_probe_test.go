package main

import (
	"strings"
	"testing"

	lang "github.com/alligator/jqawk/src"
)

// An ideal list: push appends one (plain) value to the array it was invoked
// on, and a later index write to that slot changes exactly that slot of exactly
// that array. Here the pushed value is the null read from past the end of
// another array (and, in the second half, of the same array).
func TestDemoC15K(t *testing.T) {
	prog := `
BEGIN {
	a = [1];
	b = ['x', 'y'];

	a.push(b[7]);          # b[7] reads past the end: a plain null is appended
	print a.length(), a;
	a[-1] = 5;             # write the slot that was just pushed
	print a.length(), a;
	print b.length(), b;   # b was never written to

	c = [1, 2];
	c.push(c[5]);          # same thing on one array
	c[2] = 7;
	print c.length(), c;
	print c.contains(7), c.pop(), c.length();
}
`
	expected := "2 [1, null]\n" +
		"2 [1, 5]\n" +
		"2 [\"x\", \"y\"]\n" +
		"3 [1, 2, 7]\n" +
		"true 7 2\n"

	var sb strings.Builder
	_, err := lang.EvalProgram(prog, []lang.InputFile{}, []string{}, &sb, false)
	if err != nil {
		t.Fatalf("unexpected error: %v (output so far %q)", err, sb.String())
	}
	if sb.String() != expected {
		t.Fatalf("array contents differ from an ideal list\nexpected:\n%s\ngot:\n%s", expected, sb.String())
	}
}
