package main

import (
	"strings"
	"testing"
	"testing/iotest"

	lang "github.com/alligator/jqawk/src"
)

// A stream of values read with a root selector (-r) must produce the output of
// the values processed one after another: value k contributes the roots the
// selectors pick out of value k, and nothing else.
func TestDemoC03G(t *testing.T) {
	prog := `BEGINFILE { n = 0 } { n++; print $ } ENDFILE { print "count", n }`
	selectors := []string{"$.items"}
	values := []string{
		`{"items": [1, 2]}`,
		`{"items": [3]}`,
		`{"items": []}`,
		`{"items": [4, 5]}`,
	}

	runOn := func(input string, oneByte bool) string {
		t.Helper()
		var rd = strings.NewReader(input)
		file := lang.InputFile{Name: "<demo>", Reader: rd}
		if oneByte {
			file.Reader = iotest.OneByteReader(rd)
		}
		var sb strings.Builder
		_, err := lang.EvalProgram(prog, []lang.InputFile{file}, selectors, &sb, false)
		if err != nil {
			t.Fatalf("unexpected error on %q: %v", input, err)
		}
		return sb.String()
	}

	// every prefix of the stream: its output is the concatenation of the
	// outputs of the complete values in the prefix, each processed alone
	want := ""
	stream := ""
	for i, v := range values {
		want += runOn(v, false)
		stream += v + "\n"
		for _, oneByte := range []bool{false, true} {
			got := runOn(stream, oneByte)
			if got != want {
				t.Fatalf("prefix of %d values (one byte per read: %v)\nstream: %q\nexpected %q\ngot      %q",
					i+1, oneByte, stream, want, got)
			}
		}
	}

	const expected = "1\n2\ncount 2\n3\ncount 1\ncount 0\n4\n5\ncount 2\n"
	if want != expected {
		t.Fatalf("expected %q\ngot      %q", expected, want)
	}
}
