package main

import (
	"bytes"
	"strings"
	"testing"

	lang "github.com/alligator/jqawk/src"
)

// Comparison row 6: operands that are not both strings are ordered by their
// numeric coercions, and "neither < nor > => equal". A string such as "NaN"
// parses as a floating-point numeral (so does "nan"), and Inf - Inf is a NaN
// number: such an operand is neither smaller nor greater than any number, so it
// compares equal to every number.
func TestDemoC05L(t *testing.T) {
	run := func(prog, json string) string {
		t.Helper()
		var out bytes.Buffer
		files := []lang.InputFile{{Name: "in.json", Reader: strings.NewReader(json)}}
		_, err := lang.EvalProgram(prog, files, nil, &out, false)
		if err != nil {
			t.Fatalf("program %q: unexpected error: %v", prog, err)
		}
		return out.String()
	}

	allOps := `function ops(a, b) { return [a < b, a <= b, a > b, a >= b, a == b, a != b] }
`
	equal := "[false, true, false, true, true, false]\n"

	// a numeric string from the document that reads as NaN, against numbers,
	// booleans and a regex (all compared by numeric coercion), on either side
	got := run(allOps+`{
			print ops($.v, 1)
			print ops(-2.5, $.v)
			print ops($.v, true)
			print ops($.v, /x/)
		}`, `[{"v": "NaN"}, {"v": "nan"}, {"v": "NAN"}]`)
	if want := strings.Repeat(equal, 12); got != want {
		t.Errorf("NaN string field vs number:\n got %q\nwant %q", got, want)
	}

	// a NaN number produced by arithmetic, held in a variable
	got = run(allOps+`BEGIN {
			n = "Inf" - "Inf"
			print ops(n, 0)
			print ops(1000000, n)
			print ops(n, "12")
			print ops(n, "Inf")
		}`, `[]`)
	if want := strings.Repeat(equal, 4); got != want {
		t.Errorf("NaN number vs number / numeric string:\n got %q\nwant %q", got, want)
	}

	// as a rule pattern: every item is selected by ==, none by < or >
	got = run(`$.v == $.limit { print "eq", $.id }
		$.v < $.limit { print "lt", $.id }
		$.v > $.limit { print "gt", $.id }`,
		`[{"id": 1, "v": "NaN", "limit": 10}, {"id": 2, "v": 7, "limit": "NaN"}, {"id": 3, "v": 3, "limit": 10}]`)
	if want := "eq 1\neq 2\nlt 3\n"; got != want {
		t.Errorf("pattern rules:\n got %q\nwant %q", got, want)
	}

	// sanity: ordinary operands keep their order (holds with and without the change)
	got = run(allOps+`BEGIN { print ops(1, 2); print ops("10", 9); print ops(0, -0); print ops("NaN", "NaN") }`, `[]`)
	want := "[true, true, false, false, false, true]\n" +
		"[false, false, true, true, false, true]\n" + equal + equal
	if got != want {
		t.Errorf("ordinary operands:\n got %q\nwant %q", got, want)
	}
}
