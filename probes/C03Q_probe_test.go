package main

import (
	"fmt"
	"io"
	"strings"
	"testing"

	lang "github.com/alligator/jqawk/src"
)

// demoC03QReader hands the stream out one byte per Read, the way an
// interactive pipe delivers it. Every time it is asked for more input it
// compares what it has handed out so far with what has been written to the
// output: the stream consists of values that are all width-1 bytes long, each
// followed by a newline, so after k*width bytes k values are complete (value
// plus one following byte) and their k output lines must already have been
// written.
type demoC03QReader struct {
	stream     string
	width      int
	pos        int
	out        *strings.Builder
	violations []string
}

func (r *demoC03QReader) Read(p []byte) (int, error) {
	complete := r.pos / r.width
	written := strings.Count(r.out.String(), "\n")
	if written < complete {
		r.violations = append(r.violations, fmt.Sprintf(
			"reader asked for byte %d while only %d of %d complete value(s) had been processed (bytes handed out so far: %q, output so far: %q)",
			r.pos+1, written, complete, r.stream[:r.pos], r.out.String()))
	}
	if r.pos >= len(r.stream) {
		return 0, io.EOF
	}
	if len(p) == 0 {
		return 0, nil
	}
	p[0] = r.stream[r.pos]
	r.pos++
	return 1, nil
}

func TestDemoC03Q(t *testing.T) {
	// C03: once a value and at most one following byte have been read, the
	// value is fully processed and its output written without waiting for any
	// later input to arrive
	for _, stream := range []string{"7\n8\n", "[]\n{}\n", "7\n"} {
		var out strings.Builder
		rdr := &demoC03QReader{stream: stream, width: strings.Index(stream, "\n") + 1, out: &out}
		files := []lang.InputFile{{Name: "<pipe>", Reader: rdr}}
		_, err := lang.EvalProgram("ENDFILE { print 'got', $ }", files, nil, &out, false)
		if err != nil {
			t.Fatalf("stream %q: unexpected error %v", stream, err)
		}
		want := map[string]string{
			"7\n8\n":   "got 7\ngot 8\n",
			"[]\n{}\n": "got []\ngot {}\n",
			"7\n":      "got 7\n",
		}[stream]
		if out.String() != want {
			t.Errorf("stream %q: expected output %q, got %q", stream, want, out.String())
		}
		for _, v := range rdr.violations {
			t.Errorf("stream %q is not processed incrementally: %s", stream, v)
		}
	}
}
