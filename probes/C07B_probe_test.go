package main

import (
	"strings"
	"testing"

	lang "github.com/alligator/jqawk/src"
)

// break and continue affect the innermost enclosing loop, at any nesting and
// at any position in the loop body - including positions that come AFTER a
// nested loop has been closed. The statements must execute in the documented
// order (and the program must be accepted at all).
func TestDemoC07B(t *testing.T) {
	cases := []struct {
		name     string
		prog     string
		expected string
	}{
		{
			name: "break in outer loop after a nested for",
			prog: `
				BEGIN {
					for (i = 0; i < 5; i++) {
						for (j = 0; j < 3; j++) {
							if (j == 1) break
							print "in", i, j
						}
						if (i == 1) break
						print "after", i
					}
					print "done", i
				}
			`,
			expected: "in 0 0\nafter 0\nin 1 0\ndone 1\n",
		},
		{
			name: "continue in outer for-in after a nested while and for-in",
			prog: `
				BEGIN {
					for (k, v in { a: 1, b: 2, c: 3 }) {
						n = 0
						while (n < v) {
							n++
							for (ch in 'xy') {
								if (ch == 'y') continue
								print k, n, ch
							}
						}
						if (k == 'b') continue
						print "end", k
					}
				}
			`,
			expected: "a 1 x\nend a\nb 1 x\nb 2 x\nc 1 x\nc 2 x\nc 3 x\nend c\n",
		},
	}

	for _, tc := range cases {
		var sb strings.Builder
		_, err := lang.EvalProgram(tc.prog, nil, nil, &sb, false)
		if err != nil {
			t.Fatalf("%s: unexpected error: %v", tc.name, err)
		}
		if sb.String() != tc.expected {
			t.Fatalf("%s: expected %q, got %q", tc.name, tc.expected, sb.String())
		}
	}
}
