package main

import (
	"encoding/json"
	"reflect"
	"strings"
	"testing"

	lang "github.com/alligator/jqawk/src"
)

// demoC09RRun runs prog over the JSON document doc and returns what it printed
// and the document as -o would write it, decoded again.
func demoC09RRun(t *testing.T, prog string, doc string) (string, interface{}) {
	t.Helper()
	files := []lang.InputFile{{Name: "<demo>", Reader: strings.NewReader(doc)}}
	var sb strings.Builder
	ev, err := lang.EvalProgram(prog, files, nil, &sb, false)
	if err != nil {
		t.Fatalf("program %q failed: %v", prog, err)
	}
	out, err := ev.GetRootJson()
	if err != nil {
		t.Fatalf("GetRootJson: %v", err)
	}
	var got interface{}
	if err := json.Unmarshal([]byte(out), &got); err != nil {
		t.Fatalf("output document is not JSON: %v\n%s", err, out)
	}
	return sb.String(), got
}

func demoC09RWant(t *testing.T, src string) interface{} {
	t.Helper()
	var want interface{}
	if err := json.Unmarshal([]byte(src), &want); err != nil {
		t.Fatal(err)
	}
	return want
}

// C09: an assignment changes exactly the addressed location. An assignment past
// the end of an array pads the gap with nulls; a LATER assignment to one of the
// C09: scalars are copied when they are handed to a loop variable (or inserted
// into a new container), so ++/-- on the loop variable changes exactly that
// variable: the array or object being iterated -- here part of the input
// document -- stays as it was.
func TestDemoC09R(t *testing.T) {
	doc := `{"n":[1,2,3],"o":{"k":10},"s":["7"]}`

	// ++ on a plain variable and on a document field: the addressed location only
	printed, got := demoC09RRun(t, `{ c = $.n[0]; c++; d = c; d++; $.o.k++; print c, d, $.n[0] }`, doc)
	want := demoC09RWant(t, `{"n":[1,2,3],"o":{"k":11},"s":["7"]}`)
	if printed != "2 3 1\n" || !reflect.DeepEqual(got, want) {
		t.Fatalf("plain ++: printed %q, document %v", printed, got)
	}

	// ++ on the loop variable of for-in over an array of the document
	printed, got = demoC09RRun(t, `{ for (x in $.n) { x++; t += x } print t, $.n }`, doc)
	want = demoC09RWant(t, doc)
	if !reflect.DeepEqual(got, want) {
		t.Errorf("for (x in $.n) { x++ } changed the input document: %v, want %v", got, want)
	}
	if printed != "9 [1, 2, 3]\n" {
		t.Errorf("for (x in $.n) { x++ }: printed %q, want %q", printed, "9 [1, 2, 3]\n")
	}

	// -- on the value variable of for-in over an object, and ++ on a member of
	// a plucked copy
	printed, got = demoC09RRun(t, `{ for (k, v in $.o) { v-- } print $.o; p = $.o.pluck('k'); p.k++; p.k++; print p, $.o }`, doc)
	if !reflect.DeepEqual(got, want) {
		t.Errorf("v-- on a loop variable / p.k++ on a plucked object changed the input document: %v, want %v", got, want)
	}
	if printed != "{\"k\": 10}\n{\"k\": 12} {\"k\": 10}\n" {
		t.Errorf("pluck/loop: printed %q, want %q", printed, "{\"k\": 10}\n{\"k\": 12} {\"k\": 10}\n")
	}

	// the same without a document: a variable's array, observed afterwards
	printed, _ = demoC09RRun(t, `{ a = [5, 6]; b = a; for (x in a) { print ++x } print a, b }`, doc)
	if printed != "6\n7\n[5, 6] [5, 6]\n" {
		t.Errorf("for (x in a) { ++x }: printed %q, want %q", printed, "6\n7\n[5, 6] [5, 6]\n")
	}
}
