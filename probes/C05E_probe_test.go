package main

import (
	"bytes"
	"strings"
	"testing"

	lang "github.com/alligator/jqawk/src"
)

// Comparisons, row 6 of the table: operands that are not both strings are
// ordered by their numeric coercions, and "neither < nor > => equal". A
// not-a-number operand (inf - inf, or a string that parses as NaN) is neither
// smaller nor greater than anything, so every comparison with it must come out
// "equal".
func TestDemoC05E(t *testing.T) {
	run := func(prog string, input string) string {
		t.Helper()
		var out bytes.Buffer
		files := []lang.InputFile{}
		if input != "" {
			files = append(files, lang.InputFile{Name: "in.json", Reader: strings.NewReader(input)})
		}
		_, err := lang.EvalProgram(prog, files, nil, &out, false)
		if err != nil {
			t.Fatalf("unexpected error for %q: %v", prog, err)
		}
		return out.String()
	}

	// NaN produced by IEEE arithmetic on huge magnitudes
	prog := `BEGIN {
		inf = "1e308" * 10
		n = inf - inf
		print n < 1, n > 1, n == 1, n != 1, n <= 1, n >= 1
		print 1 < n, 1 > n, 1 == n, 1 <= n, 1 >= n
		print n < inf, n < 0 - inf, n == n
		print n < true, n < "abc", n == "abc"
	}`
	expected := "false false true false true true\n" +
		"false false true true true\n" +
		"false false true\n" +
		"false false true\n"
	if got := run(prog, ""); got != expected {
		t.Errorf("NaN from arithmetic:\nexpected\n%s\ngot\n%s", expected, got)
	}

	// NaN from the numeric coercion of a string, supplied as a document field
	prog = `{ print $.v < 1, $.v > 1, $.v == 1, 0 - 5 > $.v, $.v < null }`
	expected = "false false true false false\n"
	if got := run(prog, `[{"v": "NaN"}]`); got != expected {
		t.Errorf("NaN from a document field:\nexpected\n%s\ngot\n%s", expected, got)
	}
}
