package main

import (
	"strings"
	"testing"

	lang "github.com/alligator/jqawk/src"
)

// A container that is reachable from itself must be shown as
// <circular reference> at the point of recurrence. Containers are identified
// by their storage (map pointer / shared slice backing), so an array stays the
// same container after one of the references to it has been shortened with
// pop() or has grown in place (push() into spare capacity).
func TestDemoC17E(t *testing.T) {
	run := func(prog string) string {
		t.Helper()
		var sb strings.Builder
		files := []lang.InputFile{{Name: "<demo>", Reader: strings.NewReader("[]")}}
		if _, err := lang.EvalProgram(prog, files, nil, &sb, false); err != nil {
			t.Fatalf("program %q failed: %v", prog, err)
		}
		return sb.String()
	}

	cases := []struct {
		name, prog, want string
	}{
		{
			// sanity: plain self reference, no length change
			name: "plain cycle",
			prog: "BEGIN { a = [1, 2, 3]; a[1] = a; print a }",
			want: "[1, <circular reference>, 3]\n",
		},
		{
			// the variable a is shortened after the cycle was made: a[1] is
			// still the array a itself
			name: "cycle, then pop through the variable",
			prog: "BEGIN { a = [1, 2, 3]; a[1] = a; a.pop(); print a }",
			want: "[1, <circular reference>]\n",
		},
		{
			// pop leaves spare capacity, the cycle is made, then push grows the
			// variable in place (same backing store)
			name: "pop, cycle, then push in place",
			prog: "BEGIN { a = [1, 2, 3]; a.pop(); a[0] = a; a.push(9); print a }",
			want: "[<circular reference>, 2, 9]\n",
		},
		{
			// a cycle of length two through an object and an array
			name: "mixed cycle, array shortened afterwards",
			prog: "BEGIN { a = [1, 2, 3]; o = { \"arr\": a }; a[0] = o; a.pop(); print a }",
			want: "[{\"arr\": <circular reference>}, 2]\n",
		},
	}

	for _, c := range cases {
		if got := run(c.prog); got != c.want {
			t.Errorf("%s:\n  prog: %s\n  want: %q\n  got:  %q", c.name, c.prog, c.want, got)
		}
	}
}
