package main

import (
	"flag"
	"io"
	"os"
	"path/filepath"
	"strings"
	"sync"
	"syscall"
	"testing"
	"time"

	cli "github.com/alligator/jqawk/cli"
)

type demoC03NBuf struct {
	mu sync.Mutex
	sb strings.Builder
}

func (b *demoC03NBuf) Write(p []byte) (int, error) {
	b.mu.Lock()
	defer b.mu.Unlock()
	return b.sb.Write(p)
}

func (b *demoC03NBuf) String() string {
	b.mu.Lock()
	defer b.mu.Unlock()
	return b.sb.String()
}

// An input named on the command line is consumed as a stream exactly like
// stdin: once a value (and at most one following byte) has arrived it is fully
// processed and its output written, without waiting for any later value or for
// the end of the input. The named input here is a FIFO whose writer blocks
// between values (think `mkfifo feed; jqawk '{ print }' feed`, a device, or
// /dev/stdin given as a file name).
func TestDemoC03N(t *testing.T) {
	dir := t.TempDir()
	fifo := filepath.Join(dir, "feed.json")
	if err := syscall.Mkfifo(fifo, 0o600); err != nil {
		t.Skipf("cannot create a fifo here: %v", err)
	}

	// run the command line front end in-process: jqawk PROGRAM feed.json
	oldArgs, oldStdout, oldStderr, oldFlags := os.Args, os.Stdout, os.Stderr, flag.CommandLine
	outR, outW, err := os.Pipe()
	if err != nil {
		t.Fatal(err)
	}
	errFile, err := os.Create(filepath.Join(dir, "stderr.txt"))
	if err != nil {
		t.Fatal(err)
	}
	os.Args = []string{"jqawk", `BEGINFILE { n++ } { print n, $ } ENDFILE { print "end", n }`, fifo}
	os.Stdout, os.Stderr = outW, errFile
	flag.CommandLine = flag.NewFlagSet("jqawk", flag.ContinueOnError)
	restored := false
	restore := func() {
		if !restored {
			restored = true
			os.Args, os.Stdout, os.Stderr, flag.CommandLine = oldArgs, oldStdout, oldStderr, oldFlags
		}
	}
	defer restore()

	var out demoC03NBuf
	copied := make(chan struct{})
	go func() {
		io.Copy(&out, outR)
		close(copied)
	}()

	exit := make(chan int, 1)
	go func() { exit <- cli.Run("demo") }()

	// O_RDWR never blocks on a fifo, and keeps it open (no EOF for the reader)
	// until we close it at the very end
	feed, err := os.OpenFile(fifo, os.O_RDWR, 0)
	if err != nil {
		t.Fatal(err)
	}
	feedClosed := false
	closeFeed := func() {
		if !feedClosed {
			feedClosed = true
			feed.Close()
		}
	}
	defer closeFeed()

	waitFor := func(want string) bool {
		deadline := time.Now().Add(2 * time.Second)
		for time.Now().Before(deadline) {
			if out.String() == want {
				return true
			}
			time.Sleep(2 * time.Millisecond)
		}
		return out.String() == want
	}

	// each step sends one value plus one following whitespace byte, then waits
	// for exactly the output of the values sent so far while the feed stays
	// open and silent
	steps := []struct{ send, want string }{
		{"[1, 2]\n", "1 1\n1 2\nend 1\n"},
		{`{"a": 3}` + " ", "1 1\n1 2\nend 1\n2 {\"a\": 3}\nend 2\n"},
		{"42\n", "1 1\n1 2\nend 1\n2 {\"a\": 3}\nend 2\n3 42\nend 3\n"},
	}
	for i, st := range steps {
		if _, err := io.WriteString(feed, st.send); err != nil {
			t.Fatal(err)
		}
		if !waitFor(st.want) {
			t.Errorf("step %d: after sending %q the output is %q, want %q (the feed is still open: output must not wait for its end)",
				i, st.send, out.String(), st.want)
			break
		}
	}

	// a truncated last value, then the end of the feed: reported, names the file
	io.WriteString(feed, `[4, 5`)
	closeFeed()

	var code int
	select {
	case code = <-exit:
	case <-time.After(10 * time.Second):
		restore()
		t.Fatal("jqawk did not finish after the feed was closed")
	}
	outW.Close()
	<-copied
	restore()
	errFile.Close()

	wantAll := steps[len(steps)-1].want
	if out.String() != wantAll {
		t.Errorf("final output %q, want %q", out.String(), wantAll)
	}
	if code != 1 {
		t.Errorf("exit code %d, want 1", code)
	}
	stderr, _ := os.ReadFile(filepath.Join(dir, "stderr.txt"))
	if !strings.Contains(string(stderr), "could not parse "+fifo) {
		t.Errorf("stderr %q does not report a JSON input error naming %s", stderr, fifo)
	}
}
