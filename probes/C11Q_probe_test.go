package main

import (
	"strings"
	"testing"

	lang "github.com/alligator/jqawk/src"
)

// demoC11QRun runs prog over json and returns what was printed and the error.
func demoC11QRun(prog string, json string) (string, error) {
	var sb strings.Builder
	files := []lang.InputFile{{Name: "<demo>", Reader: strings.NewReader(json)}}
	_, err := lang.EvalProgram(prog, files, nil, &sb, false)
	return sb.String(), err
}

// C11: a program with a syntax error anywhere -- here a `return` that is not
// inside any function -- prints nothing at all and yields only a syntax error,
// however much valid program precedes the error.
func TestDemoC11Q(t *testing.T) {
	progs := []struct {
		name string
		prog string
	}{
		{
			// the stray return sits in a block-bodied match case that is the
			// pattern of a rule, right after a (perfectly valid) function
			name: "return in the pattern of the rule that follows a function",
			prog: `
				BEGIN { print "begin" }
				function f() { return 1 }
				match ($) { 1 => { return } } { print "rule", $ }
				END { print "end" }
			`,
		},
		{
			// same, but the rule after the function has no body, so the next
			// rule's pattern is the one that holds the stray return
			name: "return in a later pattern, body-less rule in between",
			prog: `
				BEGIN { print "begin" }
				function f() { return 1 }
				$ > 100
				match ($) { 1 => { return } } { print "rule", $ }
			`,
		},
		{
			// control: the same stray return without any function around
			name: "return in a pattern, no function",
			prog: `
				BEGIN { print "begin" }
				match ($) { 1 => { return } } { print "rule", $ }
			`,
		},
		{
			// control: stray return in a rule body after a function
			name: "return in a rule body after a function",
			prog: `
				function f() { return 1 }
				BEGIN { print "begin"; return; print "unreachable" }
			`,
		},
	}

	for _, p := range progs {
		out, err := demoC11QRun(p.prog, "[2, 1, 3]")
		if _, ok := err.(lang.SyntaxError); !ok {
			t.Errorf("%s: expected a syntax error, got %T %v", p.name, err, err)
		} else if err.Error() != "can only return inside a function" {
			t.Errorf("%s: unexpected syntax error %q", p.name, err.Error())
		}
		if out != "" {
			t.Errorf("%s: a program with a syntax error must print nothing, but it printed %q", p.name, out)
		}
	}

	// and the valid part of those programs does run when the error is taken out
	out, err := demoC11QRun(`
		BEGIN { print "begin" }
		function f() { return 1 }
		match ($) { 1 => { f() } } { print "rule", $ }
		END { print "end" }
	`, "[2, 1, 3]")
	if err != nil {
		t.Fatalf("valid program failed: %v", err)
	}
	if !strings.HasPrefix(out, "begin\n") || !strings.HasSuffix(out, "end\n") {
		t.Errorf("valid program printed %q", out)
	}
}
