package main

import (
	"strings"
	"testing"

	lang "github.com/alligator/jqawk/src"
)

// runDemoC09D runs prog over one JSON document and returns what was printed
// followed by the (whitespace-free) JSON of the input document afterwards.
func runDemoC09D(t *testing.T, prog string, doc string) (string, string) {
	t.Helper()
	var sb strings.Builder
	files := []lang.InputFile{{Name: "<demo>", Reader: strings.NewReader(doc)}}
	ev, err := lang.EvalProgram(prog, files, nil, &sb, false)
	if err != nil {
		t.Fatalf("unexpected error: %v", err)
	}
	root, err := ev.GetRootJson()
	if err != nil {
		t.Fatalf("unexpected error from GetRootJson: %v", err)
	}
	return sb.String(), strings.Join(strings.Fields(root), "")
}

// Reading a member or an index through a value that is an explicit JSON null
// yields null and must leave the input document exactly as it was: the
// expressions below contain no assignment into the document and no mutating
// method call.
func TestDemoC09D(t *testing.T) {
	doc := `{"id": 7, "user": null, "tags": null}`
	want := `{"id":7,"tags":null,"user":null}`

	// 1. reads in a rule body
	out, root := runDemoC09D(t, `
		{
			name = $.user.name
			first = $.tags[0]
			print name, first
		}
	`, doc)
	if out != "null null\n" {
		t.Errorf("case 1: unexpected output %q", out)
	}
	if root != want {
		t.Errorf("case 1: reading through a null member changed the input document: %s", root)
	}

	// 2. a read in a pattern, observed from the program itself
	out, root = runDemoC09D(t, `
		$.user.active { print 'active' }
		{ print $.user is null, $.user }
	`, doc)
	if out != "true null\n" {
		t.Errorf("case 2: unexpected output %q", out)
	}
	if root != want {
		t.Errorf("case 2: reading through a null member changed the input document: %s", root)
	}

	// 3. the same on a null array element that a variable also refers to
	out, _ = runDemoC09D(t, `
		{
			rows = $.rows
			x = rows[1].k
			print x, rows, $.rows
		}
	`, `{"rows": [1, null, 3]}`)
	if out != "null [1, null, 3] [1, null, 3]\n" {
		t.Errorf("case 3: unexpected output %q", out)
	}
}
