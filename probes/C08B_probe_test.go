package main

import (
	"strings"
	"testing"

	lang "github.com/alligator/jqawk/src"
)

// A call yields the value of the return statement executed by that call, or
// null if it executed none. A function that runs off the end of its body after
// calling a helper that returned a value must still yield null, and a
// recursive function must yield null on the path that has no return.
func TestDemoC08B(t *testing.T) {
	prog := `
		function fmt(x) {
			return '<' + x + '>'
		}

		function log(x) {
			line = fmt(x)
			count++
		}

		function find(arr, i, want) {
			if (i >= arr.length()) return
			if (arr[i] == want) return i
			r = find(arr, i + 1, want)
			if (r is null) return
			seen = r
		}

		BEGIN {
			count = 0
			line = ''
			seen = -1
			a = log(1)
			print a is null, count, line

			b = find([5, 6, 7], 0, 9)
			print b is null

			c = find([5, 6, 7], 0, 7)
			print c is null, seen
		}
	`
	var sb strings.Builder
	_, err := lang.EvalProgram(prog, nil, nil, &sb, false)
	if err != nil {
		t.Fatalf("unexpected error: %v", err)
	}
	expected := "true 1 <1>\ntrue\ntrue 2\n"
	if sb.String() != expected {
		t.Fatalf("expected %q, got %q", expected, sb.String())
	}
}
