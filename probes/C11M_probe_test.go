package main

import (
	"strings"
	"testing"

	lang "github.com/alligator/jqawk/src"
)

// A compound assignment whose target is not assignable is a syntax error, and
// a syntax error anywhere in the program pre-empts all execution: nothing is
// printed, however much valid program precedes the error.
func TestDemoC11M(t *testing.T) {
	cases := []struct {
		name string
		prog string
	}{
		{"literal target, +=", `BEGIN { print "before" } END { 5 += 2; print "after" }`},
		{"literal target, -=", `BEGIN { print "before" } END { 5 -= 2; print "after" }`},
		{"literal target, *=", `BEGIN { print "before" } END { 5 *= 2; print "after" }`},
		{"literal target, /=", `BEGIN { print "before" } END { 5 /= 2; print "after" }`},
		{"call target, /=", `function f() { print "called"; return 8 } BEGIN { print "before"; f() /= 2; print "after" }`},
		{"sum target, /=", `BEGIN { print "before"; a = 1; b = 2; a + b /= 2; print "after", a, b }`},
		{"negated target, /=", `BEGIN { print "before"; a = 4; -a /= 2; print "after", a }`},
	}

	for _, tc := range cases {
		t.Run(tc.name, func(t *testing.T) {
			var out strings.Builder
			files := []lang.InputFile{{Name: "<demo>", Reader: strings.NewReader("[1]")}}
			_, err := lang.EvalProgram(tc.prog, files, nil, &out, false)

			synErr, ok := err.(lang.SyntaxError)
			if !ok {
				t.Fatalf("expected a syntax error, got %#v (output %q)", err, out.String())
			}
			if synErr.Message != "invalid assignment" {
				t.Fatalf("expected \"invalid assignment\", got %q", synErr.Message)
			}
			if out.String() != "" {
				t.Fatalf("a program with a syntax error must print nothing, got %q", out.String())
			}
		})
	}
}
