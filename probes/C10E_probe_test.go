package main

import (
	"strings"
	"testing"

	lang "github.com/alligator/jqawk/src"
)

// The result of a run must not depend on which other runs happened earlier in
// the same process. Here an unrelated program that uses `num` (and `json`) as
// ordinary variable names runs in between two identical runs of a program
// that calls the builtins num() and json().
func TestDemoC10E(t *testing.T) {
	run := func(prog string, input string) (string, string) {
		var sb strings.Builder
		files := []lang.InputFile{}
		if input != "" {
			files = append(files, lang.InputFile{Name: "<demo>", Reader: strings.NewReader(input)})
		}
		_, err := lang.EvalProgram(prog, files, nil, &sb, false)
		errStr := ""
		if err != nil {
			errStr = err.Error()
		}
		return sb.String(), errStr
	}

	const prog = `{ total += num($.n) } END { print total; print json({ total: total }) }`
	const input = `[{ "n": "40" }, { "n": "2" }]`
	const expected = "42\n{\n  \"total\": 42\n}\n"

	out1, err1 := run(prog, input)
	if err1 != "" || out1 != expected {
		t.Fatalf("first run: expected %q without error, got %q, error %q", expected, out1, err1)
	}

	// an unrelated run in the same process: a program whose author uses the
	// names num and json for plain variables
	otherOut, otherErr := run(`{ num = num + 1; json = $ } END { print num, json }`, `[10, 20, 30]`)
	if otherErr != "" || otherOut != "3 30\n" {
		t.Fatalf("unrelated run: got %q, error %q", otherOut, otherErr)
	}

	out2, err2 := run(prog, input)
	if out2 != out1 || err2 != err1 {
		t.Fatalf("the same program, selectors and input gave a different result after an unrelated run:\nbefore: output %q error %q\nafter:  output %q error %q", out1, err1, out2, err2)
	}
}
