package main

import (
	"strings"
	"testing"

	lang "github.com/alligator/jqawk/src"
)

func runDemoC05B(prog string, json string) (string, error) {
	var sb strings.Builder
	files := []lang.InputFile{{Name: "<demo>", Reader: strings.NewReader(json)}}
	_, err := lang.EvalProgram(prog, files, nil, &sb, false)
	return sb.String(), err
}

// a ~ b / a !~ b test str(a) against the pattern b holds *at the time of the
// evaluation*. A regex is a first-class value: the same ~ expression can see
// a different regex each time it runs (function parameter, loop variable,
// reassigned variable), and every evaluation must use the current one.
func TestDemoC05B(t *testing.T) {
	cases := []struct {
		name     string
		prog     string
		json     string
		expected string
	}{
		{
			name: "regex passed as a function argument",
			prog: `
				function matches(s, re) { return s ~ re }
				BEGIN { print matches('apple', /^a/), matches('apple', /^b/), matches('banana', /^b/) }
			`,
			json:     "[]",
			expected: "true false true\n",
		},
		{
			name: "regexes from an array, one match site in a loop",
			prog: `
				BEGIN {
					pats = [/^[0-9]+$/, /^[a-z]+$/, /^$/]
					for (p in pats) {
						print 'abc' ~ p, 'abc' !~ p
					}
				}
			`,
			json:     "[]",
			expected: "false true\ntrue false\nfalse true\n",
		},
		{
			name: "pattern variable reassigned between records",
			prog: `
				BEGIN { re = /Asia/ }
				$.c ~ re { print $.n }
				$.n == 'Japan' { re = /Europe/ }
			`,
			json:     `[{"n": "China", "c": "Asia"}, {"n": "Japan", "c": "Asia"}, {"n": "India", "c": "Asia"}, {"n": "France", "c": "Europe"}]`,
			expected: "China\nJapan\nFrance\n",
		},
	}

	for _, tc := range cases {
		out, err := runDemoC05B(tc.prog, tc.json)
		if err != nil {
			t.Errorf("%s: unexpected error: %v", tc.name, err)
			continue
		}
		if out != tc.expected {
			t.Errorf("%s: expected %q, got %q", tc.name, tc.expected, out)
		}
	}

	// an invalid pattern is a runtime error, also when the same match site
	// was evaluated with a valid regex before
	out, err := runDemoC05B(`
		function matches(s, re) { return s ~ re }
		BEGIN { print matches('a', /a/); print matches('a', /a(/) }
	`, "[]")
	if err == nil {
		t.Errorf("invalid pattern: expected a runtime error, got output %q", out)
	} else if _, ok := err.(lang.RuntimeError); !ok {
		t.Errorf("invalid pattern: expected a lang.RuntimeError, got %T: %v", err, err)
	}
}
