package main

import (
	"strings"
	"testing"

	lang "github.com/alligator/jqawk/src"
)

// A numeric literal is a digit sequence with an optional fraction and denotes
// the decimal number it spells: leading zeros change nothing.
func TestDemoC13K(t *testing.T) {
	run := func(prog string) string {
		var sb strings.Builder
		_, err := lang.EvalProgram(prog, nil, nil, &sb, false)
		if err != nil {
			return sb.String() + "error: " + err.Error()
		}
		return sb.String()
	}

	cases := []struct {
		prog     string
		expected string
	}{
		// sanity: these spellings are not affected by anything
		{"BEGIN { print 10, 7, 0, 1.50, 00.5, 08, 019 }", "10 7 0 1.5 0.5 8 19\n"},
		// the same number with and without leading zeros
		{"BEGIN { print 010 }", "10\n"},
		{"BEGIN { print 10 == 010, 0100 - 100, 0017 + 1 }", "true 0 18\n"},
		// zero-padded index / counter bound, as in date or id handling
		{"BEGIN { a = [0,1,2,3,4,5,6,7,8,9,10,11,12]; print a[010], a[011] }", "10 11\n"},
		{"BEGIN { n = 0; for (i = 0; i < 012; i++) n++; print n }", "12\n"},
	}
	for _, c := range cases {
		if got := run(c.prog); got != c.expected {
			t.Errorf("program %q\nexpected %q\ngot      %q", c.prog, c.expected, got)
		}
	}
}
