package main

import (
	"strings"
	"testing"

	lang "github.com/alligator/jqawk/src"
)

// break/continue are only legal inside the BODY of a loop. A break that sits in
// a match block inside the HEADER of a for statement (init/condition/post
// clause, or the iterable of for-in) belongs to the enclosing context; when
// there is no enclosing loop the program has a syntax error and must produce
// no output at all, however much valid program precedes it.
func TestDemoC11K(t *testing.T) {
	progs := []string{
		// break in the condition clause of a C-style for, no enclosing loop
		`BEGIN { print 'before' }
		 BEGIN { for (i = 0; match (i) { 0 => { break } }; i++) { print 'body' } print 'after' }`,
		// continue in the iterable of a for-in, no enclosing loop
		`BEGIN { print 'before' }
		 { print }
		 END { for (x in match (1) { 1 => { continue } }) { print x } print 'after' }`,
		// break in the post clause, inside a function (still not in a loop body)
		`function f(n) { for (i = 0; i < n; match (i) { k => { break } }) { print i } return n }
		 BEGIN { print 'before'; print f(2) }`,
	}

	for _, prog := range progs {
		var sb strings.Builder
		files := []lang.InputFile{{Name: "<demo>", Reader: strings.NewReader(`[1, 2, 3]`)}}
		_, err := lang.EvalProgram(prog, files, nil, &sb, false)

		if err == nil {
			t.Errorf("program was accepted and ran to completion, expected a syntax error\nprogram: %s\noutput: %q", prog, sb.String())
			continue
		}
		synErr, ok := err.(lang.SyntaxError)
		if !ok {
			t.Errorf("expected a lang.SyntaxError, got %T (%q)\nprogram: %s\noutput: %q", err, err.Error(), prog, sb.String())
		} else if !strings.Contains(synErr.Message, "inside a loop") {
			t.Errorf("unexpected syntax error %q\nprogram: %s", synErr.Message, prog)
		}
		if sb.Len() != 0 {
			t.Errorf("a program with a syntax error produced output %q\nprogram: %s", sb.String(), prog)
		}
	}

	// sanity: the same header placement is fine when a loop does enclose it,
	// and a break in the body of a for loop keeps working
	ok := `BEGIN {
		while (true) { for (i = 0; match (i) { 0 => { break } }; i++) { print 'never' } }
		for (i = 0; i < 10; i++) { if (i == 2) { break } print i }
		print 'done'
	}`
	var sb strings.Builder
	if _, err := lang.EvalProgram(ok, nil, nil, &sb, false); err != nil {
		t.Fatalf("valid program rejected: %v", err)
	}
	if sb.String() != "0\n1\ndone\n" {
		t.Fatalf("valid program printed %q", sb.String())
	}
}
