package main

import (
	"bytes"
	"strings"
	"testing"

	lang "github.com/alligator/jqawk/src"
)

func runDemoC08N(t *testing.T, prog string, json string) string {
	var out bytes.Buffer
	files := []lang.InputFile{{Name: "demo.json", Reader: strings.NewReader(json)}}
	_, err := lang.EvalProgram(prog, files, nil, &out, false)
	if err != nil {
		t.Fatalf("unexpected error: %s", err.Error())
	}
	return out.String()
}

// A variable first created inside a call is gone once the call has finished,
// wherever in the function body it was created: also inside the body of a
// match case. Neither the caller nor a later call can see it.
func TestDemoC08N(t *testing.T) {
	// 1. nothing the call created is visible afterwards
	got := runDemoC08N(t, `
		function f(v) {
			match (v) {
				[x] => { tmp = x * 2 }
			}
			return 0
		}
		BEGIN {
			f([4])
			print tmp is unknown, x is unknown, v is unknown
		}
	`, `[]`)
	if got != "true true true\n" {
		t.Errorf("after the call: expected %q, got %q", "true true true\n", got)
	}

	// 2. a later call does not find what an earlier call left behind
	got = runDemoC08N(t, `
		function f(v) {
			return match (v) {
				[x] => { seen = x },
				other => seen
			}
		}
		BEGIN {
			f([7])
			r = f(1)
			print r is unknown
		}
	`, `[]`)
	if got != "true\n" {
		t.Errorf("later call: expected %q, got %q", "true\n", got)
	}

	// 3. the same over a long input: the n-th record is treated like the first
	var sb strings.Builder
	sb.WriteString("[[1]")
	for i := 0; i < 3000; i++ {
		sb.WriteString(",2")
	}
	sb.WriteString("]")
	got = runDemoC08N(t, `
		function f(v) {
			return match (v) {
				[x] => { seen = x },
				other => seen
			}
		}
		{ if (f($) is unknown) n++ }
		END { print n, seen is unknown }
	`, sb.String())
	if got != "3000 true\n" {
		t.Errorf("long input: expected %q, got %q", "3000 true\n", got)
	}
}
