package main

import (
	"bytes"
	"strings"
	"testing"

	lang "github.com/alligator/jqawk/src"
)

// a ~ b / a !~ b: the result is whether the pattern that b holds *now* matches
// somewhere in str(a), and a pattern RE2 rejects is a runtime error, however
// often the same match expression has been evaluated before and whatever b
// held then.
func TestDemoC05F(t *testing.T) {
	run := func(prog string, input string) (string, error) {
		var out bytes.Buffer
		files := []lang.InputFile{}
		if input != "" {
			files = append(files, lang.InputFile{Name: "in.json", Reader: strings.NewReader(input)})
		}
		_, err := lang.EvalProgram(prog, files, nil, &out, false)
		return out.String(), err
	}

	// one match expression, reached with a different regex each time
	prog := `
		function matches(s, re) {
			return s ~ re
		}
		BEGIN {
			print matches("apple", /^a/), matches("banana", /^b/), matches("cherry", /^a/)
			print matches("apple", /e$/), matches("apple", "^b"), matches("apple", "^a")

			pats = [/[0-9]+/, /^[a-z]+$/, /x|y/]
			for (p in pats) {
				print "abc" ~ p, "abc" !~ p, 42 ~ p
			}
		}
	`
	expected := "true true false\n" +
		"true false true\n" +
		"false true true\n" +
		"true false false\n" +
		"false true false\n"
	got, err := run(prog, "")
	if err != nil {
		t.Fatalf("unexpected error: %v", err)
	}
	if got != expected {
		t.Errorf("regex held by a variable:\nexpected\n%s\ngot\n%s", expected, got)
	}

	// the pattern variable changes between records
	prog = `
		BEGIN { pat = /^a/ }
		$.name ~ pat { print $.name; pat = /o$/ }
	`
	expected = "alice\nangelo\nbo\n"
	got, err = run(prog, `[{"name": "alice"}, {"name": "angelo"}, {"name": "anna"}, {"name": "bo"}]`)
	if err != nil {
		t.Fatalf("unexpected error: %v", err)
	}
	if got != expected {
		t.Errorf("regex changed between records:\nexpected\n%s\ngot\n%s", expected, got)
	}

	// an invalid pattern is a runtime error also on a later evaluation
	prog = `
		function matches(s, re) {
			return s ~ re
		}
		BEGIN {
			print matches("a", /a/)
			print matches("a", "(")
			print "not reached"
		}
	`
	got, err = run(prog, "")
	if err == nil {
		t.Errorf("expected a runtime error for the pattern \"(\", got output\n%s", got)
	} else if got != "true\n" {
		t.Errorf("expected only the first line before the error, got\n%s", got)
	}
}
