package main

import (
	"bytes"
	"strconv"
	"testing"

	lang "github.com/alligator/jqawk/src"
)

// printf's %f directive is replaced by the rendering of its number argument:
// the shortest decimal text that reads back as the same number
// (strconv.FormatFloat(n, 'f', -1, 64)), which is also what %v and print
// write for that number. This must hold for every number, in particular for
// whole numbers too large to be exact in 53 bits and for negative zero.
func TestDemoC18I(t *testing.T) {
	run := func(prog string) string {
		t.Helper()
		var out bytes.Buffer
		if _, err := lang.EvalProgram(prog, nil, nil, &out, false); err != nil {
			t.Fatalf("%s: unexpected error: %v", prog, err)
		}
		return out.String()
	}

	cases := []struct {
		src string  // how the number is written in the program
		num float64 // the number it denotes
	}{
		{"7", 7},
		{"-12", -12},
		{"3.25", 3.25},
		{"9007199254740992", 9007199254740992},       // 2^53
		{"4611686018427387904", 4611686018427387904}, // 2^62
		{"(0 - 1152921504606846976)", -1152921504606846976},
		{"(1024 * 1024 * 1024 * 1024 * 1024 * 1024)", 1152921504606846976}, // 2^60
		{"(-0)", negZero()},
	}

	for _, c := range cases {
		want := strconv.FormatFloat(c.num, 'f', -1, 64)

		got := run(`BEGIN { printf("[%f]", ` + c.src + `) }`)
		if got != "["+want+"]" {
			t.Errorf("printf(\"[%%f]\", %s) wrote %q, want %q", c.src, got, "["+want+"]")
		}

		// the same number rendered by %f and by %v must be the same text
		both := run(`BEGIN { n = ` + c.src + `; printf("%f|%v", n, n) }`)
		if both != want+"|"+want {
			t.Errorf("printf(\"%%f|%%v\", n, n) with n = %s wrote %q, want %q", c.src, both, want+"|"+want)
		}
	}

	// the padding is computed from that rendering: 2^62 renders in 19 bytes
	got := run(`BEGIN { printf("%22f|%-22f|%022f|", 4611686018427387904, 4611686018427387904, 4611686018427387904) }`)
	want := "   4611686018427388000|4611686018427388000   |0004611686018427388000|"
	if got != want {
		t.Errorf("padded: wrote %q, want %q", got, want)
	}
}

func negZero() float64 {
	z := 0.0
	return -z
}
