package main

import (
	"strings"
	"testing"

	lang "github.com/alligator/jqawk/src"
)

// A break/continue that is not inside any loop is a syntax error, and a syntax
// error anywhere pre-empts all execution: no output, only a SyntaxError. That
// has to hold even when a (complete, valid) loop appears earlier in the
// program, in the same block or in an earlier rule.
func TestDemoC11E(t *testing.T) {
	progs := []struct {
		name string
		src  string
		msg  string
	}{
		{
			name: "break after a finished loop in the same block",
			src:  `BEGIN { for (i = 0; i < 2; i++) { n = n + 1 } print "before"; break; print "after" }`,
			msg:  "can only break inside a loop",
		},
		{
			name: "continue in a later rule than the loop",
			src:  "BEGIN { while (k < 1) { k++ } print \"begin\" }\n{ print \"item\" }\nEND { print \"end\"; continue }",
			msg:  "can only continue inside a loop",
		},
		{
			name: "break after a for-in loop nested in an if",
			src:  "{ if ($ > 0) { for (c in \"ab\") { print c } }\n print $\n break }",
			msg:  "can only break inside a loop",
		},
	}

	for _, p := range progs {
		var out strings.Builder
		files := []lang.InputFile{{Name: "<demo>", Reader: strings.NewReader("[1, 2]")}}
		_, err := lang.EvalProgram(p.src, files, nil, &out, false)
		if err == nil {
			t.Fatalf("%s: expected a syntax error, got none (output %q)", p.name, out.String())
		}
		synErr, ok := err.(lang.SyntaxError)
		if !ok {
			t.Fatalf("%s: expected a lang.SyntaxError, got %T %q (output %q)", p.name, err, err.Error(), out.String())
		}
		if synErr.Message != p.msg {
			t.Fatalf("%s: expected syntax error %q, got %q", p.name, p.msg, synErr.Message)
		}
		if out.String() != "" {
			t.Fatalf("%s: a program with a syntax error must print nothing, got %q", p.name, out.String())
		}
	}
}
