package main

import (
	"bufio"
	"io"
	"os/exec"
	"path/filepath"
	"testing"
	"time"
)

// Once a value and one following byte (whitespace suffices) have arrived on
// the input, the value is processed and its output written without waiting
// for anything else to arrive. This also holds for the very first value of an
// input when that value is a single character long.
func TestDemoC03L(t *testing.T) {
	exe := filepath.Join(t.TempDir(), "jqawk-demo")
	if out, err := exec.Command("go", "build", "-o", exe, ".").CombinedOutput(); err != nil {
		t.Fatalf("error building: %v\n%s", err, out)
	}

	cmd := exec.Command(exe, `{ print "got", $ }`)
	stdin, err := cmd.StdinPipe()
	if err != nil {
		t.Fatal(err)
	}
	stdout, err := cmd.StdoutPipe()
	if err != nil {
		t.Fatal(err)
	}
	if err := cmd.Start(); err != nil {
		t.Fatal(err)
	}

	lines := make(chan string, 16)
	go func() {
		br := bufio.NewReader(stdout)
		for {
			line, err := br.ReadString('\n')
			if line != "" {
				lines <- line
			}
			if err != nil {
				close(lines)
				return
			}
		}
	}()

	failed := false
	expect := func(input string, expected string) {
		if failed {
			return
		}
		io.WriteString(stdin, input)
		select {
		case line, ok := <-lines:
			if !ok || line != expected {
				failed = true
				t.Errorf("after writing %q: expected %q, got %q", input, expected, line)
			}
		case <-time.After(3 * time.Second):
			failed = true
			t.Errorf("after writing %q: no output within 3s, expected %q; the value is complete and must not wait for later input", input, expected)
		}
	}

	// the writer pauses after each value: nothing else arrives until the
	// output for the value has been seen
	expect("7\n", "got 7\n")
	expect("8\n", "got 8\n")
	expect("[9]", "got 9\n")

	stdin.Close()
	done := make(chan error, 1)
	go func() { done <- cmd.Wait() }()
	select {
	case err := <-done:
		if err != nil && !failed {
			t.Errorf("jqawk failed: %v", err)
		}
	case <-time.After(3 * time.Second):
		cmd.Process.Kill()
		t.Errorf("jqawk did not exit after its input was closed")
	}
}
