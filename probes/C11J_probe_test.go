package main

import (
	"strings"
	"testing"

	lang "github.com/alligator/jqawk/src"
)

// A runtime fault stops the run at the fault, whatever position it occurs in.
// Here the fault (comparing a container with a scalar, or a pattern that match
// does not support) occurs in an element of an array pattern of a match case.
func TestDemoC11J(t *testing.T) {
	cases := []struct {
		prog     string
		json     string
		expected string
	}{
		{
			// the first element of the subject is an array, the pattern compares it to 1
			prog: `BEGIN {
				print "before"
				r = match ([[1], 2]) {
					[1, 2] => "matched",
					x => "fallback"
				}
				print "after", r
			}`,
			json:     "[]",
			expected: "before\n",
		},
		{
			// same fault in a pattern rule: the run stops at the first record that faults
			prog: `{
				print "record", $index
				print match ($) { ["a", 1] => "a1", [k, v] => k }
			}
			END { print "end" }`,
			json:     `[["a", 1], ["b", 2], [{"x": 1}, 3], ["c", 4]]`,
			expected: "record 0\na1\nrecord 1\nb\nrecord 2\n",
		},
		{
			// an unsupported pattern nested in an array pattern
			prog: `BEGIN {
				print "start"
				match ([3]) { [1 + 2] => { print "sum" }, y => { print "other" } }
				print "done"
			}`,
			json:     "[]",
			expected: "start\n",
		},
	}

	for _, tc := range cases {
		var sb strings.Builder
		files := []lang.InputFile{
			{Name: "<demo>", Reader: strings.NewReader(tc.json)},
		}
		_, err := lang.EvalProgram(tc.prog, files, nil, &sb, false)
		if err == nil {
			t.Errorf("program %q: expected a runtime error, got none (output %q)", tc.prog, sb.String())
		} else if _, ok := err.(lang.RuntimeError); !ok {
			t.Errorf("program %q: expected a runtime error, got %T: %v", tc.prog, err, err)
		}
		if sb.String() != tc.expected {
			t.Errorf("program %q: expected output %q, got %q", tc.prog, tc.expected, sb.String())
		}
	}
}
