package main

import (
	"fmt"
	"io"
	"strings"
	"testing"

	lang "github.com/alligator/jqawk/src"
)

// demoC03OChunks hands out its data in reads of at most n bytes.
type demoC03OChunks struct {
	data []byte
	n    int
}

func (c *demoC03OChunks) Read(p []byte) (int, error) {
	if len(c.data) == 0 {
		return 0, io.EOF
	}
	n := c.n
	if n > len(p) {
		n = len(p)
	}
	if n > len(c.data) {
		n = len(c.data)
	}
	copy(p, c.data[:n])
	c.data = c.data[n:]
	return n, nil
}

func demoC03ORun(r io.Reader) string {
	var sb strings.Builder
	_, err := lang.EvalProgram(`{ print $ } ENDFILE { print "end" }`,
		[]lang.InputFile{{Name: "in.json", Reader: r}}, nil, &sb, false)
	res := "ok"
	if err != nil {
		if je, isJson := err.(lang.JsonError); isJson {
			res = "JsonError(" + je.FileName + ")"
		} else {
			res = fmt.Sprintf("other error %T", err)
		}
	}
	return fmt.Sprintf("out=%q result=%s", sb.String(), res)
}

// The result of a run must not depend on how the input bytes are split
// across reads.  Every stream below is run once per chunk size and all runs
// of one stream have to agree.
func TestDemoC03O(t *testing.T) {
	streams := []string{
		"[1, 2] {\"a\": 3} \"x\" 4 ",
		"\xef\xbb\xbf[1, 2] 3 ",
		"\xef\xbb[1, 2] 3 ",
		"\xef\xbb\xbf",
		"7 \xef\xbb\xbf 8 ",
		"\"\xef\xbb\xbf\" 9 ",
	}
	for _, s := range streams {
		whole := demoC03ORun(strings.NewReader(s))
		for _, n := range []int{1, 2, 3, 4, 5, 7, 64} {
			got := demoC03ORun(&demoC03OChunks{data: []byte(s), n: n})
			if got != whole {
				t.Errorf("stream %q: read in one piece gives %s, in reads of %d bytes gives %s", s, whole, n, got)
			}
		}
	}
}
