package main

import (
	"strings"
	"testing"

	lang "github.com/alligator/jqawk/src"
)

// demoC11RRun runs prog over json and returns what was printed and the error.
func demoC11RRun(prog string, json string) (string, error) {
	var sb strings.Builder
	files := []lang.InputFile{{Name: "<demo>", Reader: strings.NewReader(json)}}
	_, err := lang.EvalProgram(prog, files, nil, &sb, false)
	return sb.String(), err
}

// C11: storing a member on a scalar is a runtime fault. Wherever it happens the
// run stops there with a runtime error: what was printed before is kept,
// nothing is printed afterwards, and the fault is never silently ignored.
//
// Here the scalar only comes into being while the right-hand side of the
// store is evaluated (the target was looked up first, when its parent was
// still missing).
func TestDemoC11R(t *testing.T) {
	cases := []struct {
		name    string
		prog    string
		json    string
		wantOut string
		wantErr string
	}{
		{
			name:    "chained assignment makes the parent a number",
			prog:    `BEGIN { print "before"; a.b.x = a.b = 5; print "after", a }`,
			json:    "[]",
			wantOut: "before\n",
			wantErr: "cannot set member on a number",
		},
		{
			name: "function called on the right-hand side makes the parent a string",
			prog: `
				function setb() { a.b = "s"; return 1 }
				BEGIN { print "before"; a.b.x = setb(); print "after", a }
			`,
			json:    "[]",
			wantOut: "before\n",
			wantErr: "cannot set member on a string",
		},
		{
			name:    "two levels below a bool, in a pattern rule",
			prog:    `{ print "before", $index; $.n.m.x = $.n = true; print "after", $ } END { print "end" }`,
			json:    `[{"v": 1}, {"v": 2}]`,
			wantOut: "before 0\n",
			wantErr: "cannot set member on a bool",
		},
		{
			// control: the same fault when the scalar was there all along
			name:    "plain store on a number",
			prog:    `BEGIN { print "before"; a.b = 5; a.b.x = 1; print "after", a }`,
			json:    "[]",
			wantOut: "before\n",
			wantErr: "cannot set member on a number",
		},
	}

	for _, c := range cases {
		out, err := demoC11RRun(c.prog, c.json)
		if err == nil {
			t.Errorf("%s: the store on a scalar was silently ignored, the run went on and printed %q", c.name, out)
			continue
		}
		if _, ok := err.(lang.RuntimeError); !ok {
			t.Errorf("%s: expected a runtime error, got %T %v", c.name, err, err)
		} else if err.Error() != c.wantErr {
			t.Errorf("%s: expected runtime error %q, got %q", c.name, c.wantErr, err.Error())
		}
		if out != c.wantOut {
			t.Errorf("%s: expected output %q (everything before the fault, nothing after), got %q", c.name, c.wantOut, out)
		}
	}

	// the fault-free sibling: the right-hand side creates a container, which
	// the store then goes into
	out, err := demoC11RRun(`BEGIN { print "before"; a.b.x = a.b.y = 1; print "after", a }`, "[]")
	if err != nil {
		t.Fatalf("valid program failed: %v", err)
	}
	if out != "before\nafter {\"b\": {\"x\": 1, \"y\": 1}}\n" {
		t.Errorf("valid program printed %q", out)
	}
}
