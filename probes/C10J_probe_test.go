package main

import (
	"strings"
	"testing"

	lang "github.com/alligator/jqawk/src"
)

// Iterating an object must visit its keys in an order that depends on the
// input bytes only, never on Go's randomised map order. The input here has
// keys that are different strings but spell the same number ("7", "07",
// "7.0", ...), as zero-padded or reformatted ids do.
func TestDemoC10J(t *testing.T) {
	run := func(prog string, input string) string {
		var sb strings.Builder
		files := []lang.InputFile{{Name: "<demo>", Reader: strings.NewReader(input)}}
		if _, err := lang.EvalProgram(prog, files, nil, &sb, false); err != nil {
			t.Fatalf("run failed: %v", err)
		}
		return sb.String()
	}

	prog := `{ for (k, v in $) { line = line + k + "=" + v + " " } print line }`
	input := `{ "7": "a", "07": "b", "007": "c", "7.0": "d", "7.00": "e", "7e0": "f", "12": "g", "name": "h" }`

	first := run(prog, input)
	if strings.Count(first, "=") != 8 {
		t.Fatalf("expected all 8 members to be visited, got %q", first)
	}
	for i := 2; i <= 200; i++ {
		again := run(prog, input)
		if again != first {
			t.Fatalf("run %d printed\n  %q\nbut the first run of the same program on the same input printed\n  %q", i, again, first)
		}
	}
}
