package main

import (
	"bytes"
	"os"
	"os/exec"
	"path/filepath"
	"testing"
)

// -o FILE must write exactly the bytes that -o - prints after the program's
// own output, for every input, including the case where FILE is the input
// file itself (an in-place edit: the input has been read completely by the
// time the JSON is written).
func TestDemoC14O(t *testing.T) {
	dir := t.TempDir()
	exe := filepath.Join(dir, "jqawk-demo")
	build := exec.Command("go", "build", "-o", exe, ".")
	if out, err := build.CombinedOutput(); err != nil {
		t.Fatalf("building the command failed: %v\n%s", err, out)
	}

	run := func(args ...string) (string, string, int) {
		cmd := exec.Command(exe, args...)
		cmd.Dir = dir
		cmd.Stdin = bytes.NewReader(nil)
		var stdout, stderr bytes.Buffer
		cmd.Stdout = &stdout
		cmd.Stderr = &stderr
		err := cmd.Run()
		code := 0
		if err != nil {
			if ee, ok := err.(*exec.ExitError); ok {
				code = ee.ExitCode()
			} else {
				t.Fatalf("running %v: %v", args, err)
			}
		}
		return stdout.String(), stderr.String(), code
	}

	input := `[{ "name": "a", "n": 1 }, { "name": "b", "n": 2 }, { "name": "c", "n": 3 }]`
	prog := `{ $.n = $.n * 10; print $.name }`
	progOut := "a\nb\nc\n"
	wantJSON := `[
  {
    "n": 10,
    "name": "a"
  },
  {
    "n": 20,
    "name": "b"
  },
  {
    "n": 30,
    "name": "c"
  }
]`

	data := filepath.Join(dir, "data.json")
	write := func() {
		if err := os.WriteFile(data, []byte(input), 0o644); err != nil {
			t.Fatal(err)
		}
	}

	// reference: -o - prints the program's output followed by the JSON
	write()
	stdout, stderr, code := run("-o", "-", prog, "data.json")
	if code != 0 || stderr != "" {
		t.Fatalf("-o -: exit %d, stderr %q", code, stderr)
	}
	if stdout != progOut+wantJSON {
		t.Fatalf("-o -: unexpected output %q", stdout)
	}

	// -o to another file: same program output, the JSON goes to the file
	other := filepath.Join(dir, "other.json")
	stdout, stderr, code = run("-o", "other.json", prog, "data.json")
	if code != 0 || stderr != "" {
		t.Fatalf("-o other.json: exit %d, stderr %q", code, stderr)
	}
	if stdout != progOut {
		t.Fatalf("-o other.json: program output %q, want %q", stdout, progOut)
	}
	got, err := os.ReadFile(other)
	if err != nil {
		t.Fatal(err)
	}
	if string(got) != wantJSON {
		t.Fatalf("-o other.json wrote %q, want %q", got, wantJSON)
	}

	// -o onto the input file itself: the same bytes again
	write()
	stdout, stderr, code = run("-o", "data.json", prog, "data.json")
	if code != 0 || stderr != "" {
		t.Fatalf("-o data.json (in place): exit %d, stderr %q", code, stderr)
	}
	if stdout != progOut {
		t.Errorf("-o data.json (in place): program output %q, want %q", stdout, progOut)
	}
	got, err = os.ReadFile(data)
	if err != nil {
		t.Fatal(err)
	}
	if string(got) != wantJSON {
		t.Errorf("-o data.json (in place) wrote %q, but -o - prints %q", got, wantJSON)
	}

	// a failing program prints no JSON with -o -, so -o FILE must leave an
	// existing FILE alone
	keep := filepath.Join(dir, "keep.json")
	if err := os.WriteFile(keep, []byte("precious"), 0o644); err != nil {
		t.Fatal(err)
	}
	write()
	_, stderr, code = run("-o", "keep.json", `{ print 1 / 0 }`, "data.json")
	if code == 0 || stderr == "" {
		t.Fatalf("failing program: exit %d, stderr %q", code, stderr)
	}
	got, err = os.ReadFile(keep)
	if err != nil {
		t.Fatal(err)
	}
	if string(got) != "precious" {
		t.Errorf("failing program: -o keep.json changed the file to %q", got)
	}
}
