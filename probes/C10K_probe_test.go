package main

import (
	"bytes"
	"strings"
	"testing"

	lang "github.com/alligator/jqawk/src"
)

// one complete run of the interpreter: program text + input bytes in,
// (stdout, JSON output, error text) out
func demoC10KRun(prog string, input string) (string, string, string) {
	var stdout bytes.Buffer
	files := []lang.InputFile{{Name: "<demo>", Reader: strings.NewReader(input)}}
	ev, err := lang.EvalProgram(prog, files, nil, &stdout, false)
	if err != nil {
		return stdout.String(), "", "error: " + err.Error()
	}
	j, jerr := ev.GetRootJson()
	if jerr != nil {
		return stdout.String(), "", "json error: " + jerr.Error()
	}
	return stdout.String(), j, ""
}

// The result of a run must not depend on which other programs ran earlier in
// the same process. Program "other" merely uses the names of the runtime
// functions (num, json) as ordinary variables, which the language allows.
func TestDemoC10K(t *testing.T) {
	const prog = `{ print num($.s) + 1; print json([$.s]) }`
	const input = `[{"s": "41"}, {"s": "x"}]`

	const other = `{ num = $.n; total += num } END { json = total; print json }`
	const otherInput = `[{"n": 1}, {"n": 2}]`

	out1, json1, err1 := demoC10KRun(prog, input)
	if err1 != "" {
		t.Fatalf("first run failed: %s", err1)
	}
	wantOut := "42\n[\n  \"41\"\n]\n1\n[\n  \"x\"\n]\n"
	if out1 != wantOut {
		t.Fatalf("first run printed %q, want %q", out1, wantOut)
	}

	// an unrelated run in between
	oOut, _, oErr := demoC10KRun(other, otherInput)
	if oErr != "" || oOut != "3\n" {
		t.Fatalf("unrelated run: stdout %q, %s", oOut, oErr)
	}

	// same program, same input bytes: must give the same result
	out2, json2, err2 := demoC10KRun(prog, input)
	if err2 != err1 {
		t.Errorf("outcome changed after an unrelated run: first %q, then %q", err1, err2)
	}
	if out2 != out1 {
		t.Errorf("stdout changed after an unrelated run:\nfirst %q\nthen  %q", out1, out2)
	}
	if json2 != json1 {
		t.Errorf("JSON output changed after an unrelated run:\nfirst %q\nthen  %q", json1, json2)
	}

	// and the unrelated program itself must be repeatable too
	oOut2, _, oErr2 := demoC10KRun(other, otherInput)
	if oOut2 != oOut || oErr2 != oErr {
		t.Errorf("repeating the unrelated run: stdout %q -> %q, error %q -> %q", oOut, oOut2, oErr, oErr2)
	}
}
