package main

import (
	"strings"
	"testing"

	lang "github.com/alligator/jqawk/src"
)

// runC01H runs one program over one JSON input and reports how the run ended.
func runC01H(prog string, input string) (out string, err error, crash interface{}) {
	defer func() {
		if r := recover(); r != nil {
			crash = r
		}
	}()
	var sb strings.Builder
	files := []lang.InputFile{
		{Name: "<demo>", Reader: strings.NewReader(input)},
	}
	_, err = lang.EvalProgram(prog, files, nil, &sb, false)
	return sb.String(), err, nil
}

// A break or continue that is not inside a loop, placed AFTER a complete loop
// earlier in the program text. The loop is over, so the statement is outside
// any loop and the run has to stop with a syntax error before anything is
// executed. In no case may the internal break/continue signal come back from
// EvalProgram as the error of the run.
func TestDemoC01H(t *testing.T) {
	cases := []struct {
		name string
		prog string
	}{
		{
			"break after a for loop in the same rule",
			"{ total = 0\n for (x in $.items) { total += x }\n if (total > 4) break\n print total }",
		},
		{
			"continue after a while loop in BEGIN",
			"BEGIN { i = 0\n while (i < 2) { i++ }\n continue }",
		},
		{
			"break in END, the loop is in an earlier rule",
			"{ for (k, v in $) { n++ } }\nEND { if (n > 0) { break }\n print n }",
		},
		{
			"continue at the end of a function that has a loop",
			"function f(a) { for (i = 0; i < 2; i++) { a += i }\n continue }\n{ f(1); print 'done' }",
		},
		{
			"break in a match body after a loop",
			"{ for (c in 'ab') { s = s + c }\n match (s) { 'ab' => { break } } }",
		},
	}

	input := `[{"items": [1, 2, 3]}]`

	for _, tc := range cases {
		out, err, crash := runC01H(tc.prog, input)
		if crash != nil {
			t.Errorf("%s: crashed: %v", tc.name, crash)
			continue
		}
		if err == nil {
			t.Errorf("%s: the run completed (output %q), expected a syntax error", tc.name, out)
			continue
		}
		switch err.(type) {
		case lang.SyntaxError:
			// what has to happen
		case lang.RuntimeError, lang.JsonError:
			t.Errorf("%s: ended with %T %q, expected a syntax error", tc.name, err, err.Error())
		default:
			t.Errorf("%s: the run ended with the internal signal %#v (%q) instead of one of the three reported error kinds",
				tc.name, err, err.Error())
		}
		if out != "" {
			t.Errorf("%s: output %q was produced, a syntax error stops the run before anything is executed", tc.name, out)
		}
	}

	// nested loops keep working: break and continue inside an outer loop, after
	// an inner loop has ended, are fine
	out, err, crash := runC01H("{ for (x in $.items) { for (y in [1]) { }\n if (x == 2) continue\n if (x == 3) break\n print x } }", input)
	if crash != nil || err != nil || out != "1\n" {
		t.Errorf("control case: out=%q err=%v crash=%v", out, err, crash)
	}
}
