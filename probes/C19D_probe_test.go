package main

import (
	"strings"
	"testing"

	lang "github.com/alligator/jqawk/src"
)

func demoC19DRun(t *testing.T, prog string, json string) string {
	t.Helper()
	var sb strings.Builder
	files := []lang.InputFile{}
	if json != "" {
		files = append(files, lang.InputFile{Name: "<demo>", Reader: strings.NewReader(json)})
	}
	if _, err := lang.EvalProgram(prog, files, nil, &sb, false); err != nil {
		t.Fatalf("program %q failed: %v", prog, err)
	}
	return sb.String()
}

// A literal pattern matches only when the subject is equal to the literal.
// A subject that is merely close to the literal (less than 1 away from it)
// must fall through to the later cases.
func TestDemoC19D(t *testing.T) {
	cases := []struct {
		name, prog, json, want string
	}{
		{
			name: "fractional subjects against integer literals",
			prog: `{
				print match ($) {
					1 => 'one',
					2 => 'two',
					x => 'other ' + x,
				}
			}`,
			json: `[1, 2, 1.5, 2.25, 0.5, 3]`,
			want: "one\ntwo\nother 1.5\nother 2.25\nother 0.5\nother 3\n",
		},
		{
			name: "fractional literal, nested in an array pattern",
			prog: `{
				print match ($) {
					['rate', 0.5] => 'half',
					['rate', r] => 'rate ' + r,
					_ => 'none',
				}
			}`,
			json: `[["rate", 0.5], ["rate", 0.75], ["rate", 1], ["rate", 2]]`,
			want: "half\nrate 0.75\nrate 1\nrate 2\n",
		},
		{
			name: "computed subject",
			prog: `BEGIN {
				print match (7 / 2) {
					3 => 'three',
					4 => 'four',
					_ => 'neither',
				}
			}`,
			want: "neither\n",
		},
	}
	for _, tc := range cases {
		got := demoC19DRun(t, tc.prog, tc.json)
		if got != tc.want {
			t.Errorf("%s: got %q, want %q", tc.name, got, tc.want)
		}
	}
}
