package main

import (
	"strings"
	"testing"

	lang "github.com/alligator/jqawk/src"
)

func demoC13MRun(t *testing.T, prog string) string {
	t.Helper()
	var sb strings.Builder
	_, err := lang.EvalProgram(prog, nil, nil, &sb, false)
	if err != nil {
		t.Fatalf("program %q failed: %v", prog, err)
	}
	return sb.String()
}

// A numeric literal is a sequence of decimal digits with an optional fraction:
// its value does not depend on how it is spelled. Leading zeros change nothing,
// and the spellings 010, 10, 10.0 and 0010.00 all denote ten.
func TestDemoC13M(t *testing.T) {
	spellings := []struct {
		lit  string
		want string
	}{
		{"10", "10"},
		{"010", "10"},
		{"0010", "10"},
		{"10.0", "10"},
		{"010.0", "10"},
		{"007", "7"},
		{"08", "8"},
		{"017", "17"},
		{"0777", "777"},
		{"00100", "100"},
		{"0", "0"},
		{"00", "0"},
	}
	for _, s := range spellings {
		got := demoC13MRun(t, "BEGIN { print "+s.lit+" }")
		if got != s.want+"\n" {
			t.Errorf("literal %s printed %q, want %q", s.lit, got, s.want+"\n")
		}
	}

	// the literal and the same digits converted at run time agree
	got := demoC13MRun(t, "BEGIN { print 0100 == num('0100'), 0100 + 1, 1-010 }")
	if want := "true 101 -9\n"; got != want {
		t.Errorf("got %q, want %q", got, want)
	}

	// used as an index and in a comparison
	got = demoC13MRun(t, "BEGIN { a = [0,1,2,3,4,5,6,7,8,9,10,11]; print a[010], a[08], 011 > 10 }")
	if want := "10 8 true\n"; got != want {
		t.Errorf("got %q, want %q", got, want)
	}
}
