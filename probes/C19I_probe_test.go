package main

import (
	"bytes"
	"strings"
	"testing"

	lang "github.com/alligator/jqawk/src"
)

// A match nested in the body of a case binds its own names for its own case
// body only. The names bound by the outer case stay visible, with the values
// the outer pattern gave them, in the rest of the outer body: before, inside
// (where not shadowed) and after the nested match.
func TestDemoC19I(t *testing.T) {
	run := func(prog, input string) string {
		t.Helper()
		var out bytes.Buffer
		files := []lang.InputFile{}
		if input != "" {
			files = append(files, lang.InputFile{Name: "input", Reader: strings.NewReader(input)})
		}
		if _, err := lang.EvalProgram(prog, files, nil, &out, false); err != nil {
			t.Fatalf("program %q failed: %v", prog, err)
		}
		return out.String()
	}

	cases := []struct {
		name, prog, input, want string
	}{
		{
			// the inner case rebinds x (to 2); once it is done the outer x (1)
			// is what the outer body sees again
			name: "inner binding shadows only inside the inner case (expression bodies)",
			prog: `BEGIN {
				print match ([1, [2, 3]]) {
					[x, rest] => [match (rest) { [x, y] => x + y }, x]
				}
			}`,
			want: "[5, 1]\n",
		},
		{
			name: "same, block bodies, value taken from the input",
			prog: `{
				match ($) {
					[head, tail] => {
						inner = match (tail) { [head, last] => head * 10 + last }
						print inner, head
					}
				}
			}`,
			input: `[[1, [2, 3]], [7, [8, 9]]]`,
			want:  "23 1\n89 7\n",
		},
		{
			// a name bound only by the inner case is gone after the inner case:
			// y in the outer body is the global y
			name: "inner names do not leak into the rest of the outer body",
			prog: `BEGIN {
				y = 'global'
				print match ([1, 2]) {
					[a, b] => [match (b) { y => y + 1 }, y]
				}
			}`,
			want: "[3, \"global\"]\n",
		},
		{
			// control: no name is shared, nothing to get wrong
			name: "nested match with distinct names",
			prog: `BEGIN {
				print match ([1, [2, 3]]) {
					[x, rest] => [match (rest) { [p, q] => p + q }, x]
				}
			}`,
			want: "[5, 1]\n",
		},
	}

	for _, tc := range cases {
		if got := run(tc.prog, tc.input); got != tc.want {
			t.Errorf("%s:\n got  %q\n want %q", tc.name, got, tc.want)
		}
	}
}
