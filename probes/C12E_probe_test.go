package main

import (
	"io"
	"strings"
	"testing"

	lang "github.com/alligator/jqawk/src"
)

// An illegal character must be reported exactly on it: the reported line is the
// line holding the character, the quoted text is that line, and the 0-based byte
// column is the offset of the character inside that line. A lone '&' or '|'
// (half of '&&' / '||') is an illegal character like any other.
func TestDemoC12E(t *testing.T) {
	type tc struct {
		name string
		prog string
		bad  byte
	}
	cases := []tc{
		{"lone amp mid line", "BEGIN {\n  x = 1\n  y = x & 2\n}\n", '&'},
		{"lone pipe mid line", "BEGIN {\n  x = 1\n\n  # comment\n  y = x | 2\n}\n", '|'},
		{"lone amp at end of line", "BEGIN {\n  x = 1\n  y = x &\n  z = 2\n}\n", '&'},
		{"lone pipe after non-ascii and CRLF", "BEGIN {\r\n  s = 'h\xc3\xa9llo' # caf\xc3\xa9\r\n  y = s |s\r\n}\r\n", '|'},
		{"lone amp glued to operand", "BEGIN {\n  print 1\n}\n\n$.a&1 { print }\n", '&'},
		// control: an ordinary illegal character
		{"at sign", "BEGIN {\n  x = 1\n  y = x @ 2\n}\n", '@'},
	}

	for _, c := range cases {
		off := strings.IndexByte(c.prog, c.bad)
		if off < 0 {
			t.Fatalf("%s: bad test, no %q in program", c.name, c.bad)
		}
		lineStart := strings.LastIndexByte(c.prog[:off], '\n') + 1
		lineEnd := strings.IndexByte(c.prog[off:], '\n')
		if lineEnd < 0 {
			lineEnd = len(c.prog)
		} else {
			lineEnd += off
		}
		wantLine := strings.Count(c.prog[:off], "\n") + 1
		wantSrc := c.prog[lineStart:lineEnd]
		wantCol := off - lineStart

		files := []lang.InputFile{{Name: "<demo>", Reader: strings.NewReader(`[{"a":1}]`)}}
		_, err := lang.EvalProgram(c.prog, files, nil, io.Discard, false)
		synErr, ok := err.(lang.SyntaxError)
		if !ok {
			t.Errorf("%s: expected a SyntaxError, got %#v", c.name, err)
			continue
		}
		if !strings.HasPrefix(synErr.Message, "unexpected character") {
			t.Errorf("%s: expected an unexpected character error, got %q", c.name, synErr.Message)
			continue
		}
		if synErr.Line != wantLine || synErr.SrcLine != wantSrc || synErr.Col != wantCol {
			t.Errorf("%s: illegal %q reported at line %d col %d %q, want line %d col %d %q",
				c.name, c.bad, synErr.Line, synErr.Col, synErr.SrcLine, wantLine, wantCol, wantSrc)
			continue
		}
		if synErr.Col < 0 || synErr.Col >= len(synErr.SrcLine) || synErr.SrcLine[synErr.Col] != c.bad {
			t.Errorf("%s: column %d of %q is not the illegal character %q", c.name, synErr.Col, synErr.SrcLine, c.bad)
		}
	}
}
