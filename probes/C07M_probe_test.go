package main

import (
	"bytes"
	"strings"
	"testing"

	lang "github.com/alligator/jqawk/src"
)

// return leaves only the current function, from inside any nesting of
// conditionals, loops and match cases, and it leaves it completely: once the
// call is over the caller runs on with its own variables.
//
// second() returns from a block-bodied case that sits inside an
// expression-bodied case of an outer match. The caller's for-in then has to
// hand each pair in turn to second(), and the three-clause for has to run
// exactly three times.
func TestDemoC07M(t *testing.T) {
	prog := `
function second(v) {
	r = match (v) {
		[a, b] => match (a) {
			1 => { return b }
		},
		_ => -1
	}
	return r
}

function tag(i) {
	return match (i) {
		n => match (n % 2) {
			0 => { return 'even' }
			1 => { return 'odd' }
		}
	}
}

BEGIN {
	for (v in [[1, 10], [1, 20], [2, 30], 7]) {
		print second(v), v
	}
	for (i = 0; i < 3; i++) {
		print i, tag(i + 10)
	}
	print 'done', i
}
`
	expected := strings.Join([]string{
		"10 [1, 10]",
		"20 [1, 20]",
		"null [2, 30]",
		"-1 7",
		"0 even",
		"1 odd",
		"2 even",
		"done 3",
		"",
	}, "\n")

	var out bytes.Buffer
	_, err := lang.EvalProgram(prog, nil, nil, &out, false)
	if err != nil {
		t.Fatalf("unexpected error: %v\noutput so far:\n%s", err, out.String())
	}
	if out.String() != expected {
		t.Fatalf("wrong output\nexpected:\n%s\ngot:\n%s", expected, out.String())
	}

	// a long history of such returns must not use up the call stack either:
	// every call returns, so the depth never exceeds one
	prog2 := `
function pick(x) {
	return match (x) {
		n => match (1) { 1 => { return n } }
	}
}
BEGIN {
	total = 0
	for (k = 0; k < 5000; k++) {
		total += pick(1)
	}
	print total
}
`
	out.Reset()
	_, err = lang.EvalProgram(prog2, nil, nil, &out, false)
	if err != nil {
		t.Fatalf("unexpected error after many calls: %v", err)
	}
	if out.String() != "5000\n" {
		t.Fatalf("expected 5000, got %q", out.String())
	}
}
