package main

import (
	"fmt"
	"strings"
	"testing"

	lang "github.com/alligator/jqawk/src"
)

// runDemoC05A evaluates prog against json and returns stdout and the error.
// A Go panic inside the interpreter is turned into an error so the test
// reports it instead of crashing the test binary.
func runDemoC05A(prog string, json string) (out string, err error) {
	defer func() {
		if r := recover(); r != nil {
			err = fmt.Errorf("interpreter panicked: %v", r)
		}
	}()
	var sb strings.Builder
	files := []lang.InputFile{{Name: "<demo>", Reader: strings.NewReader(json)}}
	_, err = lang.EvalProgram(prog, files, nil, &sb, false)
	return sb.String(), err
}

// a % b is a runtime error exactly when trunc(num(b)) == 0: a fractional
// divisor in (-1, 1) truncates to zero and must be reported as "divide by
// zero", no matter how the operand is supplied.
func TestDemoC05A(t *testing.T) {
	errCases := []struct {
		name string
		prog string
		json string
	}{
		{"literal fraction", "BEGIN { print 7 % 0.5 }", "[]"},
		{"negative fraction", "BEGIN { print 7 % -0.25 }", "[]"},
		{"numeric string", "BEGIN { d = '0.9'; print 7 % d }", "[]"},
		{"document field", "{ print 10 % $.step }", `[{"step": 0.75}]`},
	}
	for _, tc := range errCases {
		out, err := runDemoC05A(tc.prog, tc.json)
		if err == nil {
			t.Errorf("%s: expected a divide by zero runtime error, got output %q", tc.name, out)
			continue
		}
		rtErr, ok := err.(lang.RuntimeError)
		if !ok {
			t.Errorf("%s: expected a lang.RuntimeError, got %T: %v", tc.name, err, err)
			continue
		}
		if rtErr.Message != "divide by zero" {
			t.Errorf("%s: expected message %q, got %q", tc.name, "divide by zero", rtErr.Message)
		}
	}

	// sanity: the neighbouring non-error cases keep their values
	out, err := runDemoC05A("BEGIN { print 7 % 2.5, -7 % 3, 0 % 5, 7.9 % 1.5 }", "[]")
	if err != nil {
		t.Fatalf("unexpected error: %v", err)
	}
	if out != "1 -1 0 0\n" {
		t.Errorf("expected %q, got %q", "1 -1 0 0\n", out)
	}
}
