package main

import (
	"fmt"
	"strings"
	"testing"

	lang "github.com/alligator/jqawk/src"
)

// Property C20, array clause: extending an array to an index beyond about a
// million (1024*1024) is refused with an ordinary runtime error, whatever the
// placement of the store. Here the store is the FIRST store through a variable
// that was never set (which is what turns the variable into an array).
func TestDemoC20I(t *testing.T) {
	run := func(prog string) (out string, err error, panicked interface{}) {
		var sb strings.Builder
		defer func() {
			if r := recover(); r != nil {
				out = sb.String()
				panicked = r
			}
		}()
		_, err = lang.EvalProgram(prog, nil, nil, &sb, false)
		return sb.String(), err, nil
	}

	// sanity: a small first store through an unset variable works as usual
	out, err, p := run(`BEGIN { x[3] = 'v'; print x.length(), x }`)
	if p != nil || err != nil || out != "4 [null, null, null, \"v\"]\n" {
		t.Fatalf("small first store: out=%q err=%v panic=%v", out, err, p)
	}

	// sanity: the same oversized store into an array that already exists is refused
	out, err, p = run(`BEGIN { print 'before'; y = []; y[1048577] = 1; print 'after', y.length() }`)
	if p != nil {
		t.Fatalf("existing array: crashed: %v", p)
	}
	if _, ok := err.(lang.RuntimeError); !ok || out != "before\n" {
		t.Fatalf("existing array: expected a runtime error after 'before', got out=%q err=%v", out, err)
	}

	// the point: the oversized store through an unset variable is refused too
	for _, index := range []string{"1048577", "1500000", "1048577.5", "1000000000000000"} {
		prog := fmt.Sprintf(`BEGIN { print 'before'; x[%s] = 1; print 'after', x.length() }`, index)
		out, err, p = run(prog)
		if p != nil {
			t.Errorf("x[%s] = 1 through an unset variable crashed instead of reporting an error: %v", index, p)
			continue
		}
		rtErr, ok := err.(lang.RuntimeError)
		if !ok {
			t.Errorf("x[%s] = 1 through an unset variable: expected a runtime error, got err=%v out=%q", index, err, out)
			continue
		}
		if rtErr.Message != "index too large to auto-fill array" {
			t.Errorf("x[%s] = 1: unexpected message %q", index, rtErr.Message)
		}
		if out != "before\n" {
			t.Errorf("x[%s] = 1: output should be exactly the prior output, got %q", index, out)
		}
	}
}
