package main

import (
	"strings"
	"testing"

	lang "github.com/alligator/jqawk/src"
)

// demoC18QRun evaluates a BEGIN-only program and returns what it wrote.
func demoC18QRun(t *testing.T, prog string) string {
	t.Helper()
	var sb strings.Builder
	_, err := lang.EvalProgram(prog, nil, nil, &sb, false)
	if err != nil {
		t.Fatalf("%s: unexpected error: %v", prog, err)
	}
	return sb.String()
}

// Each directive is padded according to its OWN width spec: zeros only when
// that width is written with a leading 0, blanks otherwise -- whatever the
// directives before it in the same format string looked like.
func TestDemoC18Q(t *testing.T) {
	cases := []struct {
		prog string
		want string
	}{
		// baseline: zero-padded directive last (what the suite already covers)
		{`BEGIN { printf('%6s|%06f|', 'ab', 1.5) }`, "    ab|0001.5|"},
		// zero-padded directive first, blank-padded ones after it
		{`BEGIN { printf('%06f|%6s|', 1.5, 'ab') }`, "0001.5|    ab|"},
		{`BEGIN { printf('%04f %-6s|%5v|', 7, 'ab', true) }`, "0007 ab    | true|"},
		// a %% written with a zero width must not leak its pad char either
		{`BEGIN { printf('%03% %4s', 'x') }`, "%    x"},
		// a second printf starts afresh
		{`BEGIN { printf('%03f', 1); printf('%3s', 'a') }`, "001  a"},
	}
	for _, c := range cases {
		got := demoC18QRun(t, c.prog)
		if got != c.want {
			t.Errorf("%s\n  wrote %q\n  want  %q (padding of a directive must follow its own width spec)", c.prog, got, c.want)
		}
	}
}
