package main

import (
	"strings"
	"testing"

	lang "github.com/alligator/jqawk/src"
)

// Only the first matching case runs. A block-bodied case that matches ends
// the match with null, even when a later case (here a catch-all identifier,
// or a second literal) would match the subject as well: neither the later
// body nor its value may show up.
func TestDemoC19P(t *testing.T) {
	run := func(prog string) string {
		var sb strings.Builder
		files := []lang.InputFile{{Name: "<demo>", Reader: strings.NewReader("null")}}
		if _, err := lang.EvalProgram(prog, files, nil, &sb, false); err != nil {
			t.Fatalf("program %q failed: %v", prog, err)
		}
		return sb.String()
	}

	// block body first, expression-bodied catch-all later: the value is null
	got := run(`BEGIN { print match (1) { 1 => { print "one" } x => "other" } }`)
	if want := "one\nnull\n"; got != want {
		t.Fatalf("block case then catch-all: got %q, want %q", got, want)
	}

	// block body first, block-bodied later case: the later body must not run
	got = run(`BEGIN { n = 0; match ([1, 2]) { [a, 2] => { n += 1 } [1, b] => { n += 10 } z => { n += 100 } } print n }`)
	if want := "1\n"; got != want {
		t.Fatalf("later block bodies ran: got %q, want %q", got, want)
	}
}
