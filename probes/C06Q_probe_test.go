package main

import (
	"strings"
	"testing"

	lang "github.com/alligator/jqawk/src"
)

// evaluates `print <expr>` in a BEGIN rule and returns what was printed
func demoC06QPrint(t *testing.T, expr string) string {
	t.Helper()
	var sb strings.Builder
	_, err := lang.EvalProgram("BEGIN { print "+expr+" }", nil, nil, &sb, false)
	if err != nil {
		t.Fatalf("%s: unexpected error: %v", expr, err)
	}
	return strings.TrimSuffix(sb.String(), "\n")
}

// C06: prefix - and + bind tighter than * / %, so `-a % b` means `(-a) % b`.
// The two trees differ observably when the remainder is zero: (-4) % 2 is the
// integer 0, while -(4 % 2) is the float negative zero, printed "-0".
func TestDemoC06Q(t *testing.T) {
	cases := []struct {
		bare   string // written without redundant parentheses
		parens string // its fully parenthesised form under the grammar
		want   string
	}{
		{`-4 % 2`, `((-4) % 2)`, "0"},
		{`-"6" / 3 % 2`, `(((-"6") / 3) % 2)`, "0"},
		{`+9 % 3 + 1 - 1`, `((((+9) % 3) + 1) - 1)`, "0"},
		{`2 - -4 % 2`, `(2 - ((-4) % 2))`, "2"},
		{`-7 % 2`, `((-7) % 2)`, "-1"},
		{`-1 + 2`, `((-1) + 2)`, "1"},
	}
	for _, c := range cases {
		bare := demoC06QPrint(t, c.bare)
		parens := demoC06QPrint(t, c.parens)
		if bare != parens {
			t.Errorf("`%s` printed %q but its fully parenthesised form `%s` printed %q", c.bare, bare, c.parens, parens)
		}
		if bare != c.want {
			t.Errorf("`%s` printed %q, the intended tree `%s` evaluates to %q", c.bare, bare, c.parens, c.want)
		}
	}
}
