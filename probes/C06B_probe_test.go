package main

import (
	"strings"
	"testing"

	lang "github.com/alligator/jqawk/src"
)

// % sits on the multiplicative level together with * and /: it binds tighter
// than + and -, and groups left to right with * and /. Each expression must
// evaluate exactly like its fully parenthesised form.
func TestDemoC06B(t *testing.T) {
	run := func(prog string) string {
		var sb strings.Builder
		_, err := lang.EvalProgram(prog, []lang.InputFile{}, nil, &sb, false)
		if err != nil {
			t.Fatalf("program %q: unexpected error: %v", prog, err)
		}
		return sb.String()
	}

	cases := []struct {
		plain  string
		parens string
		want   string
	}{
		{"1 + 7 % 4", "(1 + (7 % 4))", "4\n"},
		{"10 - 7 % 4", "(10 - (7 % 4))", "7\n"},
		{"7 % 4 * 2", "((7 % 4) * 2)", "6\n"},
		{"9 % 6 / 2", "((9 % 6) / 2)", "1.5\n"},
		{"2 + 3 * 5 % 4 - 1", "((2 + ((3 * 5) % 4)) - 1)", "4\n"},
		// shapes that come out the same under either reading of %
		{"7 % 4 + 1", "((7 % 4) + 1)", "4\n"},
		{"2 * 7 % 4", "((2 * 7) % 4)", "2\n"},
		{"7 % 4 == 3", "((7 % 4) == 3)", "true\n"},
	}

	for _, c := range cases {
		got := run("BEGIN { print " + c.plain + " }")
		ref := run("BEGIN { print " + c.parens + " }")
		if ref != c.want {
			t.Fatalf("parenthesised form %q gave %q, expected %q", c.parens, ref, c.want)
		}
		if got != ref {
			t.Errorf("%q evaluated to %q but its fully parenthesised form %q evaluates to %q",
				c.plain, got, c.parens, ref)
		}
	}
}
