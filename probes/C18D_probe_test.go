package main

import (
	"strings"
	"testing"

	lang "github.com/alligator/jqawk/src"
)

// A width pads with zeros only when that width itself is written with a
// leading 0; every other width pads with spaces, wherever the directive sits in
// the format string and whatever directives came before it.
func TestDemoC18D(t *testing.T) {
	cases := []struct {
		prog     string
		expected string
	}{
		// zero-padded directive first, space-padded directives after it
		{`BEGIN { printf("%03f|%5s|%-4v|", 7, "ab", true) }`, "007|   ab|true|"},
		{`BEGIN { printf("%04f %-6s|%6v|", 1.5, "x", null) }`, "01.5 x     |  null|"},
		// the zero-width directive does not even have to pad itself
		{`BEGIN { printf("%02s:%4f", "abc", 12) }`, "abc:  12"},
		// control: zero-padded directive last (same shape as the suite's own case)
		{`BEGIN { printf("%6f %06f", 1, 1) }`, "     1 000001"},
		// control: a separate printf call starts afresh
		{`BEGIN { printf("%03f|", 7); printf("%5s|", "ab") }`, "007|   ab|"},
	}

	for _, tc := range cases {
		var sb strings.Builder
		_, err := lang.EvalProgram(tc.prog, nil, nil, &sb, false)
		if err != nil {
			t.Fatalf("%s: unexpected error: %v", tc.prog, err)
		}
		if sb.String() != tc.expected {
			t.Errorf("%s:\nexpected %q\n     got %q", tc.prog, tc.expected, sb.String())
		}
	}
}
