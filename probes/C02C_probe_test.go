package main

import (
	"fmt"
	"strings"
	"testing"

	lang "github.com/alligator/jqawk/src"
)

// TestDemoC02C drives a long input through a program whose first rule skips
// elements by calling a user function that executes `next`.
//
// Property clause: `next` abandons the remaining rules for that element ONLY;
// every later element still gets all the rules in source order, and the END
// rules still run once after all input.
//
// The input has 12000 elements, 6000 of which are skipped via next-inside-a-
// function. The run has to finish without an error, print every kept element
// (with its $index) in index order and then run END.
func TestDemoC02C(t *testing.T) {
	const n = 12000

	var in strings.Builder
	var want strings.Builder
	in.WriteString("[")
	kept := 0
	for i := 0; i < n; i++ {
		if i > 0 {
			in.WriteString(",")
		}
		fmt.Fprintf(&in, "%d", i)
		if i%2 == 0 {
			fmt.Fprintf(&want, "%d %d\n", i, i)
			kept++
		}
	}
	in.WriteString("]")
	fmt.Fprintf(&want, "end %d null\n", kept)

	prog := `
		function skipOdd(v) {
			if (v % 2 == 1) next
		}

		{ skipOdd($) }
		{ kept++; print $index, $ }
		END { print 'end', kept, $ }
	`

	files := []lang.InputFile{
		{Name: "<demo>", Reader: strings.NewReader(in.String())},
	}

	var out strings.Builder
	_, err := lang.EvalProgram(prog, files, nil, &out, false)
	if err != nil {
		t.Fatalf("the run failed after %d output lines: %v", strings.Count(out.String(), "\n"), err)
	}

	if out.String() != want.String() {
		gotLines := strings.Split(out.String(), "\n")
		wantLines := strings.Split(want.String(), "\n")
		for i := range wantLines {
			if i >= len(gotLines) || gotLines[i] != wantLines[i] {
				got := "<missing>"
				if i < len(gotLines) {
					got = gotLines[i]
				}
				t.Fatalf("output differs at line %d: want %q, got %q (%d lines wanted, %d produced)",
					i+1, wantLines[i], got, len(wantLines), len(gotLines))
			}
		}
		t.Fatalf("output has %d extra lines", len(gotLines)-len(wantLines))
	}
}
