package main

import (
	"strings"
	"testing"

	lang "github.com/alligator/jqawk/src"
)

// TestDemoC02D checks the clause "a rule's body runs iff its pattern is absent
// or truthy (a rule without a body prints $)" over a table of pattern values,
// for an array root and for a scalar root.
//
// Truthy: every non-zero number (negative and fractional ones included),
// non-empty strings, true, arrays and objects. Falsy: 0, "", false, null.
func TestDemoC02D(t *testing.T) {
	run := func(prog string, inputs ...string) string {
		t.Helper()
		files := make([]lang.InputFile, 0, len(inputs))
		for i, in := range inputs {
			name := "<demo" + string(rune('1'+i)) + ">"
			files = append(files, lang.InputFile{Name: name, Reader: strings.NewReader(in)})
		}
		var out strings.Builder
		if _, err := lang.EvalProgram(prog, files, nil, &out, false); err != nil {
			t.Fatalf("unexpected error running %q: %v", prog, err)
		}
		return out.String()
	}

	// 1. pattern rule with a body, followed by a rule without a pattern.
	//    the first rule's body runs only for the truthy pattern values, the
	//    second one for every element, in source order
	got := run(
		`$.v { print $index, 'match' } { print $index, 'always' }`,
		`[
			{"v": 2}, {"v": 0}, {"v": -1}, {"v": 0.5}, {"v": -0.25},
			{"v": ""}, {"v": "x"}, {"v": true}, {"v": false}, {"v": null},
			{"v": []}, {"v": {}}
		]`,
	)
	want := "" +
		"0 match\n0 always\n" + // 2
		"1 always\n" + // 0
		"2 match\n2 always\n" + // -1
		"3 match\n3 always\n" + // 0.5
		"4 match\n4 always\n" + // -0.25
		"5 always\n" + // ""
		"6 match\n6 always\n" + // "x"
		"7 match\n7 always\n" + // true
		"8 always\n" + // false
		"9 always\n" + // null
		"10 match\n10 always\n" + // []
		"11 match\n11 always\n" // {}
	if got != want {
		t.Errorf("pattern rule with body:\nwant %q\ngot  %q", want, got)
	}

	// 2. a rule without a body prints $ for the elements whose pattern value is truthy
	got = run(`$ - 3`, `[1, 3, 5, 3.5, 2.5]`)
	want = "1\n5\n3.5\n2.5\n"
	if got != want {
		t.Errorf("rule without a body, array root:\nwant %q\ngot  %q", want, got)
	}

	// 3. scalar roots: the rules run exactly once per root with $ bound to the root.
	//    two files, the second one holds two JSON values
	got = run(`$ { print $file, 'truthy', $ } { print $file, 'seen', $ }`, `-7`, `0 -0.5`)
	want = "" +
		"<demo1> truthy -7\n<demo1> seen -7\n" +
		"<demo2> seen 0\n" +
		"<demo2> truthy -0.5\n<demo2> seen -0.5\n"
	if got != want {
		t.Errorf("scalar roots:\nwant %q\ngot  %q", want, got)
	}
}
