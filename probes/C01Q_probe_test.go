package main

import (
	"fmt"
	"os/exec"
	"strings"
	"testing"
)

// demoC01QRun runs the built ./jqawk binary (TestMain in jqawk_test.go builds
// it) with the given program on the given stdin, and returns the exit status
// and what was written to stderr.
func demoC01QRun(t *testing.T, prog string, stdin string) (int, string) {
	t.Helper()
	cmd := exec.Command("./jqawk", prog)
	cmd.Stdin = strings.NewReader(stdin)
	var stdErr strings.Builder
	cmd.Stderr = &stdErr
	_, err := cmd.Output()
	status := 0
	if err != nil {
		exitErr, ok := err.(*exec.ExitError)
		if !ok {
			t.Fatalf("could not run ./jqawk: %v", err)
		}
		status = exitErr.ExitCode()
	}
	return status, stdErr.String()
}

// C01: a failing run of the command-line tool ends with a non-zero status and
// a diagnostic on stderr, never with a Go stack trace -- wherever in the
// program text the error is, and however long the line it is on.
func TestDemoC01Q(t *testing.T) {
	type demoC01QCase struct {
		name string
		prog string
		kind string
	}
	cases := []demoC01QCase{}

	// one-liner programs of growing length; the faulty expression is put at
	// the start, in the middle and at the end of the (single) line
	for _, fill := range []int{0, 10, 40, 80, 200} {
		pad := make([]string, 0, fill)
		for i := 0; i < fill; i++ {
			pad = append(pad, fmt.Sprintf("v%d = %d;", i, i))
		}
		filler := strings.Join(pad, " ")
		half := strings.Join(pad[:fill/2], " ")
		rest := strings.Join(pad[fill/2:], " ")

		cases = append(cases,
			demoC01QCase{fmt.Sprintf("runtime/start/%d", fill), "{ x = 1 / 0; " + filler + " }", "runtime error"},
			demoC01QCase{fmt.Sprintf("runtime/middle/%d", fill), "{ " + half + " x = 1 / 0; " + rest + " }", "runtime error"},
			demoC01QCase{fmt.Sprintf("runtime/end/%d", fill), "{ " + filler + " x = 1 / 0 }", "runtime error"},
			demoC01QCase{fmt.Sprintf("syntax/start/%d", fill), "{ x = ); " + filler + " }", "syntax error"},
			demoC01QCase{fmt.Sprintf("syntax/middle/%d", fill), "{ " + half + " x = ); " + rest + " }", "syntax error"},
			demoC01QCase{fmt.Sprintf("syntax/end/%d", fill), "{ " + filler + " x = ) }", "syntax error"},
			demoC01QCase{fmt.Sprintf("syntax/eof/%d", fill), "{ " + filler + " x = 'abc", "syntax error"},
		)
	}

	for _, tc := range cases {
		status, stdErr := demoC01QRun(t, tc.prog, "[1]")
		if strings.Contains(stdErr, "goroutine ") || strings.Contains(stdErr, "panic:") {
			first := stdErr
			if i := strings.Index(first, "\n"); i >= 0 {
				first = first[:i]
			}
			t.Errorf("%s: jqawk crashed with a stack trace (exit status %d) on a program of %d bytes: %s",
				tc.name, status, len(tc.prog), first)
			continue
		}
		if status != 1 {
			t.Errorf("%s: expected exit status 1, got %d; stderr: %q", tc.name, status, stdErr)
			continue
		}
		if !strings.Contains(stdErr, tc.kind+" on line 1:") {
			t.Errorf("%s: expected a %q diagnostic on stderr, got %q", tc.name, tc.kind, stdErr)
		}
	}
}
