package main

import (
	"strings"
	"testing"

	lang "github.com/alligator/jqawk/src"
)

// For each file, each JSON value in it and each root selector, in the order
// given, the BEGINFILE rules, the pattern rules and the ENDFILE rules run
// with $ bound to the selected root. That includes a selector that selects
// null: a null root is a non-array root, so the pattern rules run exactly
// once with $ = null - whether the null is spelled out in the input or the
// selected member is simply not there.
func TestDemoC02L(t *testing.T) {
	prog := `
		BEGIN { print 'begin' }
		BEGINFILE { roots++; print 'beginfile', $file, $ }
		$ is null { nulls++ }
		{ print 'rule', $ }
		ENDFILE { print 'endfile', $file, $ }
		END { print 'end', roots, nulls }
	`
	files := []lang.InputFile{
		{Name: "one.json", Reader: strings.NewReader(`{"a": [1, 2], "b": null} {"a": 3}`)},
		{Name: "two.json", Reader: strings.NewReader(`{"b": ["x"]}`)},
	}
	selectors := []string{"$.a", "$.b"}

	var sb strings.Builder
	_, err := lang.EvalProgram(prog, files, selectors, &sb, false)
	if err != nil {
		t.Fatalf("unexpected error: %v", err)
	}

	want := strings.Join([]string{
		"begin",
		// one.json, 1st value, $.a
		"beginfile one.json [1, 2]", "rule 1", "rule 2", "endfile one.json [1, 2]",
		// one.json, 1st value, $.b (a null that is in the input)
		"beginfile one.json null", "rule null", "endfile one.json null",
		// one.json, 2nd value, $.a
		"beginfile one.json 3", "rule 3", "endfile one.json 3",
		// one.json, 2nd value, $.b (no such member)
		"beginfile one.json null", "rule null", "endfile one.json null",
		// two.json, $.a (no such member)
		"beginfile two.json null", "rule null", "endfile two.json null",
		// two.json, $.b
		`beginfile two.json ["x"]`, "rule x", `endfile two.json ["x"]`,
		"end 6 3",
	}, "\n") + "\n"

	if sb.String() != want {
		t.Fatalf("rules did not run once per (value, selector):\n got:\n%s\nwant:\n%s", sb.String(), want)
	}
}
