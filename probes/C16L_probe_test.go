package main

import (
	"strings"
	"testing"

	lang "github.com/alligator/jqawk/src"
)

// s.split(sep) returns pieces whose sep-joined concatenation is s, for every
// string and every separator, the empty separator and multi-byte text included.
func TestDemoC16L(t *testing.T) {
	prog := `
		{
			for (sep in ["", ",", "é"]) {
				parts = $.split(sep)
				joined = ""
				for (p, i in parts) {
					if (i > 0) {
						joined = joined + sep
					}
					joined = joined + p
				}
				if (joined == $) {
					print "ok", parts.length()
				} else {
					print "BROKEN", $, "split on", "[" + sep + "]", "rejoins to", joined
				}
			}
		}
	`
	input := `["abc", "", "a,b,,c", "naïve café", "日本,語", "€"]`
	expected := "" +
		"ok 3\nok 1\nok 1\n" + // abc
		"ok 0\nok 1\nok 1\n" + // empty string
		"ok 6\nok 4\nok 1\n" + // a,b,,c
		"ok 10\nok 1\nok 2\n" + // naïve café
		"ok 4\nok 2\nok 1\n" + // 日本,語
		"ok 1\nok 1\nok 1\n" // €

	var sb strings.Builder
	files := []lang.InputFile{{Name: "<demo>", Reader: strings.NewReader(input)}}
	_, err := lang.EvalProgram(prog, files, nil, &sb, false)
	if err != nil {
		t.Fatalf("unexpected error: %v", err)
	}
	if sb.String() != expected {
		t.Fatalf("split pieces do not rejoin to the receiver\nexpected %q\ngot      %q", expected, sb.String())
	}
}
