package main

import (
	"fmt"
	"strings"
	"testing"

	lang "github.com/alligator/jqawk/src"
)

// A function that executes `next` is a finished call like any other: however
// many records were skipped that way, a later call must behave the same as the
// first one. Here 5000 of 10000 records are skipped by `next` inside a
// function (never more than one call is active at a time), then the remaining
// records and the END rule still call functions.
func TestDemoC08I(t *testing.T) {
	const n = 10000
	var in strings.Builder
	in.WriteString("[")
	want := 0
	for i := 0; i < n; i++ {
		if i > 0 {
			in.WriteString(",")
		}
		fmt.Fprintf(&in, "%d", i)
		if i%2 == 1 {
			want += i
		}
	}
	in.WriteString("]")

	prog := `
		function odd_only(x) {
			if (x % 2 == 0) {
				next
			}
			return x
		}
		function id(x) { return x }
		{ sum += odd_only($); seen++ }
		END { print id(sum), id(seen) }
	`

	var out strings.Builder
	files := []lang.InputFile{{Name: "in.json", Reader: strings.NewReader(in.String())}}
	_, err := lang.EvalProgram(prog, files, nil, &out, false)
	if err != nil {
		t.Fatalf("unexpected error after many completed calls that executed next: %v", err)
	}
	expected := fmt.Sprintf("%d %d\n", want, n/2)
	if out.String() != expected {
		t.Fatalf("expected %q, got %q", expected, out.String())
	}

	// the same program on a short input, to show the result does not depend
	// on the length of the history
	out.Reset()
	files = []lang.InputFile{{Name: "in.json", Reader: strings.NewReader("[0, 1, 2, 3]")}}
	if _, err := lang.EvalProgram(prog, files, nil, &out, false); err != nil {
		t.Fatalf("unexpected error on the short input: %v", err)
	}
	if out.String() != "4 2\n" {
		t.Fatalf("expected %q, got %q", "4 2\n", out.String())
	}
}
