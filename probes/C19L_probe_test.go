package main

import (
	"strings"
	"testing"

	lang "github.com/alligator/jqawk/src"
)

func runDemoC19L(t *testing.T, prog string, json string) string {
	t.Helper()
	files := []lang.InputFile{{Name: "<demo>", Reader: strings.NewReader(json)}}
	var sb strings.Builder
	if _, err := lang.EvalProgram(prog, files, nil, &sb, false); err != nil {
		t.Errorf("unexpected error for program %q: %v", prog, err)
	}
	return sb.String()
}

// Only the names of the pattern that actually matched are bound in the case
// body. An earlier alternative of the same case that matched a prefix of the
// array and then failed must leave nothing behind.
func TestDemoC19L(t *testing.T) {
	cases := []struct {
		name, prog, json, want string
	}{
		{
			// [owner, 'rw'] fails on the second element for ["bob", "ro"], after
			// owner has been looked at; [_, 'ro'] then matches and binds only _,
			// so owner in the body is still the global
			name: "failed array alternative, then another array alternative",
			prog: `BEGIN { owner = 'nobody' }
			{
				print match ($) {
					[owner, 'rw'], [_, 'ro'] => owner,
					_ => 'other',
				}
			}`,
			json: `[["ann", "rw"], ["bob", "ro"], ["cy", "x"]]`,
			want: "ann\nnobody\nother\n",
		},
		{
			name: "failed array alternative, then a catch-all alternative",
			prog: `BEGIN {
				a = 'outer'
				print match ([1, 2]) { [a, 3], whole => a }
			}`,
			json: `null`,
			want: "outer\n",
		},
		{
			name: "failed nested alternative",
			prog: `BEGIN {
				print match ([1, [2, 3]]) { [p, [q, 4]], [1, [r, 3]] => [p is unknown, q is unknown, r] }
			}`,
			json: `null`,
			want: "[true, true, 2]\n",
		},
		{
			// controls: these hold on either side of the change
			name: "controls",
			prog: `BEGIN {
				a = 'outer'
				print match ([1, 3]) { [a, 3], whole => a }
				print match ([1, 2]) { [a, 3] => a, whole => a }
				print match ([7, 8]) { [x, 9], [x, 8] => x }
				print a
			}`,
			json: `null`,
			want: "1\nouter\n7\nouter\n",
		},
	}
	for _, c := range cases {
		got := runDemoC19L(t, c.prog, c.json)
		if got != c.want {
			t.Errorf("%s:\nprogram: %s\nwant %q\ngot  %q", c.name, c.prog, c.want, got)
		}
	}
}
