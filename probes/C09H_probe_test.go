package main

import (
	"strings"
	"testing"

	lang "github.com/alligator/jqawk/src"
)

// sort() is not a mutating method: it returns a new array. Scalars are copied
// on insertion into a container, so storing into an element of the sorted
// array addresses that array only; the array that was sorted (here: part of
// the input document) keeps every element, and vice versa.
func TestDemoC09H(t *testing.T) {
	run := func(prog string, doc string) string {
		t.Helper()
		var sb strings.Builder
		files := []lang.InputFile{{Name: "in.json", Reader: strings.NewReader(doc)}}
		_, err := lang.EvalProgram(prog, files, nil, &sb, false)
		if err != nil {
			t.Fatalf("unexpected error: %v", err)
		}
		return sb.String()
	}

	// plain use of sort: result sorted, receiver untouched
	got := run(`{ s = $.xs.sort(); print s; print $.xs }`, `{"xs": [3, 1, 2]}`)
	want := "[1, 2, 3]\n[3, 1, 2]\n"
	if got != want {
		t.Errorf("sort:\n got %q\nwant %q", got, want)
	}

	// store into the sorted copy, then look at the document
	got = run(`{
		s = $.xs.sort()
		s[0] = 99
		s[2]++
		s[-2] += 10
		print s
		print $.xs
	}`, `{"xs": [3, 1, 2]}`)
	want = "[99, 12, 4]\n[3, 1, 2]\n"
	if got != want {
		t.Errorf("assigning into the sorted array:\n got %q\nwant %q", got, want)
	}

	// store into the document, then look at the sorted copy
	got = run(`{
		s = $.names.sort()
		$.names[1] = 'zed'
		print s
		print $.names
	}`, `{"names": ["bob", "al", "cy"]}`)
	want = "[\"al\", \"bob\", \"cy\"]\n[\"bob\", \"zed\", \"cy\"]\n"
	if got != want {
		t.Errorf("assigning into the sorted receiver:\n got %q\nwant %q", got, want)
	}
}
