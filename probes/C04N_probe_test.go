package main

import (
	"encoding/json"
	"reflect"
	"strings"
	"testing"

	lang "github.com/alligator/jqawk/src"
)

// json(v) must return valid JSON text that parses back to v, for every string:
// also for strings that themselves hold escaped JSON text (a JSON document
// stored as a string inside another one, as produced by Go, Rails, PHP...).
func TestDemoC04N(t *testing.T) {
	// a JSON document serialised into a string by an HTML-safe encoder: the
	// string holds the six characters \ u 0 0 3 c, not a '<'
	embedded, err := json.Marshal(map[string]interface{}{"html": "<b>bold</b> & more"})
	if err != nil {
		t.Fatal(err)
	}
	if !strings.Contains(string(embedded), `\u003c`) {
		t.Fatalf("test setup: expected the text \\u003c in %s", embedded)
	}

	values := []interface{}{
		// ordinary text with the characters encoding/json escapes
		"a < b && c > d",
		map[string]interface{}{"k&": []interface{}{">", "<>&"}},
		// the embedded document, as a value and as a key
		string(embedded),
		map[string]interface{}{"payload": string(embedded), `&`: `>`},
	}

	for _, want := range values {
		src, err := json.Marshal(want)
		if err != nil {
			t.Fatal(err)
		}

		// the value is wrapped in an array so that the rule runs once with $ = value
		var sb strings.Builder
		files := []lang.InputFile{{Name: "<demo>", Reader: strings.NewReader("[" + string(src) + "]")}}
		if _, err := lang.EvalProgram(`{ printf("%s", json($)) }`, files, nil, &sb, false); err != nil {
			t.Fatalf("json(%s): unexpected error %v", src, err)
		}

		var got interface{}
		if err := json.Unmarshal([]byte(sb.String()), &got); err != nil {
			t.Fatalf("json(%s) returned invalid JSON: %v\n%s", src, err, sb.String())
		}
		if !reflect.DeepEqual(got, want) {
			t.Fatalf("json(v) does not parse back to v\n   v: %#v\ntext: %s\n got: %#v", want, sb.String(), got)
		}
	}
}
