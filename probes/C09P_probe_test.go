package main

import (
	"strings"
	"testing"

	lang "github.com/alligator/jqawk/src"
)

// Scalars are copied on assignment, argument passing and insertion into
// containers. A character read out of a string is such a scalar: once it has
// been assigned to a variable, passed to a function or put into an array or
// object, that copy is a value of its own. Storing to the variable, parameter,
// element or member afterwards changes exactly that location: it neither
// fails nor writes anywhere near the string the character came from.
func TestDemoC09P(t *testing.T) {
	cases := []struct {
		name, prog, json, expected string
	}{
		{
			name:     "variable holding a character is reassigned",
			prog:     `BEGIN { s = "abc"; c = s[0]; c = "z"; print s, c }`,
			expected: "abc z\n",
		},
		{
			name:     "characters collected in a loop",
			prog:     `BEGIN { s = "abc"; for (i = 0; i < 3; i++) { c = s[i]; out = c + out } print out }`,
			expected: "cba\n",
		},
		{
			name:     "element of an array literal built from characters",
			prog:     `BEGIN { s = "abc"; parts = [s[0], s[1]]; parts[0] = "X"; print s, parts }`,
			expected: "abc [\"X\", \"b\"]\n",
		},
		{
			name:     "member of an object literal built from a character",
			prog:     `BEGIN { s = "abc"; o = {k: s[2]}; o.k += "!"; print s, o }`,
			expected: "abc {\"k\": \"c!\"}\n",
		},
		{
			name:     "parameter bound to a character is assigned in the callee",
			prog:     `function up(ch) { ch = ch.upper(); return ch } BEGIN { s = "abc"; print up(s[0]) + s }`,
			expected: "Aabc\n",
		},
		{
			name: "the place the string was read from has become an object",
			prog: `{ initial = $.name[0]; $.name = {}; initial = "Q"; print $, initial }`,
			json: `{"name": "bob", "age": 3}`,
			// the store to the variable must not create a member in the document
			expected: "{\"age\": 3, \"name\": {}} Q\n",
		},
	}

	for _, tc := range cases {
		files := []lang.InputFile{}
		if tc.json != "" {
			files = append(files, lang.InputFile{Name: "<demo>", Reader: strings.NewReader(tc.json)})
		}
		var sb strings.Builder
		_, err := lang.EvalProgram(tc.prog, files, nil, &sb, false)
		if err != nil {
			t.Errorf("%s: program %q failed: %v", tc.name, tc.prog, err)
			continue
		}
		if sb.String() != tc.expected {
			t.Errorf("%s: program %q\nexpected %q\n     got %q", tc.name, tc.prog, tc.expected, sb.String())
		}
	}
}
