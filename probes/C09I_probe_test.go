package main

import (
	"strings"
	"testing"

	lang "github.com/alligator/jqawk/src"
)

// sort() returns a new array: its scalar items are copies, so assigning to (or
// incrementing) an item of the sorted array must leave the receiver -- here a
// part of the input document -- exactly as it was.
func TestDemoC09I(t *testing.T) {
	prog := `
		{
			s = $.nums.sort()
			print s
			s[0] = 99        # store into the sorted copy only
			s[1]++           # ++ on an item of the sorted copy only
			s[-1] -= 10      # compound assignment, negative index
			print s
			print $.nums     # the document must be unchanged
			t = $.nums.sort()
			print t          # and sorting it again gives the original order
		}
	`
	input := `{ "nums": [3, 1, 2] }`
	expected := "[1, 2, 3]\n[99, 3, -7]\n[3, 1, 2]\n[1, 2, 3]\n"

	var sb strings.Builder
	files := []lang.InputFile{{Name: "demo.json", Reader: strings.NewReader(input)}}
	ev, err := lang.EvalProgram(prog, files, nil, &sb, false)
	if err != nil {
		t.Fatalf("unexpected error: %v", err)
	}
	if sb.String() != expected {
		t.Fatalf("output:\n%s\nexpected:\n%s", sb.String(), expected)
	}

	// the document itself (what -o would write) is still the input
	j, err := ev.GetRootJson()
	if err != nil {
		t.Fatalf("unexpected error: %v", err)
	}
	compact := strings.Join(strings.Fields(j), "")
	if compact != `{"nums":[3,1,2]}` {
		t.Fatalf("the input document changed: %s", compact)
	}
}
