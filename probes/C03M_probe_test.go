package main

import (
	"errors"
	"io"
	"strings"
	"testing"

	lang "github.com/alligator/jqawk/src"
)

// failing reader: serves data, then fails with an I/O error (never a clean EOF)
type demoC03MFailReader struct {
	data []byte
	pos  int
	err  error
}

func (r *demoC03MFailReader) Read(p []byte) (int, error) {
	if r.pos >= len(r.data) {
		return 0, r.err
	}
	n := copy(p, r.data[r.pos:])
	r.pos += n
	return n, nil
}

// Every input is consumed as a JSON value stream and a truncated, malformed or
// unreadable value is reported as a JSON input error naming the file. That
// does not depend on which kinds of rule the program happens to contain: a
// faulty input is never silently treated as an empty / finished one.
func TestDemoC03M(t *testing.T) {
	run := func(prog string, rd io.Reader) (string, error) {
		var sb strings.Builder
		_, err := lang.EvalProgram(prog, []lang.InputFile{{Name: "in.json", Reader: rd}}, nil, &sb, false)
		return sb.String(), err
	}

	expectJsonError := func(what, prog string, rd io.Reader, wantOut string) {
		t.Helper()
		out, err := run(prog, rd)
		if out != wantOut {
			t.Errorf("%s: output %q, want %q", what, out, wantOut)
		}
		jerr, ok := err.(lang.JsonError)
		if !ok {
			t.Errorf("%s: error is %T (%v), want a lang.JsonError", what, err, err)
			return
		}
		if jerr.FileName != "in.json" {
			t.Errorf("%s: JsonError names %q, want %q", what, jerr.FileName, "in.json")
		}
	}

	progs := []struct{ prog, out string }{
		{`BEGIN { print "hi" }`, "hi\n"},
		{`BEGIN { n = 1 } BEGIN { print n }`, "1\n"},
		// control: the same faults with no rule at all, and with rules that
		// look at the values
		{``, ""},
		{`BEGIN { print "hi" } { print }`, "hi\n"},
		{`BEGIN { print "hi" } END { print "bye" }`, "hi\n"},
	}
	for _, p := range progs {
		// truncated first value
		expectJsonError("truncated: "+p.prog, p.prog, strings.NewReader(`[{"a": 1}, {"a"`), p.out)
		// stray text instead of a value
		expectJsonError("stray bracket: "+p.prog, p.prog, strings.NewReader(` ] `), p.out)
		// malformed value
		expectJsonError("malformed: "+p.prog, p.prog, strings.NewReader(`{"a" 1}`), p.out)
		// unreadable: the reader fails before a single byte arrives
		expectJsonError("unreadable: "+p.prog, p.prog,
			&demoC03MFailReader{err: errors.New("disk on fire")}, p.out)
		// unreadable in the middle of the first value
		expectJsonError("unreadable mid-value: "+p.prog, p.prog,
			&demoC03MFailReader{data: []byte(`[1, `), err: errors.New("disk on fire")}, p.out)
	}

	// complete inputs are fine with every one of these programs
	for _, p := range progs {
		out, err := run(p.prog, strings.NewReader(`[1] {"a": 2} 3 `))
		if err != nil {
			t.Errorf("valid stream, %q: unexpected error %v", p.prog, err)
		}
		if !strings.HasPrefix(out, p.out) {
			t.Errorf("valid stream, %q: output %q", p.prog, out)
		}
	}
}
