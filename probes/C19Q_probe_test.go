package main

import (
	"strings"
	"testing"

	lang "github.com/alligator/jqawk/src"
)

func demoC19QRun(t *testing.T, prog string, json string) string {
	t.Helper()
	files := []lang.InputFile{{Name: "<demoC19Q>", Reader: strings.NewReader(json)}}
	var sb strings.Builder
	if _, err := lang.EvalProgram(prog, files, nil, &sb, false); err != nil {
		t.Fatalf("unexpected error: %v", err)
	}
	return sb.String()
}

// C19: a match whose selected case has a BLOCK body yields null, whatever the
// block contains; only an expression body yields a value.
func TestDemoC19Q(t *testing.T) {
	prog := `
		BEGIN { seen = {} }
		{
			# block body made of one expression statement: side effect only
			r = match ($) {
				[k, n] => { seen[k] += n },
				n => n * 2,
			}
			print json(r)
		}
		END {
			# same thing for a literal case next to an expression case
			print match (1) { 1 => { 5 }, 2 => 6 }
			print match (2) { 1 => { 5 }, 2 => 6 }
			# a block of two statements, and an empty block
			print match (1) { 1 => { 5; 6 } }
			print match (1) { 1 => {} }
			print seen.a, seen.b
		}
	`
	got := demoC19QRun(t, prog, `[["a", 1], 21, ["b", 5], ["a", 2]]`)
	want := "null\n42\nnull\nnull\nnull\n6\nnull\nnull\n3 5\n"
	if got != want {
		t.Fatalf("block-bodied cases must yield null (C19)\nprogram output:\n%s\nwanted:\n%s", got, want)
	}
}
