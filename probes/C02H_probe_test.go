package main

import (
	"fmt"
	"strings"
	"testing"

	lang "github.com/alligator/jqawk/src"
)

// The pattern rules run once per element of an array root, however long the
// array is, and `next` only abandons the remaining rules for the element it
// was executed for: it leaves nothing behind that affects later elements.
// Here `next` sits in the block body of a match arm, and the input is long.
func TestDemoC02H(t *testing.T) {
	const n = 10000

	var input strings.Builder
	input.WriteString("[")
	for i := 0; i < n; i++ {
		if i > 0 {
			input.WriteString(",")
		}
		fmt.Fprintf(&input, "%d", i)
	}
	input.WriteString("]")

	prog := `
		function id(v) { return v }
		{
			seen++
			last = $index
			match ($ % 2) {
				0 => { next }
			}
			odd++
		}
		{ second += id(1) }
		ENDFILE { print "endfile", seen, odd, second, last }
		END { print "end", seen }
	`

	files := []lang.InputFile{
		{Name: "<a>", Reader: strings.NewReader(input.String())},
		{Name: "<b>", Reader: strings.NewReader("[1, 2, 3]")},
	}

	var sb strings.Builder
	_, err := lang.EvalProgram(prog, files, nil, &sb, false)
	if err != nil {
		t.Fatalf("unexpected error %q (output so far %q)", err.Error(), sb.String())
	}

	expected := fmt.Sprintf("endfile %d %d %d %d\nendfile %d %d %d %d\nend %d\n",
		n, n/2, n/2, n-1,
		n+3, n/2+2, n/2+2, 2,
		n+3)
	if sb.String() != expected {
		t.Fatalf("expected %q\ngot      %q", expected, sb.String())
	}
}
