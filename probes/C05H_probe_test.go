package main

import (
	"strings"
	"testing"

	lang "github.com/alligator/jqawk/src"
)

// a ~ b / a !~ b test whether the RE2 pattern that b holds *at that moment*
// matches str(a), and a pattern RE2 rejects is a runtime error (DESIGN 3.7),
// however often the same match expression has been evaluated before.
func TestDemoC05H(t *testing.T) {
	run := func(prog, json string) (string, error) {
		var files []lang.InputFile
		if json != "" {
			files = append(files, lang.InputFile{Name: "<demo>", Reader: strings.NewReader(json)})
		}
		var sb strings.Builder
		_, err := lang.EvalProgram(prog, files, nil, &sb, false)
		return sb.String(), err
	}

	cases := []struct {
		name, prog, json, want string
	}{
		{
			name: "constant pattern, evaluated repeatedly",
			prog: `BEGIN { for (i = 8; i < 12; i++) { print i ~ /^1/, i !~ "9" } }`,
			want: "false true\nfalse false\ntrue true\ntrue true\n",
		},
		{
			name: "pattern taken from a loop variable",
			prog: `BEGIN { pats = ["^a", "b$", "z"]; for (p in pats) { print "ab" ~ p, "ab" !~ p } }`,
			want: "true false\ntrue false\nfalse true\n",
		},
		{
			name: "pattern passed to a function",
			prog: `function has(s, p) { return s ~ p }
BEGIN { print has("2024-01-05", "^[0-9]+-"), has("2024-01-05", "^[a-z]+$"), has("abc", "^[a-z]+$") }`,
			want: "true false true\n",
		},
		{
			name: "pattern taken from a document field, one record after another",
			prog: `{ print $.s ~ $.p }`,
			json: `{"s": "hello", "p": "^h"} {"s": "hello", "p": "^x"} {"s": "xyz", "p": "^x"}`,
			want: "true\nfalse\ntrue\n",
		},
	}

	for _, tc := range cases {
		got, err := run(tc.prog, tc.json)
		if err != nil {
			t.Errorf("%s: unexpected error %v", tc.name, err)
			continue
		}
		if got != tc.want {
			t.Errorf("%s:\nprogram  %s\nexpected %q\ngot      %q", tc.name, tc.prog, tc.want, got)
		}
	}

	// an invalid pattern is a runtime error, also when the same expression
	// was evaluated with a valid pattern before
	out, err := run(`BEGIN { pats = ["a", "(", "b"]; for (p in pats) { print "a" ~ p } }`, "")
	if _, ok := err.(lang.RuntimeError); !ok {
		t.Errorf("invalid pattern on the second evaluation: expected a runtime error, got error %v and output %q", err, out)
	}
	if out != "true\n" {
		t.Errorf("invalid pattern on the second evaluation: expected output %q before the error, got %q", "true\n", out)
	}
}
