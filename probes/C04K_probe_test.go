package main

import (
	"encoding/json"
	"strings"
	"testing"
	"unicode/utf8"

	lang "github.com/alligator/jqawk/src"
)

// json(v) must return valid JSON text that parses back to v, non-ASCII text
// included. Here v is a single character taken out of a non-ASCII string read
// from the input (string indexing), printed once raw and once through json().
func TestDemoC04K(t *testing.T) {
	inputs := []string{
		`["é"]`,
		`["日本"]`,
		`["naïve"]`,
	}
	// $ is the string item; print the indexed characters raw (one per line)
	// followed by their json() text (each a one-line JSON string)
	prog := `{
		for (i = 0; i < $.length(); i++) {
			c = $[i]
			print c
			print json(c)
		}
	}`

	for _, input := range inputs {
		var sb strings.Builder
		files := []lang.InputFile{{Name: "<demo>", Reader: strings.NewReader(input)}}
		ev, err := lang.EvalProgram(prog, files, nil, &sb, false)
		if err != nil {
			t.Fatalf("input %s: unexpected error: %v", input, err)
		}

		lines := strings.Split(strings.TrimSuffix(sb.String(), "\n"), "\n")
		if len(lines) == 0 || len(lines)%2 != 0 {
			t.Fatalf("input %s: unexpected output %q", input, sb.String())
		}
		for i := 0; i < len(lines); i += 2 {
			raw, text := lines[i], lines[i+1]
			if !json.Valid([]byte(text)) || !utf8.ValidString(text) {
				t.Fatalf("input %s: json() returned invalid JSON text %q", input, text)
			}
			var back string
			if err := json.Unmarshal([]byte(text), &back); err != nil {
				t.Fatalf("input %s: json() text %q does not parse: %v", input, text, err)
			}
			if back != raw {
				t.Fatalf("input %s: json(v) = %s parses back to %q, but v is %q", input, text, back, raw)
			}
		}

		// the program did not modify the document: -o must give it back
		out, err := ev.GetRootJson()
		if err != nil {
			t.Fatalf("input %s: GetRootJson: %v", input, err)
		}
		var want, got interface{}
		if err := json.Unmarshal([]byte(input), &want); err != nil {
			t.Fatal(err)
		}
		if err := json.Unmarshal([]byte(out), &got); err != nil {
			t.Fatalf("input %s: -o output %q does not parse: %v", input, out, err)
		}
		if got.([]interface{})[0] != want.([]interface{})[0] {
			t.Fatalf("input %s: -o output %q differs from the input", input, out)
		}
	}
}
