package main

import (
	"strings"
	"testing"

	lang "github.com/alligator/jqawk/src"
)

// An index is converted to an integer by dropping its fraction (like num()
// does, and like the store into a fresh array does), so an index between -1 and
// 0 addresses element 0, and -1.5 addresses the last element. A store through
// such an index must change exactly that element, wherever the array lives,
// and must address the same element the store that created the array did.
func TestDemoC09L(t *testing.T) {
	prog := `
		{
			# heap-style parent index of element 0: (0 - 1) / 2
			i = 0
			parent = (i - 1) / 2

			$.heap[parent] = 99
			$.heap[-1.5] += 1

			# the same index expression creates element 0 of a new array ...
			$.made[parent] = "first"
			$.made[1] = "second"
			# ... and has to find it again afterwards
			$.made[parent] = "again"

			print $.heap, $.made
		}
	`
	input := `{"heap": [10, 20, 30]}`
	files := []lang.InputFile{{Name: "<demo>", Reader: strings.NewReader(input)}}

	var sb strings.Builder
	ev, err := lang.EvalProgram(prog, files, nil, &sb, false)
	if err != nil {
		t.Fatalf("unexpected error: %v", err)
	}

	expected := "[99, 20, 31] [\"again\", \"second\"]\n"
	if sb.String() != expected {
		t.Fatalf("store through a fractional negative index hit the wrong element\nexpected %q\ngot      %q", expected, sb.String())
	}

	j, err := ev.GetRootJson()
	if err != nil {
		t.Fatalf("unexpected error: %v", err)
	}
	compact := strings.Join(strings.Fields(j), "")
	if compact != `{"heap":[99,20,31],"made":["again","second"]}` {
		t.Fatalf("unexpected document: %s", compact)
	}
}
