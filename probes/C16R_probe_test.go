package main

import (
	"strings"
	"testing"

	lang "github.com/alligator/jqawk/src"
)

func demoC16RRun(t *testing.T, prog string, json string) string {
	t.Helper()
	files := []lang.InputFile{{Name: "<demoC16R>", Reader: strings.NewReader(json)}}
	var sb strings.Builder
	if _, err := lang.EvalProgram(prog, files, nil, &sb, false); err != nil {
		t.Fatalf("program %q failed: %v", prog, err)
	}
	return sb.String()
}

// floor, ceil and round return the mathematical floor, ceiling and nearest
// integer for ALL finite doubles. Every double of magnitude >= 2^53 is already a
// whole number, so all three must hand it back unchanged, however large it is.
func TestDemoC16R(t *testing.T) {
	// ordinary values first (these hold with and without the change)
	got := demoC16RRun(t, `{ print $.floor(), $.ceil(), $.round() }`, `[2.5, -2.5, 7, -7.25]`)
	want := "2 3 3\n-3 -2 -3\n7 7 7\n-8 -7 -7\n"
	if got != want {
		t.Errorf("floor/ceil/round of small numbers\nwant:\n%s\ngot:\n%s", want, got)
	}

	// huge (but finite) whole numbers: 1e19 > 2^63, 2^63 itself, -1e19, 1e300
	got = demoC16RRun(t,
		`{ print $.floor() == $, $.ceil() == $, $.round() == $, ($.floor() > 0) == ($ > 0) }`,
		`[10000000000000000000, 9223372036854775808, -10000000000000000000, 1e300]`)
	want = strings.Repeat("true true true true\n", 4)
	if got != want {
		t.Errorf("floor/ceil/round of a huge whole number must return that number\nwant:\n%s\ngot:\n%s", want, got)
	}

	// the same through num() and the printed result
	got = demoC16RRun(t, `BEGIN { x = num("1e19"); print x.floor(), x.ceil(), x.round() }`, `[]`)
	want = "10000000000000000000 10000000000000000000 10000000000000000000\n"
	if got != want {
		t.Errorf("num(\"1e19\").floor()/ceil()/round()\nwant:\n%s\ngot:\n%s", want, got)
	}
}
