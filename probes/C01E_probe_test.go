package main

import (
	"flag"
	"fmt"
	"os"
	"path/filepath"
	"strings"
	"testing"

	cli "github.com/alligator/jqawk/cli"
)

// demoC01ERun drives the command-line entry point in-process: it swaps the
// arguments, the flag set and the standard streams, calls cli.Run and reports
// the exit status, what was written to stderr, and whether Run crashed.
func demoC01ERun(t *testing.T, args []string) (code int, stderr string, crash interface{}) {
	t.Helper()
	dir := t.TempDir()

	errFile, err := os.Create(filepath.Join(dir, "stderr"))
	if err != nil {
		t.Fatal(err)
	}
	outFile, err := os.Create(filepath.Join(dir, "stdout"))
	if err != nil {
		t.Fatal(err)
	}
	inPath := filepath.Join(dir, "stdin")
	if err := os.WriteFile(inPath, []byte("[1, 2, 3]\n"), 0o644); err != nil {
		t.Fatal(err)
	}
	inFile, err := os.Open(inPath)
	if err != nil {
		t.Fatal(err)
	}

	oldArgs, oldFlags := os.Args, flag.CommandLine
	oldIn, oldOut, oldErr := os.Stdin, os.Stdout, os.Stderr
	os.Args = append([]string{"jqawk"}, args...)
	flag.CommandLine = flag.NewFlagSet("jqawk", flag.ContinueOnError)
	os.Stdin, os.Stdout, os.Stderr = inFile, outFile, errFile

	func() {
		defer func() {
			crash = recover()
			os.Args, flag.CommandLine = oldArgs, oldFlags
			os.Stdin, os.Stdout, os.Stderr = oldIn, oldOut, oldErr
		}()
		code = cli.Run("demo")
	}()

	errFile.Close()
	outFile.Close()
	inFile.Close()
	data, err := os.ReadFile(filepath.Join(dir, "stderr"))
	if err != nil {
		t.Fatal(err)
	}
	return code, string(data), crash
}

// The command-line tool must end every run by itself: status 0, or a non-zero
// status plus a diagnostic on stderr. It must never die with a Go panic.
func TestDemoC01E(t *testing.T) {
	dir := t.TempDir()

	// a program file whose rule body is never closed. like most text files it
	// ends with a newline, so the parser reports the error at the end of input
	progPath := filepath.Join(dir, "prog.jqawk")
	if err := os.WriteFile(progPath, []byte("$.age > 30 {\n\tprint $.name\n"), 0o644); err != nil {
		t.Fatal(err)
	}
	jsonPath := filepath.Join(dir, "people.json")
	if err := os.WriteFile(jsonPath, []byte(`[{"name": "ann", "age": 31}]`), 0o644); err != nil {
		t.Fatal(err)
	}

	cases := []struct {
		name string
		args []string
	}{
		{"unclosed block in a program file", []string{"-f", progPath, jsonPath}},
		{"string opened at the end of a line", []string{"BEGIN { x = '\n}", jsonPath}},
		{"blank root selector", []string{"-r", "\n", "{ print }", jsonPath}},
	}

	for _, tc := range cases {
		code, stderr, crash := demoC01ERun(t, tc.args)
		if crash != nil {
			t.Errorf("%s: jqawk crashed instead of reporting the error: %v", tc.name, crash)
			continue
		}
		if code == 0 {
			t.Errorf("%s: expected a non-zero exit status, got 0 (stderr %q)", tc.name, stderr)
		}
		if !strings.Contains(stderr, "syntax error on line") {
			t.Errorf("%s: expected a syntax error diagnostic on stderr, got %q", tc.name, stderr)
		}
	}

	// sanity: an error in the middle of a line is reported the same way
	code, stderr, crash := demoC01ERun(t, []string{"{ print $. }", jsonPath})
	if crash != nil || code == 0 || !strings.Contains(stderr, "syntax error on line 1") {
		t.Errorf("mid-line error: code %d, stderr %q, crash %v", code, stderr, fmt.Sprint(crash))
	}
}
