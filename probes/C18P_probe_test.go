package main

import (
	"bytes"
	"strings"
	"testing"

	lang "github.com/alligator/jqawk/src"
)

// Percent signs that reach the output -- from %% in the format or from inside
// an argument -- must be written verbatim, with nothing added.
func TestDemoC18P(t *testing.T) {
	cases := []struct{ prog, expected string }{
		{`BEGIN { printf("%f%% done\n", 50) }`, "50% done\n"},
		{`BEGIN { printf("rate: %s|%5v|\n", "5%", "%d") }`, "rate: 5%|   %d|\n"},
		{`BEGIN { printf("100%%") }`, "100%"},
	}
	for _, tc := range cases {
		var out bytes.Buffer
		files := []lang.InputFile{{Name: "<demo>", Reader: strings.NewReader(`[]`)}}
		_, err := lang.EvalProgram(tc.prog, files, nil, &out, false)
		if err != nil {
			t.Fatalf("%s: unexpected error: %v", tc.prog, err)
		}
		if out.String() != tc.expected {
			t.Fatalf("%s: expected %q, got %q", tc.prog, tc.expected, out.String())
		}
	}
}
