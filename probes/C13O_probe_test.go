package main

import (
	"strconv"
	"strings"
	"testing"

	lang "github.com/alligator/jqawk/src"
)

// A string literal denotes exactly its characters, however many there are and
// whichever quote style is used. The literals here are a little longer than
// 65536 characters; shorter ones are checked too so that the test also says
// where the boundary is.
func TestDemoC13O(t *testing.T) {
	run := func(prog string) string {
		t.Helper()
		var sb strings.Builder
		_, err := lang.EvalProgram(prog, nil, nil, &sb, false)
		if err != nil {
			t.Fatalf("unexpected error: %v", err)
		}
		return sb.String()
	}

	for _, n := range []int{10, 65535, 65536, 65541, 70000, 131072 + 3} {
		body := strings.Repeat("abcdefghij", n/10+1)[:n]
		for _, quote := range []string{"'", "\""} {
			prog := "BEGIN { s = " + quote + body + quote + "\n print s.length()\n print s }"
			got := run(prog)
			want := strconv.Itoa(n) + "\n" + body + "\n"
			if got != want {
				gotFirstLine := got
				if i := strings.IndexByte(got, '\n'); i >= 0 {
					gotFirstLine = got[:i]
				}
				t.Errorf("literal of %d characters in %s quotes: program printed length %q and %d bytes in all, want length %d and %d bytes",
					n, quote, gotFirstLine, len(got), n, len(want))
			}
		}
	}

	// the same holds for a regex literal: a long alternation must still see its last branch
	n := 66000
	re := strings.Repeat("x", n) + "|needle"
	prog := "{ print $ ~ /" + re + "/ }"
	var sb strings.Builder
	files := []lang.InputFile{{Name: "<demo>", Reader: strings.NewReader(`["a needle", "hay"]`)}}
	if _, err := lang.EvalProgram(prog, files, nil, &sb, false); err != nil {
		t.Fatalf("unexpected error: %v", err)
	}
	if sb.String() != "true\nfalse\n" {
		t.Errorf("long regex literal: got %q, want %q", sb.String(), "true\nfalse\n")
	}
}
