package main

import (
	"fmt"
	"strings"
	"testing"

	lang "github.com/alligator/jqawk/src"
)

// runC20G runs a program with no input and turns a Go panic into a value, so
// that the test reports it instead of dying with it.
func runC20G(prog string) (out string, err error, panicked interface{}) {
	var sb strings.Builder
	defer func() {
		if r := recover(); r != nil {
			panicked = r
			out = sb.String()
		}
	}()
	_, err = lang.EvalProgram(prog, nil, nil, &sb, false)
	return sb.String(), err, nil
}

// The first store through an unset variable creates the array and extends it
// to the index in one step. An index far beyond the fill limit has to be
// refused with an ordinary runtime error, whatever the variable was before,
// and the output written before it has to be kept.
func TestDemoC20G(t *testing.T) {
	// up to the limit the step works, for an unset variable too
	out, err, p := runC20G(`BEGIN { x[1000000] = 7; print x.length(), x[1000000], x[0] }`)
	if p != nil {
		t.Fatalf("filling to the limit panicked: %v", p)
	}
	if err != nil {
		t.Fatalf("filling to the limit failed: %v", err)
	}
	if out != "1000001 7 null\n" {
		t.Fatalf("filling to the limit printed %q", out)
	}

	// beyond it the store is refused: same answer for an existing array and
	// for a variable that is not set yet
	progs := []string{
		`BEGIN { print "before"; x = []; x[%s] = 1; print "after" }`,
		`BEGIN { print "before"; x[%s] = 1; print "after" }`,
		`BEGIN { print "before"; o.list[%s] = 1; print "after" }`,
	}
	indices := []string{"1048577", "5000000", "1000000000000000", "9000000000000000000"}
	for _, progFmt := range progs {
		for _, index := range indices {
			prog := fmt.Sprintf(progFmt, index)
			out, err, p := runC20G(prog)
			if p != nil {
				t.Fatalf("%s\npanicked instead of reporting an error: %v", prog, p)
			}
			rtErr, ok := err.(lang.RuntimeError)
			if !ok {
				t.Fatalf("%s\nexpected a runtime error, got %#v", prog, err)
			}
			if !strings.Contains(rtErr.Message, "index too large") {
				t.Fatalf("%s\nunexpected message %q", prog, rtErr.Message)
			}
			if out != "before\n" {
				t.Fatalf("%s\nexpected the prior output to be kept, got %q", prog, out)
			}
		}
	}
}
