package main

import (
	"encoding/json"
	"reflect"
	"strings"
	"testing"

	lang "github.com/alligator/jqawk/src"
)

// Sharing without a cycle must be printed in full, and the rendering of a
// container (whose strings need no escaping) must be JSON equal to the value.
// Here an array that was copied (b = a) and then grew (so that it moved to a
// new backing store, taking its cells along) gets the old copy stored inside
// it. The old copy does not contain the grown array: there is no cycle.
func demoC17RRun(t *testing.T, prog string, input string) string {
	t.Helper()
	files := []lang.InputFile{{Name: "<demo>", Reader: strings.NewReader(input)}}
	var sb strings.Builder
	if _, err := lang.EvalProgram(prog, files, nil, &sb, false); err != nil {
		t.Fatalf("program %q failed: %v", prog, err)
	}
	return sb.String()
}

func TestDemoC17R(t *testing.T) {
	cases := []struct {
		prog, input, want string
	}{
		// the members really are what the expected rendering says
		{`BEGIN { a = [1]; b = a; a.push(b); print a.length(), a[1].length(), a[1][0] }`, `[]`, "2 1 1\n"},
		{`BEGIN { a = [1]; b = a; a.push(b); print a }`, `[]`, "[1, [1]]\n"},
		{`BEGIN { c = [1, 2]; x = c; c[2] = x; print c }`, `[]`, "[1, 2, [1, 2]]\n"},
		// keeping a snapshot of a list inside the list
		{`{ h = $.hist; $.hist.push(h); print }`, `[{"hist": [1, 2]}]`, "{\"hist\": [1, 2, [1, 2]]}\n"},
		// a real cycle is still shown at the point of recurrence
		{`BEGIN { a = [1, 2]; a[2] = a; print a }`, `[]`, "[1, 2, <circular reference>]\n"},
	}
	for _, c := range cases {
		got := demoC17RRun(t, c.prog, c.input)
		if got != c.want {
			t.Errorf("program %s on %s\n  printed %q\n  want    %q", c.prog, c.input, got, c.want)
		}
	}

	// the rendering of the acyclic value reads back as JSON equal to the value
	got := demoC17RRun(t, `{ h = $.hist; $.hist.push(h); print }`, `[{"hist": [1, 2]}]`)
	var back interface{}
	if err := json.Unmarshal([]byte(got), &back); err != nil {
		t.Fatalf("rendering %q of an acyclic value is not re-readable: %v", got, err)
	}
	want := map[string]interface{}{"hist": []interface{}{1.0, 2.0, []interface{}{1.0, 2.0}}}
	if !reflect.DeepEqual(back, want) {
		t.Errorf("rendering %q reads back as %v, want %v", got, back, want)
	}
}
